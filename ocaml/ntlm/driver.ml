(* C16 driver: the extracted model of src/nla/ntlm.rs security interface (coq/NtlmSeal.v over
   coq/Rc4.v, Md5.v, Md4.v, Hmac.v); same ops and output format as harness/src/ntlm.rs *)
let okhex (o : n list outcome) = match o with
  | Ok v -> "ok " ^ hex v | Err e -> "err:" ^ err_name e | Panic -> "panic" | Spin -> "spin"

let op_prim op a =
  let b = List.map (fun t -> if t = "c" || t = "s" then [] else parse_bytes t) a in
  match op, a, b with
  | "md4", [_], [x] -> okhex (Ok (md4 x))
  | "md5", [_], [x] -> okhex (Ok (md5 x))
  | "hmac", [_; _], [k; d] -> okhex (Ok (hmac_md5 k d))
  | "rc4k", [_; _], [k; d] -> okhex (rc4k k d)
  | "signkey", [_; w], [k; _] -> okhex (Ok (sign_key_c k (w = "c")))
  | "sealkey", [_; w], [k; _] -> okhex (Ok (seal_key_c k (w = "c")))
  | "mac", [_; _; seq; _], [rk; sk; _; d] ->
    (match rc4_new rk with
     | Ok h -> (match mac_c h sk (n_of_int (int_of_string seq)) d with
                | Ok (m, _) -> okhex (Ok m) | Err e -> "err:" ^ err_name e | Panic -> "panic" | Spin -> "spin")
     | _ -> "panic")
  | _ -> "bad-args"

let unwrap_str (o : n list outcome) = match o with
  | Ok v -> "ok:" ^ hex v | Err e -> "err:" ^ err_name e | Panic -> "panic" | Spin -> "spin"

let run_steps (st : secif) (steps : Stdlib.String.t list) =
  let rec go st steps acc = match steps with
    | [] -> List.rev acc
    | s :: rest ->
      let kind = String.sub s 0 2 and arg = String.sub s 2 (String.length s - 2) in
      let data = parse_bytes arg in
      if kind = "w:" then
        (match wrap_c st data with
         | Ok (v, st') -> go st' rest (("w=" ^ hex v) :: acc)
         | Err e -> go st rest (("w=err:" ^ err_name e) :: acc)
         | _ -> List.rev ("panic" :: acc))
      else if kind = "u:" then
        (match unwrap_c st data with
         | (Panic, _) | (Spin, _) -> List.rev ("panic" :: acc)
         | (o, st') -> go st' rest (("u=" ^ unwrap_str o) :: acc))
      else ["bad-step"]
  in
  match go st steps [] with [] -> "none" | l -> String.concat " " l

let op_sess a = match a with
  | k :: steps -> (match build_c (parse_bytes k) with Ok st -> run_steps st steps | _ -> "panic")
  | _ -> "bad-args"

let op_raw a = match a with
  | ek :: dk :: sk :: vk :: seq0 :: steps ->
    (match secif_new (parse_bytes ek) (parse_bytes dk) (parse_bytes sk) (parse_bytes vk) with
     | Ok st -> run_steps (set_seq st (n_of_int (int_of_string seq0))) steps
     | _ -> "panic")
  | _ -> "bad-args"

let op_tamper a = match a with
  | k :: idx :: lo :: hi :: toks ->
    let idx = int_of_string idx and lo = int_of_string lo and hi = int_of_string hi in
    let toks = List.map (fun t -> List.map int_of_n (parse_bytes t)) toks in
    (match build_c (parse_bytes k) with
     | Ok st0 ->
       (* the model is pure: the context after the honest prefix is computed once *)
       let pre_ok = ref true in
       let st = ref st0 in
       List.iteri (fun i t -> if i < idx then begin
         let (o, st') = unwrap_c !st (List.map n_of_int t) in
         (match o with Ok _ -> () | _ -> pre_ok := false); st := st' end) toks;
       let target = Array.of_list (List.nth toks idx) in
       if hi > 8 * Array.length target then "bad-bit" else begin
       let hist = Array.make 6 0 in
       let accepted = ref [] in
       for bit = lo to hi - 1 do
         let t = Array.copy target in
         t.(bit / 8) <- t.(bit / 8) lxor (1 lsl (bit mod 8));
         let (o, _) = unwrap_c !st (List.map n_of_int (Array.to_list t)) in
         let slot = match o with
           | Ok _ -> accepted := string_of_int bit :: !accepted; 0
           | Err EIo -> 1 | Err EInvalidConst -> 2 | Err EInvalidChecksum -> 3 | Err _ -> 4 | _ -> 5 in
         hist.(slot) <- hist.(slot) + 1
       done;
       let names = [| "ok"; "Io"; "InvalidConst"; "InvalidChecksum"; "other"; "panic" |] in
       let h = String.concat " " (Array.to_list (Array.mapi (fun i c -> Printf.sprintf "%s=%d" names.(i) c) hist)) in
       Printf.sprintf "pre=%s n=%d %s accepted=%s" (if !pre_ok then "ok" else "fail") (max 0 (hi - lo)) h
         (if !accepted = [] then "-" else String.concat "," (List.rev !accepted)) end
     | _ -> "panic")
  | _ -> "bad-args"

let () = main_loop (fun op args -> match op with
  | "md4" | "md5" | "hmac" | "rc4k" | "signkey" | "sealkey" | "mac" -> op_prim op args
  | "sess" -> op_sess args
  | "raw" -> op_raw args
  | "tamper" -> op_tamper args
  | _ -> "unknown-op:" ^ op)
