let prof () = match Sys.getenv_opt "VERIF_PROFILE" with Some "release" -> Release | _ -> Debug

let i = int_of_n

let tag (m : cmsg) : Stdlib.String.t = match m with
  | CR (pr, fl) -> Printf.sprintf "cr:%d:%d" (i pr) (i fl)
  | CSSP -> "cssp"
  | CI (len, sel) -> Printf.sprintf "ci:%d:%d" (i len) (i sel)
  | ED -> "ed"
  | AU -> "au"
  | CJ (ini, ch) -> Printf.sprintf "cj:%d:%d" (i ini) (i ch)
  | INFO (ini, ch, len) -> Printf.sprintf "info:%d:%d:%d:64:65875" (i ini) (i ch) (i len)

let join l = if l = [] then "-" else String.concat "," l
(* what is visible on the raw transport: the frames written in clear, then `tls` if a handshake was started *)
let raw_tags (ev : tev list) =
  join (List.concat (List.map (fun e -> match e with RawWrite m -> [tag m] | TlsStart _ -> ["tls"] | TlsWrite _ -> []) ev))
let tls_tags (ev : tev list) =
  join (List.concat (List.map (fun e -> match e with TlsWrite m -> [tag m] | _ -> []) ev))
let handshake (ev : tev list) =
  List.fold_left (fun acc e -> match e with TlsStart true -> "ok" | TlsStart false -> "fail" | _ -> acc) "-" ev

let hexlen (s : Stdlib.String.t) = if s = "-" then 0 else String.length s / 2

let op_conn public_api args = match args with
  | offered :: auth :: ram :: jo :: _name :: dom :: user :: pw :: chunks ->
    let cfg = { offered = n_of_int (int_of_string offered); has_auth = (auth = "1"); restricted_admin = (ram = "1");
                user_first = (jo = "u"); cred_units = n_of_int (hexlen dom + hexlen user + hexlen pw); check_cert = false } in
    let cs = List.map parse_bytes chunks in
    let (o, st) = connect_impl (prof ()) cfg cs in
    let res = match o with
      | Ok (uid, sd) -> if public_api then "ok" else Printf.sprintf "ok:%d:%d" (i uid) (if sd.rdp_v5 then 1 else 0)
      | Err e -> "err:" ^ err_name e
      | Panic -> "panic"
      | Spin -> "spin" in
    Printf.sprintf "%s w=%s" res (raw_tags st.s_ev)
  | _ -> "bad-args"

(* neg <api> <offered> <auth> <ram> <check> <identity> <jo> <name> <dom> <user> <pw> <reply> <frames...> *)
let op_neg args = match args with
  | api :: offered :: auth :: ram :: check :: ident :: jo :: _name :: dom :: user :: pw :: reply :: post ->
    let cfg = { offered = n_of_int (int_of_string offered); has_auth = (api = "connector" || auth = "1"); restricted_admin = (ram = "1");
                user_first = (jo = "u"); cred_units = n_of_int (hexlen dom + hexlen user + hexlen pw); check_cert = (check = "1") } in
    (* the server answers the connection request with `reply` (nothing: the stream ends), then sends the frames *)
    let post = List.map parse_bytes post in
    let cs = if reply = "-" then [] else parse_bytes reply :: post in
    let (o, st) = negotiate_impl (prof ()) (ident = "0") (ident <> "n") cfg cs post in
    let res = match o with Ok _ -> "ok" | Err e -> "err:" ^ err_name e | Panic -> "panic" | Spin -> "spin" in
    Printf.sprintf "%s w=%s hs=%s in=%s" res (raw_tags st.s_ev) (handshake st.s_ev) (tls_tags st.s_ev)
  | _ -> "bad-args"

let op_gcc args = match args with
  | [h] ->
    (match gcc_impl (prof ()) (parse_bytes h) with
     | (Ok sd, _) -> Printf.sprintf "ok:%d:%s" (if sd.rdp_v5 then 1 else 0)
                       (String.concat "." (List.map (fun c -> string_of_int (i c)) sd.channel_ids))
     | (Err e, _) -> "err:" ^ err_name e
     | (Panic, _) -> "panic"
     | (Spin, _) -> "spin")
  | _ -> "bad-args"

let op_lic args = match args with
  | [h] ->
    (match lic_impl (prof ()) (parse_bytes h) with
     | (Ok _, _) -> "ok"
     | (Err e, _) -> "err:" ^ err_name e
     | (Panic, _) -> "panic"
     | (Spin, _) -> "spin")
  | _ -> "bad-args"

let () = main_loop (fun op args -> match op with
  | "conn" -> op_conn false args
  | "connector" -> op_conn true args
  | "neg" -> op_neg args
  | "gcc" -> op_gcc args
  | "lic" -> op_lic args
  | _ -> "unknown-op:" ^ op)
