let prof () = match Sys.getenv_opt "VERIF_PROFILE" with Some "release" -> Release | _ -> Debug

let i = int_of_n

let tag (m : cmsg) : Stdlib.String.t = match m with
  | CR (pr, fl) -> Printf.sprintf "cr:%d:%d" (i pr) (i fl)
  | TLS -> "tls"
  | CI (len, sel) -> Printf.sprintf "ci:%d:%d" (i len) (i sel)
  | ED -> "ed"
  | AU -> "au"
  | CJ (ini, ch) -> Printf.sprintf "cj:%d:%d" (i ini) (i ch)
  | INFO (ini, ch, len) -> Printf.sprintf "info:%d:%d:%d:64:65875" (i ini) (i ch) (i len)

let tags (l : cmsg list) = if l = [] then "-" else String.concat "," (List.map tag l)

let hexlen (s : Stdlib.String.t) = if s = "-" then 0 else String.length s / 2

let op_conn public_api args = match args with
  | offered :: auth :: ram :: jo :: _name :: dom :: user :: pw :: chunks ->
    let cfg = { offered = n_of_int (int_of_string offered); has_auth = (auth = "1"); restricted_admin = (ram = "1");
                user_first = (jo = "u"); cred_units = n_of_int (hexlen dom + hexlen user + hexlen pw) } in
    let cs = List.map parse_bytes chunks in
    let (o, st) = connect_impl (prof ()) cfg cs in
    let res = match o with
      | Ok (uid, sd) -> if public_api then "ok" else Printf.sprintf "ok:%d:%d" (i uid) (if sd.rdp_v5 then 1 else 0)
      | Err e -> "err:" ^ err_name e
      | Panic -> "panic"
      | Spin -> "spin" in
    Printf.sprintf "%s w=%s" res (tags st.s_out)
  | _ -> "bad-args"

let op_gcc args = match args with
  | [h] ->
    (match gcc_impl (prof ()) (parse_bytes h) with
     | (Ok sd, _) -> Printf.sprintf "ok:%d:%s" (if sd.rdp_v5 then 1 else 0)
                       (String.concat "." (List.map (fun c -> string_of_int (i c)) sd.channel_ids))
     | (Err e, _) -> "err:" ^ err_name e
     | (Panic, _) -> "panic"
     | (Spin, _) -> "spin")
  | _ -> "bad-args"

let op_lic args = match args with
  | [h] ->
    (match lic_impl (prof ()) (parse_bytes h) with
     | (Ok _, _) -> "ok"
     | (Err e, _) -> "err:" ^ err_name e
     | (Panic, _) -> "panic"
     | (Spin, _) -> "spin")
  | _ -> "bad-args"

let () = main_loop (fun op args -> match op with
  | "conn" -> op_conn false args
  | "connector" -> op_conn true args
  | "gcc" -> op_gcc args
  | "lic" -> op_lic args
  | _ -> "unknown-op:" ^ op)
