(* C04 driver: the model's emitters on a configuration line, and the extracted strict parsers on hex *)
let prof () = match Sys.getenv_opt "VERIF_PROFILE" with Some "release" -> Release | _ -> Debug

(* UTF-8 bytes of a case line -> Unicode scalar values (the case generator only writes well-formed UTF-8) *)
let utf8_decode (b : int list) : n list =
  let rec go b acc = match b with
    | [] -> List.rev acc
    | c :: r when c < 0x80 -> go r (c :: acc)
    | c :: c1 :: r when c land 0xe0 = 0xc0 -> go r ((((c land 0x1f) lsl 6) lor (c1 land 0x3f)) :: acc)
    | c :: c1 :: c2 :: r when c land 0xf0 = 0xe0 -> go r ((((c land 0x0f) lsl 12) lor ((c1 land 0x3f) lsl 6) lor (c2 land 0x3f)) :: acc)
    | c :: c1 :: c2 :: c3 :: r when c land 0xf8 = 0xf0 ->
      go r ((((c land 0x07) lsl 18) lor ((c1 land 0x3f) lsl 12) lor ((c2 land 0x3f) lsl 6) lor (c3 land 0x3f)) :: acc)
    | _ -> failwith "bad utf8"
  in List.map n_of_int (go b [])

let str s = utf8_decode (unhex_ints s)
let num s = n_of_int (int_of_string s)

let res_str o = match o with Ok _ -> "ok" | Err e -> "err:" ^ err_name e | Panic -> "panic" | Spin -> "spin"
let frames fs = if fs = [] then "-" else String.concat " " (List.map hex fs)

let button_of s = match s with "1" -> BLeft | "2" -> BRight | "3" -> BMiddle | _ -> BNone
let mk_event s = match String.split_on_char ':' s with
  | ["P"; x; y; b; d] -> EvPointer (num x, num y, button_of b, d = "1")
  | ["K"; c; d] -> EvKey (num c, d = "1")
  | _ -> failwith "bad event"

let cfg offered ram auto w h layout name dom user pw =
  { c_offered = offered; c_ram = ram; c_autologon = auto; c_width = w; c_height = h; c_layout = layout;
    c_name = name; c_domain = dom; c_user = user; c_password = pw }

let op_cr args = match args with
  | [offered; ram] ->
    let c = cfg (num offered) (ram = "1") false N0 N0 N0 [] [] [] [] in
    (match emit_cr (prof ()) c with
     | Ok f -> "sent " ^ hex f
     | o -> res_str o ^ " -")
  | _ -> "bad-args"

let op_core args = match args with
  | [w; h; layout; sel; name] ->
    (match core_bytes (prof ()) (num w) (num h) (num layout) (num sel) (str name) with
     | Ok b -> "ok " ^ hex b
     | o -> res_str o)
  | _ -> "bad-args"

let op_pdus args = match args with
  | sel :: auto :: w :: h :: layout :: uid :: version :: share :: name :: dom :: user :: pw :: events :: _ ->
    let c = cfg N0 false (auto = "1") (num w) (num h) (num layout) (str name) (str dom) (str user) (str pw) in
    let i = { i_selected = num sel; i_version = num version; i_uid = num uid; i_share = num share; i_io = num "1003" } in
    let evs = if events = "-" then [] else List.map mk_event (String.split_on_char ',' events) in
    let (o, fs) = run_writes (emitted_session (prof ()) version_arms_swapped c i evs) [] in
    res_str o ^ " " ^ frames fs
  | _ -> "bad-args"

(* ---- the extracted strict parser on bytes given in hex: canonical rendering of the decoded PDU *)
let ns (l : n list) = if l = [] then "-" else String.concat "." (List.map (fun x -> string_of_int (int_of_n x)) l)
let i = fun x -> string_of_int (int_of_n x)
let render (d : pdu) : Stdlib.String.t = match d with
  | PConnectionRequest (f, p) -> Printf.sprintf "cr flags=%s protocols=%s" (i f) (i p)
  | PConnectInitial (t, mi, ma, b) ->
    let c = b.b_core in
    Printf.sprintf "ci target=%s min=%s max=%s core=%s,%s,%s,%s,%s,%s,%s,%s,%s,%s,%s,%s,%s security=%s,%s net=%s"
      (ns t) (ns mi) (ns ma) (i c.k_version) (i c.k_width) (i c.k_height) (i c.k_color_depth) (i c.k_sas) (i c.k_layout) (i c.k_build)
      (ns c.k_name) (i c.k_kbd_type) (i c.k_kbd_subtype) (i c.k_kbd_fnkeys) (ns c.k_ime) (ns c.k_optional)
      (i (fst b.b_security)) (i (snd b.b_security))
      (match b.b_channels with None -> "none" | Some l -> string_of_int (List.length l))
  | PErectDomain (a, b) -> Printf.sprintf "erect %s %s" (i a) (i b)
  | PAttachUser -> "attach"
  | PChannelJoin (a, b) -> Printf.sprintf "join %s %s" (i a) (i b)
  | PDisconnect r -> Printf.sprintf "disc %s" (i r)
  | PClientInfo (a, b, n) ->
    Printf.sprintf "info %s %s %s %s %s %s %s %s %s %s" (i a) (i b) (i n.n_codepage) (i n.n_flags) (ns n.n_domain) (ns n.n_user)
      (ns n.n_password) (ns n.n_shell) (ns n.n_workdir)
      (match n.n_ext with None -> "none"
       | Some e -> Printf.sprintf "%s,%s,%s,%s,%s" (i e.e_family) (ns e.e_address) (ns e.e_dir) (i e.e_session) (i e.e_perf))
  | PConfirmActive (a, b, src, c) ->
    Printf.sprintf "confirm %s %s %s %s source=%s caps=%s general=%s bitmap=%s input=%s" (i a) (i b) (i src) (i c.f_share) (hex c.f_source)
      (ns c.f_caps) (match c.f_general with None -> "none" | Some e -> i e)
      (match c.f_bitmap with None -> "none" | Some ((x, y), z) -> Printf.sprintf "%s,%s,%s" (i x) (i y) (i z))
      (match c.f_input with None -> "none" | Some ((((f, l), t), s), k) -> Printf.sprintf "%s,%s,%s,%s,%s" (i f) (i l) (i t) (i s) (i k))
  | PSynchronize (a, b, src, sh, t) -> Printf.sprintf "sync %s %s %s %s %s" (i a) (i b) (i src) (i sh) (i t)
  | PControl (a, b, src, sh, ac, g, c) -> Printf.sprintf "control %s %s %s %s %s %s %s" (i a) (i b) (i src) (i sh) (i ac) (i g) (i c)
  | PFontList (a, b, src, sh) -> Printf.sprintf "fontlist %s %s %s %s" (i a) (i b) (i src) (i sh)
  | PInput (a, b, src, sh, evs) ->
    Printf.sprintf "input %s %s %s %s %s" (i a) (i b) (i src) (i sh)
      (if evs = [] then "-" else String.concat ";" (List.map (fun e -> match e with
         | IMouse (f, x, y) -> Printf.sprintf "m,%s,%s,%s" (i f) (i x) (i y)
         | IKey (f, c) -> Printf.sprintf "k,%s,%s" (i f) (i c)) evs))

let op_parse args = match args with
  | [h] -> (match strict_parse (unhex h) with Some d -> render d | None -> "reject")
  | _ -> "bad-args"

let () = main_loop (fun op args -> match op with
  | "cr" -> op_cr args
  | "core" -> op_core args
  | "pdus" -> op_pdus args
  | "parse" -> op_parse args
  | _ -> "unknown-op:" ^ op)
