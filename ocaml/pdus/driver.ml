(* C04 driver: the model's emitters on a configuration line, and the extracted strict parsers on hex;
   for network level authentication: the model of the NTLM handshake (Ntlm.v), of cssp_connect and its DER writers
   (CsspGate.v, CsspGateExec.v) -- same ops and output as harness/src/ntlmauth.rs, codec18_der.rs (cssp), csspgate.rs --
   and the extracted strict parsers of StrictNla.v (`parsenla`) *)
let prof () = match Sys.getenv_opt "VERIF_PROFILE" with Some "release" -> Release | _ -> Debug

(* UTF-8 bytes of a case line -> Unicode scalar values (the case generator only writes well-formed UTF-8) *)
let utf8_decode (b : int list) : n list =
  let rec go b acc = match b with
    | [] -> List.rev acc
    | c :: r when c < 0x80 -> go r (c :: acc)
    | c :: c1 :: r when c land 0xe0 = 0xc0 -> go r ((((c land 0x1f) lsl 6) lor (c1 land 0x3f)) :: acc)
    | c :: c1 :: c2 :: r when c land 0xf0 = 0xe0 -> go r ((((c land 0x0f) lsl 12) lor ((c1 land 0x3f) lsl 6) lor (c2 land 0x3f)) :: acc)
    | c :: c1 :: c2 :: c3 :: r when c land 0xf8 = 0xf0 ->
      go r ((((c land 0x07) lsl 18) lor ((c1 land 0x3f) lsl 12) lor ((c2 land 0x3f) lsl 6) lor (c3 land 0x3f)) :: acc)
    | _ -> failwith "bad utf8"
  in List.map n_of_int (go b [])

let str s = utf8_decode (unhex_ints s)
let num s = n_of_int (int_of_string s)

let res_str o = match o with Ok _ -> "ok" | Err e -> "err:" ^ err_name e | Panic -> "panic" | Spin -> "spin"
let frames fs = if fs = [] then "-" else String.concat " " (List.map hex fs)

let button_of s = match s with "1" -> BLeft | "2" -> BRight | "3" -> BMiddle | _ -> BNone
let mk_event s = match String.split_on_char ':' s with
  | ["P"; x; y; b; d] -> EvPointer (num x, num y, button_of b, d = "1")
  | ["K"; c; d] -> EvKey (num c, d = "1")
  | _ -> failwith "bad event"

let cfg offered ram auto w h layout name dom user pw =
  { c_offered = offered; c_ram = ram; c_autologon = auto; c_width = w; c_height = h; c_layout = layout;
    c_name = name; c_domain = dom; c_user = user; c_password = pw }

let op_cr args = match args with
  | [offered; ram] ->
    let c = cfg (num offered) (ram = "1") false N0 N0 N0 [] [] [] [] in
    (match emit_cr (prof ()) c with
     | Ok f -> "sent " ^ hex f
     | o -> res_str o ^ " -")
  | _ -> "bad-args"

let op_core args = match args with
  | [w; h; layout; sel; name] ->
    (match core_bytes (prof ()) (num w) (num h) (num layout) (num sel) (str name) with
     | Ok b -> "ok " ^ hex b
     | o -> res_str o)
  | _ -> "bad-args"

let op_pdus args = match args with
  | sel :: auto :: w :: h :: layout :: uid :: version :: share :: name :: dom :: user :: pw :: events :: _ ->
    let c = cfg N0 false (auto = "1") (num w) (num h) (num layout) (str name) (str dom) (str user) (str pw) in
    let i = { i_selected = num sel; i_version = num version; i_uid = num uid; i_share = num share; i_io = num "1003" } in
    let evs = if events = "-" then [] else List.map mk_event (String.split_on_char ',' events) in
    let (o, fs) = run_writes (emitted_session (prof ()) version_arms_swapped c i evs) [] in
    res_str o ^ " " ^ frames fs
  | _ -> "bad-args"

(* ---- the extracted strict parser on bytes given in hex: canonical rendering of the decoded PDU *)
let ns (l : n list) = if l = [] then "-" else String.concat "." (List.map (fun x -> string_of_int (int_of_n x)) l)
let i = fun x -> string_of_int (int_of_n x)
let render (d : pdu) : Stdlib.String.t = match d with
  | PConnectionRequest (f, p) -> Printf.sprintf "cr flags=%s protocols=%s" (i f) (i p)
  | PConnectInitial (t, mi, ma, b) ->
    let c = b.b_core in
    Printf.sprintf "ci target=%s min=%s max=%s core=%s,%s,%s,%s,%s,%s,%s,%s,%s,%s,%s,%s,%s security=%s,%s net=%s"
      (ns t) (ns mi) (ns ma) (i c.k_version) (i c.k_width) (i c.k_height) (i c.k_color_depth) (i c.k_sas) (i c.k_layout) (i c.k_build)
      (ns c.k_name) (i c.k_kbd_type) (i c.k_kbd_subtype) (i c.k_kbd_fnkeys) (ns c.k_ime) (ns c.k_optional)
      (i (fst b.b_security)) (i (snd b.b_security))
      (match b.b_channels with None -> "none" | Some l -> string_of_int (List.length l))
  | PErectDomain (a, b) -> Printf.sprintf "erect %s %s" (i a) (i b)
  | PAttachUser -> "attach"
  | PChannelJoin (a, b) -> Printf.sprintf "join %s %s" (i a) (i b)
  | PDisconnect r -> Printf.sprintf "disc %s" (i r)
  | PClientInfo (a, b, n) ->
    Printf.sprintf "info %s %s %s %s %s %s %s %s %s %s" (i a) (i b) (i n.n_codepage) (i n.n_flags) (ns n.n_domain) (ns n.n_user)
      (ns n.n_password) (ns n.n_shell) (ns n.n_workdir)
      (match n.n_ext with None -> "none"
       | Some e -> Printf.sprintf "%s,%s,%s,%s,%s" (i e.e_family) (ns e.e_address) (ns e.e_dir) (i e.e_session) (i e.e_perf))
  | PConfirmActive (a, b, src, c) ->
    Printf.sprintf "confirm %s %s %s %s source=%s caps=%s general=%s bitmap=%s input=%s" (i a) (i b) (i src) (i c.f_share) (hex c.f_source)
      (ns c.f_caps) (match c.f_general with None -> "none" | Some e -> i e)
      (match c.f_bitmap with None -> "none" | Some ((x, y), z) -> Printf.sprintf "%s,%s,%s" (i x) (i y) (i z))
      (match c.f_input with None -> "none" | Some ((((f, l), t), s), k) -> Printf.sprintf "%s,%s,%s,%s,%s" (i f) (i l) (i t) (i s) (i k))
  | PSynchronize (a, b, src, sh, t) -> Printf.sprintf "sync %s %s %s %s %s" (i a) (i b) (i src) (i sh) (i t)
  | PControl (a, b, src, sh, ac, g, c) -> Printf.sprintf "control %s %s %s %s %s %s %s" (i a) (i b) (i src) (i sh) (i ac) (i g) (i c)
  | PFontList (a, b, src, sh) -> Printf.sprintf "fontlist %s %s %s %s" (i a) (i b) (i src) (i sh)
  | PInput (a, b, src, sh, evs) ->
    Printf.sprintf "input %s %s %s %s %s" (i a) (i b) (i src) (i sh)
      (if evs = [] then "-" else String.concat ";" (List.map (fun e -> match e with
         | IMouse (f, x, y) -> Printf.sprintf "m,%s,%s,%s" (i f) (i x) (i y)
         | IKey (f, c) -> Printf.sprintf "k,%s,%s" (i f) (i c)) evs))

let op_parse args = match args with
  | [h] -> (match strict_parse (unhex h) with Some d -> render d | None -> "reject")
  | _ -> "bad-args"

(* ---- network level authentication: the model's tokens *)
let cps (t : Stdlib.String.t) : n list =
  if t = "-" then [] else List.map (fun h -> n_of_int (int_of_string ("0x" ^ h))) (String.split_on_char '.' t)
let outb (o : n list outcome) = match o with
  | Ok v -> "ok " ^ hex v | Err e -> "err:" ^ err_name e | Panic -> "panic" | Spin -> "spin"
let state mode dom user secret upper =
  let u = cps upper in
  let up = fun (_ : n list) -> u in
  (up, if mode = "hash" then ntlm_from_hash hmac_md5 up (cps dom) (cps user) (parse_bytes secret)
       else ntlm_new md4 hmac_md5 up (cps dom) (cps user) (cps secret))

let op_auth a = match a with
  | [mode; dom; user; secret; upper; nonce; key; chal] ->
    let p = prof () in
    let (_, st) = state mode dom user secret upper in
    (match create_negotiate_message p with
     | Ok neg -> outb (read_challenge_message hmac_md5 p st neg (parse_bytes chal) (parse_bytes nonce) (parse_bytes key))
     | _ -> "panic")
  | _ -> "bad-args"

let op_cssp args = match args with
  | ["req"; n] -> "ok:" ^ hex (x_create_ts_request (unhex n))
  | ["auth"; n; k] -> "ok:" ^ hex (x_create_ts_authenticate (unhex n) (unhex k))
  | ["cred"; d; u; pw] -> "ok:" ^ hex (x_create_ts_credentials (unhex d) (unhex u) (unhex pw))
  | ["info"; b] -> "ok:" ^ hex (x_create_ts_authinfo (unhex b))
  | _ -> "bad-args"

let rec take k l = if k = 0 then [] else match l with [] -> [] | x :: r -> x :: take (k - 1) r
let rec drop k l = if k = 0 then l else match l with [] -> [] | _ :: r -> drop (k - 1) r

let op_csspgate a = match a with
  | [mode; dom; user; secret; upper; ra; cert; pubkey; rnd; replies] ->
    let (up, st) = state mode dom user secret upper in
    let certo = if cert = "none" then Err EInvalidData else Ok (parse_bytes pubkey) in
    let r = parse_bytes rnd in
    let chunks = if replies = "." then [] else List.map parse_bytes (String.split_on_char ',' replies) in
    let (res, ws) = cssp_connect_c up (prof ()) st (ra = "1") certo chunks (take 8 r) (drop 8 r) in
    let rs = match res with Ok _ -> "ok" | Err e -> "err:" ^ err_name e | Panic -> "panic" | Spin -> "spin" in
    String.concat " " ([rs; Printf.sprintf "n=%d" (List.length ws)] @ List.map hex ws)
  | _ -> "bad-args"

(* ---- the extracted strict parsers of StrictNla.v: canonical rendering (same text as the canon functions of gen/strictpdu.py) *)
let opt f o = match o with None -> "none" | Some x -> f x
let nm (x : name) = match x with NUnicode s -> "u:" ^ ns s | NOem b -> "o:" ^ hex b
let render_neg (g : negotiate_data) =
  Printf.sprintf "neg flags=%s dom=%s ws=%s ver=%s" (i g.g_flags) (hex g.g_domain) (hex g.g_workstation) (opt hex g.g_version)
let render_auth (a : authenticate_data) =
  let r = a.a_nt in
  Printf.sprintf "auth flags=%s ver=%s mic=%s lm=%s proof=%s ts=%s cc=%s av=%s dom=%s user=%s ws=%s key=%s"
    (i a.a_flags) (opt hex a.a_version) (hex a.a_mic) (hex a.a_lm) (hex r.r_proof) (hex r.r_timestamp) (hex r.r_client_challenge)
    (if r.r_av_pairs = [] then "-" else String.concat "," (List.map (fun (id, v) -> i id ^ ":" ^ hex v) r.r_av_pairs))
    (nm a.a_domain) (nm a.a_user) (nm a.a_workstation) (hex a.a_session_key)
let render_tsreq (q : ts_request_data) =
  Printf.sprintf "tsreq v=%s nego=%s auth=%s pka=%s err=%s nonce=%s" (i q.q_version)
    (opt (fun l -> "[" ^ String.concat "," (List.map hex l) ^ "]") q.q_nego_tokens) (opt hex q.q_auth_info) (opt hex q.q_pub_key_auth)
    (opt i q.q_error_code) (opt hex q.q_client_nonce)
let render_creds (c : ts_password_creds) =
  Printf.sprintf "creds dom=%s user=%s pw=%s" (nm c.w_domain) (nm c.w_user) (nm c.w_password)
let render_nla (d : nla_pdu) = match d with
  | NlaNegotiate (v, g) -> Printf.sprintf "nla1 v=%s %s" (i v) (render_neg g)
  | NlaAuthenticate (v, a, k) -> Printf.sprintf "nla2 v=%s pka=%s %s" (i v) (hex k) (render_auth a)
  | NlaCredentials (v, a) -> Printf.sprintf "nla3 v=%s info=%s" (i v) (hex a)

let op_parsenla args =
  let r f o = match o with Some d -> f d | None -> "reject" in
  match args with
  | ["nla"; h] -> r render_nla (strict_parse_nla (unhex h))
  | ["neg"; h] -> r render_neg (sp_negotiate (unhex h))
  | ["auth"; h] -> r render_auth (sp_authenticate (unhex h))
  | ["tsreq"; h] -> r render_tsreq (exactly sp_ts_request (unhex h))
  | ["creds"; u; h] -> r render_creds (exactly (sp_ts_credentials (u = "1")) (unhex h))
  | _ -> "bad-args"

let () = main_loop (fun op args -> match op with
  | "cr" -> op_cr args
  | "core" -> op_core args
  | "pdus" -> op_pdus args
  | "parse" -> op_parse args
  | "negotiate" -> outb (create_negotiate_message (prof ()))
  | "auth" -> op_auth args
  | "cssp" -> op_cssp args
  | "csspgate" -> op_csspgate args
  | "parsenla" -> op_parsenla args
  | _ -> "unknown-op:" ^ op)
