(* C19 driver: same case lines as harness-gui/src/blit.rs
   blit <W> <blen> <bseed> <left> <top> <right> <bottom> <bw> <bh> <bpp> <c> <img> *)
let n_of_decimal (s : Stdlib.String.t) : n =
  let acc = ref N0 in
  String.iter (fun ch ->
    if ch < '0' || ch > '9' then failwith "bad decimal";
    acc := N.add (N.mul !acc (n_of_int 10)) (n_of_int (Char.code ch - 48))) s;
  !acc

let pix0 seed j = 0x80000000 lor ((seed land 0x7f) lsl 24) lor (j land 0xffffff)

let parse_img (t : Stdlib.String.t) : n list =
  if String.length t > 0 && t.[0] = '%' then begin
    match String.split_on_char ':' (String.sub t 1 (String.length t - 1)) with
    | [n; seed; extra] ->
      let n = int_of_string n and seed = int_of_string seed and extra = int_of_string extra in
      let px k = 0x40000000 lor ((seed land 0x3f) lsl 24) lor (k land 0xffffff) in
      let le p = [p land 255; (p lsr 8) land 255; (p lsr 16) land 255; (p lsr 24) land 255] in
      List.map n_of_int (List.concat (List.init n (fun k -> le (px k))) @ List.init extra (fun _ -> 0xEE))
    | _ -> failwith "bad % token"
  end else parse_bytes t

let prof_of_env () =
  match Sys.getenv_opt "VERIF_PROFILE" with Some "release" -> Release | _ -> Debug

let op_blit args = match args with
  | [w; blen; bseed; l; t; r; b; bw; bh; bpp; c; img] ->
    let blen = int_of_string blen and bseed = int_of_string bseed in
    let buf = List.init blen (fun j -> n_of_int (pix0 bseed j)) in
    let rc = { r_left = n_of_decimal l; r_top = n_of_decimal t; r_right = n_of_decimal r; r_bottom = n_of_decimal b } in
    let _ = bh in
    begin match event_decode (n_of_decimal bpp) (c <> "0") (parse_img img) with
    | None -> "unmodelled"
    | Some dec ->
      let (res, buf') = fast_bitmap_transfer (prof_of_env ()) buf (n_of_decimal w) rc (n_of_decimal bw) dec in
      let s () = "buf=" ^ summ (bytes_of_pixels buf') in
      match res with
      | BOk -> "ok " ^ s ()
      | BErr e -> "err:" ^ err_name e ^ " " ^ s ()
      | BPanic -> "panic"
      | BOob -> "oob"
      | BSpin -> "spin"
    end
  | _ -> "bad-args"

let () = main_loop (fun op args -> match op with
  | "blit" -> op_blit args
  | _ -> "unknown-op:" ^ op)
