let prof () = match Sys.getenv_opt "VERIF_PROFILE" with Some "release" -> Release | _ -> Debug

let button_of s = match s with "1" -> BLeft | "2" -> BRight | "3" -> BMiddle | _ -> BNone

let mk_event kind f = match kind, f with
  | "P", [x; y; b; d] -> EvPointer (n_of_int (int_of_string x), n_of_int (int_of_string y), button_of b, d = "1")
  | "K", [c; d] -> EvKey (n_of_int (int_of_string c), d = "1")
  | _ -> EvBitmap

let parse_step (s : Stdlib.String.t) : op =
  match String.split_on_char ':' s with
  | "R" :: [h] -> OpRead (parse_bytes h)
  | "R" :: [a; b] -> OpRead (parse_bytes (a ^ ":" ^ b))
  | "M" :: [_; h] -> OpRead (parse_bytes h)      (* many queued copies, one read: only the first frame is consumed *)
  | ("P" | "K" | "B" as k) :: f -> OpWrite (mk_event k f)
  | ("TP" | "TK" | "TB" as k) :: f -> OpTryWrite (mk_event (String.sub k 1 1) f)
  | _ -> failwith "bad step"

let res_str o = match o with Ok _ -> "ok" | Err e -> "err:" ^ err_name e | Panic -> "panic" | Spin -> "spin"

let ev_str (b : bitmap_event) : Stdlib.String.t =
  Printf.sprintf "[%d.%d.%d.%d.%d.%d.%d.%d.%s]" (int_of_n b.dest_left) (int_of_n b.dest_top) (int_of_n b.dest_right)
    (int_of_n b.dest_bottom) (int_of_n b.bwidth) (int_of_n b.bheight) (int_of_n b.bpp) (if b.is_compress then 1 else 0)
    (summ b.bdata)

let wire b = if List.length b <= 2048 then hex b else "#" ^ summ b

let op_session args = match args with
  | uid :: w :: h :: layout :: name :: steps ->
    let lay = keyboard_layout_from (List.map (fun c -> n_of_int (Char.code c)) (List.of_seq (String.to_seq layout))) in
    let s0 = init_session (n_of_int (int_of_string uid)) (n_of_int (int_of_string w)) (n_of_int (int_of_string h))
               lay (unhex name) in
    let p = prof () in
    let rec go s steps acc = match steps with
      | [] -> List.rev acc
      | st :: tl when String.length st > 2 && String.sub st 0 2 = "Q:" ->
        (* Q:<frame>,<frame>,..  all frames are already in the transport; one read per frame (deframing is exact: C13);
           one aggregated token: first non-ok result, everything written, every event *)
        let frames = String.split_on_char ',' (String.sub st 2 (String.length st - 2)) in
        let rec reads s fs res wire evs = match fs with
          | [] -> (s, res, wire, evs)
          | f :: ftl ->
            let r = do_op p s (OpRead (parse_bytes f)) in
            let rs = res_str r.r_out in
            let wire' = wire @ List.concat r.r_wire and evs' = evs @ r.r_events in
            if rs <> "ok" then (r.r_session, rs, wire', evs') else reads r.r_session ftl rs wire' evs' in
        let (s', res, w, evs) = reads s frames "ok" [] [] in
        let line = Printf.sprintf "%s|w=%s|ev=%d%s" res (wire w) (List.length evs) (String.concat "" (List.map ev_str evs)) in
        if res = "panic" || res = "spin" then List.rev (line :: acc) else go s' tl (line :: acc)
      | st :: tl ->
        let r = do_op p s (parse_step st) in
        let res = res_str r.r_out in
        let line = Printf.sprintf "%s|w=%s|ev=%d%s" res (wire (List.concat r.r_wire)) (List.length r.r_events)
                     (String.concat "" (List.map ev_str r.r_events)) in
        if res = "panic" || res = "spin" then List.rev (line :: acc) else go r.r_session tl (line :: acc)
    in
    String.concat " " (go s0 steps [])
  | _ -> "bad-args"

(* refenc <initiator> <channel> <source> <share> <stream> <descr hex> <session> <target> <grant> <control> <fp sec> <fp long 0|1> <letter>
   -> the frame RefSession.enc_smsg (the Coq reference encoder of the C12 alphabet) produces, in hex.
   letter = DA:<sid>:<type>.<body hex>,... | SYNC | COOP | GRANTED | CTRL:<action> | FONTMAP | SEI:<code> |
            UNK:<type2>:<body hex> | DEACT | FPBMP:<l.t.r.b.w.h.bpp.flags.scan.usize.data hex>/... | FPOTHER:<code>:<body hex> *)
let ni s = n_of_int (int_of_string s)
let parse_letter (s : Stdlib.String.t) : smsg =
  match String.split_on_char ':' s with
  | ["DA"; sid; caps] ->
    let cs = if caps = "-" then [] else
      List.map (fun c -> match String.split_on_char '.' c with
        | [t; b] -> (ni t, unhex b) | _ -> failwith "bad capset") (String.split_on_char ',' caps) in
    DemandActive (ni sid, cs)
  | ["SYNC"] -> Synchronize | ["COOP"] -> ControlCooperate | ["GRANTED"] -> ControlGranted
  | ["CTRL"; a] -> ControlOther (ni a) | ["FONTMAP"] -> FontMap | ["SEI"; c] -> SetErrorInfo (ni c)
  | ["UNK"; t; b] -> UnknownData (ni t, unhex b) | ["DEACT"] -> DeactivateAll
  | ["FPBMP"; rs] ->
    let rl = if rs = "-" then [] else
      List.map (fun r -> match String.split_on_char '.' r with
        | [l; t; rr; b; w; h; bpp; fl; sc; us; d] ->
          { rc_left = ni l; rc_top = ni t; rc_right = ni rr; rc_bottom = ni b; rc_width = ni w; rc_height = ni h;
            rc_bpp = ni bpp; rc_flags = ni fl; rc_scan = ni sc; rc_usize = ni us; rc_data = unhex d }
        | _ -> failwith "bad rect") (String.split_on_char '/' rs) in
    FpBitmap rl
  | ["FPOTHER"; c; b] -> FpOther (ni c, unhex b)
  | _ -> failwith "bad letter"

let op_refenc args = match args with
  | [ini; chan; src; share; stream; descr; sess; target; grant; control; sec; long; letter] ->
    let i = { sv_initiator = ni ini; sv_channel = ni chan; sv_source = ni src; sv_share = ni share; sv_stream = ni stream; sv_descr = unhex descr;
              sv_session = ni sess; sv_target = ni target; sv_grant = ni grant; sv_control = ni control;
              sv_fp_sec = ni sec; sv_fp_long = (long = "1") } in
    hex (enc_smsg i (parse_letter letter))
  | _ -> "bad-args"

let () = main_loop (fun op args -> match op with
  | "session" -> op_session args
  | "refenc" -> op_refenc args
  | _ -> "unknown-op:" ^ op)
