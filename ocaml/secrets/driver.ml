(* C17 driver: the extracted model of Connector::connect with its secrets (coq/Secrets.v + SecretsExec.v over
   Connect.v, CsspGate.v, Ntlm.v, NtlmSeal.v, ClientPdus.v); same op and output as harness/src/secrets.rs.
   sec17 <nla> <ram> <blank> <auto> <check> <identity> <jo> <name> <dom> <user> <pw> <hash|-> <upper(user)> <rnd>
         <subjectPublicKey> <reply to the connection request> <script> *)
let prof () = match Sys.getenv_opt "VERIF_PROFILE" with Some "release" -> Release | _ -> Debug

let cps (t : Stdlib.String.t) : n list =
  if t = "-" then [] else List.map (fun h -> n_of_int (int_of_string ("0x" ^ h))) (String.split_on_char '.' t)

let rec take k l = if k = 0 then [] else match l with [] -> [] | x :: r -> x :: take (k - 1) r
let rec drop k l = if k = 0 then l else match l with [] -> [] | _ :: r -> drop (k - 1) r

let hexlist l = if l = [] then "-" else String.concat "," (List.map hex l)

let op_sec17 a = match a with
  | [nla; ram; blank; auto; check; ident; jo; name; dom; user; pw; hash; upper; rnd; pubkey; cc; script] ->
    let u = cps upper in
    let up = fun (_ : n list) -> u in
    let c = { sc_domain = cps dom; sc_user = cps user; sc_password = cps pw;
              sc_hash = (if hash = "-" then None else Some (parse_bytes hash));
              sc_nla = (nla = "1"); sc_restricted = (ram = "1"); sc_blank = (blank = "1"); sc_autologon = (auto = "1");
              sc_check = (check = "1"); sc_name = cps name;
              sc_width = n_of_int 800; sc_height = n_of_int 600; sc_layout = n_of_int 0x409 } in
    let r = parse_bytes rnd in
    let e = { e_user_first = (jo = "u"); e_trusted = (ident = "0");
              e_cert = Ok (parse_bytes pubkey); e_nonce = take 8 r; e_key = drop 8 r } in
    let post = if script = "." then [] else
      List.concat (List.map (fun g -> if g = "-" then [] else List.map parse_bytes (String.split_on_char ',' g))
                     (String.split_on_char '/' script)) in
    let cs = if cc = "-" then [] else parse_bytes cc :: post in
    let (res, evs) = secrets_impl up (prof ()) (ident <> "n") c e cs post in
    let rs = match res with Ok _ -> "ok" | Err x -> "err:" ^ err_name x | Panic -> "panic" | Spin -> "spin" in
    let raw = List.concat (List.map (fun ev -> match ev with BRaw (_, b) -> [b] | _ -> []) evs) in
    let tls = List.concat (List.map (fun ev -> match ev with BTls (_, b) -> [b] | _ -> []) evs) in
    let hs = List.fold_left (fun acc ev -> match ev with BTlsStart true -> "ok" | BTlsStart false -> "fail" | _ -> acc) "-" evs in
    Printf.sprintf "%s raw=%s hs=%s tls=%s" rs (hexlist raw) hs (hexlist tls)
  | _ -> "bad-args"

let () = main_loop (fun op args -> match op with
  | "sec17" -> op_sec17 args
  | _ -> "unknown-op:" ^ op)
