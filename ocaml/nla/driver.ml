(* C07 driver: the extracted NLA model (Cssp.v) on the case lines of gen/c07.py.
   The BER oracle is instantiated with the extracted yasna model (DerRead.v).  Hash and
   cipher functions are STAND-INS (C07 is about crashes, not values): hmac/md5 return 16
   fixed bytes, RC4 is the identity; only outcome class, lengths and the non-crypto bytes
   of the output are printed.  For `unwrap` the case line carries the verdict of the
   checksum comparison computed by the reference implementation in gen/nla.py (hint). *)
let prof () = match Sys.getenv_opt "VERIF_PROFILE" with Some "release" -> Release | _ -> Debug

let fixed16 = List.init 16 (fun i -> n_of_int (0xa0 + i))
let hmac_std (_ : n list) (_ : n list) : n list = fixed16
let md5_std (_ : n list) : n list = fixed16
let rc4_init (_ : n list) : unit = ()
let rc4_run () (d : n list) : unit * n list = ((), d)

let zeros k = List.init k (fun _ -> N0)

(* UTF-8 bytes -> UTF-16LE bytes *)
let utf16_of_utf8 (b : int list) : int list =
  let a = Array.of_list b in
  let n = Array.length a in
  let out = ref [] in
  let push u = out := (u lsr 8) :: (u land 255) :: !out in
  let i = ref 0 in
  while !i < n do
    let c = a.(!i) in
    let cont k = if !i + k < n then a.(!i + k) land 0x3f else 0 in
    let (cp, l) =
      if c < 0x80 then (c, 1)
      else if c < 0xe0 then (((c land 0x1f) lsl 6) lor cont 1, 2)
      else if c < 0xf0 then (((c land 0x0f) lsl 12) lor (cont 1 lsl 6) lor cont 2, 3)
      else (((c land 0x07) lsl 18) lor (cont 1 lsl 12) lor (cont 2 lsl 6) lor cont 3, 4) in
    i := !i + l;
    if cp >= 0x10000 then begin
      let v = cp - 0x10000 in
      push (0xd800 lor (v lsr 10)); push (0xdc00 lor (v land 0x3ff))
    end else push cp
  done;
  List.rev !out

let mk_creds d u pw =
  let e s = List.map n_of_int (unhex_ints s) in
  let w s = List.map n_of_int (utf16_of_utf8 (unhex_ints s)) in
  { dom8 = e d; dom16 = w d; user8 = e u; user16 = w u; pw8 = e pw; pw16 = w pw }

let mk_ntlm d u pw = { cr = mk_creds d u pw; key_nt = fixed16; key_lm = fixed16; nego_msg = None; exported = None; is_unicode = false }

let res_of o okf = match o with Ok v -> okf v | Err e -> "err:" ^ err_name e | Panic -> "panic" | Spin -> "spin"

(* the oracle assumption "yasna returns" fails on the known class C07-yasna-length-overflow: the driver then
   reports the panic of the yasna model instead of an oracle answer *)
exception Yasna_panic
let ber_req p i = match der_ts_request p i with Panic -> raise Yasna_panic | o -> oracle_of o
let ber_val p i = match der_ts_validate p i with Panic -> raise Yasna_panic | o -> oracle_of o

let op_tsreq args = match args with
  | [h] ->
    let p = prof () in
    let b = parse_bytes h in
    (try res_of (read_ts_server_challenge (ber_req p) b) (fun t -> "ok " ^ summ t) with Yasna_panic -> "panic")
  | _ -> "bad-args"

let op_tsval args = match args with
  | [h] ->
    let p = prof () in
    let b = parse_bytes h in
    (try res_of (read_ts_validate (ber_val p) b) (fun t -> "ok " ^ summ t) with Yasna_panic -> "panic")
  | _ -> "bad-args"

let firstn k l = List.filteri (fun i _ -> i < k) l

let op_chal args = match args with
  | [neg; d; u; pw; h] ->
    let p = prof () in
    let st = mk_ntlm d u pw in
    let st = if neg = "1" then (match create_negotiate_message p st with Ok (_, s) -> s | _ -> st) else st in
    let (_, r) = read_challenge_message p hmac_std rc4_init rc4_run st (parse_bytes h) (zeros 8) (zeros 16) in
    res_of r (fun (m, _) -> Printf.sprintf "ok %d %s" (List.length m) (hex (firstn 64 m)))
  | _ -> "bad-args"

let op_unwrap args = match args with
  | h :: rest ->
    let p = prof () in
    let b = parse_bytes h in
    let hint = (match rest with "1" :: _ -> true | _ -> false) in
    let chk = List.filteri (fun i _ -> i >= 4 && i < 12) b in
    let hmac _ _ = if hint then chk @ zeros 8
                   else (match chk with c :: tl -> n_of_int ((int_of_n c + 1) land 255) :: tl @ zeros 8 | [] -> fixed16) in
    let si = { encrypt = (); decrypt = (); signing_key = fixed16; verify_key = fixed16; seq_num = N0 } in
    let (_, r) = gss_unwrapex p hmac rc4_run si b in
    res_of r (fun (m, _) -> Printf.sprintf "ok %d" (List.length m))
  | _ -> "bad-args"

let op_cssp args = match args with
  | [restricted; d; u; pw; chunks] ->
    let p = prof () in
    let st = mk_ntlm d u pw in
    let cs = if chunks = "." then [] else List.map parse_bytes (String.split_on_char ',' chunks) in
    (try
       (* an in-memory link is not a TLS link: get_peer_certificate reports InvalidData *)
       let r = cssp_connect p (ber_req p) (ber_val p) hmac_std md5_std rc4_init rc4_run st (restricted = "1")
                 (CertErr EInvalidData) (zeros 8) (zeros 16) cs [] in
       let w = List.fold_left (fun a m -> a + List.length m) 0 r.c_written in
       let left = List.fold_left (fun a c -> a + List.length c) 0 r.c_left in
       (match r.c_out with
        | Panic -> "panic" | Spin -> "spin"
        | o -> Printf.sprintf "%s w=%d left=%d" (res_of o (fun () -> "ok")) w left)
     with Yasna_panic -> "panic")
  | _ -> "bad-args"

let () = main_loop (fun op args -> match op with
  | "tsreq" -> op_tsreq args
  | "tsval" -> op_tsval args
  | "chal" -> op_chal args
  | "unwrap" -> op_unwrap args
  | "csspnla" -> op_cssp args
  | _ -> "unknown-op:" ^ op)
