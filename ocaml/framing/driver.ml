let parse_chunks s = if s = "." then [] else List.map parse_bytes (String.split_on_char ',' s)
let parse_sched s =
  if s = "." then [] else
  List.concat_map (fun t ->
    if t = "F" then [Fail] else
    match String.split_on_char '*' t with
    | [k; n] -> List.init (int_of_string n) (fun _ -> Accept (nat_of_int (int_of_string k)))
    | _ -> [Accept (nat_of_int (int_of_string t))]) (String.split_on_char ',' s)

let payload_str p = match p with
  | Raw b -> "raw:" ^ summ b
  | FastPath (f, b) -> Printf.sprintf "fp:%d:%s" (int_of_n f) (summ b)

let op_read args = match args with
  | [layer; n; chunks] ->
    let rd = if layer = "tpkt" then tpkt_read else x224_read in
    let rec go k cs acc =
      if k = 0 then (List.rev acc, cs) else
      match rd cs with
      | (Ok p, cs') -> go (k - 1) cs' (payload_str p :: acc)
      | (Err e, cs') -> (List.rev (("err:" ^ err_name e) :: acc), cs')
      | (Panic, cs') -> (List.rev ("panic" :: acc), cs')
      | (Spin, cs') -> (List.rev ("spin" :: acc), cs')
    in
    let (res, cs') = go (int_of_string n) (parse_chunks chunks) [] in
    String.concat " " (res @ ["rest=" ^ summ (List.concat cs')])
  | _ -> "bad-args"

let op_write args = match args with
  | [layer; len; seed; sched] ->
    let len = int_of_string len and seed = int_of_string seed in
    let payload = List.init len (fun i -> n_of_int ((i * 7 + seed) mod 256)) in
    let wr = if layer = "link" then link_write else if layer = "tpkt" then tpkt_write else x224_write in
    let ((out, r), _) = wr payload (parse_sched sched) in
    let res = match r with Ok _ -> "ok" | Err e -> "err:" ^ err_name e | Panic -> "panic" | Spin -> "spin" in
    Printf.sprintf "%s wrote=%s" res (summ out)
  | _ -> "bad-args"

(* a history of writes on one client: the model's writers are stateless, the schedule runs on across them *)
let op_writes args = match args with
  | [layer; msgs; sched] ->
    let wr = if layer = "tpkt" then tpkt_write else x224_write in
    let payload t = (match String.split_on_char ':' t with
      | [len; seed] -> let len = int_of_string len and seed = int_of_string seed in List.init len (fun i -> n_of_int ((i * 7 + seed) mod 256))
      | _ -> []) in
    let rec go ms s acc all = match ms with
      | [] -> (List.rev acc, all)
      | m :: tl ->
        let ((out, r), s') = wr (payload m) s in
        let res = (match r with Ok _ -> "ok" | Err e -> "err:" ^ err_name e | Panic -> "panic" | Spin -> "spin") in
        go tl s' (Printf.sprintf "%s:%d" res (List.length out) :: acc) (all @ out) in
    let (rs, all) =
      if layer = "tpkt" then
        (* the fold the theorem C14_history is about *)
        let (l, _) = tpkt_writes (List.map payload (String.split_on_char ',' msgs)) (parse_sched sched) in
        (List.map (fun (out, r) -> Printf.sprintf "%s:%d" (match r with Ok _ -> "ok" | Err e -> "err:" ^ err_name e | Panic -> "panic" | Spin -> "spin") (List.length out)) l,
         List.concat_map fst l)
      else go (String.split_on_char ',' msgs) (parse_sched sched) [] [] in
    Printf.sprintf "%s wrote=%s" (String.concat " " rs) (summ all)
  | _ -> "bad-args"

let () = main_loop (fun op args -> match op with
  | "writes" -> op_writes args
  | "read" -> op_read args
  | "write" -> op_write args
  | _ -> "unknown-op:" ^ op)
