(* C20 driver: same case lines as harness-gui/src/guiloop.rs
   gui <seed> <pre> <gw> <dict> <step>...   (seed, pre, gw, dict and pause lengths do not exist in the model:
   the model's thread runs to quiescence at every pause / probe and at the end) *)
let variant () = match Sys.getenv_opt "VERIF_GUI_VARIANT" with Some "original" -> original | _ -> repaired

(* PDU names: B<id>.<id>... = bitmap update with these event ids; U = disconnect ultimatum;
   X* = undecodable, Error::RdpError; Y* = undecodable, Error::Io; anything else = a PDU read without event *)
let pdu_of (name : Stdlib.String.t) : pdu =
  match name.[0] with
  | 'B' ->
    let ids = String.sub name 1 (String.length name - 1) in
    PEvents (if ids = "" then [] else List.map (fun x -> n_of_int (int_of_string x)) (String.split_on_char '.' ids))
  | 'U' | 'X' -> PFail ERdp
  | 'Y' -> PFail EOther
  | _ -> PEvents []

let tokens_of_piece (p : Stdlib.String.t) : token list =
  match String.split_on_char '/' p with
  | [name] -> [Fin (pdu_of name)]
  | [name; i; n] -> if int_of_string i = int_of_string n - 1 then [Fin (pdu_of name)] else [Frag]
  | _ -> failwith "bad piece"

let state_name q = match q with
  | RSpin _ -> "spin"
  | RQuiet s -> (match s.pcs with Exited -> "exited" | _ -> "blocked")
let state_of q = match q with RSpin s -> s | RQuiet s -> s

let op_gui args = match args with
  | _seed :: _pre :: _gw :: _dict :: steps ->
    let v = variant () in
    let settle s = quiesce v (fuel_of s) s in
    let s = ref init in
    let outp = ref [] in
    List.iter (fun step ->
      let kind, rest = match String.index_opt step ':' with
        | Some i -> String.sub step 0 i, String.sub step (i + 1) (String.length step - i - 1)
        | None -> step, "" in
      match kind with
      | "W" -> s := env_step (Send (List.concat_map tokens_of_piece (String.split_on_char '+' rest))) !s
      | "P" -> s := state_of (settle !s)
      | "I" -> let q = settle !s in
        s := state_of q;
        outp := Printf.sprintf "i:%d:%s" (List.length !s.out) (state_name q) :: !outp
      | "E" -> s := env_step (Close (match rest with "cn" -> CloseNotify | "rst" -> Reset | _ -> AbruptFin)) !s
      | "S" -> s := env_step GuiStop !s
      | "J" -> ()
      | _ -> failwith "bad step") steps;
    let q = settle !s in
    let fin = state_of q in
    let ids = List.map (fun x -> string_of_int (int_of_n x)) fin.out in
    String.concat " " (List.rev !outp @ [
      "end:" ^ state_name q;
      "ev=" ^ (if ids = [] then "-" else String.concat "." ids);
      "rel=" ^ (match q with RQuiet { pcs = Exited; _ } -> "1" | _ -> "0") ])
  | _ -> "bad-args"

let () = main_loop (fun op args -> match op with
  | "gui" -> op_gui args
  | _ -> "unknown-op:" ^ op)
