(* C20 driver: same case lines as harness-gui/src/guiloop.rs
   gui <seed> <pre> <gw> <dict> <step>...   (seed, dict and pause lengths do not exist in the model: the model's
   thread runs to quiescence at every pause / probe and at the end).
   The GUI thread's part is played through the model's own actions:
   - scripted steps GL / GW / GU / GX are queued like the harness's helper thread queues them and applied as
     GuiLock / GuiWrite / GuiUnlock / GuiShutdown as soon as the model's mutex allows (a GuiLock on a mutex
     held by the thread stays queued: `g:wait`);
   - the timed writer `gw n:ms` is played as n bursts GuiLock; GuiWrite; GuiUnlock whose actions are
     interleaved ONE BY ONE with the single steps of the thread whenever the thread runs (the real writer's
     timing is unknown; by C20_gui_writes_do_not_lose_events / C20_drains the forwarded events do not
     depend on it, and the comparison with the real threads checks exactly that). *)
let variant () = match Sys.getenv_opt "VERIF_GUI_VARIANT" with Some "original" -> original | _ -> repaired

(* PDU names: B<id>.<id>... = bitmap update with these event ids; U = disconnect ultimatum;
   X* = undecodable, Error::RdpError; Y* = undecodable, Error::Io; anything else = a PDU read without event *)
let pdu_of (name : Stdlib.String.t) : pdu =
  match name.[0] with
  | 'B' ->
    let ids = String.sub name 1 (String.length name - 1) in
    PEvents (if ids = "" then [] else List.map (fun x -> n_of_int (int_of_string x)) (String.split_on_char '.' ids))
  | 'U' | 'X' -> PFail ERdp
  | 'Y' -> PFail EOther
  | _ -> PEvents []

let tokens_of_piece (p : Stdlib.String.t) : token list =
  match String.split_on_char '/' p with
  | [name] -> [Fin (pdu_of name)]
  | [name; i; n] -> if int_of_string i = int_of_string n - 1 then [Fin (pdu_of name)] else [Frag]
  | _ -> failwith "bad piece"

let state_name q = match q with
  | RSpin _ -> "spin"
  | RQuiet s -> (match s.pcs with Exited -> "exited" | _ -> "blocked")
let state_of q = match q with RSpin s -> s | RQuiet s -> s

let op_gui args = match args with
  | _seed :: pre :: gw :: _dict :: steps ->
    let v = variant () in
    let npre = if pre = "-" then 0 else List.length (String.split_on_char '+' pre) in
    let gw_n = match String.split_on_char ':' gw with n :: _ -> int_of_string n | _ -> 0 in
    let s = ref init in
    (* --- the timed writer: its remaining actions, one burst = lock, write, unlock *)
    let wleft = ref (List.concat (List.init gw_n (fun k -> [GuiLock; GuiWrite (n_of_int k); GuiUnlock]))) in
    let writer_action budget =
      (* the writer's next action, if it can be done now; a GuiLock on a taken mutex waits *)
      match !wleft with
      | [] -> false
      | GuiLock :: rest ->
        if !budget > 0 && !s.lock = Free then (s := env_step GuiLock !s; wleft := rest; decr budget; true) else false
      | a :: rest -> s := env_step a !s; wleft := rest; true in
    (* --- the scripted GUI thread: queue of pending commands *)
    let gq = ref [] in
    let wcount = ref 0 in
    let rec pump () = match !gq with
      | [] -> ()
      | 'L' :: rest ->
        (match !s.lock with
         | Free -> s := env_step GuiLock !s; gq := rest; pump ()
         | HeldByGui -> gq := rest; pump ()
         | HeldByRecv -> ())
      | 'W' :: rest -> incr wcount; s := env_step (GuiWrite (n_of_int !wcount)) !s; gq := rest; pump ()
      | 'U' :: rest -> s := env_step GuiUnlock !s; gq := rest; pump ()
      | 'X' :: rest -> s := env_step GuiShutdown !s; gq := rest; pump ()
      | _ :: rest -> gq := rest; pump () in
    (* --- the thread runs until it cannot move, the GUI's pending actions interleaved step by step *)
    let settle () =
      let budget = ref 2 in                      (* bursts of the timed writer started during this settle *)
      let fuel = ref (20 * (int_of_nat (fuel_of !s)) + 50) in
      let spin = ref false in
      let continue = ref true in
      while !continue do
        let a = writer_action budget in
        pump ();
        (match tstep v !s with
         | Some s' -> s := s'; decr fuel; if !fuel <= 0 then (spin := true; continue := false)
         | None -> if not a then continue := false)
      done;
      if !spin then RSpin !s else RQuiet !s in
    let outp = ref [] in
    List.iter (fun step ->
      let kind, rest = match String.index_opt step ':' with
        | Some i -> String.sub step 0 i, String.sub step (i + 1) (String.length step - i - 1)
        | None -> step, "" in
      match kind with
      | "W" -> s := env_step (Send (List.concat_map tokens_of_piece (String.split_on_char '+' rest))) !s
      | "P" -> s := state_of (settle ())
      | "I" -> let q = settle () in
        s := state_of q;
        outp := Printf.sprintf "i:%d:%s" (List.length !s.out) (state_name q) :: !outp
      | "E" -> s := env_step (Close (match rest with "cn" -> CloseNotify | "rst" -> Reset | _ -> AbruptFin)) !s
      | "S" -> s := env_step GuiStop !s
      | "GL" | "GW" | "GU" | "GX" ->
        gq := !gq @ [kind.[1]]; pump ();
        outp := (if !gq = [] then "g:ok" else "g:wait") :: !outp
      | "J" -> ()
      | _ -> failwith "bad step") steps;
    let q = settle () in
    let fin = state_of q in
    let ids = List.map (fun x -> string_of_int (int_of_n x)) fin.out in
    let inputs = List.length (List.filter (fun w -> match w with WInput _ -> true | _ -> false) fin.outb) in
    String.concat " " (List.rev !outp @ [
      "end:" ^ state_name q;
      "ev=" ^ (if ids = [] then "-" else String.concat "." ids);
      "rel=" ^ (match q with RQuiet s when released s -> "1" | _ -> "0");
      "in=" ^ (if gw_n > 0 || npre < 5 then "*" else
                 string_of_int inputs ^ (if List.mem WUltimatum fin.outb then "+u" else "")
                 ^ (if List.mem WCloseNotify fin.outb then "+c" else "")) ])
  | _ -> "bad-args"

let () = main_loop (fun op args -> match op with
  | "gui" -> op_gui args
  | _ -> "unknown-op:" ^ op)
