(* C01 driver: the extracted model of cssp_connect (coq/CsspGate.v + CsspGateExec.v over Ntlm.v,
   NtlmSeal.v, DerRead.v); same op and output as harness/src/csspgate.rs *)
let prof () = match Sys.getenv_opt "VERIF_PROFILE" with Some "release" -> Release | _ -> Debug

let cps (t : Stdlib.String.t) : n list =
  if t = "-" then [] else List.map (fun h -> n_of_int (int_of_string ("0x" ^ h))) (String.split_on_char '.' t)

let rec take k l = if k = 0 then [] else match l with [] -> [] | x :: r -> x :: take (k - 1) r
let rec drop k l = if k = 0 then l else match l with [] -> [] | _ :: r -> drop (k - 1) r

let op_cssp a = match a with
  | [mode; dom; user; secret; upper; ra; cert; pubkey; rnd; replies] ->
    let u = cps upper in
    let up = fun (_ : n list) -> u in
    let st = if mode = "hash" then ntlm_from_hash hmac_md5 up (cps dom) (cps user) (parse_bytes secret)
             else ntlm_new md4 hmac_md5 up (cps dom) (cps user) (cps secret) in
    let certo = if cert = "none" then Err EInvalidData else Ok (parse_bytes pubkey) in
    let r = parse_bytes rnd in
    let chunks = if replies = "." then [] else List.map parse_bytes (String.split_on_char ',' replies) in
    let (res, ws) = cssp_connect_c up (prof ()) st (ra = "1") certo chunks (take 8 r) (drop 8 r) in
    let rs = match res with Ok _ -> "ok" | Err e -> "err:" ^ err_name e | Panic -> "panic" | Spin -> "spin" in
    String.concat " " ([rs; Printf.sprintf "n=%d" (List.length ws)] @ List.map hex ws)
  | _ -> "bad-args"

let () = main_loop (fun op args -> match op with
  | "csspgate" -> op_cssp args
  | _ -> "unknown-op:" ^ op)
