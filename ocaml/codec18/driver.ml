(* C18 driver: the extracted message interpreter (Msg.v) and PER model (Per.v) behind the same
   case-line interface as harness/src/codec18.rs *)
let prof () = match Sys.getenv_opt "VERIF_PROFILE" with Some "release" -> Release | _ -> Debug

(* ---- Coq strings ---- *)
let coq_string (s : Stdlib.String.t) : string =
  let bit c i = (Char.code c lsr i) land 1 = 1 in
  let rec go i = if i >= String.length s then EmptyString else
    let c = s.[i] in
    String (Ascii (bit c 0, bit c 1, bit c 2, bit c 3, bit c 4, bit c 5, bit c 6, bit c 7), go (i + 1)) in
  go 0
let ocaml_string (s : string) : Stdlib.String.t =
  let b = Buffer.create 16 in
  let rec go s = match s with
    | EmptyString -> ()
    | String (Ascii (b0, b1, b2, b3, b4, b5, b6, b7), tl) ->
      let v x i = if x then 1 lsl i else 0 in
      Buffer.add_char b (Char.chr (v b0 0 + v b1 1 + v b2 2 + v b3 3 + v b4 4 + v b5 5 + v b6 6 + v b7 7)); go tl in
  go s; Buffer.contents b

let n_of_string (s : Stdlib.String.t) : n =
  (* decimal of any size (values up to 2^64) *)
  let r = ref N0 in
  String.iter (fun c -> r := N.add (N.mul !r (n_of_int 10)) (n_of_int (Char.code c - 48))) s; !r
let rec string_of_n (x : n) : Stdlib.String.t =
  let ten = n_of_int 10 in
  if N.ltb x ten then string_of_int (int_of_n x)
  else string_of_n (N.div x ten) ^ string_of_int (int_of_n (N.modulo x ten))

(* ---- shape parser (same language as the Rust harness) ---- *)
exception Shape of Stdlib.String.t
let parse_shape (s : Stdlib.String.t) : msg =
  let i = ref 0 in
  let len = String.length s in
  let peek () = if !i < len then s.[!i] else '\000' in
  let eat c = if peek () = c then incr i else raise (Shape (Printf.sprintf "expected %c at %d" c !i)) in
  let word stop = let st = !i in
    while !i < len && not (String.contains stop s.[!i]) do incr i done; String.sub s st (!i - st) in
  let number () = let st = !i in
    while !i < len && s.[!i] >= '0' && s.[!i] <= '9' do incr i done; n_of_string (String.sub s st (!i - st)) in
  let cexp () =
    let e = ref (if peek () = 'x' then (incr i; XSelf) else (eat 'f'; XSelfField (coq_string (word "-_+*;")))) in
    let continue = ref true in
    while !continue do
      match peek () with
      | '-' -> incr i; e := XSub (!e, number ())
      | '_' -> incr i; e := XSubSat (!e, number ())
      | '+' -> incr i; e := XAdd (!e, number ())
      | '*' -> incr i; e := XMul (!e, number ())
      | _ -> continue := false
    done; !e in
  let rec cond () = match peek () with
    | 'b' -> incr i; let sh = number () in eat '.'; let m = number () in eat '.'; let v = number () in CBits (sh, m, v)
    | '!' -> incr i; eat '('; let c = cond () in eat ')'; CNot c
    | '|' -> incr i; eat '('; let a = cond () in eat ','; let b = cond () in eat ')'; COr (a, b)
    | '&' -> incr i; eat '('; let a = cond () in eat ','; let b = cond () in eat ')'; CAnd (a, b)
    | _ -> raise (Shape "cond") in
  let clo () = match peek () with
    | 'n' -> incr i; CloNone
    | 'z' -> incr i; let t = word "~" in eat '~'; CloSize (coq_string t, cexp ())
    | 's' -> incr i; let t = word "~" in eat '~'; let c = cond () in CloSkipIf (c, coq_string t)
    | _ -> raise (Shape "clo") in
  let leaf () : msg option =
    let st = !i in
    let w = word ":(" in
    if peek () <> ':' then (i := st; None) else begin
      incr i;
      Some (match w with
        | "u8" -> MU8 (number ())
        | "u16l" -> MU16 (LE, number ()) | "u16b" -> MU16 (BE, number ())
        | "u32l" -> MU32 (LE, number ()) | "u32b" -> MU32 (BE, number ())
        | "v" -> MBytes (unhex (word ",);"))
        | _ -> raise (Shape ("leaf " ^ w)))
    end in
  let rec node () : msg =
    match leaf () with Some l -> l | None ->
    let c = peek () in
    incr i; eat '(';
    match c with
    | 't' | 'A' ->
      let l = ref [] in
      while peek () <> ')' do l := node () :: !l; if peek () = ',' then incr i done;
      eat ')';
      if c = 't' then MTrame (List.rev !l) else MArray (List.rev !l, None)
    | 'c' ->
      let l = ref [] in
      while peek () <> ')' do
        let name = word "=" in eat '=';
        let v = node () in
        l := (coq_string name, v) :: !l; if peek () = ',' then incr i
      done;
      eat ')'; MComp (List.rev !l)
    | 'k' -> (match leaf () with Some l -> eat ')'; MCheck l | None -> raise (Shape "check"))
    | 'd' -> let cl = clo () in eat ';'; let inner = node () in eat ')'; MDyn (inner, cl)
    | 'o' -> if peek () = ')' then (incr i; MOpt None) else (let inner = node () in eat ')'; MOpt (Some inner))
    | 'a' -> let t = node () in eat ')'; MArray ([], Some t)
    | _ -> raise (Shape "node") in
  let m = node () in
  if !i <> len then raise (Shape "trailing"); m

(* ---- canonical dump: what visit() shows (Check, DynOption, Some are transparent) ---- *)
let rec dump (b : Buffer.t) (m : msg) : unit = match m with
  | MU8 v | MU16 (_, v) | MU32 (_, v) -> Buffer.add_string b (string_of_n v)
  | MBytes x -> Buffer.add_char b 'x'; Buffer.add_string b (hex x)
  | MTrame l | MArray (l, _) ->
    Buffer.add_char b '['; List.iteri (fun k e -> if k > 0 then Buffer.add_char b ','; dump b e) l; Buffer.add_char b ']'
  | MComp fs ->
    Buffer.add_char b '{';
    List.iteri (fun k (name, v) -> if k > 0 then Buffer.add_char b ','; Buffer.add_string b (ocaml_string name);
                 Buffer.add_char b '='; dump b v) fs;
    Buffer.add_char b '}'
  | MCheck m' | MDyn (m', _) -> dump b m'
  | MOpt None -> Buffer.add_char b '~'
  | MOpt (Some m') -> dump b m'

let read_into (t : msg) (input : n list) : Stdlib.String.t =
  let total = List.length input in
  match read (prof ()) t input with
  | ROk (m, rest, _) -> let b = Buffer.create 64 in dump b m;
    Printf.sprintf "ok consumed=%d val=%s" (total - List.length rest) (Buffer.contents b)
  | RErr (e, rest, _) -> Printf.sprintf "err:%s consumed=%d" (err_name e) (total - List.length rest)
  | RPanic -> "panic"
  | RSpin -> "spin"

(* Array::from_trame carries no factory; the read result carries the template's: give the written
   tree the template's factories before asking the Coq predicate [wf] about the pair *)
let rec refactor (t : msg) (m : msg) : msg = match t, m with
  | MArray ([], Some tmpl), MArray (els, None) -> MArray (List.map (refactor tmpl) els, Some tmpl)
  | MTrame tl, MTrame l when List.length tl = List.length l -> MTrame (List.map2 refactor tl l)
  | MComp tfs, MComp fs when List.length tfs = List.length fs ->
    MComp (List.map2 (fun (_, tv) (n, v) -> (n, refactor tv v)) tfs fs)
  | MCheck tv, MCheck v -> MCheck (refactor tv v)
  | MDyn (tv, _), MDyn (v, c) -> MDyn (refactor tv v, c)
  | MOpt (Some tv), MOpt (Some v) -> MOpt (Some (refactor tv v))
  | _, _ -> m

let op_msg args = match args with
  | w :: t :: rest :: claim ->
    let m = parse_shape w and tm = parse_shape t in
    let p = prof () in
    let ls = match mlength p m with Some n -> string_of_n n | None -> "panic" in
    (* a case the generator claims well formed must satisfy the hypothesis of MsgTheory.read_write *)
    let claimed = match claim with ["c"] -> Some true | ["o"] -> Some false | _ -> None in
    let wfnote = match claimed with
      | Some closed -> if wf p closed tm (refactor tm m) then "" else " NOT-WF-IN-COQ"
      | None -> "" in
    (match write p m with
     | None -> Printf.sprintf "len=%s w=panic%s" ls wfnote
     | Some b -> Printf.sprintf "len=%s w=%s r=%s%s" ls (hex b) (read_into tm (b @ unhex rest)) wfnote)
  | _ -> "bad-args"

let op_rd args = match args with
  | [t; input] -> read_into (parse_shape t) (unhex input)
  | _ -> "bad-args"

(* rw <template> <input>: read, write what was read, compare with the input; the Coq predicate [tight]
   (Canon.v) must say exactly when they are equal (C18_inv_msg.write_read) *)
let op_rw args = match args with
  | [t; input] ->
    let tm = parse_shape t and inp = unhex input in
    let p = prof () in
    let total = List.length inp in
    (match read p tm inp with
     | ROk (m, rest, _) ->
       let b = Buffer.create 64 in dump b m;
       let consumed = total - List.length rest in
       let ls = match mlength p m with Some n -> string_of_n n | None -> "panic" in
       (match write p m with
        | None -> Printf.sprintf "ok consumed=%d val=%s len=%s w=panic" consumed (Buffer.contents b) ls
        | Some w ->
          let same = (w @ rest = inp) in
          let note = if tmpl_ok tm && all_bytes inp && (tight p tm inp <> same) then " TIGHT-MISMATCH" else "" in
          let note2 = if int_of_n (slack p tm inp) + List.length w <> consumed then " SLACK-MISMATCH" else "" in
          Printf.sprintf "ok consumed=%d val=%s len=%s w=%s same=%d%s%s" consumed (Buffer.contents b) ls (hex w)
            (if same then 1 else 0) note note2)
     | RErr (e, rest, _) -> Printf.sprintf "err:%s consumed=%d" (err_name e) (total - List.length rest)
     | RPanic -> "panic"
     | RSpin -> "spin")
  | _ -> "bad-args"

(* ---- PER ---- *)
let show_rd (show : 'a -> Stdlib.String.t) (o : ('a * n list) outcome) : Stdlib.String.t = match o with
  | Ok (v, rest) -> Printf.sprintf "ok:%s:rest=%d" (show v) (List.length rest)
  | Err e -> "err:" ^ err_name e | Panic -> "panic" | Spin -> "spin"
let show_wr (o : n list outcome) : Stdlib.String.t * n list option = match o with
  | Ok b -> ("ok:" ^ hex b, Some b)
  | Err e -> ("err:" ^ err_name e, None) | Panic -> ("panic", None) | Spin -> ("spin", None)
let rt (w : Stdlib.String.t * n list option) (reader : n list -> Stdlib.String.t) = match w with
  | (s, None) -> "w=" ^ s
  | (s, Some b) -> Printf.sprintf "w=%s r=%s" s (reader (b @ [n_of_int 0xaa]))
let num = n_of_string
let show_n = string_of_n
let show_bool b = if b then "true" else "false"
let show_unit () = "-"

(* decode, then encode.  [canon] = the Coq predicate that must say exactly when the bytes come back
   (C18_inv_per); [refdec] = the reference decoder's answer, which the reader must share wherever the
   reference accepts *)
let dw (input : n list) (r : ('a * n list) outcome) (show : 'a -> Stdlib.String.t)
       (w : 'a -> n list outcome) (canon : bool option) (refdec : ('a * n list) option) : Stdlib.String.t =
  match r with
  | Err e -> (match refdec with Some _ -> "r=err:" ^ err_name e ^ " REFDEC-ACCEPTS" | None -> "r=err:" ^ err_name e)
  | Panic -> "r=panic" | Spin -> "r=spin"
  | Ok (v, rest) ->
    let head = Printf.sprintf "r=ok:%s:rest=%d" (show v) (List.length rest) in
    let refnote = match refdec with Some (v', rest') when (v', rest') <> (v, rest) -> " REFDEC-MISMATCH" | _ -> "" in
    (match w v with
     | Err e -> Printf.sprintf "%s w=err:%s%s%s" head (err_name e) refnote
                  (match canon with Some true -> " CANON-MISMATCH" | _ -> "")
     | Panic -> head ^ " w=panic" ^ refnote | Spin -> head ^ " w=spin"
     | Ok b ->
       let same = (b @ rest = input) in
       let note = match canon with Some c when c <> same -> " CANON-MISMATCH" | _ -> "" in
       Printf.sprintf "%s w=%s same=%d%s%s" head (hex b) (if same then 1 else 0) note refnote)

let op_per args =
  let p = prof () in
  match args with
  | ["dwlen"; h] -> let i = unhex h in
    dw i (per_read_length i) show_n (fun v -> Ok (per_write_length v)) (Some (canon_length i)) (ref_dec_length i)
  | ["dwint"; h] -> let i = unhex h in
    dw i (per_read_integer i) show_n (fun v -> Ok (per_write_integer v)) (Some (canon_integer i)) (ref_dec_integer i)
  | ["dwint16"; m; h] -> let i = unhex h in
    dw i (per_read_integer_16 (num m) i) show_n (fun v -> per_write_integer_16 p v (num m)) (Some true) (ref_dec_integer_16 (num m) i)
  | ["dwoid"; o; h] -> let i = unhex h and oid = unhex o in
    (* the reader only answers a comparison; the reference decodes the arcs: inside the codec's domain they must agree *)
    let r = per_read_object_identifier oid i in
    let refd = match ref_dec_oid i with
      | Some (arcs, rest) when List.length arcs = 6 && List.length oid = 6 &&
                               (match per_write_object_identifier arcs with Ok _ -> true | _ -> false) -> Some (arcs = oid, rest)
      | _ -> None in
    let canon = match r with Ok (true, _) -> Some (canon_oid i) | _ -> None in
    dw i r show_bool (fun v -> if v then per_write_object_identifier oid else Ok []) canon refd
  | ["dwoct"; s; m; h] -> let i = unhex h and st = unhex s in
    let refd = match ref_dec_octet_string (num m) i with Some (s', rest) when s' = st -> Some ((), rest) | _ -> None in
    dw i (per_read_octet_stream p st (num m) i) show_unit (fun () -> Ok (per_write_octet_stream st (num m))) (Some (canon_length i)) refd
  | ["dwnum"; m; h] -> let i = unhex h in
    dw i (per_read_numeric_string p (num m) i) hex (fun v -> per_write_numeric_string p v (num m)) (Some (canon_numeric (num m) i))
      (ref_dec_numeric_string (num m) i)
  | ["dwpad"; n; h] -> let i = unhex h in
    dw i (per_read_padding (num n) i) show_unit (fun () -> per_write_padding (num n)) (Some (canon_padding (num n) i)) None
  | ["dwchoice"; h] -> let i = unhex h in dw i (per_read_choice i) show_n (fun v -> Ok (per_write_choice v)) (Some true) None
  | ["dwsel"; h] -> let i = unhex h in dw i (per_read_selection i) show_n (fun v -> Ok (per_write_selection v)) (Some true) None
  | ["dwnset"; h] -> let i = unhex h in dw i (per_read_number_of_set i) show_n (fun v -> Ok (per_write_number_of_set v)) (Some true) None
  | ["dwenum"; h] -> let i = unhex h in dw i (per_read_enumerates i) show_n (fun v -> Ok [per_write_enumerates v]) (Some true) None
  | ["wlen"; n] -> fst (show_wr (Ok (per_write_length (num n))))
  | ["rlen"; h] -> show_rd show_n (per_read_length (unhex h))
  | ["rtlen"; n] -> rt (show_wr (Ok (per_write_length (num n)))) (fun b -> show_rd show_n (per_read_length b))
  | ["wint"; n] -> fst (show_wr (Ok (per_write_integer (num n))))
  | ["rint"; h] -> show_rd show_n (per_read_integer (unhex h))
  | ["rtint"; n] -> rt (show_wr (Ok (per_write_integer (num n)))) (fun b -> show_rd show_n (per_read_integer b))
  | ["wint16"; v; m] -> fst (show_wr (per_write_integer_16 p (num v) (num m)))
  | ["rint16"; m; h] -> show_rd show_n (per_read_integer_16 (num m) (unhex h))
  | ["rtint16"; v; m] -> rt (show_wr (per_write_integer_16 p (num v) (num m))) (fun b -> show_rd show_n (per_read_integer_16 (num m) b))
  | ["woid"; o] -> fst (show_wr (per_write_object_identifier (unhex o)))
  | ["roid"; o; h] -> show_rd show_bool (per_read_object_identifier (unhex o) (unhex h))
  | ["rtoid"; o] -> rt (show_wr (per_write_object_identifier (unhex o))) (fun b -> show_rd show_bool (per_read_object_identifier (unhex o) b))
  | ["wnum"; s; m] -> fst (show_wr (per_write_numeric_string p (unhex s) (num m)))
  | ["rnum"; m; h] -> show_rd hex (per_read_numeric_string p (num m) (unhex h))
  | ["rtnum"; s; m] -> rt (show_wr (per_write_numeric_string p (unhex s) (num m))) (fun b -> show_rd hex (per_read_numeric_string p (num m) b))
  | ["wpad"; n] -> fst (show_wr (per_write_padding (num n)))
  | ["rpad"; n; h] -> show_rd show_unit (per_read_padding (num n) (unhex h))
  | ["woct"; s; m] -> fst (show_wr (Ok (per_write_octet_stream (unhex s) (num m))))
  | ["roct"; s; m; h] -> show_rd show_unit (per_read_octet_stream p (unhex s) (num m) (unhex h))
  | ["rtoct"; s; m] -> rt (show_wr (Ok (per_write_octet_stream (unhex s) (num m)))) (fun b -> show_rd show_unit (per_read_octet_stream p (unhex s) (num m) b))
  | ["wchoice"; n] -> fst (show_wr (Ok (per_write_choice (num n))))
  | ["wsel"; n] -> fst (show_wr (Ok (per_write_selection (num n))))
  | ["wnset"; n] -> fst (show_wr (Ok (per_write_number_of_set (num n))))
  | ["wenum"; n] -> "ok:" ^ hex [per_write_enumerates (num n)]
  | ["rchoice"; h] -> show_rd show_n (per_read_choice (unhex h))
  | ["rsel"; h] -> show_rd show_n (per_read_selection (unhex h))
  | ["rnset"; h] -> show_rd show_n (per_read_number_of_set (unhex h))
  | ["renum"; h] -> show_rd show_n (per_read_enumerates (unhex h))
  | op :: _ -> "unknown-per:" ^ op
  | [] -> "bad-args"

(* ---- DER values ---- *)
let parse_dval (s : Stdlib.String.t) : dval * dsch =
  (* returns the value and, reading the same text as a template, its schema (q(<one element>) = element schema) *)
  let i = ref 0 in
  let len = String.length s in
  let peek () = if !i < len then s.[!i] else '\000' in
  let eat c = if peek () = c then incr i else raise (Shape (Printf.sprintf "value: expected %c at %d" c !i)) in
  let number () = let st = !i in
    while !i < len && s.[!i] >= '0' && s.[!i] <= '9' do incr i done; n_of_string (String.sub s st (!i - st)) in
  let word stop = let st = !i in
    while !i < len && not (String.contains stop s.[!i]) do incr i done; String.sub s st (!i - st) in
  let tag () = let c = peek () in incr i;
    let n = number () in
    ((match c with 'U' -> Universal | 'A' -> Application | 'C' -> Context | 'P' -> Private | _ -> raise (Shape "class")), n) in
  let rec value () : dval * dsch =
    let c = peek () in incr i;
    match c with
    | 'i' -> (DInt (number ()), SInt)
    | 'e' -> (DEnum (number ()), SEnum)
    | 'b' -> (DBool (int_of_n (number ()) <> 0), SBool)
    | 'o' -> (DOctets (unhex (word ",)")), SOctets)
    | 's' | 'q' ->
      eat '(';
      let l = ref [] in
      while peek () <> ')' do l := value () :: !l; if peek () = ',' then incr i done;
      eat ')';
      let l = List.rev !l in
      if c = 's' then (DSeq (List.map fst l), SSeq (List.map snd l))
      else (DSeqOf (List.map fst l), SSeqOf (match l with (_, sc) :: _ -> sc | [] -> SInt))
    | 'x' | 'm' ->
      let (cl, n) = tag () in
      eat '('; let (v, sc) = value () in eat ')';
      if c = 'x' then (DExplicit (cl, n, v), SExplicit (cl, n, sc)) else (DImplicit (cl, n, v), SImplicit (cl, n, sc))
    | _ -> raise (Shape "value") in
  let r = value () in
  if !i <> len then raise (Shape "value: trailing"); r

let rec dump_dval (b : Buffer.t) (v : dval) : unit = match v with
  | DInt n -> Buffer.add_char b 'i'; Buffer.add_string b (string_of_n n)
  | DEnum n -> Buffer.add_char b 'e'; Buffer.add_string b (string_of_n n)
  | DBool x -> Buffer.add_string b (if x then "b1" else "b0")
  | DOctets x -> Buffer.add_char b 'o'; Buffer.add_string b (hex x)
  | DSeq l -> Buffer.add_string b "s("; List.iteri (fun k e -> if k > 0 then Buffer.add_char b ','; dump_dval b e) l; Buffer.add_char b ')'
  | DSeqOf l -> Buffer.add_string b "q("; List.iteri (fun k e -> if k > 0 then Buffer.add_char b ','; dump_dval b e) l; Buffer.add_char b ')'
  | DExplicit (_, _, v') | DImplicit (_, _, v') -> dump_dval b v'

let show_dec (o : dval option) : Stdlib.String.t = match o with
  | Some v -> let b = Buffer.create 64 in dump_dval b v; "ok:" ^ Buffer.contents b
  | None -> "err:Asn1"

let op_der args = match args with
  | ["enc"; v] -> "ok:" ^ hex (der_encode (fst (parse_dval v)))
  | ["rt"; v; t] ->
    let bytes = der_encode (fst (parse_dval v)) in
    let r = show_dec (der_decode_all (snd (parse_dval t)) bytes) in
    Printf.sprintf "w=%s der=%s ber=%s" (hex bytes) r r
  | ["dec"; t; h] | ["decber"; t; h] -> show_dec (der_decode_all (snd (parse_dval t)) (unhex h))
  | ["dw"; t; h] ->
    (* the strict decoder accepts only the encoder's output (C18_inv_der.der_decode_all_inverse) *)
    let i = unhex h in
    (match der_decode_all (snd (parse_dval t)) i with
     | Some v -> let w = der_encode v in
       Printf.sprintf "%s w=%s same=%d%s" (show_dec (Some v)) (hex w) (if w = i then 1 else 0) (if w = i then "" else " DER-NOT-CANONICAL")
     | None -> "err:Asn1")
  | op :: _ -> "unknown-der:" ^ op
  | [] -> "bad-args"

let op_mcs args = match args with
  | ["ci"; ud] -> "ok:" ^ hex (der_encode (connect_initial (unhex ud)))
  | ["cr"; h] -> show_dec (der_decode_all connect_response_sch (unhex h))
  | ["crdw"; h] ->
    (* the lenient reader (BerYasna.v) gives the user data; what it read re-encodes to the input iff the strict
       decoder accepts the input (C18_inv_der.der_reencode_iff_strict) *)
    let i = unhex h in
    (match ber_connect_response (prof ()) i with
     | Ok ud -> Printf.sprintf "ok:ud=%s same=%d" (hex ud) (match der_decode_all connect_response_sch i with Some _ -> 1 | None -> 0)
     | Err e -> "err:" ^ err_name e | Panic -> "panic" | Spin -> "spin")
  | ["crt"; ud] -> let b = der_encode (connect_response (unhex ud)) in
    Printf.sprintf "w=%s r=%s" (hex b) (show_dec (der_decode_all connect_response_sch b))
  | op :: _ -> "unknown-mcs:" ^ op
  | [] -> "bad-args"

let op_cssp args = match args with
  | ["req"; n] -> "ok:" ^ hex (der_encode (ts_request (unhex n)))
  | ["auth"; n; k] -> "ok:" ^ hex (der_encode (ts_authenticate (unhex n) (unhex k)))
  | ["chal"; h] ->
    (match der_decode_all ts_request_sch (unhex h) with
     | Some (DSeq [_; DExplicit (_, _, DSeqOf (DSeq [DExplicit (_, _, DOctets tok)] :: _))]) -> "ok:" ^ hex tok
     | Some _ -> "err:InvalidOptionalField"  (* empty negoTokens: an error since the repair of finding 11 (property C07) *)
     | None -> "err:Asn1")
  | ["val"; h] ->
    (match der_decode_all ts_validate_sch (unhex h) with
     | Some (DSeq [_; DExplicit (_, _, DOctets k)]) -> "ok:" ^ hex k
     | Some _ -> "err:InvalidCast"
     | None -> "err:Asn1")
  | ["cred"; d; u; p] -> "ok:" ^ hex (der_encode (ts_credentials (unhex d) (unhex u) (unhex p)))
  | ["info"; h] -> "ok:" ^ hex (der_encode (ts_authinfo (unhex h)))
  | op :: _ -> "unknown-cssp:" ^ op
  | [] -> "bad-args"

(* ---- GCC ---- *)
let version_name v = match v with RdpVersion -> "4" | RdpVersion5plus -> "5plus" | VersionUnknown -> "unknown"
let show_out (o : n list outcome) = match o with
  | Ok b -> "ok:" ^ hex b | Err e -> "err:" ^ err_name e | Panic -> "panic" | Spin -> "spin"

let op_gcc args =
  let p = prof () in
  match args with
  | ["req"; ud] -> show_out (gcc_write_conference_create_request p (unhex ud))
  | ["resp"; h] ->
    (match gcc_read_conference_create_response p (unhex h) with
     | Ok ((io, ids), v) ->
       Printf.sprintf "ok:io=%s:ids=%s:ver=%s" (string_of_n io) (if ids = [] then "-" else String.concat "." (List.map string_of_n ids)) (version_name v)
     | Err e -> "err:" ^ err_name e | Panic -> "panic" | Spin -> "spin")
  | ["ver"; n] -> "ok:" ^ version_name (version_from (num n))
  | ["hdr"; t; l] ->
    (* MessageType::from(u16) maps an unknown type to Unknown = 0 *)
    let known = [0x0c01; 0x0c02; 0x0c03; 0xc001; 0xc002; 0xc003; 0xc004; 0xc005] in
    let ty = if List.mem (int_of_string t) known then num t else N0 in
    (match block_header p ty (num l) with
     | Ok m -> (match write p m with Some b -> "ok:" ^ hex b | None -> "panic")
     | Err e -> "err:" ^ err_name e | Panic -> "panic" | Spin -> "spin")
  | ["ccore"; w; h; layout; proto; name] ->
    let name = unhex_ints name in
    (* at most 15 UTF-16 code units followed by the null terminator (the repaired client_core_data) *)
    let name = List.filteri (fun k _ -> k < 15) name in
    let name = name @ List.init (16 - List.length name) (fun _ -> 0) in
    let name16 = List.concat_map (fun c -> [n_of_int c; N0]) name in
    let lay = n_of_int (if layout = "fr" then 0x40c else 0x409) in
    let m = client_core_data (n_of_int 524292) (num w) (num h) lay name16 (num proto) in
    let t = client_core_data (n_of_int 524292) N0 N0 (n_of_int 0x40c) (List.init 32 (fun _ -> N0)) N0 in
    (match mlength p m, write p m with
     | Some l, Some b ->
       (match read p t b with
        | ROk (m', rest, _) ->
          Printf.sprintf "len=%s w=%s r=ok consumed=%d same=%b" (string_of_n l) (hex b) (List.length b - List.length rest)
            (write p m' = Some b)
        | RErr (_, rest, _) -> Printf.sprintf "len=%s w=%s r=err consumed=%d same=false" (string_of_n l) (hex b) (List.length b - List.length rest)
        | _ -> "panic")
     | _, _ -> "panic")
  | op :: _ -> "unknown-gcc:" ^ op
  | [] -> "bad-args"

let () = main_loop (fun op args ->
  try match op with
    | "msg" -> op_msg args
    | "rd" -> op_rd args
    | "rw" -> op_rw args
    | "per" -> op_per args
    | "der" -> op_der args
    | "mcs" -> op_mcs args
    | "cssp" -> op_cssp args
    | "gcc18" -> op_gcc args
    | _ -> "unknown-op:" ^ op
  with Shape s -> "bad-shape:" ^ s
     | Stack_overflow -> "model-stack-overflow"
     | Out_of_memory -> "model-out-of-memory")
