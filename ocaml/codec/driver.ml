(* C08 / C09: the extracted model of BitmapEvent::decompress.
   bmp <width> <height> <bpp> <flag> <data>  ->  ok <summ> | err:<Kind> | panic | spin *)
(* tail-recursive variants of the util.ml helpers: buffers here reach several 100k elements *)
let map_tr f l = List.rev (List.rev_map f l)
let parse_bytes_tr t = map_tr n_of_int (
  if String.length t > 0 && t.[0] = '@' then begin
    match String.split_on_char ':' (String.sub t 1 (String.length t - 1)) with
    | [len; seed] ->
      let len = int_of_string len and seed = int_of_string seed in
      List.rev (let rec go i acc = if i = len then acc else go (i + 1) (((i * 7 + seed) mod 256) :: acc) in go 0 [])
    | _ -> failwith "bad @ token"
  end else if t = "-" || t = "" then [] else begin
    let n = String.length t / 2 in
    List.rev (let rec go i acc = if i = n then acc else go (i + 1) ((hexval t.[2*i] * 16 + hexval t.[2*i+1]) :: acc) in go 0 [])
  end)
let summ_tr (l : n list) =
  let w = map_tr int_of_n l in
  let rec take k l acc = if k = 0 then List.rev acc else match l with [] -> List.rev acc | x :: r -> take (k - 1) r (x :: acc) in
  Printf.sprintf "%d:%s:%s" (List.length w) (fnv w) (hex_ints (take 12 w []))

let profile () = match Sys.getenv_opt "VERIF_PROFILE" with Some "release" -> Release | _ -> Debug

let op_bmp args = match args with
  | [w; h; bpp; flag; data] ->
    let (_, r) = decompress (profile ()) (n_of_int (int_of_string w)) (n_of_int (int_of_string h))
        (n_of_int (int_of_string bpp)) (flag = "1") (parse_bytes_tr data) in
    (match r with
     | Ok out -> "ok " ^ summ_tr out
     | Err e -> "err:" ^ err_name e
     | Panic -> "panic"
     | Spin -> "spin")
  | _ -> "bad-args"

(* largest allocation of the model, for inspection: bmpa ... -> a=<max> *)
let op_bmpa args = match args with
  | [w; h; bpp; flag; data] ->
    let (l, _) = decompress (profile ()) (n_of_int (int_of_string w)) (n_of_int (int_of_string h))
        (n_of_int (int_of_string bpp)) (flag = "1") (parse_bytes_tr data) in
    Printf.sprintf "a=%d n=%d" (List.fold_left (fun m x -> max m (int_of_n x)) 0 l) (List.length l)
  | _ -> "bad-args"

(* ---- C09: the extracted SPEC (RefRle.v) evaluated next to the model.
   ord16 <w> <h> <stream> <orders>   orders = tokens joined by ',':
     bg.F.n  fg.F.n  setfg.F.n.fg  fgbg.F.n.maskhex  setfgbg.F.n.fg.maskhex  col.F.n.c  img.F.le16hex  dith.F.n.c1.c2
     s1 s2 wh bl      F = s (count in the header) | x (extension byte) | m (mega-mega)
   pl32 <w> <h> <stream> <planes>    planes A/R/G/B joined by '/', lines by ';', segments by ',': r<rawhex|->.<run>  l<run>
   The answer is the model's outcome; ` spec:<why>` is appended when the spec disagrees with the model or with the stream. *)
let nn s = n_of_int (int_of_string s)
let form_of = function "s" -> FShort | "x" -> FExt | "m" -> FMega | _ -> failwith "form"
let rec pairs16 = function lo :: hi :: r -> n_of_int (int_of_n hi * 256 + int_of_n lo) :: pairs16 r | _ -> []
let parse_order tok : form * order0 =
  match String.split_on_char '.' tok with
  | ["bg"; f; n] -> (form_of f, OBg (nn n))
  | ["fg"; f; n] -> (form_of f, OFg (nn n))
  | ["setfg"; f; n; fg] -> (form_of f, OSetFg (nn fg, nn n))
  | ["fgbg"; f; n; m] -> (form_of f, OFgBg (nn n, unhex m))
  | ["setfgbg"; f; n; fg; m] -> (form_of f, OSetFgBg (nn fg, nn n, unhex m))
  | ["col"; f; n; c] -> (form_of f, OColor (nn c, nn n))
  | ["img"; f; px] -> (form_of f, OImage (pairs16 (unhex px)))
  | ["dith"; f; n; c1; c2] -> (form_of f, ODither (nn c1, nn c2, nn n))
  | ["s1"] -> (FShort, OSpecial1) | ["s2"] -> (FShort, OSpecial2)
  | ["wh"] -> (FShort, OWhite) | ["bl"] -> (FShort, OBlack)
  | _ -> failwith ("order " ^ tok)

let outcome_str r = match r with
  | Ok out -> "ok " ^ summ_tr out
  | Err e -> "err:" ^ err_name e
  | Panic -> "panic"
  | Spin -> "spin"

let op_ord16 args = match args with
  | [w; h; stream; orders] ->
    let wn = nn w and hn = nn h in
    let data = parse_bytes_tr stream in
    let (_, r) = decompress (profile ()) wn hn (n_of_int 16) true data in
    let fos = List.map parse_order (String.split_on_char ',' orders) in
    let spec =
      match ser_all fos with
      | None -> " spec:not-serialisable"
      | Some bs when bs <> data -> " spec:stream-differs:" ^ hex bs
      | Some _ ->
        let px = sem wn (List.map snd fos) in
        if List.length px <> int_of_string w * int_of_string h then " spec:pixel-count=" ^ string_of_int (List.length px)
        else begin
          let want = bgra16 (flip_rows wn hn px) in
          match r with
          | Ok out when out = want -> ""
          | Ok _ -> " spec:image-differs:" ^ summ_tr want
          | _ -> " spec:model-not-ok"
        end in
    outcome_str r ^ spec
  | _ -> "bad-args"

let parse_seg tok : pseg =
  if tok.[0] = 'l' then PLong (nn (String.sub tok 1 (String.length tok - 1)))
  else match String.split_on_char '.' (String.sub tok 1 (String.length tok - 1)) with
    | [raw; run] -> PRaw (unhex raw, nn run)
    | _ -> failwith ("seg " ^ tok)
let parse_plane s : pseg list list =
  List.map (fun l -> if l = "" then [] else List.map parse_seg (String.split_on_char ',' l)) (String.split_on_char ';' s)

let op_pl32 args = match args with
  | [w; h; stream; planes] ->
    let wn = nn w and hn = nn h in
    let data = parse_bytes_tr stream in
    let (_, r) = decompress (profile ()) wn hn (n_of_int 32) true data in
    let spec =
      match List.map parse_plane (String.split_on_char '/' planes) with
      | [a; rr; g; b] ->
        if not (plane_ok wn hn a && plane_ok wn hn rr && plane_ok wn hn g && plane_ok wn hn b) then " spec:planes-not-conformant"
        else if ser_planar a rr g b <> data then " spec:stream-differs:" ^ hex (ser_planar a rr g b)
        else begin
          let want = planar_image a rr g b in
          match r with
          | Ok out when out = want -> ""
          | Ok _ -> " spec:image-differs:" ^ summ_tr want
          | _ -> " spec:model-not-ok"
        end
      | _ -> " spec:bad-planes" in
    outcome_str r ^ spec
  | _ -> "bad-args"

let () = main_loop (fun op args -> match op with
  | "bmp" -> op_bmp args
  | "bmpa" -> op_bmpa args
  | "ord16" -> op_ord16 args
  | "pl32" -> op_pl32 args
  | _ -> "unknown-op:" ^ op)
