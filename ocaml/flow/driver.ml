(* C03 driver: the extracted whole-connection model (coq/Flow.v + FlowRun.v on the environment of FlowNlaRun.v) on a `flow` case line; same
   output as harness/src/flow.rs.  The interleaving with the server's replies (s<k>) is obtained from the model
   itself: the run on the script cut before reply k gives what the client has written when reply k is released. *)
let prof () = match Sys.getenv_opt "VERIF_PROFILE" with Some "release" -> Release | _ -> Debug

let utf8_decode (b : int list) : n list =
  let rec go b acc = match b with
    | [] -> List.rev acc
    | c :: r when c < 0x80 -> go r (c :: acc)
    | c :: c1 :: r when c land 0xe0 = 0xc0 -> go r ((((c land 0x1f) lsl 6) lor (c1 land 0x3f)) :: acc)
    | c :: c1 :: c2 :: r when c land 0xf0 = 0xe0 -> go r ((((c land 0x0f) lsl 12) lor ((c1 land 0x3f) lsl 6) lor (c2 land 0x3f)) :: acc)
    | c :: c1 :: c2 :: c3 :: r when c land 0xf8 = 0xf0 ->
      go r ((((c land 0x07) lsl 18) lor ((c1 land 0x3f) lsl 12) lor ((c2 land 0x3f) lsl 6) lor (c3 land 0x3f)) :: acc)
    | _ -> failwith "bad utf8"
  in List.map n_of_int (go b [])
let str s = utf8_decode (unhex_ints s)
let num s = n_of_int (int_of_string s)

type step = SRaw of n list list | STls | SIn of n list list

let parse_step (t : Stdlib.String.t) : step =
  let chunks s = List.map parse_bytes (String.split_on_char '/' s) in
  if t = "T" then STls
  else if String.length t > 2 && String.sub t 0 2 = "R:" then SRaw (chunks (String.sub t 2 (String.length t - 2)))
  else if String.length t > 2 && String.sub t 0 2 = "S:" then SIn (chunks (String.sub t 2 (String.length t - 2)))
  else failwith "bad step"

let rec take k l = if k = 0 then [] else match l with [] -> [] | x :: r -> x :: take (k - 1) r
let rec drop k l = if k = 0 then l else match l with [] -> [] | _ :: r -> drop (k - 1) r

(* the script cut before send number k: every step before it (a T that immediately precedes send k included) *)
let cut_script (steps : step list) (k : int) : step list =
  let rec go steps sent = match steps with
    | [] -> []
    | STls :: r -> STls :: go r sent
    | s :: r -> if sent = k then [] else s :: go r (sent + 1)
  in go steps 0

let streams (steps : step list) : n list list * n list list option =
  let raw = List.concat (List.map (fun s -> match s with SRaw c -> c | _ -> []) steps) in
  let has_tls = List.exists (fun s -> s = STls) steps in
  let post = List.concat (List.map (fun s -> match s with SIn c -> c | _ -> []) steps) in
  (raw, if has_tls then Some post else None)

let ev_str (e : fev) : Stdlib.String.t = match e with
  | FRaw b -> "r:" ^ hex b
  | FTls b -> "t:" ^ hex b
  | FTlsStart true -> "tls"
  | FTlsStart false -> "notls"
  | FBad -> "bad"

let op_flow args = match args with
  | nla :: ram :: auto :: blank :: hash :: check :: w :: h :: layout :: name :: dom :: user :: pw :: upper :: pubkey :: rnd :: order :: nreads :: steps ->
    let steps = List.map parse_step (List.filter (fun t -> String.length t > 0 && t.[0] <> '%') steps) in
    let p = prof () in
    let offered = if nla = "1" then 3 else 1 in
    let k = { c_offered = n_of_int offered; c_ram = (ram = "1"); c_autologon = (auto = "1"); c_width = num w; c_height = num h;
              c_layout = num layout; c_name = str name; c_domain = str dom; c_user = str user; c_password = str pw } in
    let c = { f_pdu = k; f_user_first = (order = "u"); f_check_cert = (check = "1") } in
    let u = str upper in
    let up = fun (_ : n list) -> u in
    let r = parse_bytes rnd in
    (* the NLA leg (coq/FlowNla.v): blank_creds, password hash, the key of the certificate, the client's randomness;
       the model (FlowNlaRun.nla_cssp_env) builds the NTLM state and the restricted flag from the configuration itself.
       flow_impl on this environment IS FlowNla.flow_nla at the concrete functions (C03_nla_run.flow_impl_is_flow_nla) *)
    let nla_p = { nl_blank = (blank = "1"); nl_hash = (if hash <> "-" then Some (parse_bytes hash) else None);
                  nl_pubkey = (if pubkey = "-" then [] else parse_bytes pubkey); nl_nonce = take 8 r; nl_key = drop 8 r } in
    let env = nla_cssp_env up c nla_p in
    let nr = nat_of_int (int_of_string nreads) in
    let run st = let (raw, post) = streams st in flow_impl p env c nr raw post in
    let nsends = List.length (List.filter (fun s -> s <> STls) steps) in
    let full = run steps in
    (* events: what the client has written before each release *)
    let buf = ref [] in
    let seen = ref 0 in
    let add_new (tr : fev list) =
      let fresh = drop !seen tr in
      List.iter (fun e -> buf := ev_str e :: !buf) fresh;
      seen := !seen + List.length fresh in
    for k = 0 to nsends - 1 do
      let r = run (cut_script steps k) in
      add_new r.fl_trace;
      buf := Printf.sprintf "s%d" k :: !buf
    done;
    add_new full.fl_trace;
    let stage = match full.fl_stage with
      | StConnect -> "connect" | StRead i -> Printf.sprintf "read%d" (int_of_nat i) | StShutdown -> "shutdown" in
    let res = match full.fl_res with
      | Ok _ -> "ok" | Err e -> Printf.sprintf "err:%s@%s" (err_name e) stage
      | Panic -> "panic@" ^ stage | Spin -> "spin@" ^ stage in
    let evs = List.rev !buf in
    Printf.sprintf "%s ev=%s" res (if evs = [] then "-" else String.concat "," evs)
  | _ -> "bad-args"

(* ---- the SPEC (coq/RefSequence.v, extracted): the replies of the reference server and the mandated sequence,
   for parameters given on the line; the python reference server's own bytes / sequence are on the same line and
   echoed by the harness, so that the pipeline's diff compares the two references *)
let i x = string_of_int (int_of_n x)
let kind_str (k : kind) : Stdlib.String.t = match k with
  | KRequest -> "req" | KConnectInitial -> "ci" | KErectDomain -> "ed" | KAttachUser -> "au" | KDisconnect -> "disc"
  | KJoin (a, b) -> Printf.sprintf "join.%s.%s" (i a) (i b)
  | KInfo (a, b) -> Printf.sprintf "info.%s.%s" (i a) (i b)
  | KConfirm (a, b, c, d) -> Printf.sprintf "confirm.%s.%s.%s.%s" (i a) (i b) (i c) (i d)
  | KSynchronize (a, b, c, d, e) -> Printf.sprintf "sync.%s.%s.%s.%s.%s" (i a) (i b) (i c) (i d) (i e)
  | KControl (a, b, c, d, e) -> Printf.sprintf "ctl.%s.%s.%s.%s.%s" (i a) (i b) (i c) (i d) (i e)
  | KFontList (a, b, c, d) -> Printf.sprintf "font.%s.%s.%s.%s" (i a) (i b) (i c) (i d)
  | KInput (a, b, c, d) -> Printf.sprintf "input.%s.%s.%s.%s" (i a) (i b) (i c) (i d)

let opt s = if s = "-" then None else Some (num s)
let parse_caps s = if s = "-" then [] else
  List.map (fun c -> match String.split_on_char '.' c with
    | [t; b] -> (num t, parse_bytes b) | _ -> failwith "bad cap") (String.split_on_char ';' s)
let parse_round s = match String.split_on_char ':' s with
  | [sid; src; caps; sess] -> { r_share = num sid; r_source = parse_bytes src; r_caps = parse_caps caps; r_sessid = num sess }
  | _ -> failwith "bad round"
let parse_lic s = match String.split_on_char ':' s with
  | ["v"; fl; bt] -> LicValidClient (num fl, num bt)
  | ["n"; fl; body] -> LicNewLicence (num fl, parse_bytes body)
  | _ -> failwith "bad licence"

let op_refsrv args = match args with
  | order :: sel :: negfl :: src :: uid :: io :: version :: req :: early :: lic :: secfl :: rounds :: _ ->
    let srv = { sv_selected = num sel; sv_neg_flags = num negfl; sv_src_ref = num src; sv_uid = num uid; sv_io = num io;
                sv_version = num version; sv_requested = opt req; sv_early = opt early; sv_licence = parse_lic lic;
                sv_lic_secflags = num secfl;
                sv_rounds = (if rounds = "-" then [] else List.map parse_round (String.split_on_char ',' rounds)) } in
    let uf = (order = "u") in
    Printf.sprintf "ok r=%s k=%s" (String.concat "," (List.map hex (replies srv uf)))
      (String.concat ";" (List.map kind_str (expected_kinds srv uf)))
  | _ -> "bad-args"

(* ---- the SPEC of the CredSSP / NTLM server (coq/RefCredssp.v, extracted) on the messages a client actually wrote:
   refcssp <user> <domain> <nt hash> <upper(user)> <flags> <server challenge> <reserved> <tname len> <tname max> <tname off>
           <tinfo max> <version> <payload before target info> <target info> <payload after> <public key> <msg,msg,..>
   (names as UTF-8 hex).  Prints the server's replies and the state it ends in; gen/c03.py compares them byte for byte
   with the python reference server (gen/credssp.py) that scripted the run of the real client. *)
let state_str (st : cssp_state) : Stdlib.String.t = match st with
  | CsStart -> "start"
  | CsChallenged _ -> "challenged"
  | CsAuthenticated (k, _) -> "authenticated:" ^ hex k
  | CsDone (k, d, u, pw) -> Printf.sprintf "done:%s:%s:%s:%s" (hex k) (hex d) (hex u) (hex pw)
  | CsRefused -> "refused"

let op_refcssp args = match args with
  | [user; dom; nthash; upper; flags; sc; reserved; tnlen; tnmax; tnoff; timax; version; pre; ti; post; pubkey; msgs] ->
    let u = str upper in
    let up = fun (_ : n list) -> u in
    let chal = { c_flags = num flags; c_server_challenge = parse_bytes sc; c_reserved = parse_bytes reserved;
                 c_tname_len = num tnlen; c_tname_max = num tnmax; c_tname_off = num tnoff; c_tinfo_max = num timax;
                 c_version = parse_bytes version; c_pre = parse_bytes pre; c_target_info = parse_bytes ti; c_post = parse_bytes post } in
    let srv = { cs_account = { a_user = str user; a_domain = str dom; a_nthash = parse_bytes nthash };
                cs_challenge = chal; cs_pubkey = parse_bytes pubkey } in
    let ms = if msgs = "-" then [] else List.map parse_bytes (String.split_on_char ',' msgs) in
    let (rs, st) = cssp_serve md5 hmac_md5 up srv CsStart ms in
    Printf.sprintf "ok r=%s st=%s" (if rs = [] then "-" else String.concat "," (List.map hex rs)) (state_str st)
  | _ -> "bad-args"

let () = main_loop (fun op args -> match op with
  | "flow" -> op_flow args
  | "refsrv" -> op_refsrv args
  | "refcssp" -> op_refcssp args
  | _ -> "unknown-op:" ^ op)
