(* C15 driver: the extracted model of the NTLMv2 handshake (coq/Ntlm.v over LayoutsNtlmAuth.v,
   Msg.v, Utf.v, Md4.v, Md5.v, Hmac.v, Rc4.v); same ops and output as harness/src/ntlmauth.rs.
   `verify` runs the extracted SPEC server (coq/RefNlmp.v) on a token. *)
let prof () = match Sys.getenv_opt "VERIF_PROFILE" with Some "release" -> Release | _ -> Debug

let cps (t : Stdlib.String.t) : n list =
  if t = "-" then [] else List.map (fun h -> n_of_int (int_of_string ("0x" ^ h))) (String.split_on_char '.' t)

let out (o : n list outcome) = match o with
  | Ok v -> "ok " ^ hex v | Err e -> "err:" ^ err_name e | Panic -> "panic" | Spin -> "spin"

let up_of (t : Stdlib.String.t) = let u = cps t in fun (_ : n list) -> u

let op_auth a = match a with
  | [mode; dom; user; secret; upper; nonce; key; chal] ->
    let up = up_of upper in
    let p = prof () in
    let st = if mode = "hash" then ntlm_from_hash hmac_md5 up (cps dom) (cps user) (parse_bytes secret)
             else ntlm_new md4 hmac_md5 up (cps dom) (cps user) (cps secret) in
    (match create_negotiate_message p with
     | Ok neg -> out (read_challenge_message hmac_md5 p st neg (parse_bytes chal) (parse_bytes nonce) (parse_bytes key))
     | _ -> "panic")
  | _ -> "bad-args"

(* two handshakes on one Ntlm object: the model's read_challenge_message is a function of the object as created and of
   the CHALLENGE (nothing of one handshake survives into the next) *)
let op_auth2 a = match a with
  | [mode; dom; user; secret; upper; n1; k1; c1; n2; k2; c2] ->
    let r1 = op_auth [mode; dom; user; secret; upper; n1; k1; c1] in
    let r2 = op_auth [mode; dom; user; secret; upper; n2; k2; c2] in
    r1 ^ " / " ^ r2
  | _ -> "bad-args"

let op_prim op a = match op, a with
  | "negotiate", _ -> out (create_negotiate_message (prof ()))
  | "unicode", [s] -> out (Ok (unicode (cps s)))
  | "ntowfv2", [pw; u; d; up] -> out (Ok (ntowfv2 md4 hmac_md5 (up_of up) (cps pw) (cps u) (cps d)))
  | "lmowfv2", [pw; u; d; up] -> out (Ok (lmowfv2 md4 hmac_md5 (up_of up) (cps pw) (cps u) (cps d)))
  | "ntowfv2h", [h; u; d; up] -> out (Ok (ntowfv2_hash hmac_md5 (up_of up) (parse_bytes h) (cps u) (cps d)))
  | "cresp", [a1; a2; a3; a4; a5; a6] ->
    let ((nt, lm), sbk) = compute_response_v2 hmac_md5 (parse_bytes a1) (parse_bytes a2) (parse_bytes a3) (parse_bytes a4) (parse_bytes a5) (parse_bytes a6) in
    Printf.sprintf "ok %s %s %s" (hex nt) (hex lm) (hex sbk)
  | "authmsg", [lm; nt; d; u; w; k; flags] ->
    let b = parse_bytes in
    (match to_vec (prof ()) (authenticate_message_l (b lm) (b nt) (b d) (b u) (b w) (b k) (n_of_int (int_of_string flags))) with
     | Ok h -> "ok " ^ hex (h @ List.init 16 (fun _ -> N0) @ b lm @ b nt @ b d @ b u @ b w @ b k)
     | _ -> "panic")
  (* verify <dom> <user> <nthash> <upper> <negotiate> <challenge> <token>: the extracted spec server *)
  | "verify", [d; u; h; up; neg; chal; tok] ->
    (match server_authenticate hmac_md5 (up_of up) { a_user = cps u; a_domain = cps d; a_nthash = parse_bytes h }
             (parse_bytes neg) (parse_bytes chal) (parse_bytes tok) with
     | Some k -> "accept " ^ hex k | None -> "reject")
  | _ -> "bad-args"

let () = main_loop (fun op args -> match op with
  | "auth" -> op_auth args
  | "auth2" -> op_auth2 args
  | _ -> op_prim op args)
