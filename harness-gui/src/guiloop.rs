// C20: the GUI client's receive thread (launch_rdp_thread of src/bin/mstsc-rs.rs) against a scripted
// in-process TLS server over real loopback TCP.
//
// case : gui <seed> <pre> <gw> <dict> <step>...
//   seed  jitter for the concurrent GUI writer
//   pre   NAME+NAME+... (or -): PDUs served one per TLS record and read synchronously BEFORE the thread
//         starts (activation sequence), so that the thread starts in the wanted protocol state
//   gw    n:ms  a second thread locks the shared client n times, ms apart (+jitter), and try_write()s a
//         pointer event -- the GUI loop's part; 0:0 = none
//   dict  NAME=hex,NAME=hex,...   the bytes of every PDU named in the script
//   steps W:piece+piece+..  ONE server write = one TLS record; piece = NAME | NAME/i/n (i-th of n byte slices)
//         P:ms              server silent for ms
//         I:ms:expect       idle probe: wait (at most 2 s) until `expect` events were forwarded, then watch
//                           the thread for ms: events so far, and whether it is blocked, spinning or gone
//         E:cn|fin|rst      end of connection: TLS close_notify + FIN | FIN without alert | RST
//         S                 the GUI clears the `sync` flag
//         GL | GW | GU | GX  the GUI thread's part, step by step: a helper thread owning a clone of the shared
//                           client executes   GL  lock the client mutex (keeps the guard)
//                                             GW  try_write() a pointer event through the held guard
//                                             GU  drop the guard
//                                             GX  shutdown() through the held guard (main_gui_loop's last statement:
//                                                 client disconnect ultimatum + TLS close_notify)
//                           commands are queued; the step waits until the command has completed, or until it is
//                           clear that it cannot complete now (>= 300 ms and the mutex is held by somebody else)
//         J:ms              how long the final observation waits for the thread to finish (default 3000)
// out  : i:<events>:<exited|blocked|spin|?> ... end:<exited|blocked|spin|?|late> ev=<id.id...> rel=<0|1> in=<n|*>
//        g:ok | g:wait  after every G step: the command completed | is still waiting for the mutex (or queued behind
//        a command that is); in=<n>[+u][+c] = client PDUs the server has seen since the thread started: n input PDUs,
//        u = a disconnect ultimatum, c = TLS close_notify (`*` when the count is not determined by the script: timed
//        writer `gw`, or a thread started before the end of the activation sequence, whose reads answer the server)
//        `?` = CPU share between the thresholds, `late` = finished only during the 5 s grace after the
//        deadline: inconclusive; the scenario is re-run (at most 2 runs) and the last result is reported
//        as it is -- never turned into a pass.   # diagnostics after ` #`
use crate::mstsc_mod::mstsc;
use crate::util;
use native_tls::{Identity, TlsAcceptor, TlsStream};
use rdp::core::client::RdpClient;
use rdp::core::event::{BitmapEvent, PointerButton, PointerEvent, RdpEvent};
use rdp::core::gcc::KeyboardLayout;
use rdp::core::{global, mcs, tpkt, x224};
use rdp::model::link::{Link, Stream};
use std::collections::HashMap;
use std::io::{Read, Write};
use std::net::{TcpListener, TcpStream};
use std::os::unix::io::AsRawFd;
use std::os::unix::thread::JoinHandleExt;
use std::sync::atomic::{AtomicBool, Ordering};
use std::sync::{mpsc, Arc, Mutex};
use std::thread;
use std::time::{Duration, Instant};

const CERT: &[u8] = include_bytes!("../fixtures/cert.pem");
const KEY: &[u8] = include_bytes!("../fixtures/key.pem");
const GRACE_MS: u64 = 5000;
const PROBE_MAX_MS: u64 = 2000;

fn thread_cpu_ns(pt: libc::pthread_t) -> Option<u64> {
    unsafe {
        let mut cid: libc::clockid_t = 0;
        if libc::pthread_getcpuclockid(pt, &mut cid) != 0 { return None; }
        let mut ts: libc::timespec = std::mem::zeroed();
        if libc::clock_gettime(cid, &mut ts) != 0 { return None; }
        Some(ts.tv_sec as u64 * 1_000_000_000 + ts.tv_nsec as u64)
    }
}

struct Server { tls: Option<TlsStream<TcpStream>>, seen: Vec<u8>, eof: bool }

impl Server {
    /// read and discard whatever the client has written so far
    fn drain(&mut self) {
        if let Some(t) = self.tls.as_mut() {
            let _ = t.get_ref().set_read_timeout(Some(Duration::from_millis(2)));
            let mut b = [0u8; 4096];
            loop {
                match t.read(&mut b) {
                    Ok(n) if n > 0 => { self.seen.extend_from_slice(&b[..n]); continue }
                    Ok(_) => { self.eof = true; break }       // close_notify (or FIN) from the client
                    _ => break
                }
            }
        }
    }
    fn write(&mut self, rec: &[u8]) -> bool {
        match self.tls.as_mut() { Some(t) => t.write_all(rec).is_ok() && t.flush().is_ok(), None => false }
    }
    fn end(&mut self, mode: &str) {
        self.drain();
        if let Some(mut t) = self.tls.take() {
            match mode {
                "cn" => { let _ = t.shutdown(); }
                "rst" => unsafe {
                    let l = libc::linger { l_onoff: 1, l_linger: 0 };
                    libc::setsockopt(t.get_ref().as_raw_fd(), libc::SOL_SOCKET, libc::SO_LINGER,
                                     &l as *const _ as *const libc::c_void, std::mem::size_of::<libc::linger>() as libc::socklen_t);
                },
                _ => {}
            }
            drop(t);
        }
    }
}

fn piece(dict: &HashMap<String, Vec<u8>>, p: &str) -> Vec<u8> {
    let mut it = p.split('/');
    let name = it.next().unwrap();
    let b = dict.get(name).unwrap_or_else(|| panic!("unknown pdu"));
    match (it.next(), it.next()) {
        (Some(i), Some(n)) => {
            let i: usize = i.parse().unwrap(); let n: usize = n.parse().unwrap();
            let cut = |k: usize| (b.len() * k) / n;
            b[cut(i)..cut(i + 1)].to_vec()
        }
        _ => b.clone(),
    }
}

fn state_of(finished: bool, cpu_pct: Option<u64>) -> &'static str {
    if finished { return "exited"; }
    // a blocked thread uses no CPU at all; a spinning one gets whatever share the machine leaves it
    match cpu_pct { Some(p) if p >= 25 => "spin", Some(p) if p <= 5 => "blocked", _ => "?" }
}

pub fn op_gui(args: &[&str]) -> String {
    if args.len() < 4 { return "bad-args".to_string(); }
    let mut last = String::new();
    for attempt in 0..2 {
        last = match util::guarded(|| run(args)) { Some(s) => s, None => return "harness-panic".to_string() };
        let head = last.split(" #").next().unwrap_or("");
        let inconclusive = head.split_whitespace().any(|t| t.ends_with(":?") || t.ends_with(":late"));
        if !inconclusive { return format!("{} runs={}", last, attempt + 1); }
    }
    format!("{} runs=2", last)
}

fn run(args: &[&str]) -> String {
    let seed: u64 = args[0].parse().unwrap();
    let pre: Vec<&str> = if args[1] == "-" { vec![] } else { args[1].split('+').collect() };
    let mut gwi = args[2].split(':');
    let gw_n: u32 = gwi.next().unwrap().parse().unwrap();
    let gw_ms: u64 = gwi.next().unwrap().parse().unwrap();
    let mut dict: HashMap<String, Vec<u8>> = HashMap::new();
    if args[3] != "-" {
        for kv in args[3].split(',') {
            let mut it = kv.split('=');
            let k = it.next().unwrap(); let v = it.next().unwrap();
            dict.insert(k.to_string(), util::unhex(v));
        }
    }
    // --- connection: loopback TCP, TLS handshake (server side in a helper thread)
    let listener = TcpListener::bind("127.0.0.1:0").unwrap();
    let addr = listener.local_addr().unwrap();
    let srv = thread::spawn(move || {
        let (s, _) = listener.accept().unwrap();
        s.set_nodelay(true).unwrap();
        let id = Identity::from_pkcs8(CERT, KEY).unwrap();
        TlsAcceptor::new(id).unwrap().accept(s).ok()
    });
    let tcp = TcpStream::connect(addr).unwrap();
    tcp.set_nodelay(true).unwrap();
    let fd = tcp.as_raw_fd();
    let link = match Link::new(Stream::Raw(tcp)).start_ssl(false) { Ok(l) => l, Err(_) => return "tls-failed".to_string() };
    let mut server = Server { tls: srv.join().unwrap(), seen: vec![], eof: false };
    if server.tls.is_none() { return "tls-failed".to_string(); }
    // both TLS-based protocols are exercised: an odd seed runs the session as NLA (Hybrid), an even one as plain TLS
    let proto = if seed % 2 == 1 { x224::Protocols::ProtocolHybrid } else { x224::Protocols::ProtocolSSL };
    let x = x224::Client::verif_new(tpkt::Client::new(link), proto);
    let m = mcs::Client::verif_connected(x, 1004, 1003);
    let g = global::Client::new(1004, 1003, 800, 600, KeyboardLayout::from("us"), "rdpv");
    let mut client = RdpClient::verif_new(m, g);
    // --- activation part served synchronously
    for name in &pre {
        if !server.write(&piece(&dict, name)) { return "pre-write-failed".to_string(); }
        if client.read(|_| {}).is_err() { return "pre-read-failed".to_string(); }
        server.drain();
    }
    // --- the thread under test
    let client = Arc::new(Mutex::new(client));
    let sync = Arc::new(AtomicBool::new(true));
    let (tx, rx) = mpsc::channel::<BitmapEvent>();
    let handle = match mstsc::verif_launch_rdp_thread(fd as usize, Arc::clone(&client), Arc::clone(&sync), tx) {
        Ok(h) => h, Err(_) => return "launch-failed".to_string() };
    let pt = handle.as_pthread_t();
    // --- the GUI's part: input events through the shared client
    let gstop = Arc::new(AtomicBool::new(false));
    let writer = if gw_n > 0 {
        let c = Arc::clone(&client); let stop = Arc::clone(&gstop);
        Some(thread::spawn(move || {
            let mut r = seed.wrapping_mul(6364136223846793005).wrapping_add(1442695040888963407);
            for k in 0..gw_n {
                r = r.wrapping_mul(6364136223846793005).wrapping_add(1442695040888963407);
                thread::sleep(Duration::from_micros(gw_ms * 1000 + (r >> 33) % (gw_ms * 1000 + 1)));
                if stop.load(Ordering::Relaxed) { break; }
                let mut gd = match c.lock() { Ok(g) => g, Err(_) => break };
                if gd.try_write(RdpEvent::Pointer(PointerEvent { x: k as u16, y: 1, button: PointerButton::None, down: false })).is_err() { break; }
            }
        }))
    } else { None };

    // --- the GUI's part, scripted (G steps): lock / try_write / unlock / shutdown executed one by one by a helper thread
    let scripted = args[4..].iter().any(|s| s.starts_with('G'));
    let (gtx, grx) = mpsc::channel::<u8>();
    let (atx, arx) = mpsc::channel::<u8>();
    let helper = if scripted {
        let c = Arc::clone(&client);
        Some(thread::spawn(move || {
            let mut guard = None;
            let mut k: u16 = 0;
            for cmd in grx {
                match cmd {
                    b'L' => { if guard.is_none() { guard = c.lock().ok(); } }
                    b'W' => { if let Some(g) = guard.as_mut() {
                        k += 1;
                        let _ = g.try_write(RdpEvent::Pointer(PointerEvent { x: k, y: 2, button: PointerButton::None, down: false })); } }
                    b'U' => { guard = None; }
                    b'X' => { if let Some(g) = guard.as_mut() { let _ = g.shutdown(); } }
                    _ => break,
                }
                if atx.send(cmd).is_err() { break; }
            }
            drop(guard);
        }))
    } else { drop(grx); drop(atx); None };
    let mut gpending: u32 = 0;
    server.seen.clear(); server.eof = false;

    let mut events: Vec<u16> = vec![];
    let mut join_deadline_ms: u64 = 3000;
    let mut out: Vec<String> = vec![];
    let mut diag: Vec<String> = vec![];
    let pump = |events: &mut Vec<u16>| { while let Ok(b) = rx.try_recv() { events.push(b.dest_left); } };
    for step in &args[4..] {
        let mut it = step.splitn(2, ':');
        let kind = it.next().unwrap();
        let rest = it.next().unwrap_or("");
        while gpending > 0 { match arx.try_recv() { Ok(_) => gpending -= 1, Err(_) => break } }
        match kind {
            "W" => {
                let mut rec = vec![];
                for p in rest.split('+') { rec.extend_from_slice(&piece(&dict, p)); }
                let _ = server.write(&rec);
            }
            "P" => { let ms: u64 = rest.parse().unwrap(); thread::sleep(Duration::from_millis(ms)); server.drain(); }
            "I" => {
                let mut f = rest.split(':');
                let ms: u64 = f.next().unwrap().parse().unwrap();
                let expect: usize = f.next().unwrap().parse().unwrap();
                let t0 = Instant::now();
                loop {
                    pump(&mut events);
                    if events.len() >= expect || handle.is_finished() || t0.elapsed() > Duration::from_millis(PROBE_MAX_MS) { break; }
                    thread::sleep(Duration::from_millis(2));
                }
                server.drain();
                let c0 = thread_cpu_ns(pt); let w0 = Instant::now();
                thread::sleep(Duration::from_millis(ms));
                let c1 = thread_cpu_ns(pt); let w = w0.elapsed().as_nanos() as u64;
                pump(&mut events);
                let pct = match (c0, c1) { (Some(a), Some(b)) if w > 0 => Some((b.saturating_sub(a)) * 100 / w), _ => None };
                out.push(format!("i:{}:{}", events.len(), state_of(handle.is_finished(), pct)));
                diag.push(format!("cpu={:?}", pct));
            }
            "E" => server.end(rest),
            "S" => sync.store(false, Ordering::Relaxed),
            "GL" | "GW" | "GU" | "GX" => {
                let _ = gtx.send(kind.as_bytes()[1]);
                gpending += 1;
                // completed = every command sent so far was acknowledged.  Not completed = the helper is blocked in
                // lock(): decided only when, after 300 ms, somebody else demonstrably holds the mutex (a slow, starved
                // helper on a free mutex is waited for, up to 5 s)
                let t0 = Instant::now();
                loop {
                    match arx.recv_timeout(Duration::from_millis(20)) {
                        Ok(_) => { gpending -= 1; if gpending == 0 { break; } }
                        Err(mpsc::RecvTimeoutError::Timeout) => {
                            if t0.elapsed() > Duration::from_millis(5000) { break; }
                            if t0.elapsed() > Duration::from_millis(300) {
                                let held = match client.try_lock() { Ok(_) => false, Err(std::sync::TryLockError::WouldBlock) => true, Err(_) => false };
                                if held {
                                    // the holder may be the helper itself, its acknowledgement on the way
                                    if let Ok(_) = arx.recv_timeout(Duration::from_millis(40)) { gpending -= 1; if gpending == 0 { break; } else { continue; } }
                                    break;
                                }
                            }
                        }
                        Err(_) => break,
                    }
                }
                out.push(format!("g:{}", if gpending == 0 { "ok" } else { "wait" }));
                diag.push(format!("g{}ms", t0.elapsed().as_millis()));
            }
            "J" => join_deadline_ms = rest.parse().unwrap(),
            _ => return "bad-step".to_string(),
        }
    }
    // --- final observation: does the thread stop by itself?
    let t0 = Instant::now();
    let c0 = thread_cpu_ns(pt);
    while !handle.is_finished() && t0.elapsed() < Duration::from_millis(join_deadline_ms) {
        thread::sleep(Duration::from_millis(if t0.elapsed() < Duration::from_millis(50) { 1 } else { 10 }));
    }
    let finished = handle.is_finished();
    let waited = t0.elapsed();
    let pct = if finished { None } else {
        match (c0, thread_cpu_ns(pt)) { (Some(a), Some(b)) => Some(b.saturating_sub(a) * 100 / (waited.as_nanos() as u64).max(1)), _ => None } };
    let mut end = state_of(finished, pct);
    if !finished && join_deadline_ms >= 1000 && end == "blocked" {
        // not finished and not burning CPU: a real stall, or a starved machine? wait a grace period
        let t1 = Instant::now();
        while !handle.is_finished() && t1.elapsed() < Duration::from_millis(GRACE_MS) { thread::sleep(Duration::from_millis(10)); }
        if handle.is_finished() { end = "late"; }
    }
    let finished = finished && end != "late";
    pump(&mut events);
    diag.push(format!("endcpu={:?} waited={}ms", pct, waited.as_millis()));
    server.drain();
    let (seen, seen_eof) = (server.seen.clone(), server.eof);   // before the clean-up below closes anything
    // --- clean up: stop the writer, then whatever is left of the thread
    gstop.store(true, Ordering::Relaxed);
    let mut rel = 0;
    if !finished {
        sync.store(false, Ordering::Relaxed);
        server.end("fin");
        unsafe { libc::shutdown(fd, libc::SHUT_RDWR); }
        let t1 = Instant::now();
        while !handle.is_finished() && t1.elapsed() < Duration::from_millis(2000) { thread::sleep(Duration::from_millis(5)); }
    }
    if let Some(w) = writer { let _ = w.join(); }
    drop(gtx);          // the helper leaves its command loop, drops its guard (if any) and its clone of the client
    let mut helper_left = false;
    if let Some(h) = helper {
        let t1 = Instant::now();
        while !h.is_finished() && t1.elapsed() < Duration::from_millis(3000) { thread::sleep(Duration::from_millis(2)); }
        if h.is_finished() { let _ = h.join(); } else { helper_left = true; std::mem::forget(h); diag.push("helper-leaked".to_string()); }
    }
    if handle.is_finished() {
        let _ = handle.join();
        if finished && !helper_left && Arc::strong_count(&client) == 1 && client.lock().is_ok() { rel = 1; }
    } else {
        std::mem::forget(handle); // leaked: could not be stopped
        diag.push("leaked".to_string());
    }
    server.end("fin");
    let ids: Vec<String> = events.iter().map(|e| e.to_string()).collect();
    out.push(format!("end:{}", end));
    out.push(format!("ev={}", if ids.is_empty() { "-".to_string() } else { ids.join(".") }));
    out.push(format!("rel={}", rel));
    // client PDUs seen by the server since the thread started (TPKT frames: 0x64 = MCS send data request carrying an
    // input PDU, 0x21 = disconnect provider ultimatum)
    if gw_n > 0 || pre.len() < 5 { out.push("in=*".to_string()); } else {
        let (mut n, mut u, mut i) = (0usize, false, 0usize);
        while i + 4 <= seen.len() && seen[i] == 3 {
            let l = ((seen[i + 2] as usize) << 8) | seen[i + 3] as usize;
            if l < 8 || i + l > seen.len() { break; }
            match seen[i + 7] & 0xfc { 0x64 => n += 1, 0x20 => u = true, _ => {} }
            i += l;
        }
        if i != seen.len() { diag.push(format!("in-unparsed={}", seen.len() - i)); }
        out.push(format!("in={}{}{}", n, if u { "+u" } else { "" }, if seen_eof { "+c" } else { "" }));
    }
    format!("{} # {}", out.join(" "), diag.join(" "))
}
