// Padding allocator: every heap block is surrounded by PAD bytes filled with FILL.
// A read that strays outside a block (e.g. past the decoded image) picks up FILL bytes;
// running the code under test twice with two different FILL values makes such a read
// visible as a difference between the two results.
use std::alloc::{GlobalAlloc, Layout, System};
use std::sync::atomic::{AtomicU8, Ordering};

pub struct Padded;
pub const PAD: usize = 64;
static FILL: AtomicU8 = AtomicU8::new(0xCD);

pub fn set_fill(b: u8) { FILL.store(b, Ordering::Relaxed); }
pub fn fill() -> u8 { FILL.load(Ordering::Relaxed) }

#[inline]
fn geom(l: &Layout) -> (usize, usize) {
    let a = if l.align() < 16 { 16 } else { l.align() };
    let pad = if a > PAD { a } else { PAD };
    (a, pad)
}

unsafe impl GlobalAlloc for Padded {
    unsafe fn alloc(&self, l: Layout) -> *mut u8 {
        let (a, pad) = geom(&l);
        let total = match l.size().checked_add(2 * pad) { Some(t) => t, None => return std::ptr::null_mut() };
        let p = System.alloc(Layout::from_size_align_unchecked(total, a));
        if p.is_null() { return p; }
        let f = FILL.load(Ordering::Relaxed);
        std::ptr::write_bytes(p, f, pad);
        std::ptr::write_bytes(p.add(pad + l.size()), f, pad);
        p.add(pad)
    }
    // NB transmute_vec frees a block under another layout (size rounded down to 4, align 4)
    // than it was allocated with (align 1): only `pad` is derived from the layout here and it
    // is the same for every alignment <= 64; the system free() ignores the size.
    unsafe fn dealloc(&self, p: *mut u8, l: Layout) {
        let (a, pad) = geom(&l);
        System.dealloc(p.sub(pad), Layout::from_size_align_unchecked(l.size() + 2 * pad, a))
    }
}
