// rdpv-gui: harness over the GUI BINARY's source (src/bin/mstsc-rs.rs included as a module).
// Same line protocol as harness/src/main.rs: one case line in, one `@@ <outcome>` line out.
extern crate rdp;
#[path = "../../harness/src/util.rs"]
mod util;
mod padalloc;
mod mstsc_mod;
mod blit;
mod guiloop;

#[global_allocator]
static GLOBAL: padalloc::Padded = padalloc::Padded;

use std::io::{self, BufRead, Write};

fn dispatch(op: &str, args: &[&str]) -> String {
    match op {
        "blit" => blit::op_blit(args),
        "gui" => guiloop::op_gui(args),
        _ => format!("unknown-op:{}", op),
    }
}

fn main() {
    util::silence_panics();
    let stdin = io::stdin();
    // The code under test prints diagnostics on stdout, from its own threads and possibly in a
    // loop (C20): result lines go to a private duplicate of fd 1, fd 1 itself is pointed at /dev/null.
    let mut stdout = unsafe {
        use std::os::unix::io::FromRawFd;
        let keep = libc::dup(1);
        let null = libc::open(b"/dev/null\0".as_ptr() as *const libc::c_char, libc::O_WRONLY);
        if keep < 0 || null < 0 || libc::dup2(null, 1) < 0 { panic!("cannot redirect stdout"); }
        libc::close(null);
        std::fs::File::from_raw_fd(keep)
    };
    for line in stdin.lock().lines() {
        let line = line.unwrap();
        let line = line.trim();
        if line.is_empty() || line.starts_with('#') { continue; }
        let toks: Vec<&str> = line.split_whitespace().collect();
        let r = dispatch(toks[0], &toks[1..]);
        writeln!(stdout, "@@ {}", r).unwrap();
        stdout.flush().unwrap();
    }
}
