// rdpv-gui: harness over the GUI BINARY's source (src/bin/mstsc-rs.rs included as a module).
// Same line protocol as harness/src/main.rs: one case line in, one `@@ <outcome>` line out.
extern crate rdp;
#[path = "../../harness/src/util.rs"]
mod util;
mod padalloc;
mod mstsc_mod;
mod blit;

#[global_allocator]
static GLOBAL: padalloc::Padded = padalloc::Padded;

use std::io::{self, BufRead, Write};

fn dispatch(op: &str, args: &[&str]) -> String {
    match op {
        "blit" => blit::op_blit(args),
        _ => format!("unknown-op:{}", op),
    }
}

fn main() {
    util::silence_panics();
    let stdin = io::stdin();
    let stdout = io::stdout();
    let mut out = io::BufWriter::new(stdout.lock());
    for line in stdin.lock().lines() {
        let line = line.unwrap();
        let line = line.trim();
        if line.is_empty() || line.starts_with('#') { continue; }
        let toks: Vec<&str> = line.split_whitespace().collect();
        let r = dispatch(toks[0], &toks[1..]);
        writeln!(out, "@@ {}", r).unwrap();
        out.flush().unwrap();
    }
}
