// rdpv-gui: harness over the GUI BINARY's source (src/bin/mstsc-rs.rs included as a module).
// Same line protocol as harness/src/main.rs: one case line in, one `@@ <outcome>` line out.
extern crate rdp;
#[path = "../../harness/src/util.rs"]
mod util;
mod padalloc;
mod mstsc_mod;
mod blit;
mod guiloop;

#[global_allocator]
static GLOBAL: padalloc::Padded = padalloc::Padded;

use std::io::{self, BufRead, Write};

fn dispatch(op: &str, args: &[&str]) -> String {
    match op {
        "blit" => blit::op_blit(args),
        "gui" => guiloop::op_gui(args),
        _ => format!("unknown-op:{}", op),
    }
}

/// run one case in a forked child; its outcome line comes back through a pipe. The child is killed after 90 s.
fn isolated(op: &str, args: &[&str]) -> String {
    unsafe {
        let mut fds = [0 as libc::c_int; 2];
        if libc::pipe(fds.as_mut_ptr()) != 0 { return "harness-pipe-failed".to_string(); }
        let pid = libc::fork();
        if pid < 0 { return "harness-fork-failed".to_string(); }
        if pid == 0 {
            libc::close(fds[0]);
            let r = dispatch(op, args);
            let b = r.as_bytes();
            let mut off = 0;
            while off < b.len() {
                let n = libc::write(fds[1], b[off..].as_ptr() as *const libc::c_void, b.len() - off);
                if n <= 0 { break; }
                off += n as usize;
            }
            libc::_exit(0);
        }
        libc::close(fds[1]);
        let mut acc: Vec<u8> = vec![];
        let t0 = std::time::Instant::now();
        let mut timed_out = false;
        loop {
            let left = 90_000i64 - t0.elapsed().as_millis() as i64;
            if left <= 0 { timed_out = true; break; }
            let mut p = libc::pollfd { fd: fds[0], events: libc::POLLIN, revents: 0 };
            let rc = libc::poll(&mut p, 1, left as libc::c_int);
            if rc < 0 { continue; }
            if rc == 0 { timed_out = true; break; }
            let mut buf = [0u8; 65536];
            let n = libc::read(fds[0], buf.as_mut_ptr() as *mut libc::c_void, buf.len());
            if n <= 0 { break; }
            acc.extend_from_slice(&buf[..n as usize]);
        }
        libc::close(fds[0]);
        libc::kill(pid, libc::SIGKILL);
        let mut st = 0;
        libc::waitpid(pid, &mut st, 0);
        if timed_out { return "spin # harness: case did not finish within 90 s".to_string(); }
        if acc.is_empty() { return "crashed".to_string(); }
        String::from_utf8_lossy(&acc).to_string()
    }
}

fn main() {
    util::silence_panics();
    let stdin = io::stdin();
    // The code under test prints diagnostics on stdout, from its own threads and possibly in a
    // loop (C20): result lines go to a private duplicate of fd 1, fd 1 itself is pointed at /dev/null.
    let mut stdout = unsafe {
        use std::os::unix::io::FromRawFd;
        let keep = libc::dup(1);
        let null = libc::open(b"/dev/null\0".as_ptr() as *const libc::c_char, libc::O_WRONLY);
        if keep < 0 || null < 0 || libc::dup2(null, 1) < 0 { panic!("cannot redirect stdout"); }
        libc::close(null);
        std::fs::File::from_raw_fd(keep)
    };
    for line in stdin.lock().lines() {
        let line = line.unwrap();
        let line = line.trim();
        if line.is_empty() || line.starts_with('#') { continue; }
        let toks: Vec<&str> = line.split_whitespace().collect();
        // `gui` cases start real threads of the code under test; one that cannot be stopped (a spinning receive
        // thread) would stay behind, burn a core and distort the CPU measurements of every later case: each such
        // case runs in a forked child (this process is single-threaded here) that is discarded afterwards.
        let r = if toks[0] == "gui" { isolated(toks[0], &toks[1..]) } else { dispatch(toks[0], &toks[1..]) };
        writeln!(stdout, "@@ {}", r).unwrap();
        stdout.flush().unwrap();
    }
}
