// C19: fast_bitmap_transfer of src/bin/mstsc-rs.rs under canaries.
//
// case   : blit <W> <blen> <bseed> <left> <top> <right> <bottom> <bw> <bh> <bpp> <c> <data>
//          W     window width handed to the blit (usize, decimal, any value)
//          blen  number of u32 pixels of the window buffer; pixel j starts as pix0(bseed, j)
//          data  bpp=32,c=0: the DECODED image the blit must see (hex | @len:seed | %npix:seed:extra);
//                the harness finds wire data that BitmapEvent::decompress maps to it (as is, or with
//                the rows flipped: the raw 32-bpp arm of decompress is another property's business);
//                other bpp/c: the wire data as is
// outcome: ok buf=<summ> | err:<Kind> buf=<summ> | panic | oob      (summ over the LE bytes)
//          then ` # w=<0|1> r=<0|1> ch=<idx>:<hex8>,...`  (oracle only: canary damage, read
//          outside the image, and every window pixel that differs from its initial value)
use crate::mstsc_mod::mstsc;
use crate::padalloc;
use crate::util;
use rdp::core::event::BitmapEvent;
use std::mem::ManuallyDrop;

const CANARY: u32 = 0xC0DE_C0DE;

pub fn pix0(seed: u32, j: usize) -> u32 {
    0x8000_0000 | ((seed & 0x7f) << 24) | ((j as u32) & 0x00ff_ffff)
}

fn parse_data(t: &str) -> Vec<u8> {
    if let Some(rest) = t.strip_prefix('@') {
        let mut it = rest.split(':');
        let len: usize = it.next().unwrap().parse().unwrap();
        let seed: usize = it.next().unwrap().parse().unwrap();
        (0..len).map(|i| ((i * 7 + seed) % 256) as u8).collect()
    } else if let Some(rest) = t.strip_prefix('%') {
        let mut it = rest.split(':');
        let n: usize = it.next().unwrap().parse().unwrap();
        let seed: u32 = it.next().unwrap().parse().unwrap();
        let extra: usize = it.next().unwrap().parse().unwrap();
        let mut v = Vec::with_capacity(n * 4 + extra);
        for k in 0..n {
            let p: u32 = 0x4000_0000 | ((seed & 0x3f) << 24) | ((k as u32) & 0x00ff_ffff);
            v.extend_from_slice(&p.to_le_bytes());
        }
        for _ in 0..extra { v.push(0xEE); }
        v
    } else {
        util::unhex(t)
    }
}

struct Geo { w: usize, blen: usize, bseed: u32, l: u16, t: u16, r: u16, b: u16, bw: u16, bh: u16, bpp: u16, c: bool }

struct Run { res: Option<Result<(), String>>, buf: Vec<u32>, canary_hit: bool }

/// How far (in pixels) the code could reach past either buffer for this geometry if its bounds
/// test were wrong: sizes the canary zones. Saturating, clamped.
fn reach(g: &Geo) -> (usize, usize) {
    let rows = (g.b as usize).max(g.t as usize) + 2;
    let cnt = (g.r as usize).max(g.l as usize) + 2;
    let dst = rows.saturating_mul(g.w.min(1 << 16)).saturating_add(g.l as usize).saturating_add(cnt);
    let src = rows.saturating_mul(g.bw as usize).saturating_add(cnt);
    (dst.max(256).min(1 << 22), src.max(64).min(1 << 22))
}

fn run_once(g: &Geo, data: &[u8], fill: u8) -> Run {
    padalloc::set_fill(fill);
    let (dreach, sreach) = reach(g);
    let pre = 256usize;
    let post = dreach;
    // window buffer inside a larger canary region
    let mut region: Vec<u32> = vec![CANARY; pre + g.blen + post];
    for j in 0..g.blen { region[pre + j] = pix0(g.bseed, j); }
    // image bytes: exact length, followed by spare capacity filled with `fill`
    // (the block is also preceded by the allocator's pad), so reads past the end see `fill`
    let spare = sreach * 4;
    let mut d: Vec<u8> = Vec::with_capacity(data.len() + spare);
    d.extend_from_slice(data);
    unsafe { std::ptr::write_bytes(d.as_mut_ptr().add(data.len()), fill, spare); }
    let ev = BitmapEvent {
        dest_left: g.l, dest_top: g.t, dest_right: g.r, dest_bottom: g.b,
        width: g.bw, height: g.bh, bpp: g.bpp, is_compress: g.c, data: d,
    };
    let res = unsafe {
        // a Vec view of the middle of the region; never dropped, never grown by the code under test
        let mut win = ManuallyDrop::new(Vec::from_raw_parts(region.as_mut_ptr().add(pre), g.blen, g.blen));
        let w = g.w;
        let r = util::guarded(|| mstsc::verif_fast_bitmap_transfer(&mut *win, w, ev));
        // the vector itself must be untouched
        if win.as_ptr() != region.as_ptr().add(pre) as *const u32 || win.len() != g.blen { None } else { r }
    };
    let canary_hit = region[..pre].iter().any(|&x| x != CANARY) || region[pre + g.blen..].iter().any(|&x| x != CANARY);
    Run {
        res: res.map(|r| r.map_err(|e| util::err_name(&e))),
        buf: region[pre..pre + g.blen].to_vec(),
        canary_hit,
    }
}

pub fn op_blit(args: &[&str]) -> String {
    if args.len() != 12 { return "bad-args".to_string(); }
    let p16 = |s: &str| -> u16 { s.parse::<u16>().unwrap() };
    let g = Geo {
        w: args[0].parse::<usize>().unwrap(), blen: args[1].parse::<usize>().unwrap(), bseed: args[2].parse::<u32>().unwrap(),
        l: p16(args[3]), t: p16(args[4]), r: p16(args[5]), b: p16(args[6]),
        bw: p16(args[7]), bh: p16(args[8]), bpp: p16(args[9]), c: args[10] != "0",
    };
    let img = parse_data(args[11]);
    let data = match wire_for(&g, &img) { Some(d) => d, None => return "unreachable".to_string() };
    let a = run_once(&g, &data, 0xCD);
    let b = run_once(&g, &data, 0x32);
    let wr = a.canary_hit || b.canary_hit;
    // a result that depends on the bytes AROUND the image has read outside it
    let rd = a.buf != b.buf || a.res != b.res;
    let mut bytes = Vec::with_capacity(a.buf.len() * 4);
    for p in &a.buf { bytes.extend_from_slice(&p.to_le_bytes()); }
    let head = if wr || rd {
        "oob".to_string()
    } else {
        match &a.res {
            None => "panic".to_string(),
            Some(Ok(())) => format!("ok buf={}", summ(&bytes)),
            Some(Err(k)) => format!("err:{} buf={}", k, summ(&bytes)),
        }
    };
    let mut ch = String::new();
    for (j, p) in a.buf.iter().enumerate() {
        if *p != pix0(g.bseed, j) {
            if !ch.is_empty() { ch.push(','); }
            ch.push_str(&format!("{}:{:08x}", j, p));
        }
    }
    if ch.is_empty() { ch.push('-'); }
    format!("{} # w={} r={} ch={}", head, wr as u8, rd as u8, ch)
}

/// wire data that the crate's decompress() turns into `img` (raw 32 bpp only; else `img` itself)
fn wire_for(g: &Geo, img: &[u8]) -> Option<Vec<u8>> {
    if g.bpp != 32 || g.c { return Some(img.to_vec()); }
    let mut cands: Vec<Vec<u8>> = vec![img.to_vec()];
    let row = g.bw as usize * 4;
    if row > 0 && img.len() == row * g.bh as usize {
        let mut f = Vec::with_capacity(img.len());
        for i in (0..g.bh as usize).rev() { f.extend_from_slice(&img[i * row..(i + 1) * row]); }
        cands.push(f);
    }
    for c in cands {
        let ev = BitmapEvent {
            dest_left: g.l, dest_top: g.t, dest_right: g.r, dest_bottom: g.b,
            width: g.bw, height: g.bh, bpp: g.bpp, is_compress: g.c, data: c.clone(),
        };
        if let Some(Ok(d)) = util::guarded(|| ev.decompress()) {
            if &d[..] == img { return Some(c); }
        }
    }
    None
}

fn fnv(b: &[u8]) -> String {
    let mut h: u64 = 0xcbf29ce484222325;
    for x in b { h ^= *x as u64; h = h.wrapping_mul(0x100000001b3); }
    format!("{:016x}", h)
}

fn summ(b: &[u8]) -> String {
    format!("{}:{}:{}", b.len(), fnv(b), util::hex(&b[..b.len().min(12)]))
}
