"""Rust tokenizer for rs2v.py (comments and formatting are dropped here).

Token = (kind, text, line, value)
  kind: 'id' | 'int' | 'float' | 'str' | 'bstr' | 'char' | 'life' | 'p' (punctuation)
  value: int for 'int', bytes for 'bstr', python str for 'str', None otherwise
"""
import re


class RsError(Exception):
    def __init__(self, path, line, msg):
        Exception.__init__(self, "%s:%s: %s" % (path, line, msg))
        self.path, self.line, self.msg = path, line, msg


PUNCT3 = ["<<=", ">>=", "...", "..="]
PUNCT2 = ["=>", "->", "::", "==", "!=", "<=", ">=", "&&", "||", "+=", "-=", "*=", "/=", "%=", "^=", "&=", "|=",
          "<<", ">>", ".."]
PUNCT1 = "+-*/%^!&|=<>@.,;:#$?~()[]{}"

ID_RE = re.compile(r"[A-Za-z_][A-Za-z0-9_]*")
INT_RE = re.compile(r"(0x[0-9a-fA-F_]+|0o[0-7_]+|0b[01_]+|[0-9][0-9_]*)((?:u|i)(?:8|16|32|64|128|size))?")
FLOAT_RE = re.compile(r"[0-9][0-9_]*\.[0-9][0-9_]*(?:[eE][+-]?[0-9]+)?(?:f32|f64)?")
CHAR_RE = re.compile(r"'(\\x[0-9a-fA-F]{2}|\\u\{[0-9a-fA-F]+\}|\\.|[^\\'])'")
LIFE_RE = re.compile(r"'[A-Za-z_][A-Za-z0-9_]*")

ESC = {"n": 10, "r": 13, "t": 9, "\\": 92, "0": 0, "'": 39, '"': 34}


def _unescape(path, line, body, is_bytes):
    out = bytearray() if is_bytes else []
    i = 0
    while i < len(body):
        c = body[i]
        if c != "\\":
            if is_bytes:
                out.extend(c.encode("utf-8"))
            else:
                out.append(c)
            i += 1
            continue
        i += 1
        if i >= len(body):
            raise RsError(path, line, "dangling escape in string literal")
        e = body[i]
        if e == "x":
            v = int(body[i + 1:i + 3], 16)
            i += 3
        elif e == "u":
            j = body.index("}", i)
            v = int(body[i + 2:j], 16)
            i = j + 1
        elif e == "\n":
            # line continuation: skip following whitespace
            i += 1
            while i < len(body) and body[i] in " \t\r\n":
                i += 1
            continue
        elif e in ESC:
            v = ESC[e]
            i += 1
        else:
            raise RsError(path, line, "unknown escape \\%s in string literal" % e)
        if is_bytes:
            out.append(v & 0xFF)
        else:
            out.append(chr(v))
    return bytes(out) if is_bytes else "".join(out)


def tokenize(path, src):
    toks = []
    i, n, line = 0, len(src), 1
    while i < n:
        c = src[i]
        if c == "\n":
            line += 1
            i += 1
            continue
        if c in " \t\r":
            i += 1
            continue
        if src.startswith("//", i):
            j = src.find("\n", i)
            i = n if j < 0 else j
            continue
        if src.startswith("/*", i):
            depth, j = 1, i + 2
            while j < n and depth > 0:
                if src.startswith("/*", j):
                    depth += 1
                    j += 2
                elif src.startswith("*/", j):
                    depth -= 1
                    j += 2
                else:
                    if src[j] == "\n":
                        line += 1
                    j += 1
            if depth:
                raise RsError(path, line, "unterminated block comment")
            i = j
            continue
        # raw strings r"..", r#".."#, br".."
        m = re.match(r"(b?)r(#*)\"", src[i:i + 40])
        if m:
            hashes = m.group(2)
            start = i + len(m.group(0))
            end = src.find('"' + hashes, start)
            if end < 0:
                raise RsError(path, line, "unterminated raw string")
            body = src[start:end]
            l0 = line
            line += body.count("\n")
            if m.group(1):
                toks.append(("bstr", src[i:end + 1 + len(hashes)], l0, body.encode("utf-8")))
            else:
                toks.append(("str", src[i:end + 1 + len(hashes)], l0, body))
            i = end + 1 + len(hashes)
            continue
        if c == '"' or (c == "b" and src.startswith('b"', i)):
            is_b = c == "b"
            j = i + (2 if is_b else 1)
            while j < n and src[j] != '"':
                if src[j] == "\\":
                    j += 1
                j += 1
            if j >= n:
                raise RsError(path, line, "unterminated string literal")
            body = src[i + (2 if is_b else 1):j]
            l0 = line
            line += body.count("\n")
            toks.append(("bstr" if is_b else "str", src[i:j + 1], l0, _unescape(path, l0, body, is_b)))
            i = j + 1
            continue
        if c == "b" and src.startswith("b'", i):
            m = CHAR_RE.match(src, i + 1)
            if not m:
                raise RsError(path, line, "bad byte literal")
            v = _unescape(path, line, m.group(1), True)
            toks.append(("int", src[i:m.end()], line, v[0]))
            i = m.end()
            continue
        if c == "'":
            m = CHAR_RE.match(src, i)
            if m:
                toks.append(("char", m.group(0), line, None))
                i = m.end()
                continue
            m = LIFE_RE.match(src, i)
            if m:
                toks.append(("life", m.group(0), line, None))
                i = m.end()
                continue
            raise RsError(path, line, "stray quote")
        if c.isdigit():
            m = FLOAT_RE.match(src, i)
            if m:
                toks.append(("float", m.group(0), line, None))
                i = m.end()
                continue
            m = INT_RE.match(src, i)
            txt = m.group(1).replace("_", "")
            if txt.startswith("0x"):
                v = int(txt[2:], 16)
            elif txt.startswith("0o"):
                v = int(txt[2:], 8)
            elif txt.startswith("0b"):
                v = int(txt[2:], 2)
            else:
                v = int(txt)
            toks.append(("int", m.group(0), line, v))
            i = m.end()
            continue
        m = ID_RE.match(src, i)
        if m:
            toks.append(("id", m.group(0), line, None))
            i = m.end()
            continue
        for plist, ln in ((PUNCT3, 3), (PUNCT2, 2)):
            s = src[i:i + ln]
            if s in plist:
                toks.append(("p", s, line, None))
                i += ln
                break
        else:
            if c in PUNCT1:
                toks.append(("p", c, line, None))
                i += 1
            else:
                raise RsError(path, line, "unexpected character %r" % c)
    return toks


def int_suffix(text):
    m = INT_RE.match(text)
    return m.group(2) if m else None


OPEN = {"(": ")", "[": "]", "{": "}"}
CLOSE = {")", "]", "}"}


def render(toks):
    """normalised source text of a token slice: canonical spacing, no comments"""
    out = []
    prev = None
    prev_unary = False
    for t in toks:
        k, s = t[0], t[1]
        sp = True
        if prev is None:
            sp = False
        else:
            pk, ps = prev[0], prev[1]
            if s in (",", ";", ")", "]", "?", ".", "::") or ps in ("(", "[", ".", "::"):
                sp = False
            elif ps == "!" and s in ("(", "[", "{"):
                sp = False                      # macro bang
            elif s == "!" and pk == "id":
                sp = False                      # name!
            elif s in ("(", "[") and (pk == "id" or ps in (")", "]", ">")):
                sp = False                      # call / index
            elif ps in ("&", "*", "-", "!") and prev_unary:
                sp = False
        if k == "p" and s in ("&", "*", "-", "!"):
            # unary when it does not follow an operand
            prev_unary = prev is None or (prev[0] == "p" and prev[1] not in (")", "]", "}", "?")) or \
                (prev[0] == "id" and prev[1] in ("return", "in", "as", "if", "else", "match", "mut"))
        else:
            prev_unary = False
        if sp:
            out.append(" ")
        out.append(s)
        prev = t
    return "".join(out)
