#!/usr/bin/env python3
"""Fingerprints of the Rust functions that have a HAND-WRITTEN Gallina model (control flow: deframer, PER, connect
sequence, state machine, CredSSP/NTLM glue, RLE decoders, blit, receive loop, and the message interpreter itself).

usage: fingerprint.py --repo R [--json out.json]      print / write {"<file>::<impl type or mod>::<fn>": sha256}
       fingerprint.py --repo R --pin <pinned.json>    rewrite the committed pins from the current source

A fingerprint is the SHA-256 of the function's normalised token stream (comments, white space and line breaks do not
count; `#[cfg(test)]` modules and `#[test]` functions are skipped).  A changed fingerprint is NOT a violation: `check`
uses it to escalate the correspondence of the properties anchored in that file from the quick to the thorough generator
set on that run (evidence key `model_stale`), so that the cheap tier cannot sleep through an edit to hand-modelled code.
"""
import sys, os, json, hashlib
sys.path.insert(0, os.path.dirname(os.path.abspath(__file__)))
import rslex

FILES = ["src/model/data.rs", "src/model/link.rs", "src/model/unicode.rs", "src/model/rnd.rs", "src/model/error.rs",
         "src/core/tpkt.rs", "src/core/x224.rs", "src/core/per.rs", "src/core/gcc.rs", "src/core/mcs.rs", "src/core/sec.rs",
         "src/core/license.rs", "src/core/capability.rs", "src/core/global.rs", "src/core/client.rs", "src/core/event.rs",
         "src/codec/rle.rs", "src/nla/asn1.rs", "src/nla/cssp.rs", "src/nla/ntlm.rs", "src/nla/rc4.rs", "src/nla/sspi.rs",
         "src/bin/mstsc-rs.rs"]


def _match(toks, i):
    """index just after the group that opens at toks[i] (one of ( [ { )"""
    depth = 0
    while i < len(toks):
        t = toks[i][1] if toks[i][0] == "p" else None
        if t in ("(", "[", "{"): depth += 1
        elif t in (")", "]", "}"):
            depth -= 1
            if depth == 0: return i + 1
        i += 1
    return len(toks)


def items(path, src):
    """yield (qualified name, token texts) for every fn / macro_rules outside test code"""
    toks = rslex.tokenize(path, src)
    out = []

    def walk(lo, hi, ctx):
        i = lo
        attrs = []
        while i < hi:
            k, t = toks[i][0], toks[i][1]
            if k == "p" and t == "#":
                j = i + 1
                if j < hi and toks[j][1] == "!": j += 1
                if j < hi and toks[j][1] == "[":
                    e = _match(toks, j)
                    attrs.append("".join(x[1] for x in toks[j + 1:e - 1]))
                    i = e
                    continue
            if k == "id" and t == "macro_rules" and i + 2 < hi and toks[i + 1][1] == "!":
                name = toks[i + 2][1]
                j = i + 3
                e = _match(toks, j)
                out.append(("::".join(ctx + ["macro " + name]), [x[1] for x in toks[i:e]]))
                i = e; attrs = []
                continue
            if k == "id" and t in ("mod", "impl", "trait"):
                # find the opening brace (or `;` for `mod x;`)
                j = i + 1
                while j < hi and toks[j][1] not in ("{", ";"): j += 1
                if j >= hi or toks[j][1] == ";":
                    i = j + 1; attrs = []
                    continue
                e = _match(toks, j)
                test = any(a.replace(" ", "") in ("cfg(test)",) for a in attrs)
                if not test:
                    head = [x[1] for x in toks[i + 1:j]]
                    if t == "mod": name = head[0]
                    else:
                        # impl [<..>] [Trait for] Type [<..>] : take the last identifier path before generics / where
                        h = []
                        depth = 0
                        for x in head:
                            if x == "<": depth += 1
                            elif x == ">": depth -= 1
                            elif depth == 0: h.append(x)
                        if "where" in h: h = h[:h.index("where")]
                        name = (h[h.index("for") + 1] if "for" in h else (h[0] if h else "?"))
                        if "for" in h: name = name + "(" + h[0] + ")"
                    walk(j + 1, e - 1, ctx + [name])
                i = e; attrs = []
                continue
            if k == "id" and t == "fn" and i + 1 < hi and toks[i + 1][0] == "id":
                name = toks[i + 1][1]
                j = i + 2
                while j < hi and toks[j][1] not in ("{", ";"):
                    if toks[j][1] in ("(", "["): j = _match(toks, j)
                    else: j += 1
                if j < hi and toks[j][1] == "{":
                    e = _match(toks, j)
                else:
                    e = j + 1
                test = any(a.replace(" ", "") in ("test", "cfg(test)") for a in attrs)
                if not test:
                    out.append(("::".join(ctx + [name]), [x[1] for x in toks[i:e]]))
                i = e; attrs = []
                continue
            if k == "p" and t in ("{", "(", "["):
                # a block that is not an item we know (struct body, enum body, use list, const initialiser ...)
                i = _match(toks, i); attrs = []
                continue
            if k == "p" and t == ";": attrs = []
            i += 1

    walk(0, len(toks), [])
    return out


def fingerprints(repo):
    fp = {}
    for f in FILES:
        p = os.path.join(repo, f)
        if not os.path.exists(p): continue
        seen = {}
        for name, texts in items(f, open(p, encoding="utf-8").read()):
            n = seen.get(name, 0); seen[name] = n + 1
            key = "%s::%s" % (f, name) + ("#%d" % n if n else "")
            fp[key] = hashlib.sha256(" ".join(texts).encode()).hexdigest()[:16]
    return fp


def main():
    a = sys.argv[1:]
    repo = a[a.index("--repo") + 1] if "--repo" in a else "/repo"
    fp = fingerprints(repo)
    if "--pin" in a:
        path = a[a.index("--pin") + 1]
        json.dump(fp, open(path, "w"), indent=0, sort_keys=True)
        print("pinned %d functions -> %s" % (len(fp), path))
    elif "--json" in a:
        json.dump(fp, open(a[a.index("--json") + 1], "w"), indent=0, sort_keys=True)
    else:
        for k in sorted(fp): print(fp[k], k)


if __name__ == "__main__":
    main()
