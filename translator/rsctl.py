"""Control-code extractor for rs2v.py: state machines, dispatch tables and numeric guards.

For each targeted Rust function (table ITEMS) a NORMAL FORM is computed from the parsed body:

  arms      the `match self.state { .. }` of global::Client::read         -> Coq `list Ctl.arm`
  lguards   the guards at the head of the loop of read_data_pdu            -> `list Ctl.lguard`
  gate      the `match self.state` gate of write_input_event               -> `Ctl.gate`
  dispatch  `match Enum::try_from(cast!(.., x["f"])?)? { V => layout(), .. }` -> `Ctl.dispatch`
  tree      a header parser run symbolically (tpkt / mcs Client::read)     -> `Ctl.ctree` / `list (string * Ctl.ctree)`
  strtable  `match s { "k" => Enum::V, .. }`                                -> `Ctl.strtable`

Comments, formatting, names of locals, the order of disjoint match arms, `==`/`!=` with swapped branches,
widening casts and helper functions without parameters do not matter.  Anything inside a targeted function
that is not understood raises CtlError: the item is reported as not translated (fail closed)."""
import os, re
from rslex import RsError, render, tokenize
from rsparse import Parser, Node
from rslayout import INT_BITS, strip, const_int


class CtlError(RsError):
    pass


# ------------------------------------------------------------------------------ locating functions
class FnInfo(object):
    def __init__(self, file, path, ty, name, line):
        self.file, self.path, self.ty, self.name, self.line = file, path, ty, name, line
        self.params = []       # (name, type text)
        self.ret = ""
        self.body = None
        self.toks = None

    @property
    def qual(self):
        return (self.ty + "::" if self.ty else "") + self.name


class CtlSource(object):
    """all functions of one Rust file, keyed by (impl type | None, name); file-level integer constants"""
    def __init__(self, key, path, toks):
        self.key, self.path, self.toks = key, path, toks
        self.fns = {}
        self.consts = {}
        self.scan()

    def is_(self, i, s):
        return i < len(self.toks) and self.toks[i][0] in ("p", "id") and self.toks[i][1] == s

    def scan(self):
        toks, n = self.toks, len(self.toks)
        stack = []            # one entry per open `{`: impl type name or None
        i = 0
        attrs = []
        pending_impl = None
        while i < n:
            k, s = toks[i][0], toks[i][1]
            if k == "p" and s == "#" and (self.is_(i + 1, "[") or (self.is_(i + 1, "!") and self.is_(i + 2, "["))):
                j = i + 1 + (1 if self.is_(i + 1, "!") else 0)
                p = Parser(self.path, toks, j)
                p.balanced()
                attrs.append(render(toks[j + 1:p.p - 1]).replace(" ", ""))
                i = p.p
                continue
            if k == "id" and s == "mod" and self.is_(i + 2, "{"):
                if any(a.startswith("cfg(test)") for a in attrs):
                    p = Parser(self.path, toks, i + 2)
                    p.balanced()
                    i = p.p
                else:
                    stack.append(None)
                    i += 3
                attrs = []
                continue
            if k == "id" and s == "macro_rules":
                j = i + 1
                while j < n and not (toks[j][0] == "p" and toks[j][1] in ("{", "(", "[")):
                    j += 1
                p = Parser(self.path, toks, j)
                p.balanced()
                i = p.p
                attrs = []
                continue
            if k == "id" and s == "impl":
                # impl [<..>] [Trait [<..>] for] Type [<..>] [where ..] {
                p = Parser(self.path, toks, i + 1)
                if p.at("<"):
                    p.skip_generics()
                names = []
                while not p.at("{"):
                    if p.at_kind("eof") or p.at(";"):
                        raise CtlError(self.path, toks[i][2], "impl without a body")
                    if p.at("<"):
                        p.skip_generics()
                        continue
                    if p.at("where"):
                        while not p.at("{"):
                            if p.at("<"):
                                p.skip_generics()
                            else:
                                p.p += 1
                        break
                    t = p.peek()
                    if t[0] == "id":
                        names.append(t[1])
                    p.p += 1
                if "for" in names:
                    names = names[names.index("for") + 1:]
                ty = names[-1] if names else None
                stack.append(ty)
                i = p.p + 1
                attrs = []
                continue
            if k == "id" and s == "const" and i + 1 < n and toks[i + 1][0] == "id" and self.is_(i + 2, ":"):
                # const NAME: T = expr;
                p = Parser(self.path, toks, i + 3)
                try:
                    p.parse_type()
                    if p.eat("="):
                        e = p.expr()
                        v = const_int(None, e)
                        if v is not None and p.at(";"):
                            self.consts[toks[i + 1][1]] = v
                except RsError:
                    pass
                while i < n and not self.is_(i, ";"):
                    i += 1
                attrs = []
                continue
            if k == "id" and s == "fn" and i + 1 < n and toks[i + 1][0] == "id":
                test = any(a in ("test", "cfg(test)") for a in attrs)
                i = self.scan_fn(i, stack[-1] if stack else None, test)
                attrs = []
                continue
            if k == "p" and s == "{":
                stack.append(None)
                i += 1
                attrs = []
                continue
            if k == "p" and s == "}":
                if stack:
                    stack.pop()
                i += 1
                attrs = []
                continue
            if k == "id" and s in ("pub", "crate", "unsafe", "extern", "async") or (k == "p" and s in ("(", ")")):
                i += 1
                continue
            attrs = []
            i += 1

    def scan_fn(self, i, ty, test):
        toks = self.toks
        name = toks[i + 1][1]
        p = Parser(self.path, toks, i + 2)
        if p.at("<"):
            p.skip_generics()
        if not p.at("("):
            raise CtlError(self.path, toks[i][2], "fn %s: expected parameter list" % name)
        lo, hi = p.balanced()
        r0 = p.p
        while not (p.at("{") or p.at(";")):
            if p.at_kind("eof"):
                raise CtlError(self.path, toks[i][2], "fn %s: no body" % name)
            if p.at("<"):
                p.skip_generics()
            elif p.at("(") or p.at("["):
                p.balanced()
            else:
                p.p += 1
        ret = render(toks[r0:p.p])
        if p.at(";"):
            return p.p + 1
        b0 = p.p
        p.balanced()
        end = p.p
        if test:
            return end
        f = FnInfo(self.key, self.path, ty, name, toks[i][2])
        f.ret = ret[2:].strip() if ret.startswith("->") else ret
        f.ret = f.ret.split(" where ")[0].strip()
        f.span = (lo, hi, b0, end)
        f.toks = toks
        if (ty, name) not in self.fns:
            self.fns[(ty, name)] = f
        else:
            self.fns[(ty, name)].dup = True
        return end

    def get(self, ty, name):
        """the parsed function; bodies are parsed lazily (only the targeted functions and their helpers)"""
        f = self.fns.get((ty, name))
        if f is None:
            return None
        if getattr(f, "dup", False):
            raise CtlError(self.path, f.line, "two functions named %s in this file" % f.qual)
        if f.body is None:
            lo, hi, b0, end = f.span
            q = Parser(self.path, self.toks, lo, hi)
            while q.p < q.hi:
                if q.at("&") or q.at("self") or (q.at("mut") and q.at("self", 1)):
                    while q.p < q.hi and not q.at(","):
                        q.p += 1
                    q.eat(",")
                    continue
                q.eat("mut")
                pn = q.ident()
                q.expect(":")
                pt = q.parse_type()
                f.params.append((pn, pt))
                if q.p < q.hi:
                    q.expect(",")
            f.body = Parser(self.path, self.toks, b0, end, loops=True).block()
        return f


# ------------------------------------------------------------------------------ small AST helpers
def walk(n, fn):
    """pre-order traversal of every Node reachable from n"""
    if isinstance(n, Node):
        fn(n)
        for k, v in n.__dict__.items():
            if k in ("k", "i", "j", "line"):
                continue
            walk(v, fn)
    elif isinstance(n, (list, tuple)):
        for x in n:
            walk(x, fn)
    elif isinstance(n, dict):
        for x in n.values():
            walk(x, fn)


def peel(e):
    """strip parentheses, single-expression blocks, `?`, `&`, `&mut`, `*`"""
    while True:
        e = strip(e)
        if e.k == "Try":
            e = e.e
        elif e.k == "Unary" and e.op in ("&", "*"):
            e = e.e
        else:
            return e


def path_segs(e):
    e = strip(e)
    return e.segs if e.k == "Path" else None


def is_path(e, *segs):
    s = path_segs(e)
    return s is not None and list(s[-len(segs):]) == list(segs)


def is_self_field(e, name):
    e = strip(e)
    return e.k == "Field" and e.name == name and is_path(e.e, "self") and len(path_segs(e.e)) == 1


class Ex(object):
    """extraction context of one targeted function"""
    def __init__(self, world, src, fn):
        self.w, self.src, self.fn = world, src, fn
        self.locals = self.collect_locals()

    def err(self, node, msg):
        line = node.line if isinstance(node, Node) else (node if isinstance(node, int) else self.fn.line)
        raise CtlError(self.fn.path, line, "%s: %s" % (self.fn.qual, msg))

    def text(self, n):
        return render(self.fn.toks[n.i:n.j])

    def collect_locals(self):
        names = []

        def add(x):
            if x not in names and x not in ("self", "_"):
                names.append(x)
        for pn, _ in self.fn.params:
            add(pn)

        def visit(n):
            if n.k in ("Let", "IfLet", "For"):
                for x in n.names:
                    add(x)
            elif n.k == "Closure":
                for x in n.params:
                    add(x)
            elif n.k == "Match":
                for pat, _ in n.arms:
                    for t in pat:
                        if t[0] == "id" and t[1][0].islower() and t[1] not in ("mut", "ref", "if"):
                            # lower-case identifiers of a pattern that are not path segments
                            add(t[1])
        walk(self.fn.body, visit)
        return names

    def norm(self, n):
        """normalised source text: canonical spacing, no comments, locals renamed v0 v1 .. in binding order,
        string literals (messages) blanked except field keys x["key"]"""
        toks = self.fn.toks[n.i:n.j] if isinstance(n, Node) else n
        out = []
        for x, t in enumerate(toks):
            if t[0] == "id" and t[1] in self.locals and not (x > 0 and toks[x - 1][1] in (".", "::")) \
                    and not (x + 1 < len(toks) and toks[x + 1][1] == "::"):
                out.append(("id", "v%d" % self.locals.index(t[1]), t[2], None))
            elif t[0] == "str" and not (x > 0 and toks[x - 1][1] == "[" and x + 1 < len(toks) and toks[x + 1][1] == "]"):
                out.append(("str", '"_"', t[2], "_"))
            else:
                out.append(t)
        return render(out)

    # ---------------------------------------------------------------- constants
    def enum_of(self, name, at):
        e = self.w.find_enum(self.fn.file, name) if self.fn.file in self.w.sources else None
        if e is None:
            hits = [x for k in sorted(self.w.sources) for x in self.w.sources[k].enums if x.name == name]
            if len(hits) == 1:
                e = hits[0]
        if e is None:
            self.err(at, "enum %s not found (or ambiguous) in the translated files" % name)
        return e

    def variant(self, e, at, need_clike=True):
        """Enum::Variant path -> (enum, variant, value)"""
        s = path_segs(e)
        if s is None or len(s) < 2:
            self.err(at, "`%s` is not an Enum::Variant path" % self.text(e))
        en = self.enum_of(s[-2], at)
        v = en.value(s[-1])
        if v is None:
            self.err(at, "enum %s has no variant %s" % (en.name, s[-1]))
        if need_clike and not en.clike:
            self.err(at, "enum %s is not C-like" % en.name)
        return en, s[-1], v

    def const(self, e):
        """integer constant: literals, Enum::V as uN, file-level consts, + - * | & << >>; None if not constant"""
        e = strip(e)
        if e.k == "Int":
            return e.v
        if e.k == "Cast":
            inner = strip(e.e)
            if inner.k == "Path" and len(inner.segs) >= 2 and e.ty in INT_BITS:
                try:
                    _, _, v = self.variant(inner, e)
                except CtlError:
                    return None
                return v & ((1 << INT_BITS[e.ty]) - 1)
            v = self.const(e.e)
            if v is None or e.ty not in INT_BITS:
                return None
            return v & ((1 << INT_BITS[e.ty]) - 1)
        if e.k == "Path" and len(e.segs) == 1 and e.segs[0] in self.src.consts and e.segs[0] not in self.locals:
            return self.src.consts[e.segs[0]]
        if e.k == "Binary":
            a, b = self.const(e.l), self.const(e.r)
            if a is None or b is None:
                return None
            from rslayout import binop
            return binop(e.op, a, b)
        return None

    # ---------------------------------------------------------------- errors
    def err_kind(self, e, depth=0):
        """`Err(..)`/error value expression -> the RdpErrorKind named in it (helper functions without parameters
        of the same file are looked through); None if there is none"""
        kinds = []

        def visit(n):
            if n.k == "Path" and len(n.segs) >= 2 and n.segs[-2] == "RdpErrorKind":
                kinds.append(n.segs[-1])
            elif n.k == "Call" and depth < 2:
                s = path_segs(n.fn)
                if s and len(s) == 1 and not n.args:
                    h = self.src.get(None, s[0]) or self.src.get(self.fn.ty, s[0])
                    if h is not None and not h.params:
                        k = Ex(self.w, self.src, h).err_kind(h.body, depth + 1)
                        if k:
                            kinds.append(k)
        walk(e, visit)
        ks = sorted(set(kinds))
        if len(ks) == 1:
            return ks[0]
        return None

    def result(self, e):
        """classification of a result expression: ('err', kind) | ('ok', inner node) | None"""
        e = strip(e)
        if e.k == "Return" and e.e is not None:
            return self.result(e.e)
        if e.k == "Call" and is_path(e.fn, "Err") and len(e.args) == 1:
            k = self.err_kind(e.args[0])
            if k is None:
                self.err(e, "cannot tell the RdpErrorKind of `%s`" % self.text(e))
            return ("err", k)
        if e.k == "Call" and is_path(e.fn, "Ok") and len(e.args) == 1:
            return ("ok", e.args[0])
        return None

    # ---------------------------------------------------------------- patterns
    def pat_alts(self, pat, at):
        """match-arm pattern tokens -> list of alternatives; each alternative = (path segs | '_' | ('str', s) | ('int', v), binder names)"""
        if any(t[0] == "id" and t[1] == "if" for t in pat):
            self.err(at, "match guard `%s` is outside the supported subset" % render(pat))
        alts, cur, depth = [], [], 0
        for t in pat:
            if t[0] == "p" and t[1] in ("(", "[", "{"):
                depth += 1
            elif t[0] == "p" and t[1] in (")", "]", "}"):
                depth -= 1
            if depth == 0 and t[0] == "p" and t[1] == "|":
                alts.append(cur)
                cur = []
            else:
                cur.append(t)
        alts.append(cur)
        out = []
        for a in alts:
            if not a:
                self.err(at, "empty pattern alternative")
            if len(a) == 1 and a[0][1] == "_":
                out.append(("_", []))
            elif len(a) == 1 and a[0][0] == "str":
                out.append((("str", a[0][3]), []))
            elif len(a) == 1 and a[0][0] == "int":
                out.append((("int", a[0][3]), []))
            else:
                segs, x = [], 0
                while x < len(a) and (a[x][0] == "id" or a[x][1] == "::"):
                    if a[x][0] == "id":
                        segs.append(a[x][1])
                    x += 1
                binders = []
                if x < len(a):
                    if a[x][1] != "(" or a[-1][1] != ")":
                        self.err(at, "pattern `%s` is outside the supported subset" % render(a))
                    parts, cur2, d2 = [], [], 0
                    for t in a[x + 1:-1]:
                        if t[1] in ("(", "["):
                            d2 += 1
                        elif t[1] in (")", "]"):
                            d2 -= 1
                        if d2 == 0 and t[1] == ",":
                            parts.append(cur2)
                            cur2 = []
                        else:
                            cur2.append(t)
                    if cur2:
                        parts.append(cur2)
                    for pz in parts:
                        ids = [t[1] for t in pz if t[0] == "id" and t[1] not in ("mut", "ref")]
                        if len(ids) != 1 or any(t[0] == "p" for t in pz):
                            self.err(at, "pattern `%s` is outside the supported subset" % render(a))
                        binders.append(ids[0])
                if not segs or not segs[-1][0].isupper():
                    self.err(at, "pattern `%s` is outside the supported subset" % render(a))
                out.append((segs, binders))
        return out


# ============================================================================== state machine: match self.state { .. }
def block_parts(b):
    """(stmts, tail) of a block; a trailing expression statement without value counts as a statement"""
    b = b if b.k == "Block" else Node("Block", b.i, b.j, b.line, stmts=[], tail=b)
    return list(b.stmts), b.tail


def state_match(ex, body):
    """the function body is `[stmts;] match self.state { .. }`: returns (pre stmts, Match node)"""
    stmts, tail = block_parts(body)
    m = strip(tail) if tail is not None else None
    if m is None and stmts and stmts[-1].k == "ExprStmt":
        m = strip(stmts[-1].e)
        stmts = stmts[:-1]
    if m is None or m.k != "Match" or not is_self_field(m.e, "state"):
        ex.err(body, "the body is not `match self.state { .. }`")
    return stmts, m


def state_enum(ex, m):
    """the enum of the states: taken from the first path pattern"""
    for pat, _ in m.arms:
        for alt, _b in ex.pat_alts(pat, m):
            if alt != "_" and isinstance(alt, list) and len(alt) >= 2:
                return ex.enum_of(alt[-2], m)
    ex.err(m, "no state pattern of the form Enum::Variant")


def expand_arms(ex, m, en):
    """[(variant name, arm body, binders)] in enum order; wildcard expanded; every variant covered exactly once"""
    seen = {}
    for pat, body in m.arms:
        for alt, binders in ex.pat_alts(pat, body):
            if alt == "_":
                for v, _x, _e in en.variants:
                    if v not in seen:
                        seen[v] = (body, [])
                continue
            if not isinstance(alt, list) or len(alt) < 2 or alt[-2] != en.name:
                ex.err(body, "pattern is not a variant of %s" % en.name)
            if en.value(alt[-1]) is None and alt[-1] not in [v[0] for v in en.variants]:
                ex.err(body, "enum %s has no variant %s" % (en.name, alt[-1]))
            if alt[-1] not in seen:          # first matching arm wins
                seen[alt[-1]] = (body, binders)
    out = []
    for v, _x, _e in en.variants:
        if v not in seen:
            ex.err(m, "variant %s::%s is not covered" % (en.name, v))
        out.append((v, seen[v][0], seen[v][1]))
    return out


def action_of(ex, st):
    """a statement of a `then` block: `self.f(args)?;` -> "f" ; `self.state = Enum::V;` -> "state=V" """
    e = st.e if st.k == "ExprStmt" else None
    if e is None:
        ex.err(st, "statement `%s` is outside the supported subset" % ex.text(st))
    e = strip(e)
    if e.k == "Assign" and e.op == "=" and is_self_field(e.lhs, "state"):
        s = path_segs(e.rhs)
        if s is None or len(s) < 2:
            ex.err(st, "state assigned something that is not Enum::Variant")
        ex.variant(e.rhs, st)
        return "state=" + s[-1]
    c = peel(e)
    if c.k == "MCall" and is_path(c.recv, "self") and len(path_segs(c.recv)) == 1:
        return c.name
    if c.k == "Macro" and c.name in ("println", "print", "eprintln", "debug", "info", "warn"):
        return None
    ex.err(st, "statement `%s` is outside the supported subset" % ex.text(st))


def arg_text(ex, a):
    a = peel(a)
    if a.k == "Path" and len(a.segs) == 1 and a.segs[0] in ex.locals:
        return "_"
    return ex.norm(a)


def payload_arg(ex, a, payload_names):
    """the stream argument: `&mut try_let!(tpkt::Payload::Raw, payload)?` -> "Raw"; a binder of the payload match -> its kind"""
    a = peel(a)
    if a.k == "Macro" and a.name == "try_let":
        mm = re.match(r"^(?:\w+\s*::\s*)*Payload\s*::\s*(\w+)\s*,\s*(\w+)$", a.raw)
        if not mm:
            ex.err(a, "try_let!(%s) is not a payload kind test" % a.raw)
        return mm.group(1)
    if a.k == "Path" and len(a.segs) == 1 and a.segs[0] in payload_names:
        return payload_names[a.segs[0]]
    return None


def handler_call(ex, e, payload_names):
    """self.<handler>(stream, args..)[?] -> (name, payload kind, [arg texts])"""
    c = peel(e)
    if not (c.k == "MCall" and is_path(c.recv, "self") and len(path_segs(c.recv)) == 1 and c.args):
        ex.err(e, "`%s` is not a call of a handler method on the payload" % ex.text(e))
    kind = payload_arg(ex, c.args[0], payload_names)
    if kind is None:
        ex.err(e, "first argument of %s is not the payload stream" % c.name)
    return c.name, kind, [arg_text(ex, a) for a in c.args[1:]]


def is_ok_unit(e):
    e = strip(e)
    return e.k == "Call" and is_path(e.fn, "Ok") and len(e.args) == 1 and strip(e.args[0]).k == "Tuple" and not strip(e.args[0]).elems


def x_arms(ex):
    """global::Client::read"""
    pre, m = state_match(ex, ex.fn.body)
    if pre:
        ex.err(pre[0], "statement before `match self.state`")
    en = state_enum(ex, m)
    rows = []
    for v, body, _b in expand_arms(ex, m, en):
        stmts, tail = block_parts(body if body.k == "Block" else body)
        t = strip(tail) if tail is not None else None
        if t is not None and t.k == "Match" and not stmts:
            # match payload { Payload::Raw(s) => self.h(&mut s), Payload::FastPath(_, s) => self.g(&mut s, cb) }
            sub = []
            for pat, b in t.arms:
                for alt, binders in ex.pat_alts(pat, b):
                    if alt == "_" or not isinstance(alt, list) or "Payload" not in alt:
                        ex.err(b, "payload pattern `%s` is outside the supported subset" % render(pat))
                    names = dict((x, alt[-1]) for x in binders)
                    h, kind, args = handler_call(ex, b, names)
                    sub.append((alt[-1], h, args))
            for kind, h, args in sorted(sub):
                rows.append((v, kind, h, args, [], [], "tail"))
            continue
        # [if self.h(&mut try_let!(Payload::Raw, payload)?, args)? { then }] [after;] Ok(())
        if t is None or not is_ok_unit(t):
            ex.err(body, "arm %s does not end in Ok(())" % v)
        if not stmts or stmts[0].k != "ExprStmt" or strip(stmts[0].e).k != "If":
            ex.err(body, "arm %s does not start with `if self.<handler>(..)? { .. }`" % v)
        iff = strip(stmts[0].e)
        if iff.els is not None:
            ex.err(iff, "arm %s: `else` branch is outside the supported subset" % v)
        h, kind, args = handler_call(ex, iff.c, {})
        ts, tt = block_parts(iff.then)
        if tt is not None:
            ex.err(tt, "arm %s: value in the `then` block" % v)
        then = [a for a in (action_of(ex, s) for s in ts) if a]
        after = [a for a in (action_of(ex, s) for s in stmts[1:]) if a]
        rows.append((v, kind, h, args, then, after, "unit"))
    return ("arms", rows)


# ============================================================================== loop guards (read_data_pdu)
def origin_of(ex, name, scope_stmts):
    """the head call of the initialiser of the innermost `let name = ..` in scope"""
    for st in reversed(scope_stmts):
        if st.k == "Let" and name in st.names and st.init is not None:
            c = peel(st.init)
            if c.k == "Call" and path_segs(c.fn):
                return "::".join(path_segs(c.fn))
            if c.k == "MCall":
                return "." + c.name
            return ex.norm(st.init)
    return "?"


def x_lguards(ex):
    """the first `for` loop of the function: guards `if x.f ==/!= Enum::V { actions; continue }` at the head of its body"""
    stmts, tail = block_parts(ex.fn.body)
    loops = [strip(s.e) for s in stmts if s.k == "ExprStmt" and strip(s.e).k == "For"]
    # every assignment to self.state must be inside one of the guards found
    nassign = []
    walk(ex.fn.body, lambda n: nassign.append(n) if n.k == "Assign" and is_self_field(n.lhs, "state") else None)
    if len(loops) != 1:
        ex.err(ex.fn.body, "expected exactly one `for` loop")
    bstmts, _t = block_parts(loops[0].body)
    out, seen = [], []
    covered = []
    for x, st in enumerate(bstmts):
        if st.k == "Let":
            seen.append(st)
            continue
        e = strip(st.e) if st.k == "ExprStmt" else None
        if e is None or e.k != "If" or e.els is not None:
            break
        c = strip(e.c)
        if not (c.k == "Binary" and c.op in ("==", "!=")):
            break
        l, r = strip(c.l), strip(c.r)
        if path_segs(l) and len(path_segs(l)) >= 2:
            l, r = r, l
        if not (l.k == "Field" and path_segs(l.e) and len(path_segs(l.e)) == 1 and path_segs(r) and len(path_segs(r)) >= 2):
            break
        en, vn, val = ex.variant(r, c, need_clike=True)
        ts, tt = block_parts(e.then)
        if tt is not None or not ts or ts[-1].k != "ExprStmt" or strip(ts[-1].e).k not in ("Continue", "Break", "Return"):
            break
        acts = [a for a in (action_of(ex, s) for s in ts[:-1]) if a]
        walk(e.then, lambda n: covered.append(n) if n.k == "Assign" and is_self_field(n.lhs, "state") else None)
        out.append((origin_of(ex, path_segs(l.e)[0], seen), l.name, en.name, vn, val, c.op == "==", acts,
                    strip(ts[-1].e).k.lower()))
    if len(covered) != len(nassign):
        ex.err(nassign[0], "an assignment to self.state is not inside a guard at the head of the loop")
    return ("lguards", out)


# ============================================================================== gate (write_input_event)
def target_of(ex, e):
    """classification of an arm body"""
    r = ex.result(e)
    if r and r[0] == "err":
        return ("err", r[1])
    if r and r[0] == "ok":
        inner = peel(r[1])
        if inner.k == "Tuple" and not inner.elems:
            return ("ok", "()")
        if inner.k == "MCall" and is_path(inner.recv, "self"):
            # Ok(self.f(g(..), ..)?): the method and the head calls of its arguments
            heads = []
            for a in inner.args:
                a = peel(a)
                if a.k == "Call" and path_segs(a.fn):
                    heads.append("::".join(path_segs(a.fn)))
            return ("ok", "self.%s(%s)" % (inner.name, ", ".join(heads)))
        if inner.k == "Call" and len(inner.args) == 1 and path_segs(inner.fn) and path_segs(inner.fn)[-1] == "try_from":
            c = cast_field(ex, inner.args[0])
            if c:
                return ("oktry", path_segs(inner.fn)[-2], c[0], c[2])
        return ("ok", ex.norm(r[1]))
    return None


def cast_field(ex, e):
    """cast!(DataType::U16, x["f"])[?] -> (bits, x name, "f")"""
    c = peel(e)
    if c.k == "Macro" and c.name == "cast" and c.form == "list" and len(c.args) == 2:
        ty = path_segs(c.args[0])
        idx = strip(c.args[1])
        if ty and ty[-1] in ("U8", "U16", "U32") and idx.k == "Index" and strip(idx.idx).k == "Str":
            base = idx.e
            return int(ty[-1][1:]), ex.norm(base), strip(idx.idx).v
    return None


def x_gate(ex):
    pre, m = state_match(ex, ex.fn.body)
    en = state_enum(ex, m)
    rows = []
    for v, body, _b in expand_arms(ex, m, en):
        t = target_of(ex, body)
        if t is None:
            ex.err(body, "arm %s: `%s` is neither Ok(..) nor Err(..)" % (v, ex.text(body)[:80]))
        rows.append((v, t))
    return ("gate", [ex.norm(s) for s in pre], rows)


# ============================================================================== dispatch on Enum::try_from(..)
def try_from_sel(ex, e):
    """Enum::try_from(cast!(DataType::Un, x["f"])? [& m])? -> (enum name, bits, field, mask)"""
    c = peel(e)
    if not (c.k == "Call" and path_segs(c.fn) and len(path_segs(c.fn)) >= 2 and path_segs(c.fn)[-1] == "try_from" and len(c.args) == 1):
        return None
    a = strip(resolve_local(ex, c.args[0], block_parts(ex.fn.body)[0]))
    mask = None
    if a.k == "Binary" and a.op == "&":
        mask = ex.const(a.r)
        if mask is None:
            mask = ex.const(a.l)
            a = strip(a.r)
        else:
            a = strip(a.l)
        if mask is None:
            ex.err(e, "selector mask is not a constant")
    cf = cast_field(ex, a)
    if cf is None:
        return None
    return path_segs(c.fn)[-2], cf[0], cf[2], mask


def resolve_local(ex, e, stmts):
    """a local bound once by `let x = init` (not mut): its initialiser"""
    e = strip(e)
    if e.k == "Path" and len(e.segs) == 1:
        for st in stmts:
            if st.k == "Let" and st.names == [e.segs[0]] and st.init is not None and not st.mut:
                return st.init
    return e


def body_field(ex, stmts):
    """X.message.read(&mut Cursor::new(cast!(DataType::Slice, x["f"])?))? -> "f" """
    for st in stmts:
        if st.k != "ExprStmt":
            continue
        c = peel(st.e)
        if c.k == "MCall" and c.name == "read" and len(c.args) == 1:
            found = []

            def visit(n):
                if n.k == "Macro" and n.name == "cast" and n.form == "list" and len(n.args) == 2:
                    ty = path_segs(n.args[0])
                    idx = strip(n.args[1])
                    if ty and ty[-1] == "Slice" and idx.k == "Index" and strip(idx.idx).k == "Str":
                        found.append(strip(idx.idx).v)
            walk(c.args[0], visit)
            if len(found) == 1:
                return found[0]
    return ""


def layout_target(ex, e):
    """`layout_fn(None, ..)` -> ('layout', name, [arg texts])"""
    c = strip(e)
    if c.k == "Call" and path_segs(c.fn) and len(path_segs(c.fn)) == 1 and path_segs(c.fn)[0][0].islower():
        return ("layout", path_segs(c.fn)[0], [ex.norm(a) for a in c.args])
    return None


def read_then_ok(ex, body):
    """{ let mut m = layout(); let mut s = Cursor::new(cast!(DataType::Slice, x["f"])?); m.read(&mut s)?; Ok(W(m)) }"""
    if body.k != "Block":
        return None
    stmts, tail = block_parts(body)
    if tail is None:
        return None
    lay = None
    for st in stmts:
        if st.k == "Let" and st.init is not None:
            t = layout_target(ex, st.init)
            if t and lay is None:
                lay = (st.names[0], t[1])
    r = ex.result(tail)
    if lay is None or not r or r[0] != "ok":
        return None
    inner = strip(r[1])
    if not (inner.k == "Call" and len(inner.args) == 1 and is_path(inner.args[0], lay[0])):
        return None
    # the field read: every cast!(DataType::Slice, x["f"]) of the block
    found = []

    def visit(n):
        if n.k == "Macro" and n.name == "cast" and n.form == "list" and len(n.args) == 2:
            ty = path_segs(n.args[0])
            idx = strip(n.args[1])
            if ty and ty[-1] == "Slice" and idx.k == "Index" and strip(idx.idx).k == "Str":
                found.append(strip(idx.idx).v)
    walk(stmts, visit)
    reads = []
    walk(stmts, lambda n: reads.append(n) if n.k == "MCall" and n.name == "read" and is_path(n.recv, lay[0]) else None)
    if len(found) != 1 or len(reads) != 1:
        return None
    return ("read", lay[1], found[0], "::".join(path_segs(inner.fn)))


def cond_target(ex, body):
    """if E::try_from(cast!(..))? == E::V && .. { A } else { B }"""
    b = strip(body)
    if b.k != "If" or b.els is None:
        return None
    conds = []

    def conj(c):
        c = strip(c)
        if c.k == "Binary" and c.op == "&&":
            conj(c.l)
            conj(c.r)
            return
        if not (c.k == "Binary" and c.op == "=="):
            ex.err(c, "condition `%s` is outside the supported subset" % ex.text(c))
        l, r = c.l, c.r
        sel = try_from_sel(ex, l)
        if sel is None:
            l, r = r, l
            sel = try_from_sel(ex, l)
        if sel is None or sel[3] is not None:
            ex.err(c, "condition `%s` is outside the supported subset" % ex.text(c))
        en, vn, val = ex.variant(r, c)
        if en.name != sel[0]:
            ex.err(c, "try_from of %s compared with a variant of %s" % (sel[0], en.name))
        conds.append((sel[0], sel[1], sel[2], vn, val))
    conj(b.c)
    t = any_target(ex, b.then)
    e = any_target(ex, b.els)
    if t is None or e is None:
        return None
    return ("cond", conds, t, e)


def any_target(ex, body):
    t = target_of(ex, body)
    if t:
        return t
    t = layout_target(ex, body)
    if t:
        return t
    t = read_then_ok(ex, body)
    if t:
        return t
    t = cond_target(ex, body)
    if t:
        return t
    return None


def x_dispatch(ex):
    """the (single) `match` of the function whose scrutinee is Enum::try_from(..)? (possibly through a local, or through a
    call of another function of the file that returns the enum): the arms, wildcard expanded, sorted by discriminant"""
    stmts, tail = block_parts(ex.fn.body)
    cands = []

    def visit(n):
        if n.k == "Match":
            cands.append(n)
    walk(ex.fn.body, visit)
    pick = None
    for m in cands:
        scrut = resolve_local(ex, m.e, stmts)
        sel = try_from_sel(ex, scrut)
        if sel:
            pick = (m, sel)
            break
        c = peel(scrut)
        if c.k == "Call" and path_segs(c.fn) and len(path_segs(c.fn)) == 1 and len(c.args) == 1:
            # match helper(&x)? { Enum::V(..) => .. }: the enum comes from the patterns
            pick = (m, None)
            break
    if pick is None:
        ex.err(ex.fn.body, "no `match Enum::try_from(cast!(DataType::Un, x[\"field\"])?)? { .. }` found")
    m, sel = pick
    if sel:
        en = ex.enum_of(sel[0], m)
    else:
        en = state_enum(ex, m)
        c = peel(resolve_local(ex, m.e, stmts))
        sel = (en.name, 0, "::".join(path_segs(c.fn)) + "()", None)
    rows = []
    for v, body, _b in expand_arms(ex, m, en):
        t = any_target(ex, body)
        if t is None:
            ex.err(body, "arm %s: `%s` is outside the supported subset" % (v, ex.text(body)[:100]))
        val = en.value(v) if en.clike else [x[0] for x in en.variants].index(v)
        rows.append((v, val, t))
    rows.sort(key=lambda r: r[1])
    return ("dispatch", sel[0], sel[1], sel[2], sel[3], rows, body_field(ex, stmts))


# ============================================================================== string table
def x_strtable(ex):
    stmts, tail = block_parts(ex.fn.body)
    m = strip(tail) if tail is not None else None
    if stmts or m is None or m.k != "Match" or not (path_segs(m.e) and len(path_segs(m.e)) == 1):
        ex.err(ex.fn.body, "the body is not `match <param> { \"..\" => .., _ => .. }`")
    rows, default, en = [], None, None
    for pat, body in m.arms:
        for alt, _b in ex.pat_alts(pat, body):
            e, vn, val = ex.variant(body, body)
            en = en or e
            if e is not en:
                ex.err(body, "arms of different enums")
            if alt == "_":
                if default is None:
                    default = (vn, val)
            elif isinstance(alt, tuple) and alt[0] == "str":
                if default is None and alt[1] not in [r[0] for r in rows]:
                    rows.append((alt[1], vn, val))
            else:
                ex.err(body, "pattern `%s` is not a string literal" % render(pat))
    if default is None:
        ex.err(m, "no wildcard arm")
    return ("strtable", en.name, sorted(rows), default)


# ============================================================================== header parsers run symbolically
class SV(object):
    """symbolic value: expression over the bytes read, its Rust integer width (None = untyped literal) and an upper bound"""
    def __init__(self, x, bits, mx):
        self.x, self.bits, self.mx = x, bits, mx


def sv_const(n, bits=None):
    return SV(("k", n), bits, n)


def canon2(op, a, b):
    """operands of a commutative operator in canonical order: constants last, otherwise by text"""
    ka, kb = (a[0] == "k", repr(a)), (b[0] == "k", repr(b))
    return (op, a, b) if ka <= kb else (op, b, a)


class Sym(object):
    def __init__(self, ex):
        self.ex = ex

    def err(self, n, msg):
        self.ex.err(n, msg)

    # ---------------------------------------------------------------- environment
    @staticmethod
    def fork(env):
        e = dict(env)
        for k, v in env.items():
            if isinstance(v, tuple) and v and v[0] == "chunk":
                e[k] = ("chunk", list(v[1]))
        e["#pending"] = []
        return e

    def new_bytes(self, env, n):
        i = env["#bytes"]
        env["#bytes"] = i + n
        return list(range(i, i + n))

    def new_step(self, env):
        i = env["#steps"]
        env["#steps"] = i + 1
        return i

    # ---------------------------------------------------------------- arithmetic
    def width(self, n, a, b):
        if a.bits is not None and b.bits is not None and a.bits != b.bits:
            self.err(n, "operands of different integer types in `%s`" % self.ex.text(n))
        return a.bits if a.bits is not None else b.bits

    def fits(self, n, v):
        if v.bits is not None and v.mx >= (1 << v.bits):
            self.err(n, "`%s` may overflow u%d (bound %d): not representable in the normal form" % (self.ex.text(n), v.bits, v.mx))
        return v

    def binop(self, n, op, a, b):
        for side in (a, b):
            if not isinstance(side, SV):
                self.err(n, "operand of `%s` is not an integer value" % op)
        if a.x[0] == "notk" or b.x[0] == "notk":
            if op != "&":
                self.err(n, "`!constant` outside a mask")
            other, nk = (b, a) if a.x[0] == "notk" else (a, b)
            if other.bits is None:
                self.err(n, "cannot tell the width of `%s`" % self.ex.text(n))
            b = sv_const((~nk.x[1]) & ((1 << other.bits) - 1), other.bits)
            a = other
        bits = self.width(n, a, b) if op not in ("<<", ">>") else a.bits
        if a.x[0] == "k" and b.x[0] == "k":
            from rslayout import binop as cb
            v = cb(op, a.x[1], b.x[1])
            if v is None:
                self.err(n, "constant `%s` cannot be evaluated" % self.ex.text(n))
            return self.fits(n, SV(("k", v), bits, v))
        if op == "&":
            mx = min(a.mx, b.mx)
            return SV(canon2("and", a.x, b.x), bits, mx)
        if op == "|":
            mx = (1 << max(a.mx.bit_length(), b.mx.bit_length())) - 1
            return self.fits(n, SV(canon2("or", a.x, b.x), bits, mx))
        if op in ("<<", ">>"):
            if b.x[0] != "k":
                self.err(n, "shift by a non-constant")
            if op == "<<":
                return self.fits(n, SV(("shl", a.x, b.x), bits, a.mx << b.x[1]))
            return SV(("shr", a.x, b.x), bits, a.mx >> b.x[1])
        if op == "+":
            return self.fits(n, SV(canon2("add", a.x, b.x), bits, a.mx + b.mx))
        if op == "-":
            return SV(("sub", a.x, b.x), bits, a.mx)
        self.err(n, "operator `%s` is outside the supported subset" % op)

    # ---------------------------------------------------------------- pure evaluation (may queue reads in env["#pending"])
    def ev(self, e, env):
        ex = self.ex
        e = strip(e)
        k = e.k
        if k == "Try":
            return self.ev(e.e, env)
        if k == "Unary" and e.op in ("&", "*"):
            return self.ev(e.e, env)
        if k == "Unary" and e.op == "!":
            v = self.ev(e.e, env)
            if isinstance(v, SV) and v.x[0] == "k":
                if v.bits is not None:
                    return sv_const((~v.x[1]) & ((1 << v.bits) - 1), v.bits)
                return SV(("notk", v.x[1]), None, 0)
            self.err(e, "`!` on a non-constant")
        if k == "Int":
            bits = INT_BITS.get(e.suffix) if e.suffix else None
            return sv_const(e.v, bits)
        if k == "Str":
            return ("strv", e.v)
        if k == "Path":
            if len(e.segs) == 1:
                nm = e.segs[0]
                if nm in env:
                    b = env[nm]
                    if b[0] == "val":
                        return b[1]
                    return b
                c = ex.const(e)
                if c is not None:
                    return sv_const(c)
                self.err(e, "unknown name `%s`" % nm)
            self.err(e, "path `%s` used as a value" % ex.text(e))
        if k == "Cast":
            c = ex.const(e)
            if c is not None:
                return sv_const(c, INT_BITS.get(e.ty))
            v = self.ev(e.e, env)
            if not isinstance(v, SV) or e.ty not in INT_BITS:
                self.err(e, "cast `%s` is outside the supported subset" % ex.text(e))
            return self.fits(e, SV(v.x, INT_BITS[e.ty], v.mx))
        if k == "Binary" and e.op in ("&", "|", "<<", ">>", "+", "-"):
            return self.binop(e, e.op, self.ev(e.l, env), self.ev(e.r, env))
        if k == "Tuple":
            return ("tuple", [self.ev(x, env) for x in e.elems])
        if k == "Field":
            v = self.ev(e.e, env)
            if isinstance(v, tuple) and v[0] == "tuple" and e.name.isdigit() and int(e.name) < len(v[1]):
                return v[1][int(e.name)]
            if isinstance(v, SV) and e.name.isdigit():
                return SV(("fld", v.x, int(e.name)), None, 0)
            self.err(e, "field access `%s` is outside the supported subset" % ex.text(e))
        if k == "Call":
            s = path_segs(e.fn)
            if s is None:
                self.err(e, "call `%s` is outside the supported subset" % ex.text(e))
            if s[-1] == "Err" and len(e.args) == 1:
                kind = ex.err_kind(e.args[0])
                if kind is None:
                    self.err(e, "cannot tell the RdpErrorKind of `%s`" % ex.text(e))
                return ("errv", kind)
            if s[-1] == "Ok" and len(e.args) == 1:
                return ("okv", self.ev(e.args[0], env))
            if s[-2:] == ["Cursor", "new"] and len(e.args) == 1:
                return self.ev(e.args[0], env)
            if len(s) == 2 and s[0] in ("U16", "U32") and s[1] in ("BE", "LE") and len(e.args) == 1:
                return ("reader", int(s[0][1:]), s[1])
            if len(s) >= 2 and s[-2] == "per":
                args = []
                for a in e.args:
                    c = ex.const(a)
                    if c is not None:
                        args.append(c)
                    else:
                        v = self.ev(a, env)
                        if v != ("stream",):
                            self.err(a, "argument of per::%s is neither a constant nor the stream" % s[-1])
                i = self.new_step(env)
                env["#pending"].append(("step", "per::" + s[-1], args))
                return SV(("step", i), 16, 65535)
            if len(s) >= 2 and s[-1][0].isupper() and s[-2][0].isupper():
                return ("ctor", s[-1], [self.ev(a, env) for a in e.args])       # Payload::Raw(..)
            if len(s) == 1 and s[0][0].islower():
                h = ex.src.get(None, s[0]) or ex.src.get(ex.fn.ty, s[0])
                if h is not None and h.ret in INT_BITS:
                    return ("reader", INT_BITS[h.ret], "BE")                   # a value to be overwritten by .read()
            self.err(e, "call `%s` is outside the supported subset" % ex.text(e))
        if k == "MCall":
            if e.name in ("inner", "clone", "to_owned") and not e.args:
                return self.ev(e.recv, env)
            if e.name == "to_string" and not e.args:
                v = self.ev(e.recv, env)
                if isinstance(v, tuple) and v[0] == "strv":
                    return SV(("str", v[1]), None, 0)
                return v
            if is_self_field(e.recv, "transport") and e.name == "read" and len(e.args) == 1:
                n = ex.const(e.args[0])
                if n is None:
                    self.err(e, "transport.read(<non-constant>) before the result")
                env["#pending"].append(("read", n))
                return ("chunk", self.new_bytes(env, n))
            if is_path(e.recv, "self") and len(e.args) == 1 and e.name.startswith("read"):
                v = self.ev(e.args[0], env)
                if not isinstance(v, SV):
                    self.err(e, "argument of self.%s is not an integer value" % e.name)
                return ("body", e.name, v)
            if e.name == "read" and not e.args and strip(e.recv).k == "Field" and is_path(strip(e.recv).e, "self"):
                return ("payload",)                                             # self.x224.read()
            if e.name == "ok_or" and len(e.args) == 1:
                f = strip(e.recv)
                if f.k == "MCall" and f.name == "find" and len(f.args) == 1 and strip(f.args[0]).k == "Closure":
                    it = strip(f.recv)
                    if it.k == "MCall" and it.name == "iter" and strip(it.recv).k == "Field" and is_path(strip(it.recv).e, "self"):
                        clo = strip(f.args[0])
                        keys = []

                        def visit(n):
                            if n.k == "Path" and len(n.segs) == 1 and n.segs[0] not in clo.params and n.segs[0] in env \
                                    and env[n.segs[0]][0] == "val":
                                keys.append(env[n.segs[0]][1])
                        walk(clo.body, visit)
                        kind = ex.err_kind(e.args[0])
                        if len(keys) != 1 or kind is None:
                            self.err(e, "lookup `%s` is outside the supported subset" % ex.text(e)[:100])
                        i = self.new_step(env)
                        env["#pending"].append(("lookup", strip(it.recv).name, keys[0].x, kind))
                        return SV(("step", i), None, 0)
            if e.name == "read" and len(e.args) == 1:
                return self.do_read(e, env)
            self.err(e, "method call `%s` is outside the supported subset" % ex.text(e)[:100])
        self.err(e, "expression `%s` is outside the supported subset" % ex.text(e)[:100])

    def do_read(self, e, env):
        """x.read(&mut source)?: the next bytes of the source become the value of x"""
        r = strip(e.recv)
        if not (r.k == "Path" and len(r.segs) == 1 and r.segs[0] in env):
            self.err(e, "`%s`: the receiver of .read is not a local" % self.ex.text(e))
        b = env[r.segs[0]]
        if b[0] == "reader":
            bits, endian = b[1], b[2]
        elif b[0] == "val" and b[1].bits in (8, 16, 32):
            bits, endian = b[1].bits, None
        else:
            self.err(e, "`%s`: cannot tell what .read reads into" % self.ex.text(e))
        if bits > 8 and endian is None:
            self.err(e, "`%s`: multi-byte read without an endianness" % self.ex.text(e))
        n = bits // 8
        src = self.ev(e.args[0], env)
        if isinstance(src, tuple) and src[0] == "chunk":
            if len(src[1]) < n:
                self.err(e, "`%s` reads past the %d bytes obtained from the link" % (self.ex.text(e), len(src[1])))
            idx = src[1][:n]
            del src[1][:n]
        elif src == ("stream",):
            env["#pending"].append(("take", n))
            idx = self.new_bytes(env, n)
        else:
            self.err(e, "`%s`: the source of .read is neither link bytes nor the stream" % self.ex.text(e))
        if n == 1:
            x = ("b", idx[0])
        elif n == 2:
            x = ("be16" if endian == "BE" else "le16", ("b", idx[0]), ("b", idx[1]))
        else:
            self.err(e, "`%s`: reads wider than 16 bits are outside the normal form" % self.ex.text(e))
        env[r.segs[0]] = ("val", SV(x, bits, (1 << bits) - 1))
        return None

    # ---------------------------------------------------------------- conditions
    def cond(self, e, env):
        e = strip(e)
        if e.k == "Binary" and e.op in ("&&", "||"):
            return ("and" if e.op == "&&" else "or", self.cond(e.l, env), self.cond(e.r, env))
        if e.k == "Unary" and e.op == "!":
            return ("not", self.cond(e.e, env))
        if e.k == "Binary" and e.op in ("==", "!=", "<", "<=", ">", ">="):
            a, b = self.ev(e.l, env), self.ev(e.r, env)
            if not (isinstance(a, SV) and isinstance(b, SV)):
                self.err(e, "comparison `%s` is not between integer values" % self.ex.text(e))
            self.width(e, a, b)
            if e.op in ("==", "!="):
                c = canon2("eq", a.x, b.x)
                return ("cmp", c[0], c[1], c[2], e.op == "!=")
            if e.op == "<":
                return ("cmp", "lt", a.x, b.x, False)
            if e.op == ">=":
                return ("cmp", "lt", a.x, b.x, True)
            if e.op == ">":
                return ("cmp", "lt", b.x, a.x, False)
            return ("cmp", "lt", b.x, a.x, True)
        self.err(e, "condition `%s` is outside the supported subset" % self.ex.text(e))

    def build_if(self, c, tf, ef):
        if c[0] == "cmp":
            t, e = tf(), ef()
            if c[4]:
                t, e = e, t
            return ("if", (c[1], c[2], c[3]), t, e)
        if c[0] == "not":
            return self.build_if(c[1], ef, tf)
        if c[0] == "and":
            return self.build_if(c[1], lambda: self.build_if(c[2], tf, ef), ef)
        return self.build_if(c[1], tf, lambda: self.build_if(c[2], tf, ef))

    # ---------------------------------------------------------------- control
    def wrap(self, pend, tree):
        for p in reversed(pend):
            if p[0] == "read":
                tree = ("read", p[1], tree)
            elif p[0] == "take":
                tree = ("take", p[1], tree)
            elif p[0] == "step":
                tree = ("step", p[1], p[2], tree)
            else:
                tree = ("lookup", p[1], p[2], p[3], tree)
        return tree

    def bind(self, env, st, v):
        ex = self.ex
        pat = st.pat
        if len(st.names) == 1 and re.match(r"^(mut )?\w+$", pat):
            nm = st.names[0]
            if v is None:
                self.err(st, "`let %s` bound to nothing" % nm)
            if isinstance(v, SV):
                bits = v.bits
                if st.ty in INT_BITS:
                    if v.bits is not None and v.bits != INT_BITS[st.ty]:
                        self.err(st, "`let %s: %s` initialised with a u%d" % (nm, st.ty, v.bits))
                    bits = INT_BITS[st.ty]
                env[nm] = ("val", self.fits(st, SV(v.x, bits, v.mx)))
            else:
                env[nm] = v
            return
        if pat.startswith("(") and isinstance(v, tuple) and v[0] == "tuple" and len(st.names) == len(v[1]) \
                and re.match(r"^\((\s*(mut )?\w+\s*,?)+\)$", pat):
            for nm, x in zip(st.names, v[1]):
                env[nm] = ("val", x) if isinstance(x, SV) else x
            return
        m = re.match(r"^\(\s*((?:mut )?\w+)\s*,\s*((?:mut )?\w+)\s*\)$", pat)
        if m and isinstance(v, SV):
            parts = [m.group(1).replace("mut ", ""), m.group(2).replace("mut ", "")]
            for x, nm in enumerate(parts):
                if nm != "_":
                    env[nm] = ("val", SV(("fld", v.x, x), None, 0))
            return
        self.err(st, "`let %s = ..` is outside the supported subset" % pat)

    def run_block(self, b, env, k):
        stmts, tail = block_parts(b)
        lets = [n for st in stmts if st.k == "Let" for n in st.names]
        saved = dict((n, env.get(n)) for n in lets)

        def leave(env2, v):
            for n in lets:
                if saved[n] is None:
                    env2.pop(n, None)
                else:
                    env2[n] = saved[n]
            return k(env2, v)
        return self.run_seq(stmts, tail, 0, env, leave)

    def run_seq(self, stmts, tail, x, env, k):
        if x == len(stmts):
            if tail is None:
                return k(env, None)
            return self.run_expr(tail, env, k)
        st = stmts[x]

        def rest(env2, _v):
            return self.run_seq(stmts, tail, x + 1, env2, k)
        if st.k == "Let":
            if st.init is None:
                if st.ty in INT_BITS and len(st.names) == 1:
                    env[st.names[0]] = ("val", SV(("k", 0), INT_BITS[st.ty], 0))
                    return rest(env, None)
                self.err(st, "`let %s;` without a type this translator knows" % st.pat)

            def bound(env2, v):
                self.bind(env2, st, v)
                return rest(env2, None)
            return self.run_expr(st.init, env, bound)
        if st.k == "ExprStmt":
            e = strip(st.e)
            if e.k == "Macro" and e.name in ("println", "print", "eprintln"):
                return rest(env, None)
            if e.k == "Assign":
                if e.op != "=" or not (strip(e.lhs).k == "Path" and len(strip(e.lhs).segs) == 1 and strip(e.lhs).segs[0] in env):
                    self.err(st, "assignment `%s` is outside the supported subset" % self.ex.text(st))

                def assigned(env2, v):
                    if v is None:
                        self.err(st, "assignment of nothing")
                    env2[strip(e.lhs).segs[0]] = ("val", v) if isinstance(v, SV) else v
                    return rest(env2, None)
                return self.run_expr(e.rhs, env, assigned)
            return self.run_expr(st.e, env, rest)
        self.err(st, "statement is outside the supported subset")

    def run_expr(self, e, env, k):
        e = strip(e)
        if e.k == "Block":
            return self.run_block(e, env, k)
        if e.k == "If":
            c = self.cond(e.c, env)
            if env["#pending"]:
                self.err(e, "a read inside a condition")

            def tf():
                return self.run_block(e.then, self.fork(env), k)

            def ef():
                env2 = self.fork(env)
                if e.els is None:
                    return k(env2, None)
                return self.run_expr(e.els, env2, k)
            return self.build_if(c, tf, ef)
        if e.k == "Return":
            if e.e is None:
                self.err(e, "`return;` without a value")
            return self.run_expr(e.e, env, env["#top"])
        if e.k == "Match":
            v = self.ev(e.e, env)
            pend = env["#pending"]
            env["#pending"] = []
            if v != ("payload",):
                self.err(e, "`match` on something that is not the payload read from the lower layer")
            arms = []
            for pat, body in e.arms:
                for alt, binders in self.ex.pat_alts(pat, body):
                    if alt == "_" or not isinstance(alt, list) or "Payload" not in alt:
                        self.err(body, "payload pattern `%s` is outside the supported subset" % render(pat))
                    env2 = self.fork(env)
                    env2["#bytes"] = 0
                    env2["#steps"] = 0
                    if alt[-1] == "Raw" and len(binders) == 1:
                        env2[binders[0]] = ("stream",)
                    else:
                        for x, nm in enumerate(binders):
                            env2[nm] = ("val", SV(("bind", x), None, 0))
                    arms.append((alt[-1], self.run_expr(body, env2, k)))
            names = [a[0] for a in arms]
            if len(set(names)) != len(names):
                self.err(e, "a payload kind is matched twice")
            return self.wrap(pend, ("match", sorted(arms)))
        v = self.ev(e, env)
        pend = env["#pending"]
        env["#pending"] = []
        return self.wrap(pend, k(env, v))

    # ---------------------------------------------------------------- leaves
    def leaf(self, v, at):
        if isinstance(v, tuple) and v and v[0] == "errv":
            return ("err", v[1])
        if isinstance(v, tuple) and v and v[0] == "okv":
            inner = v[1]
            items = inner[1] if isinstance(inner, tuple) and inner[0] == "tuple" else [inner]
            ctors = [x for x in items if isinstance(x, tuple) and x and x[0] == "ctor"]
            if len(ctors) != 1:
                self.err(at, "result is not Ok(.. Payload::<Kind>(..) ..)")
            args = []
            for x in items:
                for y in (x[2] if x is ctors[0] else [x]):
                    if isinstance(y, SV):
                        args.append(("val", y.x))
                    elif isinstance(y, tuple) and y and y[0] == "body":
                        args.append(("body", y[1], y[2].x))
                    elif y == ("stream",):
                        args.append(("val", ("stream",)))
                    else:
                        self.err(at, "result component is outside the supported subset")
            return ("ok", ctors[0][1], args)
        self.err(at, "the function does not end in Ok(..) / Err(..)")


def x_tree(ex):
    s = Sym(ex)
    env = {"#bytes": 0, "#steps": 0, "#pending": []}
    env["#top"] = lambda env2, v: s.leaf(v, ex.fn.body)
    t = s.run_block(ex.fn.body, env, env["#top"])
    if t[0] == "match":
        return ("trees", t[1])
    return ("tree", t)


# ============================================================================== the targeted functions
# (file key, source path under src/, impl type | None, fn name, extractor, Coq type of the normal form)
ITEMS = [
    ("global", "core/global", "Client", "read", x_arms, "list arm"),
    ("global", "core/global", "Client", "read_data_pdu", x_lguards, "list lguard"),
    ("global", "core/global", "Client", "write_input_event", x_gate, "gate"),
    ("global", "core/global", "PDU", "from_control", x_dispatch, "dispatch"),
    ("global", "core/global", "DataPDU", "from_pdu", x_dispatch, "dispatch"),
    ("global", "core/global", "FastPathUpdate", "from_fp", x_dispatch, "dispatch"),
    ("mcs", "core/mcs", "Client", "read", x_tree, "list (string * ctree)"),
    ("tpkt", "core/tpkt", "Client", "read", x_tree, "ctree"),
    ("license", "core/license", None, "parse_payload", x_dispatch, "dispatch"),
    ("license", "core/license", None, "client_connect", x_dispatch, "dispatch"),
    ("x224", "core/x224", "Client", "read_connection_confirm", x_dispatch, "dispatch"),
    ("client", "core/client", "KeyboardLayout", "from", x_strtable, "strtable"),
]


def item_key(it):
    return "%s::%s%s" % (it[0], (it[2] + "::") if it[2] else "", it[3])


def item_ident(it):
    return "%s__%s%s" % (it[0], (it[2] + "_") if it[2] else "", it[3])


def extract(world, repo):
    """-> (results: {key: (item, normal form, FnInfo)}, errors: [{file, layout, where, msg}])"""
    res, errors, srcs = {}, [], {}
    for it in ITEMS:
        key = item_key(it)
        path = os.path.join(repo, "src", it[1] + ".rs")
        try:
            if it[0] not in srcs:
                if it[0] in world.sources:
                    toks = world.sources[it[0]].toks
                elif it[0] in world.failed_files:
                    raise CtlError(path, 0, "the file could not be scanned")
                else:
                    toks = tokenize(path, open(path, encoding="utf-8").read())
                srcs[it[0]] = CtlSource(it[0], path, toks)
            src = srcs[it[0]]
            if isinstance(src, Exception):
                raise src
            f = src.get(it[2], it[3])
            if f is None:
                raise CtlError(path, 0, "function %s not found (renamed or removed?)" % key.split("::", 1)[1])
            nf = it[4](Ex(world, src, f))
            if nf[0] == "tree" and it[5] != "ctree":
                raise CtlError(path, f.line, "%s: expected a match on the payload kind" % f.qual)
            if nf[0] == "trees" and it[5] == "ctree":
                raise CtlError(path, f.line, "%s: unexpected match on the payload kind" % f.qual)
            res[key] = (it, nf, f)
        except (RsError, OSError) as e:
            if it[0] not in srcs:
                srcs[it[0]] = e
            where = "%s:%s" % (getattr(e, "path", path), getattr(e, "line", 0))
            errors.append({"file": it[0], "layout": key.split("::", 1)[1], "ctl": key, "where": where, "msg": str(e)})
    return res, errors


# ------------------------------------------------------------------------------ Coq printing
def cstr(s):
    return '"' + s.replace('"', '""') + '"'


def clist(xs):
    return "[" + "; ".join(xs) + "]"


def c_cx(x):
    k = x[0]
    if k == "b":
        return "(XB %d)" % x[1]
    if k == "k":
        return "(XK %d)" % x[1]
    if k in ("and", "or", "shl", "shr", "add", "sub", "be16", "le16"):
        return "(X%s %s %s)" % (k.capitalize(), c_cx(x[1]), c_cx(x[2]))
    if k == "step":
        return "(XStep %d)" % x[1]
    if k == "fld":
        return "(XFld %s %d)" % (c_cx(x[1]), x[2])
    if k == "str":
        return "(XStr %s)" % cstr(x[1])
    if k == "bind":
        return "(XBind %d)" % x[1]
    if k == "stream":
        return "XStream"
    raise ValueError(x)


def c_tree(t, ind):
    pad = "\n" + "  " * ind
    k = t[0]
    if k == "read":
        return "TRead %d (%s)" % (t[1], c_tree(t[2], ind))
    if k == "take":
        return "TTake %d (%s)" % (t[1], c_tree(t[2], ind))
    if k == "step":
        return "TStep %s %s (%s%s)" % (cstr(t[1]), clist(str(a) for a in t[2]), pad, c_tree(t[3], ind))
    if k == "lookup":
        return "TLookup %s %s %s (%s%s)" % (cstr(t[1]), c_cx(t[2]), cstr(t[3]), pad, c_tree(t[4], ind))
    if k == "if":
        c = "(K%s %s %s)" % ("Eq" if t[1][0] == "eq" else "Lt", c_cx(t[1][1]), c_cx(t[1][2]))
        return "TIf %s%s  (%s)%s  (%s)" % (c, pad, c_tree(t[2], ind + 1), pad, c_tree(t[3], ind + 1))
    if k == "err":
        return "TErr %s" % cstr(t[1])
    if k == "ok":
        args = ["(AVal %s)" % c_cx(a[1]) if a[0] == "val" else "(ABody %s %s)" % (cstr(a[1]), c_cx(a[2])) for a in t[2]]
        return "TOk %s %s" % (cstr(t[1]), clist(args))
    raise ValueError(t)


def c_target(t):
    k = t[0]
    if k == "err":
        return "(GErr %s)" % cstr(t[1])
    if k == "ok":
        return "(GOk %s)" % cstr(t[1])
    if k == "oktry":
        return "(GOkTryFrom %s %d %s)" % (cstr(t[1]), t[2], cstr(t[3]))
    if k == "layout":
        return "(GLayout %s %s)" % (cstr(t[1]), clist(cstr(a) for a in t[2]))
    if k == "read":
        return "(GRead %s %s %s)" % (cstr(t[1]), cstr(t[2]), cstr(t[3]))
    if k == "cond":
        cs = clist("(%s, %d, %s, %s, %d)" % (cstr(c[0]), c[1], cstr(c[2]), cstr(c[3]), c[4]) for c in t[1])
        return "(GCond %s %s %s)" % (cs, c_target(t[2]), c_target(t[3]))
    raise ValueError(t)


def c_nf(nf):
    k = nf[0]
    if k == "arms":
        return "[\n" + ";\n".join("  mkArm %s %s %s %s %s %s %s" % (
            cstr(r[0]), cstr(r[1]), cstr(r[2]), clist(cstr(a) for a in r[3]), clist(cstr(a) for a in r[4]),
            clist(cstr(a) for a in r[5]), cstr(r[6])) for r in nf[1]) + "\n]"
    if k == "lguards":
        return "[\n" + ";\n".join("  mkLGuard %s %s %s %s %d %s %s %s" % (
            cstr(r[0]), cstr(r[1]), cstr(r[2]), cstr(r[3]), r[4], "true" if r[5] else "false",
            clist(cstr(a) for a in r[6]), cstr(r[7])) for r in nf[1]) + "\n]"
    if k == "gate":
        return "mkGate %s [\n" % clist(cstr(a) for a in nf[1]) + ";\n".join("  (%s, %s)" % (cstr(s), c_target(t)) for s, t in nf[2]) + "\n]"
    if k == "dispatch":
        return "mkDispatch %s %d %s %s [\n" % (cstr(nf[1]), nf[2], cstr(nf[3]), "None" if nf[4] is None else "(Some %d)" % nf[4]) + \
            ";\n".join("  (%s, %d, %s)" % (cstr(v), n, c_target(t)) for v, n, t in nf[5]) + "\n] %s" % cstr(nf[6])
    if k == "tree":
        return c_tree(nf[1], 1)
    if k == "trees":
        return "[\n" + ";\n".join("  (%s,\n   %s)" % (cstr(n), c_tree(t, 2)) for n, t in nf[1]) + "\n]"
    if k == "strtable":
        return "mkStrTable %s %s (%s, %d)" % (cstr(nf[1]), clist("(%s, %s, %d)" % (cstr(a), cstr(b), c) for a, b, c in nf[2]),
                                             cstr(nf[3][0]), nf[3][1])
    raise ValueError(k)


DIFF_FN = {"list arm": "sx_of_arms", "list lguard": "sx_of_lguards", "gate": "sx_of_gate", "dispatch": "sx_of_dispatch",
           "ctree": "sx_of_ctree", "list (string * ctree)": "sx_of_trees", "strtable": "sx_of_strtable"}
