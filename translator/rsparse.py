"""Focused recursive-descent / precedence-climbing parser for the Rust expression subset that occurs in
the layout functions of rdp-rs.  Anything outside the subset raises RsError (fail closed)."""
from rslex import RsError, render, int_suffix

KEYWORDS_NO_EXPR = {"loop", "while", "for", "unsafe", "async", "await", "break", "continue", "let", "fn", "impl",
                    "struct", "enum", "use", "mod", "static", "const", "type", "trait", "where", "pub"}


class Node(object):
    def __init__(self, k, i, j, line, **a):
        self.k, self.i, self.j, self.line = k, i, j, line
        self.__dict__.update(a)

    def __repr__(self):
        d = dict((x, y) for x, y in self.__dict__.items() if x not in ("k", "i", "j", "line"))
        return "%s%r" % (self.k, d)


BINPREC = [
    ("||", 1), ("&&", 2),
    ("==", 3), ("!=", 3), ("<", 3), (">", 3), ("<=", 3), (">=", 3),
    ("|", 4), ("^", 5), ("&", 6), ("<<", 7), (">>", 7), ("+", 8), ("-", 8), ("*", 9), ("/", 9), ("%", 9),
]
PREC = dict(BINPREC)
CAST_PREC = 10


class Parser(object):
    def __init__(self, path, toks, lo=0, hi=None, loops=False):
        self.path, self.toks = path, toks
        self.p = lo
        self.hi = len(toks) if hi is None else hi
        self.loops = loops        # control-code mode (rsctl.py): `for`/`while`/`loop`/`break`/`continue` are parsed

    # ------------------------------------------------------------------ helpers
    def err(self, msg, at=None):
        i = self.p if at is None else at
        line = self.toks[min(i, len(self.toks) - 1)][2] if self.toks else 0
        near = render(self.toks[i:min(i + 6, self.hi)])
        raise RsError(self.path, line, "%s (near `%s`)" % (msg, near))

    def peek(self, o=0):
        i = self.p + o
        return self.toks[i] if i < self.hi else ("eof", "", self.toks[-1][2] if self.toks else 0, None)

    def at(self, s, o=0):
        t = self.peek(o)
        return t[0] in ("p", "id") and t[1] == s

    def at_kind(self, k, o=0):
        return self.peek(o)[0] == k

    def eat(self, s):
        if self.at(s):
            self.p += 1
            return True
        return False

    def expect(self, s):
        if not self.eat(s):
            self.err("expected `%s`" % s)

    def ident(self):
        t = self.peek()
        if t[0] != "id":
            self.err("expected identifier")
        self.p += 1
        return t[1]

    def node(self, k, i, **a):
        return Node(k, i, self.p, self.toks[i][2], **a)

    def text(self, n):
        return render(self.toks[n.i:n.j])

    # ------------------------------------------------------------------ types (kept as normalised text)
    def skip_generics(self):
        """at `<`: consume a balanced generic argument list; returns its normalised text (without the brackets)"""
        start = self.p
        self.expect("<")
        depth = 1
        while depth > 0:
            t = self.peek()
            if t[0] == "eof":
                self.err("unterminated generic argument list", start)
            if t[0] == "p":
                if t[1] == "<":
                    depth += 1
                elif t[1] == ">":
                    depth -= 1
                elif t[1] == ">>":
                    depth -= 2
                    if depth < 0:
                        self.err("unbalanced `>>` in generic arguments", start)
                elif t[1] in (";", "{", "}"):
                    self.err("unexpected `%s` in generic arguments" % t[1])
            self.p += 1
        txt = render(self.toks[start:self.p])
        return txt[1:-1].strip()

    def parse_type(self):
        """a type: & / &mut / dyn / path with generics / [T] / [T; n] / (A, B); returns normalised text"""
        start = self.p
        while self.at("&") or self.at("&&") or self.at_kind("life") or self.at("mut") or self.at("dyn") or self.at("*") or self.at("const"):
            self.p += 1
        if self.at("["):
            self.balanced()
        elif self.at("("):
            self.balanced()
        else:
            if not self.at_kind("id"):
                self.err("expected a type")
            self.p += 1
            while True:
                if self.at("::"):
                    self.p += 1
                    if self.at("<"):
                        self.skip_generics()
                    else:
                        self.ident()
                elif self.at("<"):
                    self.skip_generics()
                else:
                    break
        return render(self.toks[start:self.p]).replace(" ", "").replace("mut", "mut ").replace("dyn", "dyn ")

    def balanced(self):
        """at an opening delimiter: skip to after its matching closer, return (lo, hi) of the inside"""
        o = self.peek()[1]
        close = {"(": ")", "[": "]", "{": "}"}[o]
        start = self.p
        stack = [close]
        self.p += 1
        while stack:
            t = self.peek()
            if t[0] == "eof":
                self.err("unbalanced `%s`" % o, start)
            if t[0] == "p":
                if t[1] in ("(", "[", "{"):
                    stack.append({"(": ")", "[": "]", "{": "}"}[t[1]])
                elif t[1] in (")", "]", "}"):
                    if t[1] != stack[-1]:
                        self.err("mismatched `%s`" % t[1])
                    stack.pop()
            self.p += 1
        return start + 1, self.p - 1

    # ------------------------------------------------------------------ expressions
    def expr(self, no_struct=False):
        return self.range_expr(no_struct)

    def range_expr(self, ns):
        i = self.p
        if self.at("..") or self.at("..="):
            incl = self.peek()[1] == "..="
            self.p += 1
            hi = None
            if not (self.at("]") or self.at(")") or self.at(",") or self.at(";") or self.at("{") or self.at_kind("eof")):
                hi = self.binary(1, ns)
            return self.node("Range", i, lo=None, hi=hi, incl=incl)
        lo = self.binary(1, ns)
        if self.at("..") or self.at("..="):
            incl = self.peek()[1] == "..="
            self.p += 1
            hi = None
            if not (self.at("]") or self.at(")") or self.at(",") or self.at(";") or self.at("{") or self.at_kind("eof")):
                hi = self.binary(1, ns)
            return self.node("Range", i, lo=lo, hi=hi, incl=incl)
        if self.at("=") or (self.peek()[0] == "p" and self.peek()[1] in ("+=", "-=", "*=", "/=", "%=", "^=", "&=", "|=", "<<=", ">>=")):
            op = self.peek()[1]
            self.p += 1
            rhs = self.expr(ns)
            return self.node("Assign", i, op=op, lhs=lo, rhs=rhs)
        return lo

    def binary(self, minprec, ns):
        i = self.p
        lhs = self.unary(ns)
        while True:
            t = self.peek()
            if t[0] == "id" and t[1] == "as":
                if CAST_PREC < minprec:
                    break
                self.p += 1
                ty = self.parse_type()
                lhs = self.node("Cast", i, e=lhs, ty=ty)
                continue
            if t[0] != "p" or t[1] not in PREC:
                break
            prec = PREC[t[1]]
            if prec < minprec:
                break
            op = t[1]
            self.p += 1
            rhs = self.binary(prec + 1, ns)
            lhs = self.node("Binary", i, op=op, l=lhs, r=rhs)
        return lhs

    def unary(self, ns):
        i = self.p
        t = self.peek()
        if t[0] == "p" and t[1] in ("-", "!", "*"):
            self.p += 1
            e = self.unary(ns)
            return self.node("Unary", i, op=t[1], e=e)
        if t[0] == "p" and t[1] in ("&", "&&"):
            self.p += 1
            self.eat("mut")
            e = self.unary(ns)
            return self.node("Unary", i, op="&", e=e)
        return self.postfix(ns)

    def call_args(self):
        self.expect("(")
        args = []
        while not self.at(")"):
            args.append(self.expr())
            if not self.eat(","):
                break
        self.expect(")")
        return args

    def postfix(self, ns):
        i = self.p
        e = self.primary(ns)
        while True:
            if self.at("?"):
                self.p += 1
                e = self.node("Try", i, e=e)
            elif self.at("."):
                self.p += 1
                t = self.peek()
                if t[0] == "int":
                    self.p += 1
                    e = self.node("Field", i, e=e, name=str(t[3]))
                elif t[0] == "float":
                    self.err("tuple field chain x.0.1 is not supported")
                else:
                    name = self.ident()
                    gen = None
                    if self.at("::"):
                        self.p += 1
                        gen = self.skip_generics()
                    if self.at("("):
                        args = self.call_args()
                        e = self.node("MCall", i, recv=e, name=name, gen=gen, args=args)
                    else:
                        if gen is not None:
                            self.err("turbofish without a call")
                        e = self.node("Field", i, e=e, name=name)
            elif self.at("("):
                args = self.call_args()
                e = self.node("Call", i, fn=e, args=args)
            elif self.at("["):
                self.p += 1
                idx = self.expr()
                self.expect("]")
                e = self.node("Index", i, e=e, idx=idx)
            else:
                break
        return e

    def closure(self, i):
        params = []
        if self.eat("||"):
            pass
        else:
            self.expect("|")
            while not self.at("|"):
                self.eat("mut")
                self.eat("&")
                if self.at("_"):
                    self.p += 1
                    params.append("_")
                elif self.loops and self.at("("):
                    lo, hi = self.balanced()        # tuple pattern |(a, _)| (control-code mode only)
                    params += [t[1] for t in self.toks[lo:hi] if t[0] == "id" and t[1] not in ("mut", "ref", "_")]
                else:
                    params.append(self.ident())
                if self.eat(":"):
                    self.parse_type()
                if not self.eat(","):
                    break
            self.expect("|")
        if self.eat("->"):
            self.parse_type()
            body = self.block()
        else:
            body = self.expr()
        return self.node("Closure", i, params=params, body=body)

    def macro_args(self, name):
        """at the opening delimiter of a macro invocation"""
        i = self.p
        lo, hi = self.balanced()
        sub = Parser(self.path, self.toks, lo, hi)
        if name == "component":
            kv = []
            while sub.p < sub.hi:
                k = sub.peek()
                if k[0] != "str":
                    sub.err("component!: expected a string literal field name")
                sub.p += 1
                sub.expect("=>")
                v = sub.expr()
                kv.append((k[3], k[2], v))
                if sub.p < sub.hi:
                    sub.expect(",")
            return dict(form="kv", kv=kv)
        if name == "vec":
            if sub.p >= sub.hi:
                return dict(form="list", args=[])
            first = sub.expr()
            if sub.eat(";"):
                cnt = sub.expr()
                if sub.p != sub.hi:
                    sub.err("vec![x; n]: trailing tokens")
                return dict(form="repeat", elem=first, count=cnt)
            args = [first]
            while sub.eat(","):
                if sub.p >= sub.hi:
                    break
                args.append(sub.expr())
            if sub.p != sub.hi:
                sub.err("vec![..]: unexpected token")
            return dict(form="list", args=args)
        if name in ("trame", "cast", "to_vec"):
            args = []
            while sub.p < sub.hi:
                args.append(sub.expr())
                if sub.p < sub.hi:
                    sub.expect(",")
            return dict(form="list", args=args)
        # any other macro (format!, println!, try_let!, sequence!, ...): kept as opaque text
        return dict(form="raw", raw=render(self.toks[lo:hi]))

    def looks_like_struct_lit(self):
        """at `{` after a path: `{ }`, `{ ident :` , `{ ident ,`, `{ ident }`, `{ ..`"""
        if self.at("}", 1) or self.at("..", 1):
            return True
        return self.at_kind("id", 1) and (self.at(":", 2) or self.at(",", 2) or self.at("}", 2))

    def primary(self, ns):
        i = self.p
        t = self.peek()
        k, s = t[0], t[1]
        if k == "int":
            self.p += 1
            suffix = int_suffix(s)
            return self.node("Int", i, v=t[3], suffix=suffix)
        if k == "float":
            self.p += 1
            return self.node("Float", i)
        if k == "str":
            self.p += 1
            return self.node("Str", i, v=t[3])
        if k == "bstr":
            self.p += 1
            return self.node("BStr", i, v=t[3])
        if k == "char":
            self.p += 1
            return self.node("Char", i)
        if k == "p":
            if s == "(":
                self.p += 1
                if self.eat(")"):
                    return self.node("Tuple", i, elems=[])
                first = self.expr()
                if self.eat(")"):
                    return self.node("Paren", i, e=first)
                elems = [first]
                while self.eat(","):
                    if self.at(")"):
                        break
                    elems.append(self.expr())
                self.expect(")")
                return self.node("Tuple", i, elems=elems)
            if s == "[":
                self.p += 1
                if self.eat("]"):
                    return self.node("Array", i, elems=[])
                first = self.expr()
                if self.eat(";"):
                    cnt = self.expr()
                    self.expect("]")
                    return self.node("ArrayRepeat", i, elem=first, count=cnt)
                elems = [first]
                while self.eat(","):
                    if self.at("]"):
                        break
                    elems.append(self.expr())
                self.expect("]")
                return self.node("Array", i, elems=elems)
            if s == "{":
                return self.block()
            if s in ("|", "||"):
                return self.closure(i)
            self.err("unexpected `%s` in expression" % s)
        if k != "id":
            self.err("unexpected token in expression")
        if s in ("true", "false"):
            self.p += 1
            return self.node("Bool", i, v=(s == "true"))
        if s == "move" and (self.at("|", 1) or self.at("||", 1)):
            self.p += 1
            return self.closure(i)
        if s == "if":
            return self.if_expr()
        if s == "match":
            return self.match_expr()
        if s == "return":
            self.p += 1
            e = None
            if not (self.at(";") or self.at("}") or self.at(")") or self.at(",")):
                e = self.expr()
            return self.node("Return", i, e=e)
        if self.loops and s in ("for", "while", "loop", "break", "continue"):
            return self.loop_expr()
        if s in KEYWORDS_NO_EXPR:
            self.err("`%s` is outside the supported expression subset" % s)
        # path
        segs = [self.ident()]
        gens = {}
        while self.at("::"):
            self.p += 1
            if self.at("<"):
                gens[len(segs) - 1] = self.skip_generics()
            else:
                segs.append(self.ident())
        if self.at("!") and (self.at("(", 1) or self.at("[", 1) or self.at("{", 1)) and len(segs) == 1:
            self.p += 1
            a = self.macro_args(segs[0])
            return self.node("Macro", i, name=segs[0], **a)
        if self.at("{") and not ns and self.looks_like_struct_lit() and segs[-1][0].isupper():
            self.p += 1
            fields, base = [], None
            while not self.at("}"):
                if self.eat(".."):
                    base = self.expr()
                    break
                fname = self.ident()
                if self.eat(":"):
                    v = self.expr()
                else:
                    v = None
                fields.append((fname, v))
                if not self.eat(","):
                    break
            self.expect("}")
            return self.node("Struct", i, path=segs, fields=fields, base=base)
        return self.node("Path", i, segs=segs, gens=gens)

    def pattern_until(self, stops):
        """patterns are kept as normalised text: consume tokens up to one of `stops` at nesting depth 0"""
        start = self.p
        depth = 0
        while True:
            t = self.peek()
            if t[0] == "eof":
                self.err("unterminated pattern", start)
            if t[0] == "p":
                if depth == 0 and t[1] in stops:
                    break
                if t[1] in ("(", "[", "{"):
                    depth += 1
                elif t[1] in (")", "]", "}"):
                    depth -= 1
                    if depth < 0:
                        self.err("unbalanced pattern", start)
            self.p += 1
        if self.p == start:
            self.err("empty pattern")
        return start, self.p

    def if_expr(self):
        i = self.p
        self.expect("if")
        if self.eat("let"):
            a, b = self.pattern_until(("=",))
            pat = render(self.toks[a:b])
            names = [t[1] for t in self.toks[a:b] if t[0] == "id" and t[1][0].islower() and t[1] not in ("mut", "ref")]
            self.expect("=")
            e = self.expr(no_struct=True)
            then = self.block()
            els = None
            if self.eat("else"):
                els = self.if_expr() if self.at("if") else self.block()
            return self.node("IfLet", i, pat=pat, names=names, e=e, then=then, els=els)
        c = self.expr(no_struct=True)
        then = self.block()
        els = None
        if self.eat("else"):
            els = self.if_expr() if self.at("if") else self.block()
        return self.node("If", i, c=c, then=then, els=els)

    def loop_expr(self):
        """control-code mode only: for PAT in E { .. } | while E { .. } | loop { .. } | break | continue"""
        i = self.p
        s = self.peek()[1]
        self.p += 1
        if s == "for":
            a, depth = self.p, 0
            while not (depth == 0 and self.at("in")):
                t = self.peek()
                if t[0] == "eof" or (t[0] == "p" and t[1] in ("{", ";")):
                    self.err("for: expected `in`", a)
                if t[0] == "p" and t[1] in ("(", "["):
                    depth += 1
                elif t[0] == "p" and t[1] in (")", "]"):
                    depth -= 1
                self.p += 1
            b = self.p
            pat = render(self.toks[a:b])
            names = [t[1] for t in self.toks[a:b] if t[0] == "id" and t[1] not in ("mut", "ref") and t[1][0].islower()]
            self.expect("in")
            e = self.expr(no_struct=True)
            body = self.block()
            return self.node("For", i, pat=pat, names=names, e=e, body=body)
        if s == "while":
            if self.at("let"):
                self.err("`while let` is outside the supported subset")
            c = self.expr(no_struct=True)
            body = self.block()
            return self.node("While", i, c=c, body=body)
        if s == "loop":
            body = self.block()
            return self.node("Loop", i, body=body)
        if s == "break":
            if not (self.at(";") or self.at("}") or self.at(",")):
                self.err("`break` with a label or a value is outside the supported subset")
            return self.node("Break", i)
        return self.node("Continue", i)

    def match_expr(self):
        i = self.p
        self.expect("match")
        e = self.expr(no_struct=True)
        self.expect("{")
        arms = []
        while not self.at("}"):
            a, b = self.pattern_until(("=>",))
            pat_toks = self.toks[a:b]
            self.expect("=>")
            body = self.expr()
            arms.append((pat_toks, body))
            if not self.eat(","):
                if not (self.at("}") or body.k in ("Block", "If", "IfLet", "Match")):
                    self.err("expected `,` between match arms")
        self.expect("}")
        return self.node("Match", i, e=e, arms=arms)

    def block(self):
        i = self.p
        self.expect("{")
        stmts, tail = [], None
        while not self.at("}"):
            if self.eat(";"):
                continue
            si = self.p
            if self.at("let"):
                self.p += 1
                a, b = self.pattern_until(("=", ":", ";"))
                pat = render(self.toks[a:b])
                names = [t[1] for t in self.toks[a:b] if t[0] == "id" and t[1] not in ("mut", "ref") and t[1][0].islower()]
                mut = any(t[0] == "id" and t[1] == "mut" for t in self.toks[a:b])
                ty = None
                if self.eat(":"):
                    ty = self.parse_type()
                init = None
                if self.eat("="):
                    init = self.expr()
                self.expect(";")
                stmts.append(self.node("Let", si, pat=pat, names=names, mut=mut, ty=ty, init=init))
                continue
            e = self.expr()
            if self.eat(";"):
                stmts.append(self.node("ExprStmt", si, e=e, semi=True))
            elif self.at("}"):
                tail = e
            elif e.k in ("If", "IfLet", "Match", "Block", "For", "While", "Loop"):
                stmts.append(self.node("ExprStmt", si, e=e, semi=False))
            else:
                self.err("expected `;` or `}` after expression")
        self.expect("}")
        return self.node("Block", i, stmts=stmts, tail=tail)
