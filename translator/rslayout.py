"""Item scanner and layout extractor for rs2v.py.

From the token stream of one Rust file: every C-like enum with all discriminants, every
`impl From<uN> for Enum` table, and every function whose body contains a `component!` (a *layout
function*).  For a layout function the skeleton is computed: ordered fields, node kinds, endianness,
literal / default values, closures normalised into the closure language of coq/Msg.v, and the pins
(normalised text of every value expression that is not a literal)."""
from rslex import RsError, render, tokenize
from rsparse import Parser, Node

INT_BITS = {"u8": 8, "u16": 16, "u32": 32, "u64": 64, "usize": 64, "u128": 128,
            "i8": 8, "i16": 16, "i32": 32, "i64": 64, "isize": 64}


class Enum(object):
    def __init__(self, file, name, line):
        self.file, self.name, self.line = file, name, line
        self.repr = None          # 'u8' | 'u16' | 'u32' | None
        self.derives = []
        self.variants = []        # (name, value, explicit)
        self.clike = True

    def value(self, v):
        for n, x, _ in self.variants:
            if n == v:
                return x
        return None


class FromTable(object):
    def __init__(self, file, enum, ty, line):
        self.file, self.enum, self.ty, self.line = file, enum, ty, line
        self.arms = []            # (int, variant)
        self.default = None


class Fn(object):
    def __init__(self, file, path, name, line):
        self.file, self.path, self.name, self.line = file, path, name, line
        self.params = []          # (name, type)
        self.ret = None
        self.body = None          # Block node
        self.toks = None


class Source(object):
    """one Rust file"""
    def __init__(self, key, path, src):
        self.key, self.path = key, path
        self.toks = tokenize(path, src)
        self.enums, self.froms, self.fns = [], [], []
        self.covered = []         # token ranges the scanner has accounted for (layout fn bodies, test modules, macro_rules)
        self.scan()
        for x in range(len(self.toks) - 1):
            if self.toks[x][0] == "id" and self.toks[x][1] == "component" and self.is_(x + 1, "!"):
                if not any(a <= x < b for a, b in self.covered):
                    self.err(x, "component! outside any function this translator recognises as a layout function")

    def err(self, i, msg):
        line = self.toks[min(i, len(self.toks) - 1)][2]
        raise RsError(self.path, line, msg)

    def is_(self, i, s):
        return i < len(self.toks) and self.toks[i][0] in ("p", "id") and self.toks[i][1] == s

    def skip_balanced(self, i):
        p = Parser(self.path, self.toks, i)
        p.balanced()
        return p.p

    def scan(self):
        toks, n = self.toks, len(self.toks)
        i = 0
        attrs = []
        while i < n:
            k, s = toks[i][0], toks[i][1]
            if k == "p" and s == "#":
                j = i + 1
                if self.is_(j, "!"):
                    j += 1
                if not self.is_(j, "["):
                    self.err(i, "stray `#`")
                e = self.skip_balanced(j)
                attrs.append(render(toks[j + 1:e - 1]))
                i = e
                continue
            if k == "id" and s == "mod":
                if self.is_(i + 2, "{"):
                    if any(a.replace(" ", "").startswith("cfg(test)") for a in attrs):
                        e = self.skip_balanced(i + 2)
                        self.covered.append((i, e))
                        i = e
                    else:
                        i += 3
                else:
                    i += 1
                attrs = []
                continue
            if k == "id" and s == "macro_rules":
                j = i + 1
                while j < n and not (toks[j][0] == "p" and toks[j][1] in ("{", "(", "[")):
                    j += 1
                e = self.skip_balanced(j)
                self.covered.append((i, e))
                i = e
                attrs = []
                continue
            if k == "id" and s == "enum":
                i = self.scan_enum(i, attrs)
                attrs = []
                continue
            if k == "id" and s == "impl":
                j = self.scan_from_impl(i)
                i = j if j is not None else i + 1
                attrs = []
                continue
            if k == "id" and s == "fn":
                test = any(a.replace(" ", "") in ("test", "cfg(test)") for a in attrs)
                i = self.scan_fn(i, test)
                attrs = []
                continue
            if k == "id" and s in ("pub", "crate", "unsafe", "extern", "async") or (k == "p" and s in ("(", ")")):
                i += 1
                continue
            attrs = []
            i += 1

    # ---------------------------------------------------------------- enums
    def scan_enum(self, i, attrs):
        toks = self.toks
        name = toks[i + 1][1]
        e = Enum(self.key, name, toks[i][2])
        for a in attrs:
            c = a.replace(" ", "")
            if c.startswith("repr(") and c.endswith(")"):
                e.repr = c[5:-1]
            if c.startswith("derive(") and c.endswith(")"):
                e.derives += c[7:-1].split(",")
        j = i + 2
        if self.is_(j, "<"):
            p = Parser(self.path, toks, j)
            p.skip_generics()
            j = p.p
        if not self.is_(j, "{"):
            self.err(i, "enum %s: expected `{`" % name)
        end = self.skip_balanced(j)
        p = Parser(self.path, toks, j + 1, end - 1)
        nxt = 0
        while p.p < p.hi:
            while p.at("#"):
                p.p += 1
                p.balanced()
            if p.p >= p.hi:
                break
            vname = p.ident()
            if p.at("(") or p.at("{"):
                p.balanced()
                e.clike = False
            explicit = False
            if p.eat("="):
                ex = p.expr()
                v = const_int(self, ex)
                if v is None:
                    self.err(ex.i, "enum %s::%s: discriminant is not a constant this translator can evaluate" % (name, vname))
                nxt = v
                explicit = True
            e.variants.append((vname, nxt, explicit))
            nxt += 1
            if p.p < p.hi:
                p.expect(",")
        if e.clike:
            seen = {}
            for vn, v, _ in e.variants:
                if v in seen:
                    self.err(i, "enum %s: variants %s and %s have the same discriminant %d" % (name, seen[v], vn, v))
                seen[v] = vn
        self.enums.append(e)
        return end

    # ---------------------------------------------------------------- From<uN> tables
    def scan_from_impl(self, i):
        toks = self.toks
        # impl From < T > for Name {
        if not (self.is_(i + 1, "From") and self.is_(i + 2, "<")):
            return None
        p = Parser(self.path, toks, i + 2)
        ty = p.skip_generics()
        if ty not in ("u8", "u16", "u32", "u64"):
            return None
        p.expect("for")
        name = p.ident()
        if not p.at("{"):
            p.err("impl From<%s> for %s: expected `{`" % (ty, name))
        lo, hi = p.balanced()
        end = p.p
        q = Parser(self.path, toks, lo, hi)
        if not (q.eat("fn") and q.eat("from")):
            q.err("impl From<%s> for %s: expected `fn from`" % (ty, name))
        q.expect("(")
        arg = q.ident()
        q.expect(":")
        q.parse_type()
        q.expect(")")
        q.expect("->")
        q.parse_type()
        body = q.block()
        m = strip(body)
        if m.k != "Match" or m.e.k != "Path" or m.e.segs != [arg]:
            self.err(body.i, "impl From<%s> for %s: body is not `match %s { .. }`" % (ty, name, arg))
        ft = FromTable(self.key, name, ty, toks[i][2])
        for pat, b in m.arms:
            b = strip(b)
            if b.k != "Path" or len(b.segs) != 2 or b.segs[0] not in (name, "Self"):
                self.err(b.i, "impl From<%s> for %s: arm result is not a variant of %s" % (ty, name, name))
            if len(pat) == 1 and pat[0][0] == "int":
                if ft.default is not None:
                    self.err(b.i, "impl From<%s> for %s: arm after the wildcard" % (ty, name))
                ft.arms.append((pat[0][3], b.segs[1]))
            elif len(pat) == 1 and pat[0][1] == "_":
                ft.default = b.segs[1]
            else:
                self.err(b.i, "impl From<%s> for %s: pattern `%s` is not an integer literal or `_`" % (ty, name, render(pat)))
        if ft.default is None:
            self.err(i, "impl From<%s> for %s: no wildcard arm" % (ty, name))
        self.froms.append(ft)
        return end

    # ---------------------------------------------------------------- functions
    def scan_fn(self, i, test):
        toks = self.toks
        name = toks[i + 1][1]
        p = Parser(self.path, toks, i + 2)
        if p.at("<"):
            p.skip_generics()
        if not p.at("("):
            p.err("fn %s: expected parameter list" % name)
        lo, hi = p.balanced()
        # return type / where clause up to the body
        r0 = p.p
        while not (p.at("{") or p.at(";")):
            if p.at_kind("eof"):
                p.err("fn %s: no body" % name)
            if p.at("<"):
                p.skip_generics()
            elif p.at("(") or p.at("["):
                p.balanced()
            else:
                p.p += 1
        ret = render(toks[r0:p.p])
        if p.at(";"):
            return p.p + 1
        b0 = p.p
        blo, bhi = p.balanced()
        end = p.p
        has_component = any(toks[x][0] == "id" and toks[x][1] == "component" and self.is_(x + 1, "!") for x in range(blo, bhi))
        if has_component:
            self.covered.append((b0, end))
        if has_component and not test:
            f = Fn(self.key, self.path, name, toks[i][2])
            f.ret = ret[2:].strip() if ret.startswith("->") else ret
            q = Parser(self.path, toks, lo, hi)
            while q.p < q.hi:
                if q.at("&") or q.at("self") or q.at("mut"):
                    # &self / &mut self / self
                    while q.p < q.hi and not q.at(","):
                        q.p += 1
                    q.eat(",")
                    continue
                q.eat("mut")
                pn = q.ident()
                q.expect(":")
                pt = q.parse_type()
                f.params.append((pn, pt))
                if q.p < q.hi:
                    q.expect(",")
            f.body = Parser(self.path, toks, b0, end).block()
            f.toks = toks
            self.fns.append(f)
        return end


def strip(e):
    """peel parentheses and blocks that only wrap one expression"""
    while True:
        if e.k == "Paren":
            e = e.e
        elif e.k == "Block" and not e.stmts and e.tail is not None:
            e = e.tail
        else:
            return e


def const_int(src, e):
    """integer literal arithmetic only (enum discriminants)"""
    e = strip(e)
    if e.k == "Int":
        return e.v
    if e.k == "Cast":
        v = const_int(src, e.e)
        if v is None or e.ty not in INT_BITS:
            return None
        return v & ((1 << INT_BITS[e.ty]) - 1)
    if e.k == "Binary":
        a, b = const_int(src, e.l), const_int(src, e.r)
        if a is None or b is None:
            return None
        return binop(e.op, a, b)
    if e.k == "Unary" and e.op == "-":
        return None
    return None


def binop(op, a, b):
    if op == "+": return a + b
    if op == "-": return a - b if a >= b else None
    if op == "*": return a * b
    if op == "|": return a | b
    if op == "&": return a & b
    if op == "^": return a ^ b
    if op == "<<": return a << b
    if op == ">>": return a >> b
    return None


def idents(toks):
    return set(t[1] for t in toks if t[0] == "id")


# ==================================================================== the world: all files together

class World(object):
    def __init__(self):
        self.sources = {}         # key -> Source
        self.layouts = {}         # (file, fn) -> Layout
        self.order = []
        self.errors = []
        self.failed = []          # layouts that could not be translated
        self.failed_files = []    # files that could not even be scanned

    def add(self, key, path, text):
        try:
            self.sources[key] = Source(key, path, text)
        except RsError as e:
            self.errors.append({"file": key, "layout": None, "where": "%s:%s" % (e.path, e.line), "msg": str(e)})
            self.failed_files.append(key)

    def find_enum(self, file, name, at=None):
        if any(True for _ in self.failed_files):
            # an enum of a file that could not be scanned is unknown: resolution by uniqueness would be unsound
            pass
        s = self.sources[file]
        for e in s.enums:
            if e.name == name:
                return e
        hits = [e for k in sorted(self.sources) for e in self.sources[k].enums if e.name == name]
        if len(hits) == 1:
            return hits[0]
        if len(hits) > 1:
            # imported by a `use` of exactly one of them?
            toks = s.toks
            cands = []
            for h in hits:
                for x in range(len(toks) - 1):
                    if toks[x][0] == "id" and toks[x][1] == "use":
                        y = x
                        seen_mod = False
                        while y < len(toks) and not (toks[y][0] == "p" and toks[y][1] == ";"):
                            if toks[y][0] == "id" and toks[y][1] == h.file:
                                seen_mod = True
                            if seen_mod and toks[y][0] == "id" and toks[y][1] == name:
                                cands.append(h)
                                break
                            y += 1
            cands = list(dict((id(c), c) for c in cands).values())
            if len(cands) == 1:
                return cands[0]
        return None

    def find_fn(self, file, segs):
        name = segs[-1]
        if len(segs) >= 2 and segs[-2] in self.sources:
            for f in self.sources[segs[-2]].fns:
                if f.name == name:
                    return f
            return None
        for f in self.sources[file].fns:
            if f.name == name:
                return f
        hits = [f for k in sorted(self.sources) for f in self.sources[k].fns if f.name == name]
        return hits[0] if len(hits) == 1 else None


class Ctx(object):
    """evaluation context of one (possibly inlined) layout function"""
    def __init__(self, world, fn, bind=None, caller=None):
        self.w, self.fn, self.bind, self.caller = world, fn, bind, caller
        self.params = dict(fn.params)
        self.lets = {}
        self.pre = []             # preamble statements
        self.mutated = set()
        self.extra = set()        # names bound by an enclosing `if let` pattern

    def err(self, node, msg):
        raise RsError(self.fn.path, node.line if isinstance(node, Node) else node, "layout %s: %s" % (self.fn.name, msg))

    def text(self, n):
        return render(self.fn.toks[n.i:n.j])


def strip_option(t):
    if t and t.startswith("Option<") and t.endswith(">"):
        return t[7:-1]
    return None


UNBOUND_OPT = ("unbound_opt",)


def ev(e, cx, depth=0):
    """constant evaluation: ('int', v, dflt) | ('bytes', b, dflt) | ('none',) | ('some', r) | UNBOUND_OPT | None"""
    if depth > 40:
        return None
    e = strip(e)
    k = e.k
    if k == "Int":
        return ("int", e.v, False)
    if k == "Bool":
        return ("int", 1 if e.v else 0, False)
    if k == "BStr":
        return ("bytes", bytes(e.v), False)
    if k == "Path":
        if len(e.segs) == 1:
            x = e.segs[0]
            if x == "None":
                return ("none",)
            if x in cx.lets:
                l = cx.lets[x]
                if l.mut or x in cx.mutated or l.init is None:
                    return None
                return ev(l.init, cx, depth + 1)
            if x in cx.params:
                if cx.bind is not None:
                    if x in cx.bind:
                        return ev(cx.bind[x], cx.caller, depth + 1)
                    return None
                if strip_option(cx.params[x]) is not None:
                    return UNBOUND_OPT
                return None
            return None
        if len(e.segs) >= 2:
            en = cx.w.find_enum(cx.fn.file, e.segs[-2])
            if en is not None and en.clike:
                v = en.value(e.segs[-1])
                if v is not None:
                    return ("int", v, False)
        return None
    if k == "Cast":
        r = ev(e.e, cx, depth + 1)
        if r and r[0] == "int" and e.ty in INT_BITS:
            return ("int", r[1] & ((1 << INT_BITS[e.ty]) - 1), r[2])
        return None
    if k == "Binary":
        a, b = ev(e.l, cx, depth + 1), ev(e.r, cx, depth + 1)
        if a and b and a[0] == "int" and b[0] == "int":
            v = binop(e.op, a[1], b[1])
            if v is None:
                if e.op == "==": v = int(a[1] == b[1])
                elif e.op == "!=": v = int(a[1] != b[1])
                else: return None
            return ("int", v, a[2] or b[2])
        return None
    if k == "Call" and e.fn.k == "Path":
        segs = e.fn.segs
        if segs == ["Some"] and len(e.args) == 1:
            r = ev(e.args[0], cx, depth + 1)
            return ("some", r) if r is not None else None
        if segs == ["Vec", "new"] and not e.args:
            return ("bytes", b"", False)
        if segs == ["to_vec"] and len(e.args) == 1:
            r = ev(e.args[0], cx, depth + 1)
            if r and r[0] == "empty_component":
                return ("bytes", b"", False)
            if r and r[0] == "dflt" and r[1][0] == "empty_component":
                return ("bytes", b"", True)
        return None
    if k == "Macro" and e.name == "vec":
        if e.form == "list":
            out = []
            d = False
            for a in e.args:
                r = ev(a, cx, depth + 1)
                if not (r and r[0] == "int"):
                    return None
                out.append(r[1] & 0xFF)
                d = d or r[2]
            return ("bytes", bytes(out), d)
        if e.form == "repeat":
            a, c = ev(e.elem, cx, depth + 1), ev(e.count, cx, depth + 1)
            if a and c and a[0] == "int" and c[0] == "int" and c[1] <= 65536:
                return ("bytes", bytes([a[1] & 0xFF]) * c[1], a[2] or c[2])
            return None
    if k == "MCall":
        if e.name == "unwrap_or" and len(e.args) == 1:
            r = ev(e.recv, cx, depth + 1)
            if r == ("none",):
                return ev(e.args[0], cx, depth + 1)
            if r is UNBOUND_OPT:
                d = ev(e.args[0], cx, depth + 1)
                if d and d[0] in ("int", "bytes"):
                    return (d[0], d[1], True)
                if d and d[0] in ("struct", "empty_component"):
                    return ("dflt", d)
                return None
            if r and r[0] == "some":
                return r[1]
            return None
        if e.name == "to_vec" and not e.args:
            r = ev(e.recv, cx, depth + 1)
            if r and r[0] == "bytes":
                return r
            return None
        if e.name in ("len", "length") and not e.args:
            r = ev(e.recv, cx, depth + 1)
            if r and r[0] == "bytes":
                return ("int", len(r[1]), r[2])
            if r and r[0] == "empty_component" and e.name == "length":
                return ("int", 0, False)
            if r and r[0] == "dflt" and r[1][0] == "empty_component" and e.name == "length":
                return ("int", 0, True)
            return None
        return None
    if k == "Unary" and e.op == "&":
        return ev(e.e, cx, depth + 1)
    if k == "Struct":
        return ("struct", dict((n, v) for n, v in e.fields if v is not None), cx)
    if k == "Field":
        r = ev(e.e, cx, depth + 1)
        d = False
        if r and r[0] == "dflt":
            r, d = r[1], True
        if r and r[0] == "struct" and e.name in r[1]:
            x = ev(r[1][e.name], r[2], depth + 1)
            if d and x and x[0] in ("int", "bytes"):
                return (x[0], x[1], True)
            if d and x:
                return ("dflt", x)
            return x
        return None
    if k == "Macro" and e.name == "component" and e.form == "kv" and not e.kv:
        return ("empty_component",)
    if k == "If":
        c = ev(e.c, cx, depth + 1)
        if c and c[0] == "int" and e.els is not None:
            r = ev(e.then if c[1] else e.els, cx, depth + 1)
            if r and r[0] in ("int", "bytes"):
                return (r[0], r[1], r[2] or c[2])
        return None
    return None


def type_of(e, cx, depth=0):
    if depth > 40:
        return None
    e = strip(e)
    k = e.k
    if k == "Path" and len(e.segs) == 1:
        x = e.segs[0]
        if x in cx.lets:
            l = cx.lets[x]
            if l.ty:
                return l.ty
            return type_of(l.init, cx, depth + 1) if l.init is not None else None
        if x in cx.params:
            t = cx.params[x]
            while t.startswith("&"):
                t = t[1:]
                if t.startswith("mut "):
                    t = t[4:]
            return t
        return None
    if k == "Cast":
        return e.ty
    if k == "Int":
        return e.suffix
    if k == "MCall":
        if e.name == "unwrap_or":
            t = strip_option(type_of(e.recv, cx, depth + 1) or "")
            return t or type_of(e.args[0], cx, depth + 1)
        if e.name in ("to_vec", "to_unicode"):
            return "Vec<u8>"
        if e.name == "collect" and e.gen:
            return e.gen.replace(" ", "")
        if e.name == "clone":
            return type_of(e.recv, cx, depth + 1)
        return None
    if k == "Macro":
        if e.name == "vec":
            return "Vec<u8>"
        if e.name == "trame":
            return "Trame"
        if e.name == "component":
            return "Component"
        return None
    if k == "Call" and e.fn.k == "Path":
        segs = e.fn.segs
        if segs == ["Array", "new"]:
            return "Array<?>"
        if segs == ["Vec", "new"]:
            return "Vec<u8>"
        if segs == ["to_vec"]:
            return "Vec<u8>"
        f = cx.w.find_fn(cx.fn.file, segs)
        if f is not None:
            return f.ret
        return None
    return None


# ==================================================================== closures

def tstr(e):
    e = strip(e)
    if e.k == "MCall" and e.name in ("to_string", "to_owned", "into") and not e.args and strip(e.recv).k == "Str":
        return strip(e.recv).v
    if e.k == "Call" and e.fn.k == "Path" and e.fn.segs == ["String", "from"] and len(e.args) == 1 and strip(e.args[0]).k == "Str":
        return strip(e.args[0]).v
    return None


def msgopt(e, cx):
    e = strip(e)
    if e.k == "Return":
        if e.e is None:
            cx.err(e, "closure: `return` without a value")
        return msgopt(e.e, cx)
    if e.k == "Block" and len(e.stmts) == 1 and e.tail is None and e.stmts[0].k == "ExprStmt" and strip(e.stmts[0].e).k == "Return":
        return msgopt(e.stmts[0].e, cx)
    if e.k == "Path" and e.segs == ["MessageOption", "None"]:
        return ("none",)
    if e.k == "Call" and e.fn.k == "Path" and len(e.fn.segs) == 2 and e.fn.segs[0] == "MessageOption":
        which = e.fn.segs[1]
        if which == "Size" and len(e.args) == 2:
            t = tstr(e.args[0])
            if t is None:
                cx.err(e, "closure: the target of MessageOption::Size is not a string literal")
            return ("size", t, e.args[1])
        if which == "SkipField" and len(e.args) == 1:
            t = tstr(e.args[0])
            if t is None:
                cx.err(e, "closure: the target of MessageOption::SkipField is not a string literal")
            return ("skip", t)
    cx.err(e, "closure: result `%s` is not MessageOption::Size(..) / SkipField(..) / None" % cx.text(e))


def self_atom(e, x, cx, allow_cast=True):
    """the numeric value of the field the closure is attached to: x, *x, x.inner(), with widening casts"""
    e = strip(e)
    if e.k == "Cast" and allow_cast and e.ty in ("u16", "u32", "u64", "usize"):
        return self_atom(e.e, x, cx)
    if e.k == "Path" and e.segs == [x]:
        return True
    if e.k == "Unary" and e.op == "*" and strip(e.e).k == "Path" and strip(e.e).segs == [x]:
        return True
    if e.k == "MCall" and e.name == "inner" and not e.args and strip(e.recv).k == "Path" and strip(e.recv).segs == [x]:
        return True
    return False


def field_atom(e, x, cx):
    """cast!(DataType::Uxx, x["g"]).unwrap() [as usize]"""
    e = strip(e)
    if e.k == "Cast" and e.ty in ("u16", "u32", "u64", "usize"):
        return field_atom(e.e, x, cx)
    if e.k == "MCall" and e.name == "unwrap" and not e.args:
        m = strip(e.recv)
        if m.k == "Macro" and m.name == "cast" and m.form == "list" and len(m.args) == 2:
            dt, ix = strip(m.args[0]), strip(m.args[1])
            if dt.k == "Path" and dt.segs[0] == "DataType" and dt.segs[-1] in ("U8", "U16", "U32") and ix.k == "Index":
                if strip(ix.e).k == "Path" and strip(ix.e).segs == [x] and strip(ix.idx).k == "Str":
                    return strip(ix.idx).v
    return None


def konst(e, cx, what):
    r = ev(e, cx)
    if not (r and r[0] == "int") or r[2]:
        cx.err(e, "closure: %s `%s` is not a constant" % (what, cx.text(e)))
    return r[1]


def cexp(e, x, cx):
    e = strip(e)
    if self_atom(e, x, cx):
        return ("self",)
    g = field_atom(e, x, cx)
    if g is not None:
        return ("field", g)
    if e.k == "Cast":
        cx.err(e, "closure: `%s`: arithmetic below an `as` cast is done at the field's own width; the closure language of Msg.v has usize arithmetic only" % cx.text(e))
    if e.k == "Binary" and e.op in ("+", "-", "*"):
        rc = ev(e.r, cx)
        if rc and rc[0] == "int" and not rc[2]:
            inner = cexp(e.l, x, cx)
            return ({"+": "add", "-": "sub", "*": "mul"}[e.op], inner, rc[1])
        lc = ev(e.l, cx)
        if lc and lc[0] == "int" and not lc[2] and e.op in ("+", "*"):
            inner = cexp(e.r, x, cx)
            return ({"+": "add", "*": "mul"}[e.op], inner, lc[1])
        cx.err(e, "closure: `%s`: one operand must be a constant" % cx.text(e))
    if e.k == "MCall" and e.name == "saturating_sub" and len(e.args) == 1:
        return ("subsat", cexp(e.recv, x, cx), konst(e.args[0], cx, "operand of saturating_sub"))
    if e.k == "MCall" and e.name == "unwrap_or" and len(e.args) == 1 and strip(e.recv).k == "MCall" and strip(e.recv).name == "checked_sub":
        if konst(e.args[0], cx, "fallback of checked_sub") != 0:
            cx.err(e, "closure: checked_sub(..).unwrap_or(k) with k != 0 is not in the closure language")
        r = strip(e.recv)
        return ("subsat", cexp(r.recv, x, cx), konst(r.args[0], cx, "operand of checked_sub"))
    if e.k == "MCall" and e.name in ("wrapping_sub", "wrapping_add", "wrapping_mul", "checked_sub", "checked_add", "checked_mul", "saturating_add", "saturating_mul"):
        cx.err(e, "closure: `.%s(..)` has no counterpart in the closure language of Msg.v" % e.name)
    cx.err(e, "closure: size expression `%s` is outside the closure language" % cx.text(e))


def ccond(e, x, cx):
    e = strip(e)
    if e.k == "Binary" and e.op in ("||", "&&"):
        return ("or" if e.op == "||" else "and", ccond(e.l, x, cx), ccond(e.r, x, cx))
    if e.k == "Unary" and e.op == "!":
        return ("not", ccond(e.e, x, cx))
    if e.k == "Binary" and e.op in ("==", "!="):
        l, r = e.l, e.r
        rv = ev(r, cx)
        if not (rv and rv[0] == "int" and not rv[2]):
            lv = ev(l, cx)
            if lv and lv[0] == "int" and not lv[2]:
                l, r, rv = r, l, lv
            else:
                cx.err(e, "closure: comparison `%s` has no constant side" % cx.text(e))
        v = rv[1]
        l = strip(l)
        if l.k == "Cast" and l.ty in ("u16", "u32", "u64", "usize"):
            l = strip(l.e)
        shift, mask = 0, None
        if l.k == "Binary" and l.op == "&":
            a, m = l.l, l.r
            mv = ev(m, cx)
            if not (mv and mv[0] == "int" and not mv[2]):
                mv = ev(a, cx)
                a, m = m, a
                if not (mv and mv[0] == "int" and not mv[2]):
                    cx.err(l, "closure: mask test `%s` has no constant mask" % cx.text(l))
            mask = mv[1]
            a = strip(a)
            if a.k == "Binary" and a.op == ">>":
                sv = ev(a.r, cx)
                if not (sv and sv[0] == "int" and not sv[2]) or not self_atom(a.l, x, cx):
                    cx.err(a, "closure: `%s` is not `<field> >> constant`" % cx.text(a))
                shift = sv[1]
            elif not self_atom(a, x, cx):
                cx.err(a, "closure: `%s` is not the field value" % cx.text(a))
        else:
            cx.err(l, "closure: `%s` is not a mask test `(field [>> s]) & m`" % cx.text(l))
        c = ("bits", 0, mask << shift, v << shift)    # canonical form: shift 0
        return c if e.op == "==" else ("not", c)
    cx.err(e, "closure: condition `%s` is outside the closure language" % cx.text(e))


def norm_closure(c, cx):
    c = strip(c)
    if c.k != "Closure":
        cx.err(c, "DynOption::new: second argument is not a closure")
    if len(c.params) != 1:
        cx.err(c, "DynOption closure must take exactly one parameter")
    x = c.params[0]
    body = strip(c.body)
    # if / else form
    if body.k == "If":
        return skipif(body.c, body.then, body.els, x, cx, body)
    if body.k == "Block":
        st = list(body.stmts)
        tail = body.tail
        if tail is None and st and st[-1].k == "ExprStmt":
            tail = st.pop().e
        if len(st) == 1 and st[0].k == "ExprStmt" and strip(st[0].e).k == "If" and strip(st[0].e).els is None and tail is not None:
            i = strip(st[0].e)
            return skipif(i.c, i.then, tail, x, cx, body)
        if not st and tail is not None:
            if strip(tail).k == "If":
                t = strip(tail)
                return skipif(t.c, t.then, t.els, x, cx, body)
            body = tail
        else:
            cx.err(body, "closure body has a shape this translator does not know")
    r = msgopt(body, cx)
    if r[0] == "size":
        return ("size", r[1], cexp(r[2], x, cx))
    if r[0] == "none":
        return ("cnone",)
    cx.err(body, "closure: unconditional SkipField is outside the closure language")


def skipif(c, then, els, x, cx, at):
    if els is None:
        cx.err(at, "closure: `if` without `else`")
    a, b = msgopt(then, cx), msgopt(els, cx)
    cond = ccond(c, x, cx)
    if a[0] == "skip" and b[0] == "none":
        return ("skipif", cond, a[1])
    if a[0] == "none" and b[0] == "skip":
        return ("skipif", ("not", cond), b[1])
    cx.err(at, "closure: the branches are not { SkipField(f) } else { None }")


# ==================================================================== layouts

class Layout(object):
    def __init__(self, fn):
        self.fn = fn
        self.file, self.name, self.line = fn.file, fn.name, fn.line
        self.skel = None
        self.pins = []            # (path, text)
        self.nfields = 0
        self.nclosures = 0
        self.wrapper = None       # e.g. 'PDU', 'Capability', tuple
        self.tags = []            # other fields of the wrapping struct literal (normalised text)
        self.has_if = False


class Builder(object):
    def __init__(self, world, layout):
        self.w, self.lay = world, layout

    def prepare(self, cx):
        """split the function body into preamble and the result component"""
        body = cx.fn.body
        st = list(body.stmts)
        tail = body.tail
        if tail is None and st and st[-1].k == "ExprStmt" and strip(st[-1].e).k == "Return":
            tail = strip(st.pop().e).e
        if tail is None:
            cx.err(body, "function has no result expression")
        for s in st:
            if s.k == "Let":
                for nm in s.names:
                    cx.lets[nm] = s
                if len(s.names) != 1 and s.init is not None:
                    for nm in s.names:
                        cx.mutated.add(nm)
            elif s.k == "ExprStmt":
                # any statement that is not a `let` may mutate the locals it mentions; one that mentions none is control
                # flow this translator does not model (a guard, an early return): fail closed
                hit = False
                for t in cx.fn.toks[s.i:s.j]:
                    if t[0] == "id" and t[1] in cx.lets:
                        cx.mutated.add(t[1])
                        hit = True
                if not hit:
                    cx.err(s, "statement `%s` before the component![..] is neither a `let` nor an update of a local" % cx.text(s)[:80])
                if any(t[0] == "id" and t[1] == "return" for t in cx.fn.toks[s.i:s.j]):
                    cx.err(s, "early `return` before the component![..]")
            else:
                cx.err(s, "statement kind %s in a layout function" % s.k)
            cx.pre.append(s)
        # the result component
        r = strip(tail)
        wrapper, tags = None, []
        if r.k == "Call" and r.fn.k == "Path" and r.fn.segs == ["Ok"] and len(r.args) == 1:
            r = strip(r.args[0])
        if r.k == "Tuple" and r.elems:
            wrapper = "tuple"
            tags = [cx.text(x) for x in r.elems[1:]]
            r = strip(r.elems[0])
        if r.k == "Struct":
            wrapper = "::".join(r.path)
            comp = None
            for fname, v in r.fields:
                if fname == "message" and v is not None:
                    comp = strip(v)
                else:
                    tags.append("%s: %s" % (fname, cx.text(v) if v is not None else fname))
            if comp is None:
                cx.err(r, "struct literal result without a `message:` component")
            r = comp
        if not (r.k == "Macro" and r.name == "component"):
            cx.err(r, "the result of the function is not a component![..] (or PDU{message: component![..]}, (component![..], x), Ok(..))")
        # no other non-empty component! outside the result
        toks = cx.fn.toks
        for x in range(body.i, body.j):
            if toks[x][0] == "id" and toks[x][1] == "component" and toks[x + 1][1] == "!" and not (r.i <= x < r.j):
                if toks[x + 3][1] not in ("]", ")", "}"):
                    raise RsError(cx.fn.path, toks[x][2], "layout %s: a second non-empty component! outside the result expression" % cx.fn.name)
        return r, wrapper, tags

    def build_top(self):
        cx = Ctx(self.w, self.lay.fn)
        comp, self.lay.wrapper, self.lay.tags = self.prepare(cx)
        self.lay.skel = self.comp(comp, cx, [], True)

    # -- pins
    def pin(self, cx, path, e, top):
        """record the normalised text of a value expression that depends on the function's inputs; returns whether it does"""
        toks = cx.fn.toks
        locs = set(cx.lets) | set(cx.params)
        used = idents(toks[e.i:e.j]) & (locs | cx.extra)
        if not used:
            return False
        if not top:
            return True
        inc = set()
        changed = True
        while changed:
            changed = False
            for n, s in enumerate(cx.pre):
                if n in inc:
                    continue
                ids = idents(toks[s.i:s.j])
                defines = set(s.names) if s.k == "Let" else set()
                hit = (defines & used) if s.k == "Let" else (ids & used & set(cx.lets))
                if hit:
                    inc.add(n)
                    new = (ids & locs) - used
                    if new:
                        used |= new
                    changed = True
        text = render(toks[e.i:e.j])
        if inc:
            text += "  WHERE  " + "  ;;  ".join(render(toks[cx.pre[n].i:cx.pre[n].j]) for n in sorted(inc))
        self.lay.pins.append(("/".join(path), text))
        return True

    def numval(self, e, cx, bits, path, top):
        r = ev(e, cx)
        dep = self.pin(cx, path, e, top)
        if not (r and r[0] == "int") and not dep:
            cx.err(e, "field \"%s\": value `%s` is neither a constant this translator can evaluate nor an expression over the "
                      "function's parameters / locals (a named constant? a call?)" % ("/".join(path), cx.text(e)))
        if r and r[0] == "int":
            v = r[1]
            if v >= (1 << bits):
                cx.err(e, "constant %d does not fit the %d-bit field" % (v, bits))
            return ("def", v) if r[2] else ("lit", v)
        return ("pin",)

    def bytesval(self, e, cx, path, top):
        r = ev(e, cx)
        dep = self.pin(cx, path, e, top)
        if not (r and r[0] == "bytes") and not dep:
            cx.err(e, "field \"%s\": value `%s` is neither a constant this translator can evaluate nor an expression over the "
                      "function's parameters / locals" % ("/".join(path), cx.text(e)))
        if r and r[0] == "bytes":
            return ("def", r[1]) if r[2] else ("lit", r[1])
        return ("pin",)

    def comp(self, m, cx, path, top):
        fields = []
        seen = set()
        for name, line, v in m.kv:
            if name in seen:
                raise RsError(cx.fn.path, line, "layout %s: duplicate key \"%s\" in component! (the later entry overwrites the earlier one in place)" % (cx.fn.name, name))
            seen.add(name)
            if top:
                self.lay.nfields += 1
            fields.append((name, self.node(v, cx, path + [name], top)))
        return ("comp", fields)

    def nested(self, f, args, cx, path, top, at):
        """a call of another layout function used as a sub-message: inline its skeleton under the call's bindings"""
        if f.ret.replace(" ", "") != "Component":
            cx.err(at, "call of %s used as a message but it returns `%s`, not Component" % (f.name, f.ret))
        if len(args) != len(f.params):
            cx.err(at, "call of %s with %d arguments, it takes %d" % (f.name, len(args), len(f.params)))
        sub = Ctx(self.w, f, bind=dict((p[0], a) for p, a in zip(f.params, args)), caller=cx)
        comp, _, _ = self.prepare(sub)
        self.pin(cx, path, at, top)
        return self.comp(comp, sub, path, False)

    def node(self, e, cx, path, top):
        e0 = e
        e = strip(e)
        k = e.k
        if k == "Call" and e.fn.k == "Path":
            segs = e.fn.segs
            if len(segs) == 2 and segs[0] in ("U16", "U32") and segs[1] in ("LE", "BE"):
                if len(e.args) != 1:
                    cx.err(e, "%s::%s takes one argument" % (segs[0], segs[1]))
                bits = 16 if segs[0] == "U16" else 32
                return ("u%d" % bits, segs[1], self.numval(e.args[0], cx, bits, path, top))
            if segs == ["Check", "new"] and len(e.args) == 1:
                return ("check", self.node(e.args[0], cx, path, top))
            if segs == ["Some"] and len(e.args) == 1:
                return ("opt", self.node(e.args[0], cx, path, top))
            if segs == ["DynOption", "new"] and len(e.args) == 2:
                inner = self.node(e.args[0], cx, path, top)
                clo = norm_closure(e.args[1], cx)
                if top:
                    self.lay.nclosures += 1
                return ("dyn", inner, clo)
            if segs == ["Array", "new"] and len(e.args) == 1:
                c = strip(e.args[0])
                if c.k != "Closure" or c.params:
                    cx.err(e, "Array::new: the factory is not a `|| ..` closure")
                return ("array", [], ("new", self.node(c.body, cx, path + ["[]"], False)))
            if segs == ["Array", "from_trame"]:
                cx.err(e, "Array::from_trame inside a layout declaration is not supported")
            if segs == ["Vec", "new"] and not e.args:
                return ("bytes", ("lit", b""))
            if segs == ["to_vec"] and len(e.args) == 1:
                return ("bytes", self.bytesval(e, cx, path, top))
            f = self.w.find_fn(cx.fn.file, segs)
            if f is not None:
                return self.nested(f, e.args, cx, path, top, e)
            cx.err(e, "field \"%s\": call of `%s` is not a message constructor this translator knows" % ("/".join(path), "::".join(segs)))
        if k == "Cast":
            if e.ty == "u8":
                return ("u8", self.numval(e, cx, 8, path, top))
            cx.err(e, "field \"%s\": a bare `as %s` value is not a message (only u8 is)" % ("/".join(path), e.ty))
        if k == "Int" and e.suffix == "u8":
            return ("u8", ("lit", e.v))
        if k == "Macro":
            if e.name == "vec":
                return ("bytes", self.bytesval(e, cx, path, top))
            if e.name == "trame":
                return ("trame", [self.node(a, cx, path + [str(n)], top) for n, a in enumerate(e.args)])
            if e.name == "component":
                return self.comp(e, cx, path, top)
            cx.err(e, "field \"%s\": macro %s! is not a message constructor" % ("/".join(path), e.name))
        if k in ("If", "IfLet"):
            if e.els is None:
                cx.err(e, "field \"%s\": `if` without `else`" % "/".join(path))
            saved = set(cx.extra)
            if k == "IfLet":
                cx.extra |= set(e.names)
            a = self.node(e.then, cx, path, False)
            b = self.node(e.els, cx, path, False)
            cx.extra = saved
            if a[0] == "bytes" and b[0] == "bytes":
                return ("bytes", self.bytesval(e, cx, path, top))
            if a[0] == "comp" and b[0] == "comp" and k == "If":
                self.lay.has_if = True
                self.pin(cx, path, e.c, top)
                return ("if", cx.text(e.c), a, b)
            cx.err(e, "field \"%s\": the branches of this `if` are messages of different kinds (%s / %s)" % ("/".join(path), a[0], b[0]))
        if k in ("MCall", "Path", "Field", "Index"):
            if k == "MCall" and e.name == "collect" and (e.gen or "").replace(" ", "") == "Vec<u8>":
                return ("bytes", self.bytesval(e, cx, path, top))
            t = (type_of(e, cx) or "").replace(" ", "")
            if t == "u8":
                return ("u8", self.numval(e, cx, 8, path, top))
            if t == "Vec<u8>":
                return ("bytes", self.bytesval(e, cx, path, top))
            if t.startswith("Array<"):
                # a parameter with a default factory: x.unwrap_or(Array::new(|| ..))
                d = e
                hops = 0
                while hops < 10:
                    d = strip(d)
                    if d.k == "Path" and len(d.segs) == 1 and d.segs[0] in cx.lets and cx.lets[d.segs[0]].init is not None:
                        d = cx.lets[d.segs[0]].init
                        hops += 1
                        continue
                    break
                d = strip(d)
                if d.k == "MCall" and d.name == "unwrap_or" and len(d.args) == 1:
                    dflt = strip(d.args[0])
                    if dflt.k == "Call" and dflt.fn.k == "Path" and dflt.fn.segs == ["Array", "new"]:
                        c = strip(dflt.args[0])
                        if c.k == "Closure" and not c.params:
                            self.pin(cx, path, e, top)
                            return ("arraydef", self.node(c.body, cx, path + ["[]"], False))
                cx.err(e, "field \"%s\": Array value `%s` is not `param.unwrap_or(Array::new(|| ..))`" % ("/".join(path), cx.text(e)))
            if t == "Component":
                d = e
                if d.k == "Path" and len(d.segs) == 1 and d.segs[0] in cx.lets and cx.lets[d.segs[0]].init is not None:
                    init = strip(cx.lets[d.segs[0]].init)
                    if init.k == "Call" and init.fn.k == "Path":
                        f = self.w.find_fn(cx.fn.file, init.fn.segs)
                        if f is not None:
                            self.pin(cx, path, e, top)
                            return self.nested(f, init.args, cx, path, False, init)
                cx.err(e, "field \"%s\": Component value `%s` is not a call of a layout function" % ("/".join(path), cx.text(e)))
            cx.err(e, "field \"%s\": cannot determine the message kind of `%s` (type %s)" % ("/".join(path), cx.text(e), t or "unknown"))
        cx.err(e, "field \"%s\": `%s` is not a message constructor this translator knows" % ("/".join(path), cx.text(e)))


def build_world(world):
    """world.errors: list of dicts {file, layout (or None), where, msg}; failed layouts are dropped from world.order"""
    for key in sorted(world.sources):
        for f in world.sources[key].fns:
            lay = Layout(f)
            if (key, f.name) in world.layouts:
                world.errors.append({"file": key, "layout": None, "where": "%s:%s" % (f.path, f.line),
                                     "msg": "%s:%s: two layout functions named `%s` in one file" % (f.path, f.line, f.name)})
                continue
            world.layouts[(key, f.name)] = lay
            world.order.append((key, f.name))
    ok = []
    for kk in world.order:
        try:
            Builder(world, world.layouts[kk]).build_top()
            ok.append(kk)
        except RsError as e:
            world.errors.append({"file": kk[0], "layout": kk[1], "where": "%s:%s" % (e.path, e.line), "msg": str(e)})
    world.failed = [k for k in world.order if k not in ok]
    for k in world.failed:
        del world.layouts[k]
    world.order = ok
