#!/bin/sh
# MANIFEST.setup_cmd: build the whole framework offline from files on disk.
cd "$(dirname "$0")"
exec ./check --setup
