// Counting allocator: the largest single allocation request since the last reset.
use std::alloc::{GlobalAlloc, Layout, System};
use std::sync::atomic::{AtomicUsize, Ordering};

pub struct Counting;
static MAX: AtomicUsize = AtomicUsize::new(0);
static ON: AtomicUsize = AtomicUsize::new(0);

#[inline]
fn note(n: usize) { if ON.load(Ordering::Relaxed) != 0 { MAX.fetch_max(n, Ordering::Relaxed); } }

unsafe impl GlobalAlloc for Counting {
    unsafe fn alloc(&self, l: Layout) -> *mut u8 { note(l.size()); System.alloc(l) }
    unsafe fn alloc_zeroed(&self, l: Layout) -> *mut u8 { note(l.size()); System.alloc_zeroed(l) }
    unsafe fn dealloc(&self, p: *mut u8, l: Layout) { System.dealloc(p, l) }
    unsafe fn realloc(&self, p: *mut u8, l: Layout, n: usize) -> *mut u8 { note(n); System.realloc(p, l, n) }
}

pub fn reset() { MAX.store(0, Ordering::Relaxed); }
pub fn max() -> usize { MAX.load(Ordering::Relaxed) }
/// count only while the code under test runs
pub fn track(on: bool) { ON.store(if on { 1 } else { 0 }, Ordering::Relaxed); }
