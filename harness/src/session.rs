// C06 / C10 / C11 / C12: a scripted run against the real RdpClient (mcs + global layers)
// over an in-memory transport.  Steps: R:<frame hex> | P:x:y:btn:down | K:code:down |
// TP:.. | TK:.. (try_write) | B | TB (an event kind that cannot be sent).
use crate::framing::{Pipe, summ, parse_bytes};
use crate::util::*;
use rdp::core::client::RdpClient;
use rdp::core::event::{RdpEvent, PointerEvent, PointerButton, KeyboardEvent, BitmapEvent};
use rdp::core::gcc::KeyboardLayout;
use rdp::core::{global, mcs, tpkt, x224};
use rdp::model::link::{Link, Stream};
use std::convert::TryFrom;

pub fn new_client(pipe: &Pipe, uid: u16, w: u16, h: u16, layout: &str, name: &str) -> RdpClient<Pipe> {
    let link = Link::new(Stream::Raw(pipe.clone()));
    let x = x224::Client::verif_new(tpkt::Client::new(link), x224::Protocols::ProtocolSSL);
    let m = mcs::Client::verif_connected(x, uid, 1003);
    let g = global::Client::new(uid, 1003, w, h, KeyboardLayout::from(layout), name);
    RdpClient::verif_new(m, g)
}

/// written bytes: full hex when short, summary otherwise
pub fn wire(b: &[u8]) -> String {
    if b.len() <= 2048 { hex(b) } else { format!("#{}", summ(b)) }
}

fn ev_str(b: &BitmapEvent) -> String {
    format!("[{}.{}.{}.{}.{}.{}.{}.{}.{}]", b.dest_left, b.dest_top, b.dest_right, b.dest_bottom, b.width, b.height, b.bpp,
            if b.is_compress { 1 } else { 0 }, summ(&b.data))
}

fn mk_event(kind: &str, f: &[&str]) -> RdpEvent {
    match kind {
        "P" => RdpEvent::Pointer(PointerEvent {
            x: f[0].parse().unwrap(), y: f[1].parse().unwrap(),
            button: match f[2].parse::<u8>().unwrap() { 1 => PointerButton::Left, 2 => PointerButton::Right, 3 => PointerButton::Middle, _ => PointerButton::None },
            down: f[3] == "1" }),
        "K" => RdpEvent::Key(KeyboardEvent { code: f[0].parse().unwrap(), down: f[1] == "1" }),
        _ => RdpEvent::Bitmap(BitmapEvent { dest_left: 0, dest_top: 0, dest_right: 0, dest_bottom: 0, width: 0, height: 0, bpp: 0, is_compress: false, data: vec![] }),
    }
}

/// session <uid> <w> <h> <layout> <name hex> <steps...>
pub fn op_session(args: &[&str]) -> String {
    let uid: u16 = args[0].parse().unwrap();
    let w: u16 = args[1].parse().unwrap();
    let h: u16 = args[2].parse().unwrap();
    let layout = args[3];
    let name = String::from_utf8(unhex(args[4])).unwrap();
    let pipe = Pipe::new(vec![], vec![]);
    let mut client = new_client(&pipe, uid, w, h, layout, &name);
    let mut out: Vec<String> = vec![];
    crate::alloc::reset();
    for step in &args[5..] {
        let mut it = step.split(':');
        let kind = it.next().unwrap();
        let f: Vec<&str> = it.collect();
        let mut events: Vec<String> = vec![];
        crate::alloc::track(true);
        let r = guarded(|| {
            match kind {
                "R" => {
                    crate::alloc::track(false);
                    { let mut s = pipe.0.lock().unwrap(); s.chunks.clear(); s.chunks.push_back(parse_bytes(f[0])); }
                    crate::alloc::track(true);
                    client.read(|e| { if let RdpEvent::Bitmap(b) = e { events.push(ev_str(&b)); } else { events.push("[other]".to_string()); } })
                }
                "M" => {
                    // n copies of the frame are waiting in the transport; ONE read call
                    let n: usize = f[0].parse().unwrap();
                    let fr = parse_bytes(f[1]);
                    crate::alloc::track(false);
                    { let mut s = pipe.0.lock().unwrap(); s.chunks.clear(); for _ in 0..n { s.chunks.push_back(fr.clone()); } }
                    crate::alloc::track(true);
                    client.read(|e| { if let RdpEvent::Bitmap(b) = e { events.push(ev_str(&b)); } else { events.push("[other]".to_string()); } })
                }
                "Q" => {
                    // all frames are ALREADY in the transport (one chunk each); one read call per frame, stop at the first error
                    let frames: Vec<Vec<u8>> = f[0].split(',').map(parse_bytes).collect();
                    crate::alloc::track(false);
                    { let mut s = pipe.0.lock().unwrap(); s.chunks.clear(); for fr in &frames { s.chunks.push_back(fr.clone()); } }
                    crate::alloc::track(true);
                    let mut r = Ok(());
                    for _ in 0..frames.len() {
                        r = client.read(|e| { if let RdpEvent::Bitmap(b) = e { events.push(ev_str(&b)); } else { events.push("[other]".to_string()); } });
                        if r.is_err() { break; }
                    }
                    r
                }
                "P" | "K" | "B" => client.write(mk_event(kind, &f)),
                "TP" | "TK" | "TB" => client.try_write(mk_event(&kind[1..], &f)),
                _ => panic!("bad step"),
            }
        });
        crate::alloc::track(false);
        let written = pipe.take_written();
        let res = match r {
            Some(Ok(())) => "ok".to_string(),
            Some(Err(e)) => format!("err:{}", err_name(&e)),
            None => "panic".to_string(),
        };
        out.push(format!("{}|w={}|ev={}{}", res, wire(&written), events.len(), events.join("")));
        if res == "panic" { break; }
    }
    format!("{} #a={}", out.join(" "), crate::alloc::max())
}
