// Access to crate-private constructors through the cfg(rdp_rs_verif) hooks in /repo.
use rdp::core::{tpkt, x224};
use std::io::{Read, Write};

pub fn x224_new<S: Read + Write>(t: tpkt::Client<S>) -> x224::Client<S> {
    x224::Client::verif_new(t, x224::Protocols::ProtocolRDP)
}
