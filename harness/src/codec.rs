// C08 / C09: BitmapEvent::decompress on an arbitrary event.
// Case line:  bmp <width> <height> <bpp> <flag 0|1> <data hex | @len:seed | ->
// Outcome  :  ok <len:fnv:head of the returned buffer> | err:<Kind> | panic | spin      #a=<largest single allocation>
//
// The call runs on a worker thread under a watchdog: a decoder that does not come back within
// WATCHDOG_SECS is reported as `spin`, the stuck worker is abandoned and a fresh one serves the
// following cases (so one non-terminating input costs seconds, not the shard).  After MAX_SPINS
// abandoned workers the process stops running cases (`skipped-after-spin`): each stuck worker
// keeps a core busy.
use crate::framing::{parse_bytes, summ};
use crate::util::*;
use rdp::core::event::BitmapEvent;
use std::sync::mpsc::{channel, Receiver, Sender};
use std::sync::Mutex;
use std::time::Duration;

const WATCHDOG_SECS: u64 = 20;
const WATCHDOG_SECS_AFTER_FIRST: u64 = 5;
const MAX_SPINS: usize = 3;
static SPINS: std::sync::atomic::AtomicUsize = std::sync::atomic::AtomicUsize::new(0);

struct Worker { tx: Sender<BitmapEvent>, rx: Receiver<String> }

static WORKER: Mutex<Option<Worker>> = Mutex::new(None);

fn run_event(ev: BitmapEvent) -> String {
    crate::alloc::reset();
    crate::alloc::track(true);
    let r = guarded(move || ev.decompress());
    crate::alloc::track(false);
    let res = match r {
        Some(Ok(v)) => format!("ok {}", summ(&v)),
        Some(Err(e)) => format!("err:{}", err_name(&e)),
        None => "panic".to_string(),
    };
    format!("{} #a={}", res, crate::alloc::max())
}

fn spawn_worker() -> Worker {
    let (tx, job_rx) = channel::<BitmapEvent>();
    let (res_tx, rx) = channel::<String>();
    std::thread::Builder::new().stack_size(32 << 20).spawn(move || {
        for ev in job_rx { if res_tx.send(run_event(ev)).is_err() { break; } }
    }).unwrap();
    Worker { tx, rx }
}

/// ord16 <w> <h> <stream> <orders>: the order list is for the spec side only (OCaml driver); here: decompress at 16 bpp
pub fn op_ord16(args: &[&str]) -> String {
    if args.len() != 4 { return "bad-args".to_string(); }
    op_bmp(&[args[0], args[1], "16", "1", args[2]])
}
/// pl32 <w> <h> <stream> <planes>: the segment lists are for the spec side only; here: decompress at 32 bpp
pub fn op_pl32(args: &[&str]) -> String {
    if args.len() != 4 { return "bad-args".to_string(); }
    op_bmp(&[args[0], args[1], "32", "1", args[2]])
}

pub fn op_bmp(args: &[&str]) -> String {
    if args.len() != 5 { return "bad-args".to_string(); }
    let width: u16 = args[0].parse().unwrap();
    let height: u16 = args[1].parse().unwrap();
    let bpp: u16 = args[2].parse().unwrap();
    let is_compress = args[3] == "1";
    let data = parse_bytes(args[4]);
    let ev = BitmapEvent { dest_left: 0, dest_top: 0, dest_right: 0, dest_bottom: 0, width, height, bpp, is_compress, data };
    let spins = SPINS.load(std::sync::atomic::Ordering::Relaxed);
    if spins >= MAX_SPINS { return "skipped-after-spin".to_string(); }
    let limit = if spins == 0 { WATCHDOG_SECS } else { WATCHDOG_SECS_AFTER_FIRST };
    let mut slot = WORKER.lock().unwrap();
    if slot.is_none() { *slot = Some(spawn_worker()); }
    let w = slot.as_ref().unwrap();
    w.tx.send(ev).unwrap();
    match w.rx.recv_timeout(Duration::from_secs(limit)) {
        Ok(s) => s,
        Err(_) => {
            crate::alloc::track(false);
            *slot = None;
            SPINS.fetch_add(1, std::sync::atomic::Ordering::Relaxed);
            "spin".to_string()
        }
    }
}
