// C05: the connection sequence (x224 negotiation, MCS connect / attach / joins, client info,
// licensing) of the REAL crate driven over an in-memory scripted server.
//   conn <offered> <auth 0|1> <ram 0|1> <join order g|u> <name hex> <domain hex> <user hex> <pw hex> <server chunk hex>...
//   connector ...    same arguments, through the public Connector::connect (offered must be 1 or 3, authenticator always present)
//   gcc <hex>        gcc::read_conference_create_response on the bytes
//   lic <hex>        license::client_connect on the bytes
// `conn` runs exactly what Connector::connect runs (x224::Client::connect, mcs::Client::connect,
// sec::connect) but with a caller-chosen offered-protocol mask and an optional authenticator, so
// that the plain-RDP path is reachable without TLS.  The two channel joins are sent in HashMap
// order, which changes from one HashMap to the next: the case names the order it scripts and the
// run is repeated until the client happens to ask in that order.
use crate::framing::{Pipe, summ, parse_bytes};
use crate::util::*;
use rdp::core::client::Connector;
use rdp::core::gcc::{self, KeyboardLayout, Version};
use rdp::core::{license, mcs, sec, tpkt, x224};
use rdp::model::error::RdpResult;
use rdp::model::link::{Link, Stream};
use rdp::nla::ntlm::Ntlm;
use std::io::Cursor;

fn le32(b: &[u8]) -> u32 { (b[0] as u32) | (b[1] as u32) << 8 | (b[2] as u32) << 16 | (b[3] as u32) << 24 }
fn be16(b: &[u8]) -> u32 { (b[0] as u32) << 8 | b[1] as u32 }

/// split what the client wrote into TPKT frames (stops at the first byte that is not a TPKT header)
fn frames(mut b: &[u8]) -> (Vec<Vec<u8>>, bool) {
    let mut out = vec![];
    while b.len() >= 4 && b[0] == 3 {
        let n = be16(&b[2..4]) as usize;
        if n < 4 || n > b.len() { break; }
        out.push(b[4..n].to_vec());
        b = &b[n..];
    }
    (out, !b.is_empty())
}

/// one canonical tag per client message
pub fn tag(f: &[u8]) -> String {
    if f.len() == 15 && f[1] == 0xe0 {
        return format!("cr:{}:{}", le32(&f[11..15]), f[8]);
    }
    if f.len() >= 4 && f[0] == 2 && f[1] == 0xf0 && f[2] == 0x80 {
        let x = &f[3..];
        if x.len() > 40 && x[0] == 0x7f && x[1] == 0x65 {
            let n = x.len();
            return format!("ci:{}:{}", n, le32(&x[n - 24..n - 20]));
        }
        if x == [4, 1, 0, 1, 0] { return "ed".to_string(); }
        if x == [0x28] { return "au".to_string(); }
        if x.len() == 5 && x[0] == 0x38 { return format!("cj:{}:{}", be16(&x[1..3]), be16(&x[3..5])); }
        if x.len() > 20 && x[0] == 0x64 {
            let skip = if x[6] & 0x80 != 0 { 8 } else { 7 };
            let p = &x[skip..];
            return format!("info:{}:{}:{}:{}:{}", be16(&x[1..3]), be16(&x[3..5]), p.len(), le32(&p[0..4]), le32(&p[8..12]));
        }
    }
    format!("raw:{}", summ(f))
}

pub fn tags(written: &[u8]) -> (String, Option<bool>) {
    let (fs, tail) = frames(written);
    let mut v: Vec<String> = fs.iter().map(|f| tag(f)).collect();
    if tail { v.push("tls".to_string()); }
    // does the first join ask for the I/O channel?  (it does unless it asks for the user channel = initiator + 1001;
    // the I/O channel id is whatever the server announced)
    let first_join = v.iter().find(|t| t.starts_with("cj:")).map(|t| {
        let ini = t.split(':').nth(1).unwrap().parse::<u32>().unwrap();
        let ch = t.split(':').nth(2).unwrap().parse::<u32>().unwrap();
        ch != ini + 1001
    });
    (if v.is_empty() { "-".to_string() } else { v.join(",") }, first_join)
}

pub struct Cfg { pub offered: u32, pub auth: bool, pub ram: bool, pub name: String, pub domain: String, pub user: String, pub pw: String }

/// what Connector::connect runs, layer by layer, with a caller-chosen offered mask / authenticator
pub fn run_layers<S: std::io::Read + std::io::Write>(cfg: &Cfg, check_certificate: bool, stream: S) -> RdpResult<(u16, bool)> {
    let link = Link::new(Stream::Raw(stream));
    let mut ntlm = Ntlm::new(cfg.domain.clone(), cfg.user.clone(), cfg.pw.clone());
    let x = x224::Client::connect(
        tpkt::Client::new(link), cfg.offered, check_certificate,
        if cfg.auth { Some(&mut ntlm) } else { None }, cfg.ram, false)?;
    let mut m = mcs::Client::new(x);
    m.connect(cfg.name.clone(), 800, 600, KeyboardLayout::US)?;
    if cfg.ram {
        sec::connect(&mut m, &"".to_string(), &"".to_string(), &"".to_string(), false)?;
    } else {
        sec::connect(&mut m, &cfg.domain, &cfg.user, &cfg.pw, false)?;
    }
    Ok((m.get_user_id(), m.is_rdp_version_5_plus()))
}

fn run_connect(cfg: &Cfg, pipe: &Pipe) -> RdpResult<(u16, bool)> {
    run_layers(cfg, false, pipe.clone())
}

/// the public entry point itself: Connector::connect (offers SSL, and HYBRID when NLA is on)
fn run_connector(cfg: &Cfg, pipe: &Pipe) -> RdpResult<(u16, bool)> {
    let mut connector = Connector::new()
        .screen(800, 600)
        .credentials(cfg.domain.clone(), cfg.user.clone(), cfg.pw.clone())
        .set_restricted_admin_mode(cfg.ram)
        .name(cfg.name.clone())
        .use_nla(cfg.offered & 2 != 0);
    connector.connect(pipe.clone()).map(|_client| (0, false))
}

pub fn op_conn(args: &[&str]) -> String { op_conn_with(args, false) }
pub fn op_connector(args: &[&str]) -> String { op_conn_with(args, true) }

fn op_conn_with(args: &[&str], public_api: bool) -> String {
    let s = |i: usize| String::from_utf8(unhex(args[i])).unwrap();
    let cfg = Cfg { offered: args[0].parse().unwrap(), auth: args[1] == "1", ram: args[2] == "1",
                    name: s(4), domain: s(5), user: s(6), pw: s(7) };
    let want_global_first = args[3] == "g";
    let chunks: Vec<Vec<u8>> = args[8..].iter().map(|c| parse_bytes(c)).collect();
    let mut last = String::new();
    for attempt in 0..200 {
        let pipe = Pipe::new(chunks.clone(), vec![]);
        crate::alloc::reset();
        crate::alloc::track(true);
        let r = guarded(|| if public_api { run_connector(&cfg, &pipe) } else { run_connect(&cfg, &pipe) });
        crate::alloc::track(false);
        let a = crate::alloc::max();
        let (t, first_join) = tags(&pipe.written());
        let res = match r {
            Some(Ok((uid, v5))) => if public_api { "ok".to_string() } else { format!("ok:{}:{}", uid, if v5 { 1 } else { 0 }) },
            Some(Err(e)) => format!("err:{}", err_name(&e)),
            None => "panic".to_string(),
        };
        last = format!("{} w={} #a={} tries={}", res, t, a, attempt + 1);
        match first_join {
            None => break,
            Some(global_first) => {
                // both entries can carry the same id (server-assigned user id = I/O channel id)
                let both: Vec<&str> = t.split(',').filter(|x| x.starts_with("cj:")).collect();
                let same = both.len() == 2 && both[0] == both[1];
                if same || global_first == want_global_first { break; }
            }
        }
    }
    last
}

pub fn op_gcc(args: &[&str]) -> String {
    let b = parse_bytes(args[0]);
    crate::alloc::reset();
    crate::alloc::track(true);
    let r = guarded(|| gcc::read_conference_create_response(&mut Cursor::new(b)));
    crate::alloc::track(false);
    let res = match r {
        Some(Ok(d)) => format!("ok:{}:{}", if d.rdp_version == Version::RdpVersion5plus { 1 } else { 0 },
                               d.channel_ids.iter().map(|c| c.to_string()).collect::<Vec<_>>().join(".")),
        Some(Err(e)) => format!("err:{}", err_name(&e)),
        None => "panic".to_string(),
    };
    format!("{} #a={}", res, crate::alloc::max())
}

pub fn op_lic(args: &[&str]) -> String {
    let b = parse_bytes(args[0]);
    crate::alloc::reset();
    crate::alloc::track(true);
    let r = guarded(|| license::client_connect(&mut Cursor::new(b)));
    crate::alloc::track(false);
    let res = match r {
        Some(Ok(())) => "ok".to_string(),
        Some(Err(e)) => format!("err:{}", err_name(&e)),
        None => "panic".to_string(),
    };
    format!("{} #a={}", res, crate::alloc::max())
}
