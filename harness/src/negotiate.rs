// C02: the security negotiation of the REAL client against a scripted server that can upgrade
// its side to TLS (in-process native-tls acceptor over an in-memory duplex, self-signed fixture
// identities: cert0 is made the only trusted root through SSL_CERT_FILE, cert1 is untrusted).
//   neg <api x224|connector> <offered> <auth 0|1> <ram 0|1> <check_certificate 0|1> <identity 0|1|n>
//       <join order g|u> <name hex> <domain hex> <user hex> <pw hex> <reply hex | -> <frame hex>...
//     x224      = x224::Client::connect(offered, check, authenticator?) + mcs::Client::connect + sec::connect
//     connector = the public Connector::connect (offered 1 = NLA off, 3 = NLA on)
//     reply     = what the server sends after it has read the connection request ("-": nothing, it closes)
//     frames    = what the server sends once the negotiation is over: in clear when the client goes on in clear
//                 (or is still waiting for bytes), inside TLS after a successful accept with the identity
//                 (n: no TLS server) when the client sends a ClientHello
//   output: <res> w=<tags of the client's frames on the raw transport, then `tls` if a ClientHello followed>
//           hs=<- no handshake attempted | ok completed (server side) | fail attempted, not completed>
//           in=<tags of the units the client sent INSIDE TLS>
// The server is a thread; the client runs on the calling thread under catch_unwind.
use crate::connect::{tag, Cfg, run_layers};
use crate::framing::parse_bytes;
use crate::util::*;
use rdp::core::client::Connector;
use rdp::model::error::RdpResult;
use std::collections::VecDeque;
use std::io::{self, Read, Write};
use std::sync::{Arc, Condvar, Mutex};
use std::time::Duration;

const CERT0: &[u8] = include_bytes!("../fixtures/cert0.pem");
const KEY0: &[u8] = include_bytes!("../fixtures/key0.pem");
const CERT1: &[u8] = include_bytes!("../fixtures/cert1.pem");
const KEY1: &[u8] = include_bytes!("../fixtures/key1.pem");
const WAIT: Duration = Duration::from_secs(10);

struct Chan { q: VecDeque<u8>, closed: bool, waiting: bool }
struct Half { m: Mutex<Chan>, cv: Condvar }
impl Half {
    fn new() -> Arc<Half> { Arc::new(Half { m: Mutex::new(Chan { q: VecDeque::new(), closed: false, waiting: false }), cv: Condvar::new() }) }
    fn close(&self) { self.m.lock().unwrap().closed = true; self.cv.notify_all(); }
}

/// one end of the duplex; the client end logs what it writes
pub struct End { rx: Arc<Half>, tx: Arc<Half>, log: Option<Arc<Mutex<Vec<u8>>>> }

enum Peek { Byte(u8), Blocked, Gone }

impl End {
    /// What the peer does next: the first byte it wrote (not consumed), or Blocked when it is
    /// itself waiting for bytes from us while we have sent everything (it will never write first).
    fn peek(&self) -> Peek {
        let mut spins = 0;
        loop {
            let blocked = { let t = self.tx.m.lock().unwrap(); t.waiting && t.q.is_empty() };
            {
                let c = self.rx.m.lock().unwrap();
                if let Some(b) = c.q.front() { return Peek::Byte(*b); }
                if c.closed { return Peek::Gone; }
                if blocked { return Peek::Blocked; }
                let _ = self.rx.cv.wait_timeout(c, Duration::from_millis(1)).unwrap();
            }
            spins += 1;
            if spins > 20000 { return Peek::Gone; }
        }
    }
}

impl Read for End {
    fn read(&mut self, buf: &mut [u8]) -> io::Result<usize> {
        if buf.is_empty() { return Ok(0); }
        let mut c = self.rx.m.lock().unwrap();
        loop {
            if !c.q.is_empty() {
                let n = std::cmp::min(buf.len(), c.q.len());
                for b in buf.iter_mut().take(n) { *b = c.q.pop_front().unwrap(); }
                return Ok(n);
            }
            if c.closed { return Ok(0); }
            c.waiting = true;
            let (g, t) = self.rx.cv.wait_timeout(c, WAIT).unwrap();
            c = g;
            c.waiting = false;
            if t.timed_out() && c.q.is_empty() && !c.closed {
                return Err(io::Error::new(io::ErrorKind::TimedOut, "neg: read timed out"));
            }
        }
    }
}

impl Write for End {
    fn write(&mut self, buf: &[u8]) -> io::Result<usize> {
        if let Some(l) = &self.log { l.lock().unwrap().extend_from_slice(buf); }
        let mut c = self.tx.m.lock().unwrap();
        if c.closed { return Err(io::Error::new(io::ErrorKind::BrokenPipe, "neg: peer gone")); }
        c.q.extend(buf.iter().cloned());
        self.tx.cv.notify_all();
        Ok(buf.len())
    }
    fn flush(&mut self) -> io::Result<()> { Ok(()) }
}

impl Drop for End {
    fn drop(&mut self) { self.tx.close(); self.rx.close(); }
}

enum Srv { Raw(End), Tls(native_tls::TlsStream<End>), Gone }
impl Srv {
    fn read(&mut self, b: &mut [u8]) -> io::Result<usize> {
        match self { Srv::Raw(e) => e.read(b), Srv::Tls(t) => t.read(b), Srv::Gone => Ok(0) }
    }
    fn write_all(&mut self, b: &[u8]) -> io::Result<()> {
        match self { Srv::Raw(e) => e.write_all(b), Srv::Tls(t) => t.write_all(b), Srv::Gone => Ok(()) }
    }
}

fn fill(s: &mut Srv, v: &mut Vec<u8>, n: usize) -> bool {
    let start = v.len();
    v.resize(start + n, 0);
    let mut got = 0;
    while got < n {
        match s.read(&mut v[start + got..]) {
            Ok(0) | Err(_) => { v.truncate(start + got); return false; }
            Ok(k) => got += k,
        }
    }
    true
}

/// one unit the client sent: a TPKT frame (03 ..) or a DER TLV (30 ..: a CredSSP TSRequest)
fn read_unit(s: &mut Srv) -> Option<Vec<u8>> {
    let mut v: Vec<u8> = vec![];
    if !fill(s, &mut v, 1) { return None; }
    match v[0] {
        0x03 => {
            if !fill(s, &mut v, 3) { return None; }
            let len = ((v[2] as usize) << 8) | v[3] as usize;
            if len < 4 || !fill(s, &mut v, len - 4) { return None; }
            Some(v)
        }
        0x30 => {
            if !fill(s, &mut v, 1) { return None; }
            let len = match v[1] {
                l if l < 0x80 => l as usize,
                0x81 => { if !fill(s, &mut v, 1) { return None; } v[2] as usize }
                0x82 => { if !fill(s, &mut v, 2) { return None; } ((v[2] as usize) << 8) | v[3] as usize }
                _ => return None,
            };
            if !fill(s, &mut v, len) { return None; }
            Some(v)
        }
        _ => None,
    }
}

fn unit_tag(u: &[u8]) -> String {
    if u[0] == 0x30 { "cssp".to_string() } else { tag(&u[4..]) }
}

/// returns (handshake: - | ok | fail, tags of the units read inside TLS)
fn server(end: End, reply: Option<Vec<u8>>, ident: String, post: Vec<Vec<u8>>) -> (String, Vec<String>) {
    let tx = end.tx.clone();
    let mut s = Srv::Raw(end);
    let mut hs = "-".to_string();
    let mut inside: Vec<String> = vec![];
    if read_unit(&mut s).is_none() { return (hs, inside); }
    match reply {
        Some(r) => { if s.write_all(&r).is_err() { return (hs, inside); } }
        None => { tx.close(); }
    }
    // the client goes on in clear (03: a TPKT frame; or it still waits for bytes: the frames simply follow),
    // or it starts a TLS handshake (16: ClientHello)
    let first = if let Srv::Raw(e) = &s { e.peek() } else { Peek::Gone };
    let mut tls = false;
    if let Peek::Byte(0x16) = first {
        let id = match ident.as_str() { "0" => Some((CERT0, KEY0)), "1" => Some((CERT1, KEY1)), _ => None };
        let acc = id.and_then(|(c, k)| native_tls::Identity::from_pkcs8(c, k).ok()).and_then(|i| native_tls::TlsAcceptor::new(i).ok());
        let raw = std::mem::replace(&mut s, Srv::Gone);
        match (acc, raw) {
            (Some(acc), Srv::Raw(e)) => match acc.accept(e) {
                Ok(t) => { s = Srv::Tls(t); hs = "ok".to_string(); tls = true; }
                Err(_) => { hs = "fail".to_string(); return (hs, inside); }
            },
            _ => { hs = "fail".to_string(); return (hs, inside); }   // no TLS server: the end is dropped, the client sees EOF
        }
    }
    for f in post.iter() { if s.write_all(f).is_err() { break; } }
    tx.close();
    let mut guard = 0;
    while guard < 64 {
        guard += 1;
        match read_unit(&mut s) {
            Some(u) => { if tls { inside.push(unit_tag(&u)); } }
            None => break,
        }
    }
    (hs, inside)
}

fn run_connector(cfg: &Cfg, check: bool, end: End) -> RdpResult<()> {
    // the builder's setters are independent: both call orders are exercised (options before the credentials when certificate
    // checking is on, after them otherwise), so a setter that resets what an earlier one stored shows up
    let mut connector = if check {
        Connector::new()
            .check_certificate(check)
            .use_nla(cfg.offered & 2 != 0)
            .set_restricted_admin_mode(cfg.ram)
            .name(cfg.name.clone())
            .screen(800, 600)
            .credentials(cfg.domain.clone(), cfg.user.clone(), cfg.pw.clone())
    } else {
        Connector::new()
            .screen(800, 600)
            .credentials(cfg.domain.clone(), cfg.user.clone(), cfg.pw.clone())
            .set_restricted_admin_mode(cfg.ram)
            .check_certificate(check)
            .name(cfg.name.clone())
            .use_nla(cfg.offered & 2 != 0)
    };
    connector.connect(end).map(|_client| ())
}

pub fn op_neg(args: &[&str]) -> String {
    let s = |i: usize| String::from_utf8(unhex(args[i])).unwrap();
    let public_api = args[0] == "connector";
    let cfg = Cfg { offered: args[1].parse().unwrap(), auth: args[2] == "1", ram: args[3] == "1",
                    name: s(7), domain: s(8), user: s(9), pw: s(10) };
    let check = args[4] == "1";
    let ident = args[5].to_string();
    let want_global_first = args[6] == "g";
    let reply = if args[11] == "-" { None } else { Some(parse_bytes(args[11])) };
    let post: Vec<Vec<u8>> = args[12..].iter().map(|c| parse_bytes(c)).collect();
    // the only trusted root is fixture certificate 0
    let root = concat!(env!("CARGO_MANIFEST_DIR"), "/fixtures/cert0.pem");
    std::env::set_var("SSL_CERT_FILE", root);
    std::env::set_var("SSL_CERT_DIR", "/nonexistent");
    let mut last = String::new();
    for _attempt in 0..200 {
        let c2s = Half::new();
        let s2c = Half::new();
        let log = Arc::new(Mutex::new(Vec::new()));
        let client_end = End { rx: s2c.clone(), tx: c2s.clone(), log: Some(log.clone()) };
        let server_end = End { rx: c2s.clone(), tx: s2c.clone(), log: None };
        let (r2, i2, p2) = (reply.clone(), ident.clone(), post.clone());
        let th = std::thread::spawn(move || server(server_end, r2, i2, p2));
        let r = guarded(|| if public_api { run_connector(&cfg, check, client_end) } else { run_layers(&cfg, check, client_end).map(|_| ()) });
        c2s.close();
        let (hs, inside) = th.join().unwrap_or_else(|_| ("server-panic".to_string(), vec![]));
        let res = match r {
            Some(Ok(())) => "ok".to_string(),
            Some(Err(e)) => format!("err:{}", err_name(&e)),
            None => "panic".to_string(),
        };
        let written = log.lock().unwrap().clone();
        let (t, _) = crate::connect::tags(&written);
        // handshake as the CLIENT experienced it: completed on the server side, or attempted (a ClientHello left) and not completed
        let hs = if hs == "ok" { hs } else if t.ends_with("tls") { "fail".to_string() } else { "-".to_string() };
        let all: Vec<String> = t.split(',').map(|x| x.to_string()).chain(inside.iter().cloned()).collect();
        last = format!("{} w={} hs={} in={}", res, t, hs, if inside.is_empty() { "-".to_string() } else { inside.join(",") });
        let joins: Vec<&String> = all.iter().filter(|x| x.starts_with("cj:")).collect();
        if joins.is_empty() { break; }
        let f: Vec<u32> = joins[0].split(':').skip(1).map(|x| x.parse().unwrap()).collect();
        let first_is_global = f[1] != f[0] + 1001;
        let same = joins.len() == 2 && joins[0] == joins[1];
        if same || first_is_global == want_global_first { break; }
    }
    last
}
