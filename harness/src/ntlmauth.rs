// C15: the REAL Ntlm handshake object (create_negotiate_message -> read_challenge_message) with the
// client's randomness preset through model::rnd::verif, plus the private building blocks of the
// AUTHENTICATE token through ntlm::verif::*.
//   strings are dot-separated hex code points ("-" = empty):  44.6f.6d
//   negotiate
//   auth <pw|hash> <dom> <user> <secret: password code points | 16-byte NT hash hex> <upper(user) (model only)>
//        <nonce hex> <session key hex> <challenge bytes>        ->  ok <token hex> # upper=<code points>
//   unicode <s> | ntowfv2 <pw> <user> <dom> <upper> | ntowfv2h <hash> <user> <dom> <upper>
//   cresp <keynt> <keylm> <srvchal> <clichal> <time> <srvname>  ->  ok <nt> <lm> <sbk>
//   authmsg <lm> <nt> <dom> <user> <ws> <key> <flags>           ->  ok <header ++ 16 zero bytes ++ payload>
use crate::framing::parse_bytes;
use crate::util::*;
use rdp::model::rnd;
use rdp::nla::ntlm::{verif, Ntlm};
use rdp::nla::sspi::AuthenticationProtocol;

pub fn cps(t: &str) -> String {
    if t == "-" { return String::new(); }
    t.split('.').map(|h| std::char::from_u32(u32::from_str_radix(h, 16).unwrap()).unwrap()).collect()
}

fn cps_out(s: &str) -> String {
    if s.is_empty() { return "-".to_string(); }
    s.chars().map(|c| format!("{:x}", c as u32)).collect::<Vec<_>>().join(".")
}

fn okhex(r: Option<Vec<u8>>) -> String {
    match r { Some(v) => format!("ok {}", hex(&v)), None => "panic".to_string() }
}

pub fn op_negotiate(_a: &[&str]) -> String {
    match guarded(|| Ntlm::new("".to_string(), "".to_string(), "".to_string()).create_negotiate_message()) {
        None => "panic".to_string(),
        Some(Ok(v)) => format!("ok {}", hex(&v)),
        Some(Err(e)) => format!("err:{}", err_name(&e)),
    }
}

pub fn op_auth(a: &[&str]) -> String {
    if a.len() != 8 { return "bad-args".to_string(); }
    let (dom, user) = (cps(a[1]), cps(a[2]));
    let nonce = parse_bytes(a[5]);
    let key = parse_bytes(a[6]);
    let chal = parse_bytes(a[7]);
    let upper = user.to_uppercase();
    let r = guarded(|| {
        let mut n = if a[0] == "hash" { Ntlm::from_hash(dom.clone(), user.clone(), &parse_bytes(a[3])) }
                    else { Ntlm::new(dom.clone(), user.clone(), cps(a[3])) };
        n.create_negotiate_message().unwrap();
        let mut preset = nonce.clone(); preset.extend_from_slice(&key);
        rnd::verif::preset(&preset);
        let r = n.read_challenge_message(&chal);
        rnd::verif::preset(&[]);
        r
    });
    rnd::verif::preset(&[]);
    let res = match r {
        None => "panic".to_string(),
        Some(Ok(v)) => format!("ok {}", hex(&v)),
        Some(Err(e)) => format!("err:{}", err_name(&e)),
    };
    format!("{} # upper={}", res, cps_out(&upper))
}

/// auth2 <pw|hash> <dom> <user> <secret> <upper> <nonce1> <key1> <chal1> <nonce2> <key2> <chal2>
/// TWO handshakes on ONE Ntlm object (what a long-lived authentication context does): `r1 / r2`
pub fn op_auth2(a: &[&str]) -> String {
    if a.len() != 11 { return "bad-args".to_string(); }
    let (dom, user) = (cps(a[1]), cps(a[2]));
    let upper = user.to_uppercase();
    let r = guarded(|| {
        let mut n = if a[0] == "hash" { Ntlm::from_hash(dom.clone(), user.clone(), &parse_bytes(a[3])) }
                    else { Ntlm::new(dom.clone(), user.clone(), cps(a[3])) };
        n.create_negotiate_message().unwrap();
        let mut outs = vec![];
        for k in 0..2 {
            let mut preset = parse_bytes(a[5 + 3 * k]); preset.extend_from_slice(&parse_bytes(a[6 + 3 * k]));
            rnd::verif::preset(&preset);
            let r = n.read_challenge_message(&parse_bytes(a[7 + 3 * k]));
            rnd::verif::preset(&[]);
            outs.push(match r { Ok(v) => format!("ok {}", hex(&v)), Err(e) => format!("err:{}", err_name(&e)) });
        }
        outs.join(" / ")
    });
    rnd::verif::preset(&[]);
    format!("{} # upper={}", r.unwrap_or_else(|| "panic".to_string()), cps_out(&upper))
}

pub fn op_prim(op: &str, a: &[&str]) -> String {
    match (op, a.len()) {
        ("unicode", 1) => okhex(guarded(|| verif::unicode(&cps(a[0])))),
        ("ntowfv2", 4) => okhex(guarded(|| verif::ntowfv2(&cps(a[0]), &cps(a[1]), &cps(a[2])))),
        ("lmowfv2", 4) => okhex(guarded(|| verif::lmowfv2(&cps(a[0]), &cps(a[1]), &cps(a[2])))),
        ("ntowfv2h", 4) => okhex(guarded(|| verif::ntowfv2_hash(&parse_bytes(a[0]), &cps(a[1]), &cps(a[2])))),
        ("cresp", 6) => {
            let b: Vec<Vec<u8>> = a.iter().map(|t| parse_bytes(t)).collect();
            match guarded(|| verif::compute_response_v2(&b[0], &b[1], &b[2], &b[3], &b[4], &b[5])) {
                None => "panic".to_string(),
                Some((nt, lm, sbk)) => format!("ok {} {} {}", hex(&nt), hex(&lm), hex(&sbk)),
            }
        }
        ("authmsg", 7) => {
            let b: Vec<Vec<u8>> = a[..6].iter().map(|t| parse_bytes(t)).collect();
            let flags: u32 = a[6].parse().unwrap();
            match guarded(|| verif::authenticate_message(&b[0], &b[1], &b[2], &b[3], &b[4], &b[5], flags)) {
                None => "panic".to_string(),
                Some((h, p)) => { let mut v = h; v.extend_from_slice(&[0u8; 16]); v.extend_from_slice(&p); format!("ok {}", hex(&v)) }
            }
        }
        _ => "bad-args".to_string(),
    }
}
