// C07: the NLA (CredSSP / NTLMv2) parse path of the real crate on hostile server bytes.
//   tsreq <bytes>                               cssp::read_ts_server_challenge
//   tsval <bytes>                               cssp::read_ts_validate
//   chal <neg:0|1> <dom> <user> <pw> <bytes>    Ntlm::new(..) [create_negotiate_message] read_challenge_message
//   unwrap <bytes> [hint]                       NTLMv2SecurityInterface(fixed keys)::gss_unwrapex   (hint: model only)
//   cssp <restricted:0|1> <dom> <user> <pw> <chunks|.>   cssp::cssp_connect over an in-memory (non-TLS) link
// Outcome = ok .. / err:<Kind> / panic, then ` #a=<largest single allocation request>` (oracle only).
use crate::framing::{Pipe, summ, parse_bytes};
use crate::util::*;
use rdp::model::error::RdpResult;
use rdp::model::link::{Link, Stream};
use rdp::nla::cssp;
use rdp::nla::ntlm::{Ntlm, NTLMv2SecurityInterface};
use rdp::nla::rc4::Rc4;
use rdp::nla::sspi::{AuthenticationProtocol, GenericSecurityService};

fn finish<T, F: FnOnce(T) -> String>(r: Option<RdpResult<T>>, okf: F) -> String {
    let a = crate::alloc::max();
    let s = match r {
        Some(Ok(v)) => okf(v),
        Some(Err(e)) => format!("err:{}", err_name(&e)),
        None => "panic".to_string(),
    };
    format!("{} #a={}", s, a)
}

fn run<T, F: FnOnce() -> RdpResult<T>>(f: F) -> Option<RdpResult<T>> {
    crate::alloc::reset();
    crate::alloc::track(true);
    let r = guarded(f);
    crate::alloc::track(false);
    r
}

fn text(h: &str) -> String { String::from_utf8_lossy(&unhex(h)).into_owned() }

pub fn op_tsreq(args: &[&str]) -> String {
    let b = parse_bytes(args[0]);
    finish(run(|| cssp::read_ts_server_challenge(&b)), |v| format!("ok {}", summ(&v)))
}

pub fn op_tsval(args: &[&str]) -> String {
    let b = parse_bytes(args[0]);
    finish(run(|| cssp::read_ts_validate(&b)), |v| format!("ok {}", summ(&v)))
}

/// the deterministic part of an AUTHENTICATE message: total length and the 64-byte header
/// (signature, type, the six length/offset triples, flags); MIC, responses and keys are random
fn auth_summary(v: &[u8]) -> String {
    format!("ok {} {}", v.len(), hex(&v[..v.len().min(64)]))
}

pub fn op_chal(args: &[&str]) -> String {
    let neg = args[0] == "1";
    let mut ntlm = Ntlm::new(text(args[1]), text(args[2]), text(args[3]));
    if neg { ntlm.create_negotiate_message().unwrap(); }
    let b = parse_bytes(args[4]);
    finish(run(|| ntlm.read_challenge_message(&b)), |v| auth_summary(&v))
}

pub fn op_unwrap(args: &[&str]) -> String {
    let b = parse_bytes(args[0]);
    let mut si = NTLMv2SecurityInterface::new(Rc4::new(b"client-seal"), Rc4::new(b"server-seal"),
                                              b"client-sign-key!".to_vec(), b"server-sign-key!".to_vec());
    finish(run(|| si.gss_unwrapex(&b)), |v| format!("ok {}", v.len()))
}

pub fn op_cssp(args: &[&str]) -> String {
    let restricted = args[0] == "1";
    let mut ntlm = Ntlm::new(text(args[1]), text(args[2]), text(args[3]));
    let chunks: Vec<Vec<u8>> = if args[4] == "." { vec![] } else { args[4].split(',').map(parse_bytes).collect() };
    let pipe = Pipe::new(chunks, vec![]);
    let mut link = Link::new(Stream::Raw(pipe.clone()));
    let r = run(|| cssp::cssp_connect(&mut link, &mut ntlm, restricted));
    let a = crate::alloc::max();
    let s = match r {
        Some(Ok(())) => "ok".to_string(),
        Some(Err(e)) => format!("err:{}", err_name(&e)),
        None => return format!("panic #a={}", a),
    };
    format!("{} w={} left={} #a={}", s, pipe.written().len(), pipe.rest().len(), a)
}
