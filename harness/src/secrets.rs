// C17: where the secrets go.  The REAL Connector::connect, configured through its public builder
// (credentials, password hash, NLA, restricted admin, blank creds, auto logon, check_certificate), against
// a scripted server thread over an in-memory duplex that upgrades to a real native_tls acceptor when the
// client sends a ClientHello (fixture identities as in negotiate.rs).  Inside TLS the server is a pure
// request/reply script: after the k-th unit the client sent (a TPKT frame or a DER TSRequest) it sends
// the k-th group of chunks of the case line, one TLS record per chunk.  The client's randomness (NTLM
// client challenge, exported session key) is preset through model::rnd::verif, so that the CredSSP /
// NTLM replies of the script can be computed beforehand by the generator.
//   sec17 <nla 0|1> <ram 0|1> <blank 0|1> <auto 0|1> <check 0|1> <identity 0|1|n> <join order g|u>
//         <name cps> <domain cps> <user cps> <password cps> <NT hash hex | -> <upper(user) cps (model only)>
//         <rnd hex: nonce(8) ++ key(16)> <subjectPublicKey hex (model only)> <reply to the connection request hex | ->
//         <script: groups separated by '/', a group = '-' or chunks separated by ','>
//   -> <ok | err:Kind | panic> raw=<TPKT frames written before any TLS byte, hex, ','> hs=<- | ok | fail>
//      tls=<units received INSIDE TLS, hex, ','>  # rawall=<every byte the client put on the raw transport>
use crate::framing::parse_bytes;
use crate::ntlmauth::cps;
use crate::util::*;
use rdp::core::client::Connector;
use rdp::model::rnd;
use std::collections::VecDeque;
use std::io::{self, Read, Write};
use std::sync::{Arc, Condvar, Mutex};
use std::time::Duration;

const CERT0: &[u8] = include_bytes!("../fixtures/cert0.pem");
const KEY0: &[u8] = include_bytes!("../fixtures/key0.pem");
const CERT1: &[u8] = include_bytes!("../fixtures/cert1.pem");
const KEY1: &[u8] = include_bytes!("../fixtures/key1.pem");
const WAIT: Duration = Duration::from_secs(10);

struct Chan { q: VecDeque<u8>, closed: bool, waiting: bool }
struct Half { m: Mutex<Chan>, cv: Condvar }
impl Half {
    fn new() -> Arc<Half> { Arc::new(Half { m: Mutex::new(Chan { q: VecDeque::new(), closed: false, waiting: false }), cv: Condvar::new() }) }
    fn close(&self) { self.m.lock().unwrap().closed = true; self.cv.notify_all(); }
}

/// one end of the duplex; the client end logs what it writes
struct End { rx: Arc<Half>, tx: Arc<Half>, log: Option<Arc<Mutex<Vec<u8>>>> }

enum Peek { Byte(u8), Blocked, Gone }

impl End {
    fn peek(&self) -> Peek {
        let mut spins = 0;
        loop {
            let blocked = { let t = self.tx.m.lock().unwrap(); t.waiting && t.q.is_empty() };
            {
                let c = self.rx.m.lock().unwrap();
                if let Some(b) = c.q.front() { return Peek::Byte(*b); }
                if c.closed { return Peek::Gone; }
                if blocked { return Peek::Blocked; }
                let _ = self.rx.cv.wait_timeout(c, Duration::from_millis(1)).unwrap();
            }
            spins += 1;
            if spins > 20000 { return Peek::Gone; }
        }
    }
}

impl Read for End {
    fn read(&mut self, buf: &mut [u8]) -> io::Result<usize> {
        if buf.is_empty() { return Ok(0); }
        let mut c = self.rx.m.lock().unwrap();
        loop {
            if !c.q.is_empty() {
                let n = std::cmp::min(buf.len(), c.q.len());
                for b in buf.iter_mut().take(n) { *b = c.q.pop_front().unwrap(); }
                return Ok(n);
            }
            if c.closed { return Ok(0); }
            c.waiting = true;
            let (g, t) = self.rx.cv.wait_timeout(c, WAIT).unwrap();
            c = g;
            c.waiting = false;
            if t.timed_out() && c.q.is_empty() && !c.closed {
                return Err(io::Error::new(io::ErrorKind::TimedOut, "sec17: read timed out"));
            }
        }
    }
}

impl Write for End {
    fn write(&mut self, buf: &[u8]) -> io::Result<usize> {
        if let Some(l) = &self.log { l.lock().unwrap().extend_from_slice(buf); }
        let mut c = self.tx.m.lock().unwrap();
        if c.closed { return Err(io::Error::new(io::ErrorKind::BrokenPipe, "sec17: peer gone")); }
        c.q.extend(buf.iter().cloned());
        self.tx.cv.notify_all();
        Ok(buf.len())
    }
    fn flush(&mut self) -> io::Result<()> { Ok(()) }
}

impl Drop for End {
    fn drop(&mut self) { self.tx.close(); self.rx.close(); }
}

enum Srv { Raw(End), Tls(native_tls::TlsStream<End>), Gone }
impl Srv {
    fn read(&mut self, b: &mut [u8]) -> io::Result<usize> {
        match self { Srv::Raw(e) => e.read(b), Srv::Tls(t) => t.read(b), Srv::Gone => Ok(0) }
    }
    fn write_all(&mut self, b: &[u8]) -> io::Result<()> {
        match self { Srv::Raw(e) => e.write_all(b), Srv::Tls(t) => t.write_all(b), Srv::Gone => Ok(()) }
    }
}

fn fill(s: &mut Srv, v: &mut Vec<u8>, n: usize) -> bool {
    let start = v.len();
    v.resize(start + n, 0);
    let mut got = 0;
    while got < n {
        match s.read(&mut v[start + got..]) {
            Ok(0) | Err(_) => { v.truncate(start + got); return false; }
            Ok(k) => got += k,
        }
    }
    true
}

/// one unit the client sent: a TPKT frame (03 ..) or a DER TLV (30 ..: a CredSSP TSRequest)
fn read_unit(s: &mut Srv) -> Option<Vec<u8>> {
    let mut v: Vec<u8> = vec![];
    if !fill(s, &mut v, 1) { return None; }
    match v[0] {
        0x03 => {
            if !fill(s, &mut v, 3) { return None; }
            let len = ((v[2] as usize) << 8) | v[3] as usize;
            if len < 4 || !fill(s, &mut v, len - 4) { return None; }
            Some(v)
        }
        0x30 => {
            if !fill(s, &mut v, 1) { return None; }
            let l0 = v[1];
            let len = if l0 < 0x80 { l0 as usize } else {
                let k = (l0 & 0x7f) as usize;
                if k == 0 || k > 4 || !fill(s, &mut v, k) { return None; }
                v[2..2 + k].iter().fold(0usize, |a, b| (a << 8) | *b as usize)
            };
            if !fill(s, &mut v, len) { return None; }
            Some(v)
        }
        _ => None,
    }
}

/// returns (handshake: - | ok | fail, the units read inside TLS)
fn server(end: End, reply: Option<Vec<u8>>, ident: String, script: Vec<Vec<Vec<u8>>>) -> (String, Vec<Vec<u8>>) {
    let tx = end.tx.clone();
    let mut s = Srv::Raw(end);
    let mut hs = "-".to_string();
    let mut inside: Vec<Vec<u8>> = vec![];
    if read_unit(&mut s).is_none() { return (hs, inside); }
    match reply {
        Some(r) => { if s.write_all(&r).is_err() { return (hs, inside); } }
        None => { tx.close(); }
    }
    let first = if let Srv::Raw(e) = &s { e.peek() } else { Peek::Gone };
    if let Peek::Byte(0x16) = first {
        let id = match ident.as_str() { "0" => Some((CERT0, KEY0)), "1" => Some((CERT1, KEY1)), _ => None };
        let acc = id.and_then(|(c, k)| native_tls::Identity::from_pkcs8(c, k).ok()).and_then(|i| native_tls::TlsAcceptor::new(i).ok());
        let raw = std::mem::replace(&mut s, Srv::Gone);
        match (acc, raw) {
            (Some(acc), Srv::Raw(e)) => match acc.accept(e) {
                Ok(t) => { s = Srv::Tls(t); hs = "ok".to_string(); }
                Err(_) => { hs = "fail".to_string(); return (hs, inside); }
            },
            _ => { hs = "fail".to_string(); return (hs, inside); }
        }
    } else {
        // the client did not start TLS: this harness has nothing to say in clear
        tx.close();
        return (hs, inside);
    }
    let mut k = 0;
    while k < 64 {
        match read_unit(&mut s) {
            Some(u) => {
                inside.push(u);
                if k < script.len() {
                    for chunk in script[k].iter() { if s.write_all(chunk).is_err() { break; } }
                }
                if k + 1 == script.len() { tx.close(); }     // nothing more to say: a client that still reads sees the end
                k += 1;
            }
            None => break,
        }
    }
    (hs, inside)
}

struct Cfg { nla: bool, ram: bool, blank: bool, auto: bool, check: bool, name: String, domain: String, user: String, pw: String, hash: Option<Vec<u8>> }

fn run_connector(cfg: &Cfg, end: End) -> rdp::model::error::RdpResult<()> {
    // both call orders of the (independent) builder setters are exercised: mode switches before the credentials when auto
    // logon is requested, after them otherwise
    let mut connector = if cfg.auto {
        Connector::new()
            .set_restricted_admin_mode(cfg.ram)
            .auto_logon(cfg.auto)
            .blank_creds(cfg.blank)
            .check_certificate(cfg.check)
            .use_nla(cfg.nla)
            .name(cfg.name.clone())
            .screen(800, 600)
            .credentials(cfg.domain.clone(), cfg.user.clone(), cfg.pw.clone())
    } else {
        Connector::new()
            .screen(800, 600)
            .credentials(cfg.domain.clone(), cfg.user.clone(), cfg.pw.clone())
            .set_restricted_admin_mode(cfg.ram)
            .auto_logon(cfg.auto)
            .blank_creds(cfg.blank)
            .check_certificate(cfg.check)
            .name(cfg.name.clone())
            .use_nla(cfg.nla)
    };
    if let Some(h) = &cfg.hash { connector = connector.set_password_hash(h.clone()); }
    connector.connect(end).map(|_client| ())
}

/// the TPKT frames at the head of what the client wrote on the raw transport
fn raw_frames(b: &[u8]) -> Vec<Vec<u8>> {
    let mut out = vec![];
    let mut b = b;
    while b.len() >= 4 && b[0] == 3 {
        let n = ((b[2] as usize) << 8) | b[3] as usize;
        if n < 4 || n > b.len() { break; }
        out.push(b[..n].to_vec());
        b = &b[n..];
    }
    out
}

/// (user id, channel) of a channel join request
fn join_channel(u: &[u8]) -> Option<(u32, u32)> {
    // TPKT(4) + X.224 data (3) + 38 initiator(2) channel(2)
    if u.len() == 12 && u[0] == 3 && u[4] == 2 && u[5] == 0xf0 && u[7] == 0x38 {
        Some(((((u[8] as u32) << 8) | u[9] as u32) + 1001, ((u[10] as u32) << 8) | u[11] as u32))
    } else { None }
}

fn hexlist(v: &[Vec<u8>]) -> String {
    if v.is_empty() { "-".to_string() } else { v.iter().map(|x| hex(x)).collect::<Vec<_>>().join(",") }
}

pub fn op_sec17(a: &[&str]) -> String {
    if a.len() != 17 { return "bad-args".to_string(); }
    let cfg = Cfg { nla: a[0] == "1", ram: a[1] == "1", blank: a[2] == "1", auto: a[3] == "1", check: a[4] == "1",
                    name: cps(a[7]), domain: cps(a[8]), user: cps(a[9]), pw: cps(a[10]),
                    hash: if a[11] == "-" { None } else { Some(parse_bytes(a[11])) } };
    let ident = a[5].to_string();
    let want_global_first = a[6] == "g";
    let preset = parse_bytes(a[13]);
    let reply = if a[15] == "-" { None } else { Some(parse_bytes(a[15])) };
    let script: Vec<Vec<Vec<u8>>> = if a[16] == "." { vec![] } else {
        a[16].split('/').map(|g| if g == "-" { vec![] } else { g.split(',').map(parse_bytes).collect() }).collect() };
    let root = concat!(env!("CARGO_MANIFEST_DIR"), "/fixtures/cert0.pem");
    std::env::set_var("SSL_CERT_FILE", root);
    std::env::set_var("SSL_CERT_DIR", "/nonexistent");
    let mut last = String::new();
    for _attempt in 0..200 {
        let c2s = Half::new();
        let s2c = Half::new();
        let log = Arc::new(Mutex::new(Vec::new()));
        let client_end = End { rx: s2c.clone(), tx: c2s.clone(), log: Some(log.clone()) };
        let server_end = End { rx: c2s.clone(), tx: s2c.clone(), log: None };
        let (r2, i2, p2) = (reply.clone(), ident.clone(), script.clone());
        let th = std::thread::spawn(move || server(server_end, r2, i2, p2));
        rnd::verif::preset(&preset);
        let r = guarded(|| run_connector(&cfg, client_end));
        rnd::verif::preset(&[]);
        c2s.close();
        let (hs, inside) = th.join().unwrap_or_else(|_| ("server-panic".to_string(), vec![]));
        let res = match r {
            Some(Ok(())) => "ok".to_string(),
            Some(Err(e)) => format!("err:{}", err_name(&e)),
            None => "panic".to_string(),
        };
        let written = log.lock().unwrap().clone();
        let frames = raw_frames(&written);
        let flen: usize = frames.iter().map(|f| f.len()).sum();
        let hs = if hs == "ok" { hs } else if written.len() > flen { "fail".to_string() } else { "-".to_string() };
        last = format!("{} raw={} hs={} tls={} # rawall={}", res, hexlist(&frames), hs, hexlist(&inside), hex(&written));
        // the two joins (the user's own channel, the I/O channel the server announced) come in HashMap order
        let joins: Vec<(u32, u32)> = inside.iter().filter_map(|u| join_channel(u)).collect();
        if joins.is_empty() { break; }
        let same = joins.len() == 2 && joins[0] == joins[1];
        let global_first = joins[0].1 != joins[0].0;
        if same || global_first == want_global_first { break; }
    }
    last
}
