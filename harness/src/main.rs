extern crate rdp;
extern crate yasna;
mod util;
mod hooks;
mod alloc;
mod framing;

#[global_allocator]
static GLOBAL: alloc::Counting = alloc::Counting;
mod session;
mod connect;
mod negotiate;
mod ntlm;
mod ntlmauth;
mod codec;
mod codec18;
mod codec18_der;
mod pdus;
mod csspgate;
mod nla;
mod secrets;

use std::io::{self, BufRead, Write};

fn dispatch(op: &str, args: &[&str]) -> String {
    match op {
        "read" => framing::op_read(args),
        "conn" => connect::op_conn(args),
        "connector" => connect::op_connector(args),
        "gcc" => connect::op_gcc(args),
        "lic" => connect::op_lic(args),
        "neg" => negotiate::op_neg(args),
        "write" => framing::op_write(args),
        "session" => session::op_session(args),
        "md4" | "md5" | "hmac" | "rc4k" | "signkey" | "sealkey" | "mac" => ntlm::op_prim(op, args),
        "sess" => ntlm::op_sess(args),
        "raw" => ntlm::op_raw(args),
        "tamper" => ntlm::op_tamper(args),
        "negotiate" => ntlmauth::op_negotiate(args),
        "auth" => ntlmauth::op_auth(args),
        "unicode" | "ntowfv2" | "lmowfv2" | "ntowfv2h" | "cresp" | "authmsg" => ntlmauth::op_prim(op, args),
        "bmp" => codec::op_bmp(args),
        "ord16" => codec::op_ord16(args),
        "pl32" => codec::op_pl32(args),
        "msg" => codec18::op_msg(args),
        "rd" => codec18::op_rd(args),
        "per" => codec18::op_per(args),
        "der" => codec18_der::op_der(args),
        "mcs" => codec18_der::op_mcs(args),
        "cssp" => codec18_der::op_cssp(args),
        "gcc18" => codec18_der::op_gcc(args),
        "cr" => pdus::op_cr(args),
        "core" => pdus::op_core(args),
        "pdus" => pdus::op_pdus(args),
        "csspgate" => csspgate::op_cssp(args),
        "tsreq" => nla::op_tsreq(args),
        "tsval" => nla::op_tsval(args),
        "chal" => nla::op_chal(args),
        "unwrap" => nla::op_unwrap(args),
        "csspnla" => nla::op_cssp(args),
        "sec17" => secrets::op_sec17(args),
        _ => format!("unknown-op:{}", op),
    }
}

fn main() {
    util::silence_panics();
    let stdin = io::stdin();
    let stdout = io::stdout();
    let mut out = io::BufWriter::new(stdout.lock());
    for line in stdin.lock().lines() {
        let line = line.unwrap();
        let line = line.trim();
        if line.is_empty() || line.starts_with('#') { continue; }
        let toks: Vec<&str> = line.split_whitespace().collect();
        let r = dispatch(toks[0], &toks[1..]);
        // the library prints diagnostics on stdout: result lines carry a marker
        writeln!(out, "@@ {}", r).unwrap();
        out.flush().unwrap();
    }
}
