extern crate rdp;
extern crate yasna;
mod util;
mod hooks;
mod alloc;
mod framing;

#[global_allocator]
static GLOBAL: alloc::Counting = alloc::Counting;
mod session;
mod connect;
mod negotiate;
mod ntlm;
mod ntlmauth;
mod codec;
mod codec18;
mod codec18_der;
mod pdus;
mod csspgate;
mod nla;
mod secrets;
mod flow;

use std::io::{self, BufRead, Write};

fn dispatch(op: &str, args: &[&str]) -> String {
    match op {
        "read" => framing::op_read(args),
        "conn" => connect::op_conn(args),
        "connector" => connect::op_connector(args),
        "gcc" => connect::op_gcc(args),
        "lic" => connect::op_lic(args),
        "neg" => negotiate::op_neg(args),
        "write" => framing::op_write(args),
        "writes" => framing::op_writes(args),
        "session" => session::op_session(args),
        "md4" | "md5" | "hmac" | "rc4k" | "signkey" | "sealkey" | "mac" => ntlm::op_prim(op, args),
        "sess" => ntlm::op_sess(args),
        "raw" => ntlm::op_raw(args),
        "tamper" => ntlm::op_tamper(args),
        "negotiate" => ntlmauth::op_negotiate(args),
        "auth" => ntlmauth::op_auth(args),
        "auth2" => ntlmauth::op_auth2(args),
        "unicode" | "ntowfv2" | "lmowfv2" | "ntowfv2h" | "cresp" | "authmsg" => ntlmauth::op_prim(op, args),
        "bmp" => codec::op_bmp(args),
        "ord16" => codec::op_ord16(args),
        "pl32" => codec::op_pl32(args),
        "msg" => codec18::op_msg(args),
        "rd" => codec18::op_rd(args),
        "per" => codec18::op_per(args),
        "der" => codec18_der::op_der(args),
        "mcs" => codec18_der::op_mcs(args),
        "cssp" => codec18_der::op_cssp(args),
        "gcc18" => codec18_der::op_gcc(args),
        "cr" => pdus::op_cr(args),
        "core" => pdus::op_core(args),
        "pdus" => pdus::op_pdus(args),
        "csspgate" => csspgate::op_cssp(args),
        "tsreq" => nla::op_tsreq(args),
        "tsval" => nla::op_tsval(args),
        "chal" => nla::op_chal(args),
        "unwrap" => nla::op_unwrap(args),
        "csspnla" => nla::op_cssp(args),
        "sec17" => secrets::op_sec17(args),
        "flow" => flow::op_flow(args),
        "refsrv" => flow::op_refsrv(args),
        "rw" => codec18::op_rw(args),
        _ => format!("unknown-op:{}", op),
    }
}

// ---------------------------------------------------------------------------------------------------------
// Supervisor: the cases run in a forked WORKER child; the parent hands it one case line at a time and waits for
// the answer under a deadline.  A case that never answers (a loop that spins on server input) is reported as
// `spin`, a worker that dies (abort, stack overflow, allocation failure) as `crashed`; the worker is then
// replaced, so one such case can neither stall the run nor leave a thread burning a core behind.
// VERIF_CASE_TIMEOUT (seconds, default 60); VERIF_NO_SUPERVISOR=1 runs the cases in this process.

fn worker(rfd: libc::c_int, wfd: libc::c_int) -> ! {
    use std::os::unix::io::FromRawFd;
    let inp = unsafe { std::fs::File::from_raw_fd(rfd) };
    let mut outp = unsafe { std::fs::File::from_raw_fd(wfd) };
    for line in io::BufReader::new(inp).lines() {
        let line = match line { Ok(l) => l, Err(_) => break };
        let toks: Vec<&str> = line.split_whitespace().collect();
        let r = if toks.is_empty() { String::new() } else { dispatch(toks[0], &toks[1..]) };
        let r = r.replace('\n', " ");
        if outp.write_all(r.as_bytes()).is_err() || outp.write_all(b"\n").is_err() { break; }
        let _ = outp.flush();
    }
    unsafe { libc::_exit(0) }
}

struct Worker { pid: libc::pid_t, to: libc::c_int, from: libc::c_int }

fn spawn_worker() -> Worker {
    unsafe {
        let mut a = [0 as libc::c_int; 2];
        let mut b = [0 as libc::c_int; 2];
        if libc::pipe(a.as_mut_ptr()) != 0 || libc::pipe(b.as_mut_ptr()) != 0 { panic!("pipe"); }
        let pid = libc::fork();
        if pid < 0 { panic!("fork"); }
        if pid == 0 {
            libc::close(a[1]); libc::close(b[0]);
            worker(a[0], b[1]);
        }
        libc::close(a[0]); libc::close(b[1]);
        Worker { pid, to: a[1], from: b[0] }
    }
}

fn kill_worker(w: &Worker) {
    unsafe {
        libc::close(w.to); libc::close(w.from);
        libc::kill(w.pid, libc::SIGKILL);
        let mut st = 0;
        libc::waitpid(w.pid, &mut st, 0);
    }
}

/// None = deadline passed; Some(None) = worker died; Some(Some(line)) = answer
fn ask(w: &Worker, line: &str, pending: &mut Vec<u8>, secs: u64) -> Option<Option<String>> {
    unsafe {
        let mut msg = line.as_bytes().to_vec(); msg.push(b'\n');
        let mut off = 0;
        while off < msg.len() {
            let n = libc::write(w.to, msg[off..].as_ptr() as *const libc::c_void, msg.len() - off);
            if n <= 0 { return Some(None); }
            off += n as usize;
        }
        let t0 = std::time::Instant::now();
        loop {
            if let Some(p) = pending.iter().position(|&c| c == b'\n') {
                let l = String::from_utf8_lossy(&pending[..p]).to_string();
                pending.drain(..p + 1);
                return Some(Some(l));
            }
            let left = secs as i64 * 1000 - t0.elapsed().as_millis() as i64;
            if left <= 0 { return None; }
            let mut p = libc::pollfd { fd: w.from, events: libc::POLLIN, revents: 0 };
            let rc = libc::poll(&mut p, 1, left as libc::c_int);
            if rc < 0 { continue; }
            if rc == 0 { return None; }
            let mut buf = [0u8; 65536];
            let n = libc::read(w.from, buf.as_mut_ptr() as *mut libc::c_void, buf.len());
            if n <= 0 { return Some(None); }
            pending.extend_from_slice(&buf[..n as usize]);
        }
    }
}

fn main() {
    util::silence_panics();
    let stdin = io::stdin();
    let stdout = io::stdout();
    let mut out = io::BufWriter::new(stdout.lock());
    let supervised = std::env::var("VERIF_NO_SUPERVISOR").is_err();
    let secs: u64 = std::env::var("VERIF_CASE_TIMEOUT").ok().and_then(|v| v.parse().ok()).unwrap_or(60);
    let mut w: Option<Worker> = None;
    let mut pending: Vec<u8> = vec![];
    // once a case has been seen to spin, the run already has its verdict: later cases get a short deadline (a change that
    // makes MANY cases spin must not turn one check into hours), and after 200 of them the rest are not run at all
    let mut spins: u32 = 0;
    for line in stdin.lock().lines() {
        let line = line.unwrap();
        let line = line.trim();
        if line.is_empty() || line.starts_with('#') { continue; }
        let r = if supervised {
            if w.is_none() { out.flush().unwrap(); w = Some(spawn_worker()); pending.clear(); }
            let limit = if spins == 0 { secs } else { std::cmp::min(secs, 3) };
            if spins >= 200 { "skipped # harness: 200 cases of this run did not answer within their deadline".to_string() } else {
            match ask(w.as_ref().unwrap(), line, &mut pending, limit) {
                Some(Some(r)) => r,
                Some(None) => { kill_worker(w.as_ref().unwrap()); w = None; "crashed".to_string() }
                None => { kill_worker(w.as_ref().unwrap()); w = None; spins += 1; format!("spin # harness: no answer within {} s", limit) }
            } }
        } else {
            let toks: Vec<&str> = line.split_whitespace().collect();
            dispatch(toks[0], &toks[1..])
        };
        // the library prints diagnostics on stdout: result lines carry a marker
        writeln!(out, "@@ {}", r).unwrap();
        out.flush().unwrap();
    }
    if let Some(x) = w { kill_worker(&x); }
}
