// C01: the REAL nla::cssp::cssp_connect over a scripted in-memory transport.  The peer certificate is
// preset through the cfg(rdp_rs_verif) hook model::link::verif (no TLS in this harness), the client's
// randomness through model::rnd::verif; every server byte comes from the case line.
//   cssp <pw|hash> <dom> <user> <password code points | NT hash hex> <upper(user) (model only)> <ra 0|1>
//        <certificate DER hex | none> <its subjectPublicKey bytes (model only)> <rnd hex: nonce(8) ++ key(16)>
//        <reply>,<reply>,..   (one transport read each; "." = none)
//   ->  <ok | err:Kind | panic> n=<number of writes> <write hex>...
use crate::framing::parse_bytes;
use crate::ntlmauth::cps;
use crate::util::*;
use rdp::model::link::{self, Link, Stream};
use rdp::model::rnd;
use rdp::nla::cssp::cssp_connect;
use rdp::nla::ntlm::Ntlm;
use std::collections::VecDeque;
use std::io::{self, Read, Write};
use std::sync::{Arc, Mutex};

struct Shared { replies: VecDeque<Vec<u8>>, writes: Vec<Vec<u8>> }
#[derive(Clone)]
struct Script(Arc<Mutex<Shared>>);

impl Read for Script {
    fn read(&mut self, buf: &mut [u8]) -> io::Result<usize> {
        let mut s = self.0.lock().unwrap();
        match s.replies.pop_front() {
            None => Ok(0),
            Some(c) => {
                let n = std::cmp::min(buf.len(), c.len());
                buf[..n].copy_from_slice(&c[..n]);
                if n < c.len() { s.replies.push_front(c[n..].to_vec()); }
                Ok(n)
            }
        }
    }
}
impl Write for Script {
    fn write(&mut self, buf: &[u8]) -> io::Result<usize> {
        self.0.lock().unwrap().writes.push(buf.to_vec());
        Ok(buf.len())
    }
    fn flush(&mut self) -> io::Result<()> { Ok(()) }
}

pub fn op_cssp(a: &[&str]) -> String {
    if a.len() != 10 { return "bad-args".to_string(); }
    let (dom, user) = (cps(a[1]), cps(a[2]));
    let ra = a[5] == "1";
    let cert = if a[6] == "none" { None } else { Some(parse_bytes(a[6])) };
    let preset = parse_bytes(a[8]);
    let replies: VecDeque<Vec<u8>> = if a[9] == "." { VecDeque::new() } else { a[9].split(',').map(parse_bytes).collect() };
    let script = Script(Arc::new(Mutex::new(Shared { replies, writes: vec![] })));
    let s2 = script.clone();
    let r = guarded(|| {
        let mut n = if a[0] == "hash" { Ntlm::from_hash(dom.clone(), user.clone(), &parse_bytes(a[3])) }
                    else { Ntlm::new(dom.clone(), user.clone(), cps(a[3])) };
        let mut l = Link::new(Stream::Raw(s2));
        link::verif::preset_peer_certificate(cert.as_ref().map(|c| c.as_slice()));
        rnd::verif::preset(&preset);
        let r = cssp_connect(&mut l, &mut n, ra);
        r
    });
    rnd::verif::preset(&[]);
    link::verif::preset_peer_certificate(None);
    let res = match r {
        None => "panic".to_string(),
        Some(Ok(())) => "ok".to_string(),
        Some(Err(e)) => format!("err:{}", err_name(&e)),
    };
    let w = script.0.lock().unwrap().writes.clone();
    let mut out = format!("{} n={}", res, w.len());
    for x in &w { out.push(' '); out.push_str(&hex(x)); }
    out
}
