// C03: a WHOLE connection of the real client -- Connector::connect, the RdpClient::read loop, shutdown --
// against a scripted reference server running in lock step over an in-memory duplex that upgrades to a
// real native-tls acceptor (fixture identity 0).
//   flow <nla 0|1> <ram 0|1> <auto 0|1> <blank 0|1> <hash hex|-> <check 0|1> <w> <h> <layout code>
//        <name hex> <dom hex> <user hex> <pw hex> <upper(user) hex (model only)> <pubkey hex (model only)|->
//        <rnd hex|-> <order g|u> <nreads> <step>...
//   step = R:<chunk>/<chunk>..   the server writes these chunks on the raw transport (one write each)
//        | T                     the server waits for a ClientHello and accepts the TLS session
//        | S:<chunk>/<chunk>..   the server writes these chunks inside TLS (one TLS record each)
//   The server releases a reply only when the client is BLOCKED in a read with nothing in flight, after
//   having collected every unit (TPKT frame / DER TSRequest) the client wrote so far: the log shows, in
//   order, what the client had sent when each reply was released.
//   output: <ok | err:Kind@stage | panic@stage> ev=<events> where events are
//        r:<hex> unit written on the raw transport, t:<hex> unit written inside TLS, tls / notls,
//        s<k> reply k released, x:<hex> garbage
//   after ` #`: eof=<1: the client waited for more when the server had nothing left to send (it then sees end of file)>
//        tries=<runs until the two channel joins came in the scripted order> bitmaps=<events>
use crate::framing::parse_bytes;
use crate::util::*;
use rdp::core::client::Connector;
use rdp::core::event::RdpEvent;
use rdp::core::gcc::KeyboardLayout;
use rdp::model::rnd;
use std::collections::VecDeque;
use std::io::{self, Read, Write};
use std::sync::atomic::{AtomicBool, Ordering};
use std::sync::{Arc, Condvar, Mutex};
use std::time::{Duration, Instant};

const CERT0: &[u8] = include_bytes!("../fixtures/cert0.pem");
const KEY0: &[u8] = include_bytes!("../fixtures/key0.pem");
const WAIT: Duration = Duration::from_secs(10);

struct Chan { q: VecDeque<Vec<u8>>, closed: bool, waiting: bool }
struct Half { m: Mutex<Chan>, cv: Condvar }
impl Half {
    fn new() -> Arc<Half> { Arc::new(Half { m: Mutex::new(Chan { q: VecDeque::new(), closed: false, waiting: false }), cv: Condvar::new() }) }
    fn close(&self) { self.m.lock().unwrap().closed = true; self.cv.notify_all(); }
}

/// one end of the duplex.  Chunks keep their boundaries: one read returns at most the rest of the
/// chunk at the head of the queue.  The server end can be non-blocking: a read fails with WouldBlock
/// when nothing is queued and the client is itself blocked in a read with nothing queued for it.
pub struct End { rx: Arc<Half>, tx: Arc<Half>, server: bool, nonblock: Arc<AtomicBool> }

impl Read for End {
    fn read(&mut self, buf: &mut [u8]) -> io::Result<usize> {
        if buf.is_empty() { return Ok(0); }
        let start = Instant::now();
        loop {
            let peer_blocked = if self.server { let t = self.tx.m.lock().unwrap(); t.waiting && t.q.is_empty() } else { false };
            let mut c = self.rx.m.lock().unwrap();
            if let Some(mut head) = c.q.pop_front() {
                let n = std::cmp::min(buf.len(), head.len());
                buf[..n].copy_from_slice(&head[..n]);
                if n < head.len() { head.drain(..n); c.q.push_front(head); }
                return Ok(n);
            }
            if c.closed { return Ok(0); }
            if self.server {
                if peer_blocked && self.nonblock.load(Ordering::SeqCst) {
                    return Err(io::Error::new(io::ErrorKind::WouldBlock, "flow: client is waiting"));
                }
                let _ = self.rx.cv.wait_timeout(c, Duration::from_millis(1)).unwrap();
                if start.elapsed() > WAIT { return Err(io::Error::new(io::ErrorKind::TimedOut, "flow: server read timed out")); }
            } else {
                c.waiting = true;
                self.tx.cv.notify_all();
                let (mut g, t) = self.rx.cv.wait_timeout(c, WAIT).unwrap();
                g.waiting = false;
                if t.timed_out() && g.q.is_empty() && !g.closed {
                    return Err(io::Error::new(io::ErrorKind::TimedOut, "flow: client read timed out"));
                }
            }
        }
    }
}

impl Write for End {
    fn write(&mut self, buf: &[u8]) -> io::Result<usize> {
        if buf.is_empty() { return Ok(0); }
        let mut c = self.tx.m.lock().unwrap();
        if c.closed { return Err(io::Error::new(io::ErrorKind::BrokenPipe, "flow: peer gone")); }
        c.q.push_back(buf.to_vec());
        self.tx.cv.notify_all();
        Ok(buf.len())
    }
    fn flush(&mut self) -> io::Result<()> { Ok(()) }
}

impl Drop for End {
    fn drop(&mut self) { self.tx.close(); self.rx.close(); }
}

enum Srv { Raw(End), Tls(native_tls::TlsStream<End>), Gone }
impl Srv {
    fn read(&mut self, b: &mut [u8]) -> io::Result<usize> {
        match self { Srv::Raw(e) => e.read(b), Srv::Tls(t) => t.read(b), Srv::Gone => Ok(0) }
    }
    fn write_all(&mut self, b: &[u8]) -> io::Result<()> {
        match self { Srv::Raw(e) => e.write_all(b), Srv::Tls(t) => { t.write_all(b)?; t.flush() }, Srv::Gone => Ok(()) }
    }
    fn is_tls(&self) -> bool { if let Srv::Tls(_) = self { true } else { false } }
}

enum Got { Unit(Vec<u8>), Blocked, Gone, Garbage(Vec<u8>) }

/// n more bytes of the current unit; Err(true) = the client is blocked, Err(false) = gone
fn fill(s: &mut Srv, v: &mut Vec<u8>, n: usize) -> Result<(), bool> {
    let start = v.len();
    v.resize(start + n, 0);
    let mut got = 0;
    while got < n {
        match s.read(&mut v[start + got..]) {
            Ok(0) => { v.truncate(start + got); return Err(false); }
            Ok(k) => got += k,
            Err(e) => { v.truncate(start + got); return Err(e.kind() == io::ErrorKind::WouldBlock); }
        }
    }
    Ok(())
}

/// one unit the client sent: a TPKT frame (03 ..) or a DER TLV (30 ..: a CredSSP TSRequest)
fn read_unit(s: &mut Srv) -> Got {
    let mut v: Vec<u8> = vec![];
    match fill(s, &mut v, 1) { Ok(()) => (), Err(true) => return Got::Blocked, Err(false) => return Got::Gone }
    let r = (|| -> Result<(), bool> {
        match v[0] {
            0x03 => {
                fill(s, &mut v, 3)?;
                let len = ((v[2] as usize) << 8) | v[3] as usize;
                if len < 4 { return Err(false); }
                fill(s, &mut v, len - 4)
            }
            0x30 => {
                fill(s, &mut v, 1)?;
                let len = match v[1] {
                    l if l < 0x80 => l as usize,
                    0x81 => { fill(s, &mut v, 1)?; v[2] as usize }
                    0x82 => { fill(s, &mut v, 2)?; ((v[2] as usize) << 8) | v[3] as usize }
                    _ => return Err(false),
                };
                fill(s, &mut v, len)
            }
            _ => Err(false),
        }
    })();
    match r { Ok(()) => Got::Unit(v), Err(_) => Got::Garbage(v) }
}

/// collect everything the client has written; true when the client is gone
fn drain(s: &mut Srv, log: &mut Vec<String>) -> bool {
    loop {
        let tls = s.is_tls();
        match read_unit(s) {
            Got::Unit(u) => log.push(format!("{}:{}", if tls { "t" } else { "r" }, hex(&u))),
            Got::Blocked => return false,
            Got::Gone => return true,
            Got::Garbage(u) => { log.push(format!("x:{}", hex(&u))); return true; }
        }
    }
}

#[derive(Clone)]
enum Step { Raw(Vec<Vec<u8>>), Tls, Inside(Vec<Vec<u8>>) }

fn parse_step(t: &str) -> Step {
    let chunks = |s: &str| -> Vec<Vec<u8>> { s.split('/').map(parse_bytes).collect() };
    if t == "T" { Step::Tls }
    else if let Some(r) = t.strip_prefix("R:") { Step::Raw(chunks(r)) }
    else if let Some(r) = t.strip_prefix("S:") { Step::Inside(chunks(r)) }
    else { panic!("bad step") }
}

/// first byte the client writes next (not consumed): Some(b), or None when it is blocked / gone
fn peek_first(e: &End) -> Option<u8> {
    let start = Instant::now();
    loop {
        let blocked = { let t = e.tx.m.lock().unwrap(); t.waiting && t.q.is_empty() };
        {
            let c = e.rx.m.lock().unwrap();
            if let Some(h) = c.q.front() { return h.first().cloned(); }
            if c.closed || blocked { return None; }
            let _ = e.rx.cv.wait_timeout(c, Duration::from_millis(1)).unwrap();
        }
        if start.elapsed() > WAIT { return None; }
    }
}

/// (log, eof: the client waited for more when the server had nothing left to send)
fn server(end: End, script: Vec<Step>) -> (Vec<String>, bool) {
    let tx = end.tx.clone();
    let nonblock = end.nonblock.clone();
    let mut s = Srv::Raw(end);
    let mut log: Vec<String> = vec![];
    let mut k = 0;
    let mut gone = false;
    for step in script.iter() {
        match step {
            Step::Raw(chunks) | Step::Inside(chunks) => {
                // a client that is gone (it ended, or its transport broke) is sent nothing more: the remaining
                // replies are only numbered, so that the log always names every reply of the script
                if !gone { gone = drain(&mut s, &mut log); }
                log.push(format!("s{}", k));
                k += 1;
                if gone { continue; }
                let want_tls = if let Step::Inside(_) = step { true } else { false };
                if want_tls != s.is_tls() { log.push("mode-mismatch".to_string()); gone = true; continue; }
                for c in chunks.iter() { if s.write_all(c).is_err() { gone = true; break; } }
            }
            Step::Tls => {
                if gone { continue; }
                let first = if let Srv::Raw(e) = &s { peek_first(e) } else { None };
                if first != Some(0x16) { log.push("notls".to_string()); gone = true; continue; }
                let acc = native_tls::Identity::from_pkcs8(CERT0, KEY0).ok().and_then(|i| native_tls::TlsAcceptor::new(i).ok());
                let raw = std::mem::replace(&mut s, Srv::Gone);
                nonblock.store(false, Ordering::SeqCst);
                match (acc, raw) {
                    (Some(acc), Srv::Raw(e)) => match acc.accept(e) {
                        Ok(t) => { s = Srv::Tls(t); log.push("tls".to_string()); }
                        Err(_) => { log.push("notls".to_string()); gone = true; }
                    },
                    _ => { log.push("notls".to_string()); gone = true; }
                }
                nonblock.store(true, Ordering::SeqCst);
            }
        }
    }
    // nothing more to send: collect what the client still writes; when it waits for more, it gets EOF
    let mut closed = false;
    let mut guard = 0;
    while !gone && guard < 256 {
        guard += 1;
        gone = drain(&mut s, &mut log);
        if !gone {
            if closed { break; }
            // end of file as the client's Link sees it: an orderly TLS close (a read returns 0), then the transport closes
            if let Srv::Tls(t) = &mut s { nonblock.store(false, Ordering::SeqCst); let _ = t.shutdown(); nonblock.store(true, Ordering::SeqCst); }
            tx.close();
            closed = true;
        }
    }
    (log, closed)
}

fn layout_of(code: u32) -> KeyboardLayout {
    match code {
        0x401 => KeyboardLayout::Arabic, 0x402 => KeyboardLayout::Bulgarian, 0x404 => KeyboardLayout::ChineseUsKeyboard,
        0x405 => KeyboardLayout::Czech, 0x406 => KeyboardLayout::Danish, 0x407 => KeyboardLayout::German,
        0x408 => KeyboardLayout::Greek, 0x409 => KeyboardLayout::US, 0x40a => KeyboardLayout::Spanish,
        0x40b => KeyboardLayout::Finnish, 0x40c => KeyboardLayout::French, 0x40d => KeyboardLayout::Hebrew,
        0x40e => KeyboardLayout::Hungarian, 0x40f => KeyboardLayout::Icelandic, 0x410 => KeyboardLayout::Italian,
        0x411 => KeyboardLayout::Japanese, 0x412 => KeyboardLayout::Korean, 0x413 => KeyboardLayout::Dutch,
        0x414 => KeyboardLayout::Norwegian,
        _ => panic!("bad layout code"),
    }
}

struct Cfg { nla: bool, ram: bool, auto: bool, blank: bool, hash: Option<Vec<u8>>, check: bool, w: u16, h: u16, layout: u32,
             name: String, dom: String, user: String, pw: String, rnd: Vec<u8>, nreads: usize }

/// (result with the stage it ended in, bitmap events delivered)
fn run_client(cfg: &Cfg, end: End) -> (String, usize) {
    let mut bitmaps = 0usize;
    let mut stage = "connect".to_string();
    let r = guarded(|| -> Result<(), rdp::model::error::Error> {
        rnd::verif::preset(&cfg.rnd);
        let mut connector = Connector::new()
            .screen(cfg.w, cfg.h)
            .credentials(cfg.dom.clone(), cfg.user.clone(), cfg.pw.clone())
            .set_restricted_admin_mode(cfg.ram)
            .auto_logon(cfg.auto)
            .blank_creds(cfg.blank)
            .check_certificate(cfg.check)
            .layout(layout_of(cfg.layout))
            .name(cfg.name.clone())
            .use_nla(cfg.nla);
        if let Some(h) = &cfg.hash { connector = connector.set_password_hash(h.clone()); }
        let mut client = connector.connect(end)?;
        for i in 0..cfg.nreads {
            stage = format!("read{}", i);
            client.read(|e| { if let RdpEvent::Bitmap(_) = e { bitmaps += 1; } })?;
        }
        stage = "shutdown".to_string();
        client.shutdown()
    });
    rnd::verif::preset(&[]);
    let res = match r {
        Some(Ok(())) => "ok".to_string(),
        Some(Err(e)) => format!("err:{}@{}", err_name(&e), stage),
        None => format!("panic@{}", stage),
    };
    (res, bitmaps)
}

/// does the first channel join in the log ask for the user channel (channel == initiator + 1001)?
fn first_join_is_user(log: &[String]) -> Option<bool> {
    for ev in log {
        let h = match ev.strip_prefix("t:").or_else(|| ev.strip_prefix("r:")) { Some(h) => h, None => continue };
        let b = unhex(h);
        if b.len() == 12 && b[0] == 3 && b[7] == 0x38 {
            let ini = ((b[8] as u32) << 8) | b[9] as u32;
            let ch = ((b[10] as u32) << 8) | b[11] as u32;
            return Some(ch == ini + 1001);
        }
    }
    None
}

pub fn op_flow(a: &[&str]) -> String {
    if a.len() < 18 { return "bad-args".to_string(); }
    let s = |i: usize| String::from_utf8(unhex(a[i])).expect("case strings are UTF-8");
    let cfg = Cfg { nla: a[0] == "1", ram: a[1] == "1", auto: a[2] == "1", blank: a[3] == "1",
                    hash: if a[4] == "-" { None } else { Some(unhex(a[4])) }, check: a[5] == "1",
                    w: a[6].parse().unwrap(), h: a[7].parse().unwrap(), layout: a[8].parse().unwrap(),
                    name: s(9), dom: s(10), user: s(11), pw: s(12), rnd: unhex(a[15]), nreads: a[17].parse().unwrap() };
    let want_user_first = a[16] == "u";
    let script: Vec<Step> = a[18..].iter().map(|t| parse_step(t)).collect();
    // the only trusted root is fixture certificate 0
    let root = concat!(env!("CARGO_MANIFEST_DIR"), "/fixtures/cert0.pem");
    std::env::set_var("SSL_CERT_FILE", root);
    std::env::set_var("SSL_CERT_DIR", "/nonexistent");
    let mut last = String::new();
    for attempt in 0..200 {
        let c2s = Half::new();
        let s2c = Half::new();
        let client_end = End { rx: s2c.clone(), tx: c2s.clone(), server: false, nonblock: Arc::new(AtomicBool::new(false)) };
        let server_end = End { rx: c2s.clone(), tx: s2c.clone(), server: true, nonblock: Arc::new(AtomicBool::new(true)) };
        let sc = script.clone();
        let th = std::thread::spawn(move || server(server_end, sc));
        let (res, bitmaps) = run_client(&cfg, client_end);
        c2s.close();
        let (log, eof) = th.join().unwrap_or_else(|_| (vec!["server-panic".to_string()], false));
        last = format!("{} ev={} #eof={} tries={} bitmaps={}", res, if log.is_empty() { "-".to_string() } else { log.join(",") }, if eof { 1 } else { 0 }, attempt + 1, bitmaps);
        match first_join_is_user(&log) {
            None => break,
            Some(u) => if u == want_user_first { break; }
        }
    }
    last
}

/// refsrv <parameters of a reference server ...> <replies hex,hex,..> <kinds ;-separated>
/// The python reference server's own replies and mandated sequence, echoed: the pipeline's diff compares them with
/// what the Coq specification (coq/RefSequence.v, extracted) says for the same parameters.
pub fn op_refsrv(a: &[&str]) -> String {
    if a.len() < 14 { return "bad-args".to_string(); }
    format!("ok r={} k={}", a[12], a[13])
}
