// C18, second half: nla/asn1.rs over yasna, the MCS connect PDUs, the CredSSP structures and core/gcc.rs.
//   der enc <value>                     to_der of a tree built from the value description
//   der rt  <value> <template>          to_der, then from_der AND from_ber into the template, dump
//   der dec <template> <hex>            from_der of arbitrary bytes (decber: from_ber)
//   mcs ci <userdata>  | mcs cr <hex> | mcs crt <userdata>
//   cssp req <nego> | auth <nego> <pubkey> | chal <hex> | val <hex> | cred <dom> <user> <pw> | info <hex>
//   gcc18 req <userdata> | resp <hex> | ver <u32> | hdr <type> <len> | ccore <w> <h> <us|fr> <proto> <ascii name hex>
// VALUE language: i<n> e<n> b<0|1> o<hex|-> s(v,..) q(v,..) x<U|A|C|P><tag>(v) m<U|A|C|P><tag>(v);
// in a template q(<one element>) gives the element factory.
use crate::util::*;
use rdp::core::{gcc, mcs};
use rdp::model::data::{to_vec, Message};
use rdp::model::error::RdpResult;
use rdp::nla::asn1::{from_ber, from_der, to_der, ASN1Type, Enumerate, ExplicitTag, ImplicitTag, Integer, OctetString, Sequence, SequenceOf, ASN1};
use rdp::nla::cssp;
use std::io::Cursor;
use yasna::{BERReader, DERWriter, Tag, TagClass};

pub struct DB(pub Box<dyn ASN1>);
impl ASN1 for DB {
    fn write_asn1(&self, w: DERWriter) -> RdpResult<()> { self.0.write_asn1(w) }
    fn read_asn1(&mut self, r: BERReader) -> RdpResult<()> { self.0.read_asn1(r) }
    fn visit(&self) -> ASN1Type { self.0.visit() }
}

struct P<'a> { s: &'a [u8], i: usize }
impl<'a> P<'a> {
    fn peek(&self) -> u8 { if self.i < self.s.len() { self.s[self.i] } else { 0 } }
    fn eat(&mut self, c: u8) { assert!(self.peek() == c, "value: expected {} at {}", c as char, self.i); self.i += 1; }
    fn number(&mut self) -> u64 {
        let st = self.i;
        while self.i < self.s.len() && self.s[self.i].is_ascii_digit() { self.i += 1; }
        std::str::from_utf8(&self.s[st..self.i]).unwrap().parse().unwrap()
    }
    fn word(&mut self, stop: &[u8]) -> String {
        let st = self.i;
        while self.i < self.s.len() && !stop.contains(&self.s[self.i]) { self.i += 1; }
        String::from_utf8(self.s[st..self.i].to_vec()).unwrap()
    }
    fn tag(&mut self) -> Tag {
        let c = self.peek(); self.i += 1;
        let n = self.number();
        let class = match c { b'U' => TagClass::Universal, b'A' => TagClass::Application, b'C' => TagClass::ContextSpecific, b'P' => TagClass::Private, _ => panic!("value: class") };
        Tag { tag_class: class, tag_number: n }
    }
    fn value(&mut self, template: bool) -> Box<dyn ASN1> {
        let c = self.peek(); self.i += 1;
        match c {
            b'i' => Box::new(self.number() as Integer),
            b'e' => Box::new(self.number() as Enumerate),
            b'b' => Box::new(self.number() != 0),
            b'o' => Box::new(unhex(&self.word(b",)")) as OctetString),
            b's' => {
                self.eat(b'(');
                let mut s = Sequence::new();
                let mut k = 0;
                while self.peek() != b')' {
                    s.insert(format!("f{}", k), self.value(template)); k += 1;
                    if self.peek() == b',' { self.i += 1; }
                }
                self.eat(b')');
                Box::new(s)
            }
            b'q' => {
                self.eat(b'(');
                if template {
                    let st = self.i;
                    let _ = self.value(true);
                    let text = String::from_utf8(self.s[st..self.i].to_vec()).unwrap();
                    self.eat(b')');
                    Box::new(SequenceOf::reader(move || parse_value(&text, true)))
                } else {
                    let mut q = SequenceOf::new();
                    while self.peek() != b')' {
                        q.inner.push(self.value(false));
                        if self.peek() == b',' { self.i += 1; }
                    }
                    self.eat(b')');
                    Box::new(q)
                }
            }
            b'x' | b'm' => {
                let tag = self.tag();
                self.eat(b'(');
                let inner = DB(self.value(template));
                self.eat(b')');
                if c == b'x' { Box::new(ExplicitTag::new(tag, inner)) } else { Box::new(ImplicitTag::new(tag, inner)) }
            }
            _ => panic!("value: bad node {}", c as char),
        }
    }
}

pub fn parse_value(s: &str, template: bool) -> Box<dyn ASN1> {
    let mut p = P { s: s.as_bytes(), i: 0 };
    let v = p.value(template);
    assert!(p.i == s.len(), "value: trailing text");
    v
}

fn dump(t: ASN1Type, out: &mut String) {
    match t {
        ASN1Type::U32(n) => out.push_str(&format!("i{}", n)),
        ASN1Type::Enumerate(n) => out.push_str(&format!("e{}", n)),
        ASN1Type::Bool(b) => out.push_str(if b { "b1" } else { "b0" }),
        ASN1Type::OctetString(b) => { out.push('o'); out.push_str(&hex(b)); }
        ASN1Type::Sequence(s) => {
            out.push_str("s(");
            for (i, (_, v)) in s.iter().enumerate() { if i > 0 { out.push(','); } dump(v.visit(), out); }
            out.push(')');
        }
        ASN1Type::SequenceOf(q) => {
            out.push_str("q(");
            for (i, v) in q.inner.iter().enumerate() { if i > 0 { out.push(','); } dump(v.visit(), out); }
            out.push(')');
        }
    }
}

fn decode(template: &str, bytes: Vec<u8>, ber: bool) -> String {
    let t = template.to_string();
    match guarded(move || {
        let mut m = parse_value(&t, true);
        let r = if ber { from_ber(m.as_mut(), &bytes) } else { from_der(m.as_mut(), &bytes) };
        r.map(|_| { let mut s = String::new(); dump(m.visit(), &mut s); s })
    }) {
        None => "panic".to_string(),
        Some(Err(e)) => format!("err:{}", err_name(&e)),
        Some(Ok(s)) => format!("ok:{}", s),
    }
}

fn encode(value: &str) -> Option<Vec<u8>> {
    let v = value.to_string();
    guarded(move || to_der(parse_value(&v, false).as_ref()))
}

/// decode with from_der (ber = false) / from_ber, then to_der of what was read; same = the re-encoding is the input
fn decode_encode(template: &str, bytes: Vec<u8>, ber: bool) -> String {
    let t = template.to_string();
    let input = bytes.clone();
    match guarded(move || {
        let mut m = parse_value(&t, true);
        let r = if ber { from_ber(m.as_mut(), &bytes) } else { from_der(m.as_mut(), &bytes) };
        r.map(|_| { let mut s = String::new(); dump(m.visit(), &mut s); (s, to_der(m.as_ref())) })
    }) {
        None => "panic".to_string(),
        Some(Err(e)) => format!("err:{}", err_name(&e)),
        Some(Ok((s, w))) => format!("ok:{} w={} same={}", s, hex(&w), if w == input { 1 } else { 0 }),
    }
}

pub fn op_der(args: &[&str]) -> String {
    match args[0] {
        "dw" => decode_encode(args[1], unhex(args[2]), false),
        "dwber" => decode_encode(args[1], unhex(args[2]), true),
        "enc" => match encode(args[1]) { Some(b) => format!("ok:{}", hex(&b)), None => "panic".to_string() },
        "rt" => match encode(args[1]) {
            None => "w=panic".to_string(),
            Some(b) => format!("w={} der={} ber={}", hex(&b), decode(args[2], b.clone(), false), decode(args[2], b, true)),
        },
        "dec" => decode(args[1], unhex(args[2]), false),
        "decber" => decode(args[1], unhex(args[2]), true),
        _ => format!("unknown-der:{}", args[0]),
    }
}

fn show_bytes(r: Option<RdpResult<Vec<u8>>>) -> String {
    match r {
        None => "panic".to_string(),
        Some(Err(e)) => format!("err:{}", err_name(&e)),
        Some(Ok(b)) => format!("ok:{}", hex(&b)),
    }
}

fn read_cr(bytes: Vec<u8>) -> String {
    match guarded(move || {
        let mut cr = mcs::verif_connect_response(None);
        from_ber(&mut cr, &bytes).map(|_| { let mut s = String::new(); dump(cr.visit(), &mut s); s })
    }) {
        None => "panic".to_string(),
        Some(Err(e)) => format!("err:{}", err_name(&e)),
        Some(Ok(s)) => format!("ok:{}", s),
    }
}

/// mcs crdw <hex>: the connect response through from_ber (as the client reads it), then to_der of what was read
fn read_write_cr(bytes: Vec<u8>) -> String {
    let input = bytes.clone();
    match guarded(move || {
        let mut cr = mcs::verif_connect_response(None);
        from_ber(&mut cr, &bytes).map(|_| {
            let ud = match cr.visit() {
                ASN1Type::Sequence(s) => match s.iter().last().map(|(_, v)| v.visit()) { Some(ASN1Type::OctetString(b)) => hex(b), _ => "?".to_string() },
                _ => "?".to_string(),
            };
            (ud, to_der(&cr))
        })
    }) {
        None => "panic".to_string(),
        Some(Err(e)) => format!("err:{}", err_name(&e)),
        Some(Ok((ud, w))) => format!("ok:ud={} same={}", ud, if w == input { 1 } else { 0 }),
    }
}

pub fn op_mcs(args: &[&str]) -> String {
    match args[0] {
        "crdw" => read_write_cr(unhex(args[1])),
        "ci" => { let ud = unhex(args[1]); show_bytes(guarded(move || Ok(to_der(&mcs::verif_connect_initial(Some(ud)))))) }
        "cr" => read_cr(unhex(args[1])),
        "crt" => {
            let ud = unhex(args[1]);
            match guarded(move || to_der(&mcs::verif_connect_response(Some(ud)))) {
                None => "w=panic".to_string(),
                Some(b) => format!("w={} r={}", hex(&b), read_cr(b)),
            }
        }
        _ => format!("unknown-mcs:{}", args[0]),
    }
}

pub fn op_cssp(args: &[&str]) -> String {
    match args[0] {
        "req" => { let n = unhex(args[1]); show_bytes(guarded(move || Ok(cssp::create_ts_request(n)))) }
        "auth" => { let n = unhex(args[1]); let k = unhex(args[2]); show_bytes(guarded(move || Ok(cssp::create_ts_authenticate(n, k)))) }
        "chal" => { let b = unhex(args[1]); show_bytes(guarded(move || cssp::read_ts_server_challenge(&b))) }
        "val" => { let b = unhex(args[1]); show_bytes(guarded(move || cssp::read_ts_validate(&b))) }
        "cred" => { let (d, u, p) = (unhex(args[1]), unhex(args[2]), unhex(args[3])); show_bytes(guarded(move || Ok(cssp::verif_create_ts_credentials(d, u, p)))) }
        "info" => { let b = unhex(args[1]); show_bytes(guarded(move || Ok(cssp::verif_create_ts_authinfo(b)))) }
        _ => format!("unknown-cssp:{}", args[0]),
    }
}

fn version_name(v: gcc::Version) -> &'static str {
    if v == gcc::Version::RdpVersion { "4" } else if v == gcc::Version::RdpVersion5plus { "5plus" } else { "unknown" }
}

pub fn op_gcc(args: &[&str]) -> String {
    match args[0] {
        "req" => { let ud = unhex(args[1]); show_bytes(guarded(move || gcc::write_conference_create_request(&ud))) }
        "resp" => {
            let b = unhex(args[1]);
            let limit = 10_000 + 64 * b.len();
            crate::codec18::SPUN.store(false, std::sync::atomic::Ordering::SeqCst);
            let r = guarded(move || gcc::read_conference_create_response(&mut crate::codec18::Watch { cur: Cursor::new(b), calls: 0, limit }));
            if crate::codec18::SPUN.load(std::sync::atomic::Ordering::SeqCst) { return "spin".to_string(); }
            match r {
                None => "panic".to_string(),
                Some(Err(e)) => format!("err:{}", err_name(&e)),
                Some(Ok(sd)) => {
                    let ids: Vec<String> = sd.channel_ids.iter().map(|x| format!("{}", x)).collect();
                    format!("ok:io={}:ids={}:ver={}", sd.global_channel_id, if ids.is_empty() { "-".to_string() } else { ids.join(".") }, version_name(sd.rdp_version))
                }
            }
        }
        "hdr" => {
            let (t, l): (u16, u16) = (args[1].parse().unwrap(), args[2].parse().unwrap());
            show_bytes(guarded(move || Ok(to_vec(&gcc::block_header(Some(gcc::MessageType::from(t)), Some(l))))))
        }
        "ver" => { let n: u32 = args[1].parse().unwrap(); format!("ok:{}", version_name(gcc::Version::from(n))) }
        "ccore" => {
            let (w, h): (u16, u16) = (args[1].parse().unwrap(), args[2].parse().unwrap());
            let layout = if args[3] == "fr" { gcc::KeyboardLayout::French } else { gcc::KeyboardLayout::US };
            let proto: u32 = args[4].parse().unwrap();
            let name = String::from_utf8(unhex(args[5])).unwrap();
            match guarded(move || {
                let m = gcc::client_core_data(Some(gcc::ClientData { width: w, height: h, layout, server_selected_protocol: proto,
                    rdp_version: gcc::Version::RdpVersion5plus, name }));
                let len = m.length();
                let b = to_vec(&m);
                let mut t = gcc::client_core_data(None);
                let mut cur = Cursor::new(b.clone());
                let r = t.read(&mut cur);
                let back = to_vec(&t);
                (len, b, r.is_ok(), cur.position(), back)
            }) {
                None => "panic".to_string(),
                Some((len, b, ok, pos, back)) => format!("len={} w={} r={} consumed={} same={}", len, hex(&b), if ok { "ok" } else { "err" }, pos, back == b),
            }
        }
        _ => format!("unknown-gcc:{}", args[0]),
    }
}
