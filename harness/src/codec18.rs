// C18: encoders/decoders of the real crate driven from compact textual descriptions.
//   msg  <written shape> <template shape> <rest hex>   build both trees, length(), write, read back into the template
//   rd   <template shape> <input hex>                  read arbitrary bytes into a template
//   per  <primitive> <args..>                          every function of core/per.rs
//   der ..  mcs ..  cssp ..  gcc18 ..   (codec18_der.rs)                          (see below)
// SHAPE language (one token, no blanks), shared with ocaml/codec18/driver.ml:
//   u8:<dec> u16l:<dec> u16b:<dec> u32l:<dec> u32b:<dec> v:<hex|->      leaves
//   t(<n>,..)  c(<name>=<n>,..)  k(<leaf>)  d(<clo>;<n>)  o(<n>) o()  a(<factory>)  A(<n>,..)
//   clo  := n | z<target>~<cexp> | s<target>~<cond>
//   cexp := x | f<name>  followed by any number of  -<k>  _<k> (saturating)  +<k>  *<k>
//   cond := b<shift>.<mask>.<value> | !(<cond>) | |(<cond>,<cond>) | &(<cond>,<cond>)
use crate::util::*;
use rdp::core::per;
use rdp::model::data::{Array, Check, Component, DataType, DynOption, Message, MessageOption, Trame, U16, U32};
use rdp::model::error::RdpResult;
use std::io::{Cursor, Read, Write};

// ------------------------------------------------------------------ dynamic wrappers
/// A boxed message: lets the generic containers of data.rs (Option<T>, DynOption<T>, Array<T>)
/// hold any node.  Every method delegates, so the behaviour is that of the wrapped node.
pub struct B(pub Box<dyn Message>);
impl Message for B {
    fn write(&self, w: &mut dyn Write) -> RdpResult<()> { self.0.write(w) }
    fn read(&mut self, r: &mut dyn Read) -> RdpResult<()> { self.0.read(r) }
    fn length(&self) -> u64 { self.0.length() }
    fn visit(&self) -> DataType { self.0.visit() }
    fn options(&self) -> MessageOption { self.0.options() }
}

/// Leaves that can sit inside Check<T> (T: Clone + PartialEq)
#[derive(Clone, PartialEq)]
pub enum Leaf { U8(u8), U16(U16), U32(U32), V(Vec<u8>) }
impl Message for Leaf {
    fn write(&self, w: &mut dyn Write) -> RdpResult<()> {
        match self { Leaf::U8(x) => x.write(w), Leaf::U16(x) => x.write(w), Leaf::U32(x) => x.write(w), Leaf::V(x) => x.write(w) }
    }
    fn read(&mut self, r: &mut dyn Read) -> RdpResult<()> {
        match self { Leaf::U8(x) => x.read(r), Leaf::U16(x) => x.read(r), Leaf::U32(x) => x.read(r), Leaf::V(x) => x.read(r) }
    }
    fn length(&self) -> u64 {
        match self { Leaf::U8(x) => x.length(), Leaf::U16(x) => x.length(), Leaf::U32(x) => x.length(), Leaf::V(x) => x.length() }
    }
    fn visit(&self) -> DataType {
        match self { Leaf::U8(x) => x.visit(), Leaf::U16(x) => x.visit(), Leaf::U32(x) => x.visit(), Leaf::V(x) => x.visit() }
    }
    fn options(&self) -> MessageOption {
        match self { Leaf::U8(x) => x.options(), Leaf::U16(x) => x.options(), Leaf::U32(x) => x.options(), Leaf::V(x) => x.options() }
    }
}

// ------------------------------------------------------------------ closure language
#[derive(Clone)]
enum CExp { SelfV, Field(String), Sub(Box<CExp>, usize), SubSat(Box<CExp>, usize), Add(Box<CExp>, usize), Mul(Box<CExp>, usize) }
#[derive(Clone)]
enum Cond { Bits(u32, u64, u64), Not(Box<Cond>), Or(Box<Cond>, Box<Cond>), And(Box<Cond>, Box<Cond>) }
#[derive(Clone)]
enum Clo { None, Size(String, CExp), SkipIf(Cond, String) }

fn num_of(d: DataType) -> usize {
    match d {
        DataType::U8(x) => x as usize,
        DataType::U16(x) => x as usize,
        DataType::U32(x) => x as usize,
        _ => panic!("closure: not a number"),
    }
}

fn eval_cexp(e: &CExp, this: &B) -> usize {
    match e {
        CExp::SelfV => num_of(this.visit()),
        CExp::Field(name) => match this.visit() {
            DataType::Component(c) => num_of(c[name.as_str()].visit()),
            _ => panic!("closure: not a component"),
        },
        // plain usize arithmetic, as the closures of the crate write it: traps in a debug build, wraps in release
        CExp::Sub(e, k) => eval_cexp(e, this) - *k,
        CExp::SubSat(e, k) => eval_cexp(e, this).saturating_sub(*k),
        CExp::Add(e, k) => eval_cexp(e, this) + *k,
        CExp::Mul(e, k) => eval_cexp(e, this) * *k,
    }
}

fn eval_cond(c: &Cond, v: u64) -> bool {
    match c {
        Cond::Bits(s, m, x) => ((v >> s) & m) == *x,
        Cond::Not(c) => !eval_cond(c, v),
        Cond::Or(a, b) => eval_cond(a, v) || eval_cond(b, v),
        Cond::And(a, b) => eval_cond(a, v) && eval_cond(b, v),
    }
}

// ------------------------------------------------------------------ parser
struct P<'a> { s: &'a [u8], i: usize }
impl<'a> P<'a> {
    fn peek(&self) -> u8 { if self.i < self.s.len() { self.s[self.i] } else { 0 } }
    fn eat(&mut self, c: u8) { assert!(self.peek() == c, "shape: expected {} at {}", c as char, self.i); self.i += 1; }
    fn word(&mut self, stop: &[u8]) -> String {
        let st = self.i;
        while self.i < self.s.len() && !stop.contains(&self.s[self.i]) { self.i += 1; }
        String::from_utf8(self.s[st..self.i].to_vec()).unwrap()
    }
    fn number(&mut self) -> u64 {
        let st = self.i;
        while self.i < self.s.len() && self.s[self.i].is_ascii_digit() { self.i += 1; }
        std::str::from_utf8(&self.s[st..self.i]).unwrap().parse().unwrap()
    }
    fn cexp(&mut self) -> CExp {
        let mut e = if self.peek() == b'x' { self.i += 1; CExp::SelfV } else {
            self.eat(b'f');
            CExp::Field(self.word(b"-_+*;"))
        };
        loop {
            match self.peek() {
                b'-' => { self.i += 1; let k = self.number() as usize; e = CExp::Sub(Box::new(e), k); }
                b'_' => { self.i += 1; let k = self.number() as usize; e = CExp::SubSat(Box::new(e), k); }
                b'+' => { self.i += 1; let k = self.number() as usize; e = CExp::Add(Box::new(e), k); }
                b'*' => { self.i += 1; let k = self.number() as usize; e = CExp::Mul(Box::new(e), k); }
                _ => break,
            }
        }
        e
    }
    fn cond(&mut self) -> Cond {
        match self.peek() {
            b'b' => {
                self.i += 1;
                let s = self.number() as u32; self.eat(b'.');
                let m = self.number(); self.eat(b'.');
                let v = self.number();
                Cond::Bits(s, m, v)
            }
            b'!' => { self.i += 1; self.eat(b'('); let c = self.cond(); self.eat(b')'); Cond::Not(Box::new(c)) }
            b'|' => { self.i += 1; self.eat(b'('); let a = self.cond(); self.eat(b','); let b = self.cond(); self.eat(b')'); Cond::Or(Box::new(a), Box::new(b)) }
            b'&' => { self.i += 1; self.eat(b'('); let a = self.cond(); self.eat(b','); let b = self.cond(); self.eat(b')'); Cond::And(Box::new(a), Box::new(b)) }
            _ => panic!("shape: bad cond"),
        }
    }
    fn clo(&mut self) -> Clo {
        match self.peek() {
            b'n' => { self.i += 1; Clo::None }
            b'z' => { self.i += 1; let t = self.word(b"~"); self.eat(b'~'); Clo::Size(t, self.cexp()) }
            b's' => { self.i += 1; let t = self.word(b"~"); self.eat(b'~'); Clo::SkipIf(self.cond(), t) }
            _ => panic!("shape: bad closure"),
        }
    }
    fn leaf(&mut self) -> Option<Leaf> {
        let st = self.i;
        let w = self.word(b":(");
        if self.peek() != b':' { self.i = st; return None; }
        self.i += 1;
        Some(match w.as_str() {
            "u8" => Leaf::U8(self.number() as u8),
            "u16l" => Leaf::U16(U16::LE(self.number() as u16)),
            "u16b" => Leaf::U16(U16::BE(self.number() as u16)),
            "u32l" => Leaf::U32(U32::LE(self.number() as u32)),
            "u32b" => Leaf::U32(U32::BE(self.number() as u32)),
            "v" => Leaf::V(unhex(&self.word(b",);"))),
            _ => panic!("shape: bad leaf {}", w),
        })
    }
    /// the source text of the node starting here (used by the Array factory)
    fn node(&mut self) -> Box<dyn Message> {
        if let Some(l) = self.leaf() {
            return match l { Leaf::U8(x) => Box::new(x), Leaf::U16(x) => Box::new(x), Leaf::U32(x) => Box::new(x), Leaf::V(x) => Box::new(x) };
        }
        let c = self.peek();
        self.i += 1;
        self.eat(b'(');
        match c {
            b't' | b'A' => {
                let mut t = Trame::new();
                while self.peek() != b')' {
                    t.push(self.node());
                    if self.peek() == b',' { self.i += 1; }
                }
                self.eat(b')');
                if c == b't' { Box::new(t) } else { Box::new(Array::<B>::from_trame(t)) }
            }
            b'c' => {
                let mut m = Component::new();
                while self.peek() != b')' {
                    let name = self.word(b"=");
                    self.eat(b'=');
                    let v = self.node();
                    m.insert(name, v);
                    if self.peek() == b',' { self.i += 1; }
                }
                self.eat(b')');
                Box::new(m)
            }
            b'k' => {
                let l = self.leaf().expect("shape: Check needs a leaf");
                self.eat(b')');
                Box::new(Check::new(l))
            }
            b'd' => {
                let clo = self.clo();
                self.eat(b';');
                let inner = B(self.node());
                self.eat(b')');
                Box::new(DynOption::new(inner, move |x: &B| match &clo {
                    Clo::None => MessageOption::None,
                    Clo::Size(t, e) => MessageOption::Size(t.clone(), eval_cexp(e, x)),
                    Clo::SkipIf(c, t) => {
                        if eval_cond(c, num_of(x.visit()) as u64) { MessageOption::SkipField(t.clone()) } else { MessageOption::None }
                    }
                }))
            }
            b'o' => {
                if self.peek() == b')' { self.i += 1; return Box::new(Option::<B>::None); }
                let inner = B(self.node());
                self.eat(b')');
                Box::new(Some(inner))
            }
            b'a' => {
                let st = self.i;
                let _ = self.node();
                let text = String::from_utf8(self.s[st..self.i].to_vec()).unwrap();
                self.eat(b')');
                Box::new(Array::new(move || B(build(&text))))
            }
            _ => panic!("shape: bad node {}", c as char),
        }
    }
}

pub fn build(s: &str) -> Box<dyn Message> {
    let mut p = P { s: s.as_bytes(), i: 0 };
    let n = p.node();
    assert!(p.i == s.len(), "shape: trailing text");
    n
}

// ------------------------------------------------------------------ canonical dump (through visit(), as the crate's users see a tree)
fn dump(d: DataType, out: &mut String) {
    match d {
        DataType::U8(x) => out.push_str(&format!("{}", x)),
        DataType::U16(x) => out.push_str(&format!("{}", x)),
        DataType::U32(x) => out.push_str(&format!("{}", x)),
        DataType::Slice(b) => { out.push('x'); out.push_str(&hex(b)); }
        DataType::None => out.push('~'),
        DataType::Trame(t) => {
            out.push('[');
            for (i, e) in t.iter().enumerate() { if i > 0 { out.push(','); } dump(e.visit(), out); }
            out.push(']');
        }
        DataType::Component(c) => {
            out.push('{');
            for (i, (k, v)) in c.iter().enumerate() { if i > 0 { out.push(','); } out.push_str(k); out.push('='); dump(v.visit(), out); }
            out.push('}');
        }
    }
}

/// A cursor with a watchdog: a read loop that never ends (an Array whose elements stop failing) is cut
/// after a number of reader calls no terminating parse of the input can need, and reported as `spin`.
pub struct Watch { pub cur: Cursor<Vec<u8>>, pub calls: usize, pub limit: usize }
pub static SPUN: std::sync::atomic::AtomicBool = std::sync::atomic::AtomicBool::new(false);
impl Read for Watch {
    fn read(&mut self, buf: &mut [u8]) -> std::io::Result<usize> {
        self.calls += 1;
        if self.calls > self.limit {
            SPUN.store(true, std::sync::atomic::Ordering::SeqCst);
            panic!("watchdog: reader called {} times", self.calls);
        }
        self.cur.read(buf)
    }
}

fn read_into(tmpl: &str, input: Vec<u8>) -> String {
    let total = input.len();
    SPUN.store(false, std::sync::atomic::Ordering::SeqCst);
    let r = guarded(move || {
        let mut t = build(tmpl);
        let mut cur = Watch { cur: Cursor::new(input), calls: 0, limit: 10_000 + 64 * total };
        let res = t.read(&mut cur);
        let consumed = std::cmp::min(cur.cur.position() as usize, total);
        match res {
            Ok(()) => { let mut s = String::new(); dump(t.visit(), &mut s); format!("ok consumed={} val={}", consumed, s) }
            Err(e) => format!("err:{} consumed={}", err_name(&e), consumed),
        }
    });
    if SPUN.load(std::sync::atomic::Ordering::SeqCst) { return "spin".to_string(); }
    r.unwrap_or_else(|| "panic".to_string())
}

/// msg <written> <template> <rest>
pub fn op_msg(args: &[&str]) -> String {
    let (w, t, rest) = (args[0].to_string(), args[1], unhex(args[2]));
    let w1 = w.clone();
    let len = guarded(move || build(&w1).length());
    let bytes = guarded(move || { let m = build(&w); let mut c = Cursor::new(Vec::new()); m.write(&mut c).map(|_| c.into_inner()) });
    let ls = match len { Some(n) => format!("{}", n), None => "panic".to_string() };
    match bytes {
        None => format!("len={} w=panic", ls),
        Some(Err(e)) => format!("len={} w=err:{}", ls, err_name(&e)),
        Some(Ok(b)) => {
            let mut input = b.clone();
            input.extend_from_slice(&rest);
            format!("len={} w={} r={}", ls, hex(&b), read_into(t, input))
        }
    }
}

/// rd <template> <input>
pub fn op_rd(args: &[&str]) -> String {
    read_into(args[0], unhex(args[1]))
}

/// rw <template> <input>: read the bytes into the template with the real reader, write the message read with the real
/// writer, compare what was written (followed by what the reader left) with the input
pub fn op_rw(args: &[&str]) -> String {
    let tmpl = args[0].to_string();
    let input = unhex(args[1]);
    let total = input.len();
    SPUN.store(false, std::sync::atomic::Ordering::SeqCst);
    let r = guarded(move || {
        let mut t = build(&tmpl);
        let mut cur = Watch { cur: Cursor::new(input.clone()), calls: 0, limit: 10_000 + 64 * total };
        let res = t.read(&mut cur);
        let consumed = std::cmp::min(cur.cur.position() as usize, total);
        match res {
            Ok(()) => {
                let mut s = String::new();
                dump(t.visit(), &mut s);
                let len = t.length();
                let mut c = Cursor::new(Vec::new());
                match t.write(&mut c) {
                    Ok(()) => {
                        let mut w = c.into_inner();
                        let wl = w.len();
                        let wh = hex(&w);
                        w.extend_from_slice(&input[consumed..]);
                        format!("ok consumed={} val={} len={} w={} same={}", consumed, s, len, wh, if w == input && wl == consumed { 1 } else { 0 })
                    }
                    Err(e) => format!("ok consumed={} val={} len={} w=err:{}", consumed, s, len, err_name(&e)),
                }
            }
            Err(e) => format!("err:{} consumed={}", err_name(&e), consumed),
        }
    });
    if SPUN.load(std::sync::atomic::Ordering::SeqCst) { return "spin".to_string(); }
    r.unwrap_or_else(|| "panic".to_string())
}

// ------------------------------------------------------------------ PER
fn res<T, F: FnOnce() -> RdpResult<T>>(f: F, show: &dyn Fn(T) -> String) -> String {
    match guarded(f) {
        None => "panic".to_string(),
        Some(Err(e)) => format!("err:{}", err_name(&e)),
        Some(Ok(v)) => format!("ok:{}", show(v)),
    }
}

fn rd<T, F: FnOnce(&mut Cursor<Vec<u8>>) -> RdpResult<T>>(input: Vec<u8>, f: F, show: &dyn Fn(T) -> String) -> String {
    let n = input.len();
    match guarded(move || { let mut c = Cursor::new(input); let r = f(&mut c); (r, std::cmp::min(c.position() as usize, n)) }) {
        None => "panic".to_string(),
        Some((Err(e), _)) => format!("err:{}", err_name(&e)),
        Some((Ok(v), pos)) => format!("ok:{}:rest={}", show(v), n - pos),
    }
}

fn wr<F: FnOnce(&mut Cursor<Vec<u8>>) -> RdpResult<()>>(f: F) -> (String, Option<Vec<u8>>) {
    match guarded(move || { let mut c = Cursor::new(Vec::new()); f(&mut c).map(|_| c.into_inner()) }) {
        None => ("panic".to_string(), None),
        Some(Err(e)) => (format!("err:{}", err_name(&e)), None),
        Some(Ok(b)) => (format!("ok:{}", hex(&b)), Some(b)),
    }
}

/// write, then read the written bytes followed by `aa`: `w=<..> r=<..>`
fn rt(w: (String, Option<Vec<u8>>), reader: &dyn Fn(Vec<u8>) -> String) -> String {
    match w {
        (s, None) => format!("w={}", s),
        (s, Some(mut b)) => { b.push(0xaa); format!("w={} r={}", s, reader(b)) }
    }
}

/// decode, then encode: `r=<read outcome>` and, when the read succeeded, ` w=<bytes written for the value read> same=<0|1>`
/// (same = written bytes followed by what the reader left are the input)
fn dw<T: Clone, R: FnOnce(&mut Cursor<Vec<u8>>) -> RdpResult<T>, W: FnOnce(T, &mut Cursor<Vec<u8>>) -> RdpResult<()>>(
    input: Vec<u8>, reader: R, writer: W, show: &dyn Fn(T) -> String) -> String {
    let n = input.len();
    let inp = input.clone();
    match guarded(move || { let mut c = Cursor::new(inp); let r = reader(&mut c); (r, std::cmp::min(c.position() as usize, n)) }) {
        None => "r=panic".to_string(),
        Some((Err(e), _)) => format!("r=err:{}", err_name(&e)),
        Some((Ok(v), pos)) => {
            let v2 = v.clone();
            let head = format!("r=ok:{}:rest={}", show(v), n - pos);
            match guarded(move || { let mut c = Cursor::new(Vec::new()); writer(v2, &mut c).map(|_| c.into_inner()) }) {
                None => format!("{} w=panic", head),
                Some(Err(e)) => format!("{} w=err:{}", head, err_name(&e)),
                Some(Ok(mut w)) => {
                    let wh = hex(&w);
                    w.extend_from_slice(&input[pos..]);
                    format!("{} w={} same={}", head, wh, if w == input { 1 } else { 0 })
                }
            }
        }
    }
}

fn num(s: &str) -> u64 { s.parse().unwrap() }
fn n_str<T: std::fmt::Display>(v: T) -> String { format!("{}", v) }
fn unit_str(_: ()) -> String { "-".to_string() }

pub fn op_per(args: &[&str]) -> String {
    let a = &args[1..];
    let show_u8 = |v: u8| n_str(v);
    let show_u16 = |v: u16| n_str(v);
    let show_u32 = |v: u32| n_str(v);
    let show_bool = |v: bool| n_str(v);
    let show_vec = |v: Vec<u8>| hex(&v);
    let w_len = |n: u16| wr(move |c| per::write_length(n)?.write(c));
    let r_len = |b: Vec<u8>| rd(b, |c| per::read_length(c), &show_u16);
    let w_int = |n: u32| wr(move |c| per::write_integer(n, c));
    let r_int = |b: Vec<u8>| rd(b, |c| per::read_integer(c), &show_u32);
    match args[0] {
        "wlen" => w_len(num(a[0]) as u16).0,
        "rlen" => r_len(unhex(a[0])),
        "rtlen" => rt(w_len(num(a[0]) as u16), &r_len),
        "wint" => w_int(num(a[0]) as u32).0,
        "rint" => r_int(unhex(a[0])),
        "rtint" => rt(w_int(num(a[0]) as u32), &r_int),
        "wint16" => { let (v, m) = (num(a[0]) as u16, num(a[1]) as u16); wr(move |c| per::write_integer_16(v, m, c)).0 }
        "rint16" => { let m = num(a[0]) as u16; rd(unhex(a[1]), move |c| per::read_integer_16(m, c), &show_u16) }
        "rtint16" => {
            let (v, m) = (num(a[0]) as u16, num(a[1]) as u16);
            rt(wr(move |c| per::write_integer_16(v, m, c)), &|b| rd(b, move |c| per::read_integer_16(m, c), &show_u16))
        }
        "woid" => { let o = unhex(a[0]); wr(move |c| per::write_object_identifier(&o, c)).0 }
        "roid" => { let o = unhex(a[0]); rd(unhex(a[1]), move |c| per::read_object_identifier(&o, c), &show_bool) }
        "rtoid" => {
            let o = unhex(a[0]); let o2 = o.clone();
            rt(wr(move |c| per::write_object_identifier(&o, c)), &|b| { let o3 = o2.clone(); rd(b, move |c| per::read_object_identifier(&o3, c), &show_bool) })
        }
        "wnum" => { let s = unhex(a[0]); let m = num(a[1]) as usize; wr(move |c| per::write_numeric_string(&s, m, c)).0 }
        "rnum" => { let m = num(a[0]) as usize; rd(unhex(a[1]), move |c| per::read_numeric_string(m, c), &show_vec) }
        "rtnum" => {
            let s = unhex(a[0]); let m = num(a[1]) as usize;
            rt(wr(move |c| per::write_numeric_string(&s, m, c)), &|b| rd(b, move |c| per::read_numeric_string(m, c), &show_vec))
        }
        "wpad" => { let n = num(a[0]) as usize; wr(move |c| per::write_padding(n, c)).0 }
        "rpad" => { let n = num(a[0]) as usize; rd(unhex(a[1]), move |c| per::read_padding(n, c), &unit_str) }
        "woct" => { let s = unhex(a[0]); let m = num(a[1]) as usize; wr(move |c| per::write_octet_stream(&s, m, c)).0 }
        "roct" => { let s = unhex(a[0]); let m = num(a[1]) as usize; rd(unhex(a[2]), move |c| per::read_octet_stream(&s, m, c), &unit_str) }
        "rtoct" => {
            let s = unhex(a[0]); let m = num(a[1]) as usize; let s2 = s.clone();
            rt(wr(move |c| per::write_octet_stream(&s, m, c)), &|b| { let s3 = s2.clone(); rd(b, move |c| per::read_octet_stream(&s3, m, c), &unit_str) })
        }
        "dwlen" => dw(unhex(a[0]), |c| per::read_length(c), |v, c| per::write_length(v)?.write(c), &show_u16),
        "dwint" => dw(unhex(a[0]), |c| per::read_integer(c), |v, c| per::write_integer(v, c), &show_u32),
        "dwint16" => { let m = num(a[0]) as u16; dw(unhex(a[1]), move |c| per::read_integer_16(m, c), move |v, c| per::write_integer_16(v, m, c), &show_u16) }
        "dwoid" => {
            // the reader compares with an expected identifier; when it answers true, that identifier is written back
            let o = unhex(a[0]); let o2 = o.clone();
            dw(unhex(a[1]), move |c| per::read_object_identifier(&o, c),
               move |v, c| if v { per::write_object_identifier(&o2, c) } else { Ok(()) }, &show_bool)
        }
        "dwoct" => {
            let s = unhex(a[0]); let s2 = s.clone(); let m = num(a[1]) as usize;
            dw(unhex(a[2]), move |c| per::read_octet_stream(&s, m, c), move |_, c| per::write_octet_stream(&s2, m, c), &unit_str)
        }
        "dwnum" => { let m = num(a[0]) as usize; dw(unhex(a[1]), move |c| per::read_numeric_string(m, c), move |v: Vec<u8>, c| per::write_numeric_string(&v, m, c), &show_vec) }
        "dwpad" => { let n = num(a[0]) as usize; dw(unhex(a[1]), move |c| per::read_padding(n, c), move |_, c| per::write_padding(n, c), &unit_str) }
        "dwchoice" => dw(unhex(a[0]), |c| per::read_choice(c), |v, c| per::write_choice(v, c), &show_u8),
        "dwsel" => dw(unhex(a[0]), |c| per::read_selection(c), |v, c| per::write_selection(v, c), &show_u8),
        "dwnset" => dw(unhex(a[0]), |c| per::read_number_of_set(c), |v, c| per::write_number_of_set(v, c), &show_u8),
        "dwenum" => dw(unhex(a[0]), |c| per::read_enumerates(c), |v, c| { per::write_enumerates(v)?.write(c) }, &show_u8),
        "wchoice" => { let n = num(a[0]) as u8; wr(move |c| per::write_choice(n, c)).0 }
        "wsel" => { let n = num(a[0]) as u8; wr(move |c| per::write_selection(n, c)).0 }
        "wnset" => { let n = num(a[0]) as u8; wr(move |c| per::write_number_of_set(n, c)).0 }
        "wenum" => { let n = num(a[0]) as u8; res(move || per::write_enumerates(n), &|v: u8| hex(&[v])) }
        "rchoice" => rd(unhex(a[0]), |c| per::read_choice(c), &show_u8),
        "rsel" => rd(unhex(a[0]), |c| per::read_selection(c), &show_u8),
        "rnset" => rd(unhex(a[0]), |c| per::read_number_of_set(c), &show_u8),
        "renum" => rd(unhex(a[0]), |c| per::read_enumerates(c), &show_u8),
        _ => format!("unknown-per:{}", args[0]),
    }
}
