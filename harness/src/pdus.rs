// C04: every PDU the client emits, in full, built by the REAL crate functions.
//   cr <offered> <ram 0|1>
//        x224::Client::connect against a silent server: the connection request it writes.
//   core <w> <h> <layout code> <selected> <name hex(utf8)>
//        gcc::client_core_data(..) serialized (CS_CORE body, without the block header).
//   pdus <selected> <autologon 0|1> <w> <h> <layout code> <uid> <server rdpVersion> <share id>
//        <name hex> <domain hex> <user hex> <pw hex> <events: P:x:y:b:d,K:c:d,.. | -> <server frame hex>...
//        (uid / version / share id are what the scripted server frames carry; they are on the line for the
//        model, the implementation learns them from the frames)
//        the whole client side of a connection over an in-memory scripted server:
//        mcs::Client::connect (connect-initial, erect-domain, attach-user, two channel joins),
//        sec::connect (client info), global::Client (confirm-active, synchronize, cooperate,
//        request-control, font-list), RdpClient::write for each event, RdpClient::shutdown.
//        The x224 layer is built with the negotiated protocol <selected> (hook verif_new), so that
//        no TLS is needed.  Output: every TPKT frame the client put on the wire, in order, in hex;
//        the two channel joins are asked in HashMap order, the run is repeated until the client
//        asks for the I/O channel first (the order the server frames were scripted for).
use crate::framing::{Pipe, parse_bytes};
use crate::util::*;
use rdp::core::client::RdpClient;
use rdp::core::event::{RdpEvent, PointerEvent, PointerButton, KeyboardEvent};
use rdp::core::gcc::{self, KeyboardLayout, ClientData, Version};
use rdp::core::{global, mcs, sec, tpkt, x224};
use rdp::model::data::to_vec;
use rdp::model::error::RdpResult;
use rdp::model::link::{Link, Stream};
use std::convert::TryFrom;

fn layout_of(code: u32) -> KeyboardLayout {
    match code {
        0x401 => KeyboardLayout::Arabic, 0x402 => KeyboardLayout::Bulgarian, 0x404 => KeyboardLayout::ChineseUsKeyboard,
        0x405 => KeyboardLayout::Czech, 0x406 => KeyboardLayout::Danish, 0x407 => KeyboardLayout::German,
        0x408 => KeyboardLayout::Greek, 0x409 => KeyboardLayout::US, 0x40a => KeyboardLayout::Spanish,
        0x40b => KeyboardLayout::Finnish, 0x40c => KeyboardLayout::French, 0x40d => KeyboardLayout::Hebrew,
        0x40e => KeyboardLayout::Hungarian, 0x40f => KeyboardLayout::Icelandic, 0x410 => KeyboardLayout::Italian,
        0x411 => KeyboardLayout::Japanese, 0x412 => KeyboardLayout::Korean, 0x413 => KeyboardLayout::Dutch,
        0x414 => KeyboardLayout::Norwegian,
        _ => panic!("bad layout code"),
    }
}

fn proto_of(sel: u32) -> x224::Protocols {
    // by name, not through TryFrom: the harness must keep compiling when the enum's repr type is edited
    match sel {
        0 => x224::Protocols::ProtocolRDP, 1 => x224::Protocols::ProtocolSSL, 2 => x224::Protocols::ProtocolHybrid,
        8 => x224::Protocols::ProtocolHybridEx, _ => panic!("bad protocol"),
    }
}

/// split what the client wrote into complete TPKT frames; anything else is reported as a tail
fn frames_hex(mut b: &[u8]) -> String {
    let mut out: Vec<String> = vec![];
    while b.len() >= 4 && b[0] == 3 {
        let n = ((b[2] as usize) << 8) | b[3] as usize;
        if n < 4 || n > b.len() { break; }
        out.push(hex(&b[..n]));
        b = &b[n..];
    }
    if !b.is_empty() { out.push(format!("tail:{}", hex(b))); }
    if out.is_empty() { "-".to_string() } else { out.join(" ") }
}

fn utf8(s: &str) -> String { String::from_utf8(unhex(s)).expect("case strings are UTF-8") }

pub fn op_cr(args: &[&str]) -> String {
    let offered: u32 = args[0].parse().unwrap();
    let ram = args[1] == "1";
    let pipe = Pipe::new(vec![], vec![]);
    let r = guarded(|| {
        let link = Link::new(Stream::Raw(pipe.clone()));
        x224::Client::connect(tpkt::Client::new(link), offered, false, None, ram, false).map(|_| ())
    });
    let res = match r {
        Some(Ok(())) => "ok".to_string(),
        Some(Err(_)) => "sent".to_string(),     // the silent server ends the attempt after the request
        None => "panic".to_string(),
    };
    format!("{} {}", res, frames_hex(&pipe.written()))
}

pub fn op_core(args: &[&str]) -> String {
    let w: u16 = args[0].parse().unwrap();
    let h: u16 = args[1].parse().unwrap();
    let layout = layout_of(args[2].parse().unwrap());
    let sel: u32 = args[3].parse().unwrap();
    let name = utf8(args[4]);
    let r = guarded(|| to_vec(&gcc::client_core_data(Some(ClientData {
        width: w, height: h, layout, server_selected_protocol: sel, rdp_version: Version::RdpVersion5plus, name }))));
    match r {
        Some(b) => format!("ok {}", hex(&b)),
        None => "panic".to_string(),
    }
}

struct Cfg { sel: u32, autologon: bool, w: u16, h: u16, layout: u32, name: String, domain: String, user: String, pw: String,
             events: Vec<String>, activation: usize }

fn mk_event(s: &str) -> RdpEvent {
    let f: Vec<&str> = s.split(':').collect();
    match f[0] {
        "P" => RdpEvent::Pointer(PointerEvent {
            x: f[1].parse().unwrap(), y: f[2].parse().unwrap(),
            button: match f[3].parse::<u8>().unwrap() { 1 => PointerButton::Left, 2 => PointerButton::Right, 3 => PointerButton::Middle, _ => PointerButton::None },
            down: f[4] == "1" }),
        "K" => RdpEvent::Key(KeyboardEvent { code: f[1].parse().unwrap(), down: f[2] == "1" }),
        _ => panic!("bad event"),
    }
}

fn run(cfg: &Cfg, pipe: &Pipe) -> RdpResult<()> {
    let link = Link::new(Stream::Raw(pipe.clone()));
    let x = x224::Client::verif_new(tpkt::Client::new(link), proto_of(cfg.sel));
    let mut m = mcs::Client::new(x);
    m.connect(cfg.name.clone(), cfg.w, cfg.h, layout_of(cfg.layout))?;
    sec::connect(&mut m, &cfg.domain, &cfg.user, &cfg.pw, cfg.autologon)?;
    let g = global::Client::new(m.get_user_id(), m.get_global_channel_id(), cfg.w, cfg.h, layout_of(cfg.layout), &cfg.name);
    let mut client = RdpClient::verif_new(m, g);
    // demand-active, synchronize, cooperate, granted-control, font-map
    for _ in 0..cfg.activation { client.read(|_| {})?; }
    for e in &cfg.events { client.write(mk_event(e))?; }
    client.shutdown()
}

pub fn op_pdus(args: &[&str]) -> String {
    let events: Vec<String> = if args[12] == "-" { vec![] } else { args[12].split(',').map(|s| s.to_string()).collect() };
    let chunks: Vec<Vec<u8>> = args[13..].iter().map(|c| parse_bytes(c)).collect();
    // server frames: connect-response, attach confirm, 2 join confirms, licence, then the activation frames
    let activation = if chunks.len() > 5 { chunks.len() - 5 } else { 0 };
    let cfg = Cfg { sel: args[0].parse().unwrap(), autologon: args[1] == "1", w: args[2].parse().unwrap(), h: args[3].parse().unwrap(),
                    layout: args[4].parse().unwrap(), name: utf8(args[8]), domain: utf8(args[9]), user: utf8(args[10]), pw: utf8(args[11]),
                    events, activation };
    let mut last = String::new();
    for _attempt in 0..400 {
        let pipe = Pipe::new(chunks.clone(), vec![]);
        let r = guarded(|| run(&cfg, &pipe));
        let res = match r {
            Some(Ok(())) => "ok".to_string(),
            Some(Err(e)) => format!("err:{}", err_name(&e)),
            None => "panic".to_string(),
        };
        let written = pipe.written();
        last = format!("{} {}", res, frames_hex(&written));
        // which channel did the first join ask for?  (frame = tpkt(4) x224(3) 38 uid(2) chan(2))
        let mut b: &[u8] = &written;
        let mut first_join: Option<u16> = None;
        while b.len() >= 4 && b[0] == 3 {
            let n = ((b[2] as usize) << 8) | b[3] as usize;
            if n < 4 || n > b.len() { break; }
            if n == 12 && b[7] == 0x38 { first_join = Some(((b[10] as u16) << 8) | b[11] as u16); break; }
            b = &b[n..];
        }
        match first_join {
            None => break,
            Some(ch) => if ch == 1003 { break; }
        }
    }
    last
}
