// Shared helpers: hex, canonical error names, panic capture.
use rdp::model::error::{Error, RdpErrorKind};
use std::panic::{catch_unwind, AssertUnwindSafe};

pub fn hex(b: &[u8]) -> String {
    let mut s = String::with_capacity(b.len() * 2);
    for x in b {
        s.push_str(&format!("{:02x}", x));
    }
    if s.is_empty() { s.push('-'); }
    s
}

pub fn unhex(s: &str) -> Vec<u8> {
    if s == "-" || s.is_empty() { return vec![]; }
    let b = s.as_bytes();
    let mut out = Vec::with_capacity(b.len() / 2);
    let v = |c: u8| -> u8 {
        match c { b'0'..=b'9' => c - b'0', b'a'..=b'f' => c - b'a' + 10, b'A'..=b'F' => c - b'A' + 10, _ => panic!("bad hex") }
    };
    let mut i = 0;
    while i + 1 < b.len() { out.push(v(b[i]) * 16 + v(b[i + 1])); i += 2; }
    out
}

pub fn kind_name(k: RdpErrorKind) -> &'static str {
    match k {
        RdpErrorKind::InvalidData => "InvalidData",
        RdpErrorKind::InvalidRespond => "InvalidRespond",
        RdpErrorKind::NotImplemented => "NotImplemented",
        RdpErrorKind::ProtocolNegFailure => "ProtocolNegFailure",
        RdpErrorKind::InvalidAutomata => "InvalidAutomata",
        RdpErrorKind::InvalidProtocol => "InvalidProtocol",
        RdpErrorKind::InvalidCast => "InvalidCast",
        RdpErrorKind::InvalidConst => "InvalidConst",
        RdpErrorKind::InvalidChecksum => "InvalidChecksum",
        RdpErrorKind::InvalidOptionalField => "InvalidOptionalField",
        RdpErrorKind::InvalidSize => "InvalidSize",
        RdpErrorKind::PossibleMITM => "PossibleMITM",
        RdpErrorKind::RejectedByServer => "RejectedByServer",
        RdpErrorKind::Disconnect => "Disconnect",
        RdpErrorKind::Unknown => "Unknown",
        RdpErrorKind::UnexpectedType => "UnexpectedType",
    }
}

pub fn err_name(e: &Error) -> String {
    match e {
        Error::RdpError(e) => kind_name(e.kind()).to_string(),
        Error::Io(_) => "Io".to_string(),
        Error::SslHandshakeError => "Ssl".to_string(),
        Error::SslError(_) => "Ssl".to_string(),
        Error::ASN1Error(_) => "Asn1".to_string(),
        Error::TryError(_) => "TryError".to_string(),
    }
}

/// Run f, turning an unwinding panic into None.
pub fn guarded<T, F: FnOnce() -> T>(f: F) -> Option<T> {
    catch_unwind(AssertUnwindSafe(f)).ok()
}

pub fn silence_panics() {
    std::panic::set_hook(Box::new(|_| {}));
}
