// C16 (and the crypto base of C15/C01/C17): the REAL NTLMv2SecurityInterface of
// src/nla/ntlm.rs, driven over scripted sessions, plus the private primitives through the
// cfg(rdp_rs_verif) hooks of ntlm.rs (`verif::*`).
//
//   md4|md5 <data>                      hmac <key> <data>          rc4k <key> <data>
//   signkey|sealkey <K> <c|s>           mac <rc4key> <signkey> <seq> <data>
//   sess <K> <step>...                  Ntlm::build_security_interface() under exported session key K
//   raw <ek> <dk> <sk> <vk> <seq0> <step>...   NTLMv2SecurityInterface::new(Rc4::new(ek), Rc4::new(dk), sk, vk), seq_num := seq0
//        step = w:<bytes> (gss_wrapex) | u:<bytes> (gss_unwrapex); state carried from step to step
//   tamper <K> <idx> <lo> <hi> <token>...   for every bit b in lo..hi of token[idx]: fresh context,
//        unwrap token[0..idx) then token[idx] with bit b flipped; prints the outcome histogram
use crate::framing::parse_bytes;
use crate::util::*;
use rdp::nla::ntlm::{verif, Ntlm, NTLMv2SecurityInterface};
use rdp::nla::rc4::Rc4;
use rdp::nla::sspi::{AuthenticationProtocol, GenericSecurityService};

fn okhex(r: Option<Vec<u8>>) -> String {
    match r { Some(v) => format!("ok {}", hex(&v)), None => "panic".to_string() }
}

pub fn op_prim(op: &str, a: &[&str]) -> String {
    let b: Vec<Vec<u8>> = a.iter().map(|t| if t.len() == 1 && (*t == "c" || *t == "s") { vec![] } else { parse_bytes(t) }).collect();
    match (op, a.len()) {
        ("md4", 1) => okhex(guarded(|| verif::md4(&b[0]))),
        ("md5", 1) => okhex(guarded(|| verif::md5(&b[0]))),
        ("hmac", 2) => okhex(guarded(|| verif::hmac_md5(&b[0], &b[1]))),
        ("rc4k", 2) => okhex(guarded(|| verif::rc4k(&b[0], &b[1]))),
        ("signkey", 2) => okhex(guarded(|| verif::sign_key(&b[0], a[1] == "c"))),
        ("sealkey", 2) => okhex(guarded(|| verif::seal_key(&b[0], a[1] == "c"))),
        ("mac", 4) => {
            let seq: u32 = a[2].parse().unwrap();
            okhex(guarded(|| { let mut h = Rc4::new(&b[0]); verif::mac(&mut h, &b[1], seq, &b[3]) }))
        }
        _ => "bad-args".to_string(),
    }
}

fn build(k: &[u8]) -> Option<Box<dyn GenericSecurityService>> {
    guarded(|| {
        let mut n = Ntlm::new("".to_string(), "".to_string(), "".to_string());
        n.verif_set_exported_session_key(k);
        n.build_security_interface()
    })
}

fn unwrap_str(r: Option<Result<Vec<u8>, rdp::model::error::Error>>) -> String {
    match r {
        None => "panic".to_string(),
        Some(Ok(v)) => format!("ok:{}", hex(&v)),
        Some(Err(e)) => format!("err:{}", err_name(&e)),
    }
}

fn run_steps(ctx: &mut dyn GenericSecurityService, steps: &[&str]) -> String {
    let mut out: Vec<String> = vec![];
    for s in steps {
        let (kind, arg) = s.split_at(2);
        let data = parse_bytes(arg);
        match kind {
            "w:" => match guarded(|| ctx.gss_wrapex(&data)) {
                None => { out.push("panic".to_string()); break; }
                Some(Ok(v)) => out.push(format!("w={}", hex(&v))),
                Some(Err(e)) => out.push(format!("w=err:{}", err_name(&e))),
            },
            "u:" => {
                let r = unwrap_str(guarded(|| ctx.gss_unwrapex(&data)));
                let stop = r == "panic";
                out.push(if stop { r } else { format!("u={}", r) });
                if stop { break; }
            }
            _ => return "bad-step".to_string(),
        }
    }
    if out.is_empty() { "none".to_string() } else { out.join(" ") }
}

pub fn op_sess(a: &[&str]) -> String {
    let k = parse_bytes(a[0]);
    match build(&k) {
        None => "panic".to_string(),
        Some(mut ctx) => run_steps(ctx.as_mut(), &a[1..]),
    }
}

pub fn op_raw(a: &[&str]) -> String {
    let (ek, dk, sk, vk) = (parse_bytes(a[0]), parse_bytes(a[1]), parse_bytes(a[2]), parse_bytes(a[3]));
    let seq0: u32 = a[4].parse().unwrap();
    let ctx = guarded(|| {
        let mut c = NTLMv2SecurityInterface::new(Rc4::new(&ek), Rc4::new(&dk), sk.clone(), vk.clone());
        c.verif_set_seq_num(seq0);
        c
    });
    match ctx {
        None => "panic".to_string(),
        Some(mut c) => run_steps(&mut c, &a[5..]),
    }
}

pub fn op_tamper(a: &[&str]) -> String {
    let k = parse_bytes(a[0]);
    let idx: usize = a[1].parse().unwrap();
    let lo: usize = a[2].parse().unwrap();
    let hi: usize = a[3].parse().unwrap();
    let toks: Vec<Vec<u8>> = a[4..].iter().map(|t| parse_bytes(t)).collect();
    let names = ["ok", "Io", "InvalidConst", "InvalidChecksum", "other", "panic"];
    let mut hist = [0usize; 6];
    let mut accepted: Vec<String> = vec![];
    let mut pre_ok = true;
    for bit in lo..hi {
        let mut ctx = match build(&k) { Some(c) => c, None => return "panic".to_string() };
        for t in &toks[..idx] {
            match guarded(|| ctx.gss_unwrapex(t)) { Some(Ok(_)) => (), _ => pre_ok = false }
        }
        let mut t = toks[idx].clone();
        if bit / 8 >= t.len() { return "bad-bit".to_string(); }
        t[bit / 8] ^= 1u8 << (bit % 8);
        let r = unwrap_str(guarded(|| ctx.gss_unwrapex(&t)));
        let slot = if r.starts_with("ok:") { accepted.push(bit.to_string()); 0 }
                   else if r == "err:Io" { 1 } else if r == "err:InvalidConst" { 2 }
                   else if r == "err:InvalidChecksum" { 3 } else if r == "panic" { 5 } else { 4 };
        hist[slot] += 1;
    }
    let h: Vec<String> = names.iter().zip(hist.iter()).map(|(n, c)| format!("{}={}", n, c)).collect();
    format!("pre={} n={} {} accepted={}", if pre_ok { "ok" } else { "fail" }, hi.saturating_sub(lo), h.join(" "),
            if accepted.is_empty() { "-".to_string() } else { accepted.join(",") })
}
