#!/usr/bin/env python3
"""Self-test of the static tie (translator/rs2v.py + coq/Gen/Tie): throw-away edits in $VERIF_REPO, each followed by
`./check <Cnn> --static-only`; every edit is reverted (git checkout) afterwards.  Nothing is committed.

    VERIF_REPO=/tmp/wk/tr/repo tools/tie_selftest.py [--full]     (--full: also one complete ./check C12 run)"""
import os, re, subprocess, sys, json

ROOT = os.path.dirname(os.path.dirname(os.path.abspath(__file__)))
REPO = os.environ.get("VERIF_REPO", "/repo")


def sub(path, old, new, count=1):
    p = os.path.join(REPO, path)
    s = open(p).read()
    if old not in s:
        raise SystemExit("self-test edit does not apply: %r not in %s" % (old, path))
    open(p, "w").write(s.replace(old, new, count))


def check(pid, *extra):
    r = subprocess.run([os.path.join(ROOT, "check"), pid] + list(extra), cwd=ROOT, stdout=subprocess.PIPE, stderr=subprocess.PIPE)
    return r.returncode, r.stdout.decode().strip(), r.stderr.decode()


def revert():
    subprocess.run(["git", "-C", REPO, "checkout", "--", "src"], check=True)


EDITS = [
    ("closure constant: share_control_header `saturating_sub(6)` -> `saturating_sub(8)` (today's form of `- 6` -> `- 8`)",
     lambda: sub("src/core/global.rs", "(total.inner() as usize).saturating_sub(6)", "(total.inner() as usize).saturating_sub(8)"),
     "C12", True),
    ("closure operator: share_control_header `.saturating_sub(6)` -> plain `- 6`",
     lambda: sub("src/core/global.rs", "(total.inner() as usize).saturating_sub(6)", "(total.inner() as usize) - 6"),
     "C06", True),
    ("endianness: share_control_header pduType `U16::LE` -> `U16::BE`",
     lambda: sub("src/core/global.rs", '"pduType" => U16::LE(pdu_type', '"pduType" => U16::BE(pdu_type'),
     "C12", True),
    ("field order: ts_control_pdu grantId <-> controlId",
     lambda: sub("src/core/global.rs", '"grantId" => U16::LE(0),\n            "controlId" => U32::LE(0)',
                 '"controlId" => U32::LE(0),\n            "grantId" => U16::LE(0)'),
     "C12", True),
    ("Check constant: ts_confirm_active_pdu originatorId 0x03EA -> 0x03EB",
     lambda: sub("src/core/global.rs", "Check::new(U16::LE(0x03EA))", "Check::new(U16::LE(0x03EB))"),
     "C04", True),
    ("width: ts_fp_update size `U16::LE(0)` -> `U32::LE(0)`",
     lambda: sub("src/core/global.rs", '"size" => DynOption::new(U16::LE(0), | size |', '"size" => DynOption::new(U32::LE(0), | size |'),
     "C10", True),
    ("new enum variant: PDUType2 gains `Pdutype2New = 0x40` (Unknown moves to 0x41)",
     lambda: sub("src/core/global.rs", "    Pdutype2MonitorLayoutPdu = 0x37,\n    Unknown", "    Pdutype2MonitorLayoutPdu = 0x37,\n    Pdutype2New = 0x40,\n    Unknown"),
     "C06", True),
    ("enum discriminant: NegotiationType::TypeRDPNegFailure 0x03 -> 0x04",
     lambda: sub("src/core/x224.rs", "TypeRDPNegFailure = 0x03", "TypeRDPNegFailure = 0x04"),
     "C02", True),
    ("From table: gcc::Version::from arms swapped again (defect #20)",
     lambda: (sub("src/core/gcc.rs", "0x00080001 => Version::RdpVersion,", "0x00080001 => Version::RdpVersion5plus,"),
              sub("src/core/gcc.rs", "0x00080004 => Version::RdpVersion5plus,", "0x00080004 => Version::RdpVersion,")),
     "C18", True),
    ("value expression: share_control_header totalLength `+ 6` -> `+ 8` (pin)",
     lambda: sub("src/core/global.rs", "U16::LE(default_message.length() as u16 + 6)", "U16::LE(default_message.length() as u16 + 8)"),
     "C12", True),
    ("syntax outside the translator's subset: closure with wrapping_sub (fails closed)",
     lambda: sub("src/core/global.rs", "(total.inner() as usize).saturating_sub(6)", "(total.inner() as usize).wrapping_sub(6)"),
     "C12", True),
    ("a new layout function nobody mapped (fails closed)",
     lambda: sub("src/core/sec.rs", "/// Details of the security header", 'fn brand_new() -> Component {\n    component!["x" => U16::LE(0)]\n}\n\n/// Details of the security header'),
     "C05", True),
    ("pure reformatting + comments: share_control_header re-flowed, comments added (must NOT be noticed)",
     lambda: sub("src/core/global.rs",
                 '        "totalLength" => DynOption::new(U16::LE(default_message.length() as u16 + 6), |total| MessageOption::Size("pduMessage".to_string(), (total.inner() as usize).saturating_sub(6))),\n        "pduType" =>',
                 '        // the length counts the header\n        "totalLength"   =>   DynOption::new(\n            U16::LE( default_message.length()   as u16 + 6 ),   /* value */\n            | total |   MessageOption::Size( "pduMessage".to_string() ,\n                ( total.inner() as usize ).saturating_sub( 6 ) )\n        ),\n\n        "pduType" =>'),
     "C12", False),
    ("an edit elsewhere in a translated file (control code of global.rs, not a declaration; must NOT be noticed statically)",
     lambda: sub("src/core/global.rs", "let mut header = share_control_header(None, None, None);\n        header.read(stream)?;\n        PDU::from_control(&header)",
                 "let mut header = share_control_header(None, None, None);\n        header.read(stream)?;\n        let r = PDU::from_control(&header);\n        r"),
     "C12", False),
]


def main():
    full = "--full" in sys.argv
    revert()
    rc, out, _ = check("C12", "--static-only")
    print("baseline: rc=%d %s" % (rc, out))
    rows = []
    for name, edit, pid, expect in EDITS:
        try:
            edit()
            rc, out, err = check(pid, "--static-only")
            rc2, out2, _ = check("C08", "--static-only")       # a property with no dependence on any layout
        finally:
            revert()
        noticed = rc != 0
        verdict = "as expected" if noticed == expect else "UNEXPECTED"
        print("\n== %s\n   ./check %s --static-only -> rc=%d  %s   [%s]" % (name, pid, rc, "NOTICED" if noticed else "not noticed", verdict))
        print("   " + out[:700])
        m = re.search(r'"detail": "(.*?)"\n', err, re.S)
        for key in ("first difference", "Unable to unify", "Error"):
            k = err.find(key)
            if k >= 0:
                print("   ... " + err[k:k + 500].replace("\\n", "\n       "))
                break
        print("   (unrelated property C08: rc=%d)" % rc2)
        rows.append((name, pid, noticed, expect))
    if full:
        EDITS[0][1]()
        try:
            rc, out, err = check("C12", "--tier", "quick")
        finally:
            revert()
        print("\n== full ./check C12 --tier quick with edit 1 applied: rc=%d\n%s" % (rc, out))
        m = re.search(r"replay=(\S+)", out)
        if m and os.path.exists(m.group(1)):
            print(open(m.group(1)).read()[:3000])
    rc, out, _ = check("C12", "--static-only")
    print("\nafter reverting everything: rc=%d %s" % (rc, out))
    bad = [r for r in rows if r[2] != r[3]]
    print("\nSUMMARY: %d edits, %d behaved as expected" % (len(rows), len(rows) - len(bad)))
    sys.exit(1 if bad else 0)


if __name__ == "__main__":
    main()
