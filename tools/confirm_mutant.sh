#!/bin/sh
# usage: tools/confirm_mutant.sh <seeded dir>...   -- independent confirmation in a scratch worktree:
#   patch applies, 39 lib tests pass with it, demo (tests/demo.rs) FAILS with it and PASSES without it.
WT=/tmp/confirm_wt; TD=/tmp/confirm_target
export CARGO_NET_OFFLINE=true CARGO_TARGET_DIR=$TD
ORIG=$(pwd)
for d in "$@"; do
  cd "$ORIG"; d=$(realpath "$d")
  git -C /repo worktree remove --force $WT 2>/dev/null
  git -C /repo worktree add -q --detach $WT HEAD || exit 2
  cd $WT
  flags=""
  grep -q rdp_rs_verif "$d/demo_howto.txt" "$d/demo.rs" 2>/dev/null && flags="--cfg rdp_rs_verif"
  mkdir -p tests; cp "$d/demo.rs" tests/demo.rs
  r_without=$(RUSTFLAGS="$flags" cargo test --offline --test demo 2>&1 | grep -E "^test result" | head -1)
  git apply "$d/patch.diff" || { echo "$d: PATCH DOES NOT APPLY"; continue; }
  r_lib=$(cargo test --lib --offline 2>&1 | grep -E "^test result" | head -1)
  r_with=$(RUSTFLAGS="$flags" cargo test --offline --test demo 2>&1 | grep -E "^test result|error\[" | head -1)
  echo "$(basename $d): lib-with-patch: $r_lib | demo-without: $r_without | demo-with: $r_with"
  cd /; git -C /repo worktree remove --force $WT
done
rm -rf $TD
