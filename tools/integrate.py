#!/usr/bin/env python3
"""usage: tools/integrate.py <name> [upto-commit]  -- merge a builder workspace /tmp/wk/<name> into /verif and /repo:
   new files are copied, append-only shared files are merged line-wise, main.rs is patched, DESIGN.md diffs are
   saved for manual merging, repo commits of branch wk-<name> are cherry-picked (fix:/verif hook: only)."""
import sys, os, subprocess, shutil
name = sys.argv[1]; W = "/tmp/wk/" + name; V = W + "/verif"
def sh(cmd, **kw): return subprocess.run(cmd, shell=True, stdout=subprocess.PIPE, stderr=subprocess.STDOUT, **kw).stdout.decode()
st = sh("git -C %s status --short --untracked-files=all" % V).split("\n")
for l in st:
    if not l.strip(): continue
    code, path = l[:2], l[3:].strip()
    if path.startswith("evidence/") or path in ("harness-gui/Cargo.toml", "harness-gui/src/mstsc_mod.rs") and code != "??" or path.endswith("Cargo.toml") and "harness/" in path and code != "??": continue
    src, dst = os.path.join(V, path), os.path.join("/verif", path)
    if code == "??":
        os.makedirs(os.path.dirname(dst), exist_ok=True)
        if path.endswith("Cargo.toml"):
            txt = open(src).read().replace(W + "/repo", "/repo"); open(dst, "w").write(txt)
        else: shutil.copy2(src, dst)
        print("new ", path)
    elif path in ("coq/_CoqProject", "KNOWN_FINDINGS.jsonl", ".gitignore"):
        have = set(x.rstrip("\n") for x in open(dst)) if os.path.exists(dst) else set()
        with open(dst, "a") as f:
            for x in open(src):
                if x.rstrip("\n") not in have and x.strip(): f.write(x if x.endswith("\n") else x + "\n"); print("append %s: %s" % (path, x.strip()[:100]))
    elif path == "DESIGN.md":
        os.makedirs("/verif/.work", exist_ok=True)
        open("/verif/.work/design_%s.diff" % name, "w").write(sh("git -C %s diff DESIGN.md" % V)); print("saved DESIGN diff")
    elif path == "harness/src/main.rs":
        # additive merge: new `mod x;` lines and new dispatch arms only
        d = sh("git -C %s diff -- %s" % (V, path)).split("\n")
        cur = open(dst).read().split("\n")
        have = set(x.strip() for x in cur)
        for x in d:
            if not x.startswith("+") or x.startswith("+++"): continue
            k = x[1:].strip()
            if not k or k in have: continue
            if k.startswith("mod ") and k.endswith(";"):
                i = max(i for i, y in enumerate(cur) if y.strip().startswith("mod ")); cur.insert(i + 1, k); have.add(k); print("main.rs +", k)
            elif k.startswith('"') and "=>" in k:
                i = [i for i, y in enumerate(cur) if y.strip().startswith("_ =>")][0]; cur.insert(i, "        " + k); have.add(k); print("main.rs +", k)
            else: print("main.rs: UNMERGED line:", k)
        open(dst, "w").write("\n".join(cur))
    else:
        d = sh("git -C %s diff -- %s" % (V, path))
        p = subprocess.run("patch -p1 --no-backup-if-mismatch -F3", shell=True, input=d.encode(), cwd="/verif", stdout=subprocess.PIPE, stderr=subprocess.STDOUT)
        print("patch %s: rc=%d %s" % (path, p.returncode, p.stdout.decode().strip().replace("\n", " | ")[:300]))
# repo commits
remap = []
upto = sys.argv[2] if len(sys.argv) > 2 else "wk-" + name
log = sh("git -C /repo log --reverse --format='%%H %%s' main..%s" % upto).strip().split("\n")
for l in log:
    if not l.strip(): continue
    h, subj = l.split(" ", 1)
    # skip if a commit with the same subject is already on main
    if subj in sh("git -C /repo log --format=%s main"): print("have ", subj[:80]); continue
    if not (subj.startswith("fix:") or subj.startswith("verif hook:")): print("SKIP (bad subject)", subj); continue
    r = subprocess.run(["git", "-C", "/repo", "cherry-pick", h], stdout=subprocess.PIPE, stderr=subprocess.STDOUT)
    print("pick %s rc=%d %s" % (subj[:80], r.returncode, "" if r.returncode == 0 else r.stdout.decode()[-400:]))
    if r.returncode != 0: sys.exit(1)
    new = sh("git -C /repo log --format=%H -1 main").strip()
    remap.append((h[:7], new[:7]))
for old, new in remap:
    out = sh("grep -rl %s /verif/KNOWN_FINDINGS.jsonl /verif/corpus /verif/gen /verif/coq --include=*.v --include=*.py --include=*.txt --include=*.jsonl /verif/.work/design_%s.diff 2>/dev/null" % (old, name)).split()
    for f in out:
        t = open(f).read().replace(old, new); open(f, "w").write(t); print("rehash %s -> %s in %s" % (old, new, f))
