#!/usr/bin/env python3
"""usage: tools/mkmutprompt.py Cnn [N]  -> prints the prompt for a mutant-producing sub-agent (nothing from /verif leaks
except the property text)"""
import sys, json
pid = sys.argv[1]; n = sys.argv[2] if len(sys.argv) > 2 else "3"
p = [json.loads(l) for l in open("/verif/properties.jsonl") if json.loads(l)["id"] == pid][0]
t = open("/verif/tools/mutant_prompt.txt").read()
t = (t.replace("__WT__", "/tmp/mut/%s_wt" % pid).replace("__ID__", pid).replace("__TITLE__", p["title"])
      .replace("__STATEMENT__", p["statement"]).replace("__QUANT__", p["quantifier"]["text"])
      .replace("__FILES__", ", ".join(p["anchors"]["files"])).replace("__N__", n).replace("__OUT__", "/tmp/mut/%s_out" % pid))
print(t)
