#!/bin/sh
# usage: tools/mkwork.sh <name>   -- private workspace for a builder agent: /tmp/wk/<name>/{verif,repo}
n="$1"; W=/tmp/wk/$n
mkdir -p /tmp/wk
[ -d "$W" ] && { echo "$W exists"; exit 1; }
mkdir -p $W
cp -a /verif $W/verif
git -C /repo worktree add -q -b wk-$n $W/repo HEAD || exit 2
sed -i "s#path = \"/repo\"#path = \"$W/repo\"#" $W/verif/harness/Cargo.toml
cp /repo/Cargo.lock $W/repo/Cargo.lock 2>/dev/null
rm -f $W/verif/harness/Cargo.lock
echo "$W ready"
