#!/usr/bin/env python3
"""KNOWN_FINDINGS.jsonl: drop duplicate entries (same property+witness+id), keeping the one whose commit is on /repo main"""
import json, subprocess
def sh(c): return subprocess.run(c, shell=True, stdout=subprocess.PIPE).stdout.decode()
main_hashes = set(h[:7] for h in sh("git -C /repo log --format=%h main").split())
lines = [l for l in open('/verif/KNOWN_FINDINGS.jsonl') if l.strip()]
seen = {}; out = []
for l in lines:
    o = json.loads(l); key = (o.get('property'), o.get('witness'), o.get('id')); c = o.get('commit', '')
    ok = (not c) or c[:7] in main_hashes
    if key in seen:
        if ok and not seen[key][1]: out[seen[key][0]] = l; seen[key] = (seen[key][0], True)
        continue
    seen[key] = (len(out), ok); out.append(l)
open('/verif/KNOWN_FINDINGS.jsonl', 'w').write("".join(out))
bad = [json.loads(l) for l in out if json.loads(l).get('commit') and json.loads(l)['commit'][:7] not in main_hashes]
print("%d entries; commits not on main: %s" % (len(out), [(b['property'], b['commit']) for b in bad]))
