#!/bin/sh
# usage: tools/confirm_mutant_crate.sh <seeded dir>...  -- like confirm_mutant.sh for demos that need a helper crate
#   (demo_crate_Cargo.toml next to demo.rs; the binary source is pulled in as a module)
WT=/tmp/confirm_wt; TD=/tmp/confirm_target
export CARGO_NET_OFFLINE=true CARGO_TARGET_DIR=$TD RUSTFLAGS="--cfg rdp_rs_verif"
ORIG=$(pwd)
for d in "$@"; do
  cd "$ORIG"; d=$(realpath "$d")
  git -C /repo worktree remove --force $WT 2>/dev/null
  git -C /repo worktree add -q --detach $WT HEAD || exit 2
  mkdir -p $WT/demo_crate/src $WT/demo_crate/tests
  cp "$d/demo_crate_Cargo.toml" $WT/demo_crate/Cargo.toml; cp /repo/Cargo.lock $WT/demo_crate/Cargo.lock
  : > $WT/demo_crate/src/lib.rs; cp "$d/demo.rs" $WT/demo_crate/tests/demo.rs
  r_without=$(cd $WT/demo_crate && cargo test --offline --test demo 2>&1 | grep -E "^test result" | head -1)
  cd $WT; git apply "$d/patch.diff" || { echo "$d: PATCH DOES NOT APPLY"; continue; }
  r_lib=$(RUSTFLAGS="" cargo test --lib --offline 2>&1 | grep -E "^test result" | head -1)
  r_bin=$(RUSTFLAGS="" cargo build --offline --features mstsc-rs --bin mstsc-rs 2>&1 | grep -cE "^error")
  r_with=$(cd $WT/demo_crate && cargo test --offline --test demo 2>&1 | grep -E "^test result|error\[" | head -1)
  echo "$(basename $d): lib-with-patch: $r_lib | bin-build-errors: $r_bin | demo-without: $r_without | demo-with: $r_with"
  cd /; git -C /repo worktree remove --force $WT
done
rm -rf $TD
