#!/bin/bash
# Self-test of the control ties THROUGH ./check: applies each seeded change / harmless refactoring to $VERIF_REPO
# (must be a throw-away worktree: `git checkout -- .` restores it), runs `./check <P> --static-only`, restores.
#   tools/ctl_selftest_check.sh            (VERIF_REPO must be set to the worktree)
set -u
cd "$(dirname "$0")/.."
R=${VERIF_REPO:?set VERIF_REPO to a throw-away worktree}
run() { # name patch properties...
  local name=$1 patch=$2; shift 2
  git -C "$R" apply "$PWD/$patch" || { echo "$name: patch does not apply"; return; }
  for p in "$@"; do
    out=$(./check $p --static-only 2>/dev/null | tail -1)
    echo "$name $p: ${out:0:420}"
  done
  git -C "$R" checkout -- . ; git -C "$R" clean -fdq src 2>/dev/null
}
run C12-3 seeded/C12-3/patch.diff C12
run C12-5 seeded/C12-5/patch.diff C12
run C12-6 seeded/C12-6/patch.diff C12 C11
run C13-5 seeded/C13-5/patch.diff C13
run C13-6 seeded/C13-6/patch.diff C13
run C10-6 seeded/C10-6/patch.diff C10 C13
run C05-1 seeded/C05-1/patch.diff C05 C13
run C02-6 seeded/C02-6/patch.diff C02
for h in 1 2 3 4 5 6 7 8; do
  run H$h harmless/$h/patch.diff C02 C03 C05 C06 C10 C11 C12 C13
done
python3 translator/rs2v.py --repo "$R" >/dev/null   # regenerate coq/Gen from the clean tree
echo restored
