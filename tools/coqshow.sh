#!/bin/sh
# usage: tools/coqshow.sh <file.v (relative to coq/)> <line>  -- show the goals after that line (scratch copy under /tmp)
cd ${VERIF_COQ:-/verif/coq}
head -n "$2" "$1" > /tmp/_show.v
echo "Show. Abort." >> /tmp/_show.v
coqc -Q . RdpV /tmp/_show.v 2>&1 | head -${3:-60}
rm -f /tmp/_show.vo /tmp/_show.glob /tmp/._show.aux /tmp/_show.vok /tmp/_show.vos
