#!/bin/sh
# usage: tools/confirm_mutant_feat.sh <seeded dir>...  -- like confirm_mutant.sh for demos that are integration tests needing
#   --features mstsc-rs and --cfg rdp_rs_verif (the GUI binary pulled in as a module)
WT=/tmp/confirm_wt; TD=/tmp/confirm_target
export CARGO_NET_OFFLINE=true
ORIG=$(pwd)
for d in "$@"; do
  cd "$ORIG"; d=$(realpath "$d")
  git -C /repo worktree remove --force $WT 2>/dev/null
  git -C /repo worktree add -q --detach $WT HEAD || exit 2
  cd $WT; mkdir -p tests; cp "$d/demo.rs" tests/demo.rs
  r_without=$(CARGO_TARGET_DIR=${TD}_v RUSTFLAGS="--cfg rdp_rs_verif" cargo test --offline --features mstsc-rs --test demo 2>&1 | grep -E "^test result" | head -1)
  git apply "$d/patch.diff" || { echo "$d: PATCH DOES NOT APPLY"; continue; }
  r_lib=$(CARGO_TARGET_DIR=$TD cargo test --lib --offline 2>&1 | grep -E "^test result" | head -1)
  r_bin=$(CARGO_TARGET_DIR=$TD cargo build --offline --features mstsc-rs --bin mstsc-rs 2>&1 | grep -cE "^error")
  r_with=$(CARGO_TARGET_DIR=${TD}_v RUSTFLAGS="--cfg rdp_rs_verif" cargo test --offline --features mstsc-rs --test demo 2>&1 | grep -E "^test result|error\[" | head -1)
  echo "$(basename $d): lib-with-patch: $r_lib | bin-build-errors: $r_bin | demo-without: $r_without | demo-with: $r_with"
  cd /; git -C /repo worktree remove --force $WT
done
rm -rf $TD ${TD}_v
