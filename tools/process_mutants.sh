#!/bin/sh
# usage: tools/process_mutants.sh Cnn [more check ids]  -- stage /tmp/mut/Cnn_out/* as seeded/Cnn-k, confirm in a scratch worktree,
#        run the quick checks against each, record the outcome in meta.json
p="$1"; shift; checks="$p $*"
cd /verif
for k in 1 2 3 4 5; do
  [ -d /tmp/mut/${p}_out/$k ] || continue
  mkdir -p seeded/$p-$k; cp -r /tmp/mut/${p}_out/$k/* seeded/$p-$k/
done
list=$(ls -d seeded/$p-* 2>/dev/null)
flags=""
tools/confirm_mutant.sh $list 2>&1 | grep "^$p" | tee /tmp/mut/${p}_confirm.log
for d in $list; do
  id=$(basename $d)
  res=$(tools/try_mutant.sh /verif/$d/patch.diff $checks | grep -E "^(VIOLATION|OK)" | cut -c1-120 | tr '\n' ';')
  echo "$id => $res"
  caught=$(echo "$res" | grep -c VIOLATION)
  if echo "$res" | grep -q "VIOLATION property=$p replay=[^ ]*;" ; then txt="VIOLATION reported with a concrete failing input";
  elif echo "$res" | grep -q "VIOLATION property=$p .*no-failing-input-found"; then txt="VIOLATION reported (tie broken, no-failing-input-found)";
  elif [ "$caught" -gt 0 ]; then txt="not caught by $p; caught by: $res";
  else txt="MISSED: $res"; fi
  tools/record_caught.py $id $p "$txt" /tmp/mut/${p}_confirm.log
done
tools/seeded_table.py
