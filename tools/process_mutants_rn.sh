#!/bin/sh
# usage: tools/process_mutants_rn.sh <round> Cnn [more check ids] -- round r: /tmp/mut/Cnn_r<r>out/k -> seeded/Cnn-(k+3*(r-1))
r="$1"; shift; p="$1"; shift; checks="$p $*"
cd /verif
list=""
for k in 1 2 3; do
  [ -d /tmp/mut/${p}_r${r}out/$k ] || continue
  n=$((k+3*(r-1))); mkdir -p seeded/$p-$n; cp -r /tmp/mut/${p}_r${r}out/$k/* seeded/$p-$n/; list="$list seeded/$p-$n"
done
tools/confirm_mutant.sh $list 2>&1 | grep "^$p" | tee /tmp/mut/${p}_r${r}confirm.log
for d in $list; do
  id=$(basename $d)
  res=$(tools/try_mutant.sh /verif/$d/patch.diff $checks | grep -E "^(VIOLATION|OK)" | cut -c1-120 | tr '\n' ';')
  echo "$id => $res"
  caught=$(echo "$res" | grep -c VIOLATION)
  if echo "$res" | grep -q "VIOLATION property=$p replay=[^ ]*;" ; then txt="VIOLATION reported with a concrete failing input";
  elif echo "$res" | grep -q "VIOLATION property=$p .*no-failing-input-found"; then txt="VIOLATION reported (tie broken, no-failing-input-found)";
  elif [ "$caught" -gt 0 ]; then txt="not caught by $p; caught by: $res";
  else txt="MISSED: $res"; fi
  tools/record_caught.py $id $p "$txt" /tmp/mut/${p}_r${r}confirm.log
done
tools/seeded_table.py
