#!/usr/bin/env python3
"""Regenerates the table of seeded changes in DESIGN.md (between the SEEDED-TABLE markers) from seeded/*/meta.json."""
import json, os, re
ROOT = os.path.dirname(os.path.dirname(os.path.abspath(__file__)))
rows = []
for d in sorted(os.listdir(os.path.join(ROOT, "seeded"))):
    mp = os.path.join(ROOT, "seeded", d, "meta.json")
    if not os.path.exists(mp): continue
    m = json.load(open(mp))
    c = m.get("confirmed_by_me", {})
    summ = re.sub(r"\s+", " ", m.get("summary", ""))[:230].replace("|", "/")
    needs = re.sub(r"\s+", " ", m.get("needs_to_manifest", ""))[:160].replace("|", "/")
    caught = c.get("caught_by", c.get("check", "")) + ": " + c.get("result", "")
    rows.append("| %s | %s | %s | %s |" % (d, summ, needs, caught.replace("|", "/")))
tab = "| id | change | needs to manifest | caught by |\n|---|---|---|---|\n" + "\n".join(rows)
p = os.path.join(ROOT, "DESIGN.md")
s = open(p).read()
a, b = "<!-- SEEDED-TABLE-BEGIN -->", "<!-- SEEDED-TABLE-END -->"
if a not in s:
    s += "\n\n## 11. Seeded changes and the checks that catch them\n\nEach row is a change produced by an independent sub-agent that saw only the property text (never /verif), confirmed in a scratch worktree (compiles, 39 tests pass, its own demonstration fails with it and passes without), then applied to /repo and run against the quick tier of the named check. Patches and demonstrations: `seeded/<id>/`.\n\n" + a + "\n" + b + "\n"
i, j = s.index(a) + len(a), s.index(b)
s = s[:i] + "\n" + tab + "\n" + s[j:]
open(p, "w").write(s)
print("%d rows" % len(rows))
