#!/bin/sh
# usage (inside a vp run snapshot): tools/soak.sh <rounds>  -- setup, then every registered quick check <rounds> times; prints one line per run
export VERIF_REPO=${VP_RUN_REPO:-/repo}
./setup.sh >/dev/null 2>&1
ids=$(python3 -c "import json;print(' '.join(c['property_id'] for c in json.load(open('MANIFEST.json'))['checks']))")
r=0
while [ $r -lt ${1:-2} ]; do
  for p in $ids; do
    out=$(VERIF_SEED=$((r+1)) ./check $p --tier quick 2>/dev/null | grep -E "^(OK|VIOLATION)" | cut -c1-140)
    echo "round=$r $out"
  done
  r=$((r+1))
done
