#!/bin/sh
# usage: tools/refresh_evidence.sh [tier]  -- re-run every claimed check on the UNCHANGED /repo so that the committed evidence
# files come from clean runs (never commit evidence written while a seeded change was applied to /repo)
cd /verif
git -C /repo status --short | grep -q . && { echo "repo dirty"; exit 2; }
t=${1:-quick}
for p in $(python3 -c "import json; print(' '.join(c['property_id'] for c in json.load(open('MANIFEST.json'))['checks']))"); do
  ./check $p --tier $t 2>/dev/null | grep -E "^(OK|VIOLATION)" | cut -c1-160
done
