#!/usr/bin/env python3
"""usage: tools/design_built.py '<heading prefix, e.g. ### C15 >' <textfile>  -- append a *Built.* paragraph at the end of that DESIGN.md section"""
import sys
p = '/verif/DESIGN.md'; s = open(p).read()
i = s.index(sys.argv[1]); j = s.index('\n### ', i + 10) if '\n### ' in s[i + 10:] else s.index('\n---', i)
k = s.index('\n---', i)
j = min(j, k) if k > i else j
s = s[:j] + "\n" + open(sys.argv[2]).read().rstrip() + "\n" + s[j:]
open(p, 'w').write(s); print("inserted at", j)
