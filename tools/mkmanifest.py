#!/usr/bin/env python3
"""Regenerates /verif/MANIFEST.json from the table below (kept valid at all times)."""
import json, os, subprocess
ROOT = os.path.dirname(os.path.dirname(os.path.abspath(__file__)))

CLAIMED = {
 "C13": dict(
   technique="Coq proof (induction over frames and over the chunked stream) of model = RefFraming spec; model tied to /repo by differential correspondence",
   text="Unbounded Coq theorems: for every list of valid slow/fast frames and every cutting of the byte stream into non-empty reads, successive reads of the model return exactly the payloads/kinds/flags and leave exactly the tail; short declared lengths are rejected with exactly the header consumed. The hand-written model (coq/Link.v, coq/Tpkt.v) is tied to /repo on every run by executing extracted model and real tpkt/x224 clients on the same generated chunked streams (debug and release builds) and by an independent reference-framing oracle on the implementation's outcomes.",
   design_ref="DESIGN.md section 6, C13",
   note="Trusted: Coq kernel (+vm_compute for two byte-level sweeps), extraction (ExtrOcamlBasic), the OCaml driver and Rust harness, std read_exact contract; model is hand-written and validated by correspondence, not generated."),
 "C14": dict(
   technique="Coq proof (induction over the write schedule) of model = RefFraming encoder + write_all contract; model tied to /repo by differential correspondence",
   text="Unbounded Coq theorems: for every message and every schedule of short writes / zero-length acceptances / injected errors, the model either refuses an over-long message with nothing written, or puts exactly the reference frame on the stream and returns Ok, or returns an error having written a strict prefix while the schedule really contained a failing step; every progressing schedule delivers every byte; header length = bytes emitted; written frames deframe (C13) to the message. Model tied to /repo by running extracted model and real tpkt/x224 writers over a scheduled adversarial sink (debug + release) and by an independent Python reference of framing + write_all on the implementation's outcomes.",
   design_ref="DESIGN.md section 6, C14",
   note="Trusted: Coq kernel, extraction (ExtrOcamlBasic), OCaml driver, Rust harness, std write_all contract; the serialisation of the message itself (model/data.rs write) is covered by C18, here the message is an opaque byte block."),
 "C12": dict(
   technique="Coq proof (case analysis of the state machine model + induction over histories) ; model tied to /repo by differential correspondence and an independent reference automaton",
   text="Unbounded Coq theorems over every frame (any bytes) and every history of reads and input attempts: one read either changes nothing and writes nothing or advances along exactly one edge of the activation sequence on the PDU that edge requires, writing exactly one confirm-active + finalization on the demand-active edge only; the state only moves along the sequence; a history ending inside the input window has a last font-map entry with no state change since; outside the window input is refused/dropped silently; writes never move the state; bitmap events only inside the window. The model (message interpreter Msg.v, layouts, Global.v) is tied to /repo on every run by replaying all histories up to length 3 (5 in thorough) over the 11-letter alphabet plus random longer ones, with an input attempt after every step, against the real RdpClient, and judging the implementation with an independent reference automaton and strict PDU decoder.",
   design_ref="DESIGN.md section 6, C12",
   note="Trusted: Coq kernel, extraction, OCaml driver, Rust harness + 3 cfg hooks, hand-written layouts/model validated by correspondence (not generated from source), gen/rdp.py reference encoders."),
 "C11": dict(
   technique="Coq proof (symbolic evaluation of the write path + induction over event sequences) of model output = reference encoding of MS-RDPBCGR input PDUs; model tied to /repo by differential correspondence and a strict python decoder of the frames the implementation emitted",
   text="Unbounded Coq theorems: inside the window EVERY pointer/keyboard event (all x, y, scancodes in any range, every button, both press states, all user/channel/share ids) produces exactly one frame that is byte for byte the reference encoding (RefInput.v, written from MS-RDPBCGR 2.2.8.1.1.3 and T.125) of that event with the identifiers the server assigned, leaving the session unchanged; every sequence of events is transmitted one frame per event in submission order; unsendable event kinds are refused with UnexpectedType and nothing on the wire; arbitrary server traffic (any bytes) between writes changes the identifiers only through a demand-active's share id; the reference event encoding is decodable to exactly the submitted values. Tied to /repo by replaying event sequences interleaved with server PDUs against the real RdpClient (debug + release), diffing against the extracted model and decoding the implementation's frames with an independent strict decoder.",
   design_ref="DESIGN.md section 6, C11",
   note="Trusted: Coq kernel, extraction, OCaml driver, Rust harness + cfg hooks, hand-written layouts/model validated by correspondence (not generated from source), gen/c11.py strict decoder."),
 "C06": dict(
   technique="Coq proof: generic induction over the message interpreter (any layout passing the boolean checker `safe` is read without panic/spin and with bounded allocation from any bytes), provenance lemmas for nested PDUs, case analysis of the session glue in every state, induction over histories; model tied to /repo by differential correspondence under fault injection",
   text="Unbounded Coq theorems, for both build profiles, every client state and session parameters and EVERY byte string: one read of one frame (deframing, X.224, MCS, share control/data dispatch, demand-active with capability sets, finalization PDUs, batched data PDUs, fast-path updates with bitmap rectangles) returns a value or an error, never Panic (= any unwrap/index/slice/map lookup/overflow trap/capacity overflow, each an explicit branch of the model) and never Spin; the same along every history of hostile frames interleaved with input attempts; every buffer any of the 28 session-path templates sizes from the wire is at most 65535 bytes. The per-layout obligations are discharged by computation of the checker, so a changed layout re-decides them. Tied to /repo by ~87000 fault-injected frames per profile in the quick tier (every state x every PDU kind x byte/u16 field faults, truncations, extensions, header faults, short strings, random corruption, long runs of ignored frames), each followed by a valid frame and an input attempt, outcome and largest single allocation compared with the extracted model.",
   design_ref="DESIGN.md section 6, C05-C07",
   note="Trusted: Coq kernel (+vm_compute for per-layout checker obligations and two symbolic write evaluations), extraction, OCaml driver, Rust harness + cfg hooks + counting allocator; layouts hand-written and validated by correspondence; whole frames are delivered (fragmentation is C13); 'out of proportion' = no single allocation above the 16-bit frame bound (model) / 2*65536+4096 (measured, Vec growth doubling)."),
 "C16": dict(
   technique="Coq proof (induction over message lists / interleaved schedules; hash functions universally quantified, RC4 keystream lemmas proved of the concrete cipher model) of model = MS-NLMP SEAL/MAC spec, round trip with a conforming peer, and the exact acceptance condition of unwrap; model tied to /repo by differential correspondence and an independent python MS-NLMP oracle",
   text="Unbounded Coq theorems, for every hash pair with 16-byte digests (instantiated with an executable Gallina MD5/HMAC-MD5 validated on RFC vectors): for every exported session key and every list of messages the tokens of successive gss_wrapex calls are byte-identical to MS-NLMP SEAL/MAC with the derived client keys, cipher state and sequence number threaded; for every interleaved schedule of messages in both directions a conforming peer (own counter, 16-byte signature compare) recovers what the client wraps and gss_unwrapex recovers what the peer seals; the exact acceptance condition of gss_unwrapex; unconditional rejection (error, no panic, no payload) of any change of the Version or Checksum bytes and of inputs shorter than 16 bytes; an altered SeqNum/ciphertext is accepted iff the 8-byte HMAC prefixes of two provably different signed strings collide (rejection under that explicit no-collision premise); the client keeps no receive counter (stated as a theorem). Tied to /repo on every run: sessions of 0..8 messages of lengths {0,1,15,16,17,255,4096,4097} in both directions under random keys, compared byte for byte with the extracted model (debug and release) and with an independent python MS-NLMP implementation; every single-bit flip of sealed tokens (exhaustive up to 271-byte tokens; all 32896 bits of 4112-byte tokens in the thorough tier), every truncation, extensions, replay, reordering, reflection and wrong-key tokens must be rejected with an error.",
   design_ref="DESIGN.md section 6, C16",
   note="Trusted: Coq kernel (+vm_compute for test vectors and concrete examples), extraction (ExtrOcamlBasic), OCaml driver, Rust harness + cfg(rdp_rs_verif) hooks in ntlm.rs, python oracle gen/nlmp.py; crates md-5/md4/hmac modelled by Md5.v/Md4.v/Hmac.v (validated on RFC 1320/1321/2202 vectors and sampled), not verified; rejection of SeqNum/ciphertext alterations is conditional on HMAC-MD5 64-bit prefix collision freedom (a premise of the theorem). One defect fixed: seq_num+1 overflow at message 2^32."),
 "C19": dict(
   technique="Coq proof (closed form of the per-row bounds test under both profiles + loop invariant by induction) of model vs RefBlit spec; model tied to /repo by differential correspondence over the GUI binary's source with canary/poison instrumentation",
   text="Unbounded Coq theorems: for every build profile, window buffer, window width (any usize), destination rectangle (inverted, outside, 65535-sized), image stride and decoded image of any length, the model of fast_bitmap_transfer returns Ok or Err, never panics/spins, and no raw copy leaves the image or the window buffer; for a rectangle inside the window with enough image rows it succeeds and the buffer equals the exact 2-D copy and is unchanged elsewhere; on Err exactly the first k complete rows were copied (InvalidSize), nothing outside the rows' footprint ever changes; inverted rectangles and decoder errors leave the buffer untouched. The model (coq/Blit.v, the code as repaired by two fix commits) is tied to /repo on every run by executing the extracted model and the real function (src/bin/mstsc-rs.rs included as a module in harness-gui, debug and release) on every rectangle with coordinates in -1..9 over windows up to 8x8 with images equal/smaller/larger than the rectangle, absurd widths, 16-bit extremes and random larger windows, with canary regions and poisoned surroundings exposing out-of-bounds writes and reads, and by an independent Python exact-copy oracle.",
   design_ref="DESIGN.md section 6, C19",
   note="Trusted: Coq kernel, extraction (ExtrOcamlBasic), OCaml driver, harness-gui (canaries, padding allocator, 1 cfg hook). Not modelled: transmute_vec's re-typing of the Vec<u8> allocation (layout UB), only its len/4 little-endian view; BitmapEvent::decompress (C08/C09) - cases carry the decoded image. Vec length < 2^62 is a hypothesis."),
 "C05": dict(
   technique="Coq proof (generic safety theorem of the message interpreter + reflective per-layout obligations + case analysis of the glue + Hoare-style invariant over the connect run) of an executable model; model tied to /repo by differential correspondence and an independent no-crash/allocation oracle",
   text="Unbounded Coq theorems: for every build profile, every client configuration (offered protocols, authenticator present or not, restricted admin, either HashMap order of the channel joins) and every chunked stream of server bytes, the model of x224::Client::connect + mcs::Client::connect + sec::connect/license::client_connect (as Connector::connect composes them) returns Ok or Err, never Panic or Spin, and sizes no buffer from the wire above 2*65535 bytes; the same for each parser entry (connection confirm, connect-response/GCC, attach and join confirms, security header + licence) on all byte strings. External code (yasna BER parser, TLS handshake, CredSSP) is universally quantified under the assumption that it returns Ok/Err and hands on bytes. The model is tied to /repo on every run by executing the extracted model and the real layer clients AND the public Connector::connect over an in-memory scripted server on the same cases (valid conversation, then every value of every byte, boundary sets of every 16/32-bit field incl. k-1,k for each subtracted k, truncations, extensions, BER length/tag forms, GCC block sets, all byte strings of length <=2 at every parser entry, random corruption; debug and release), diffed line by line, plus an oracle on the implementation (no panic/abort/spin, largest allocation).",
   design_ref="DESIGN.md section 6, C05-C07",
   note="Trusted: Coq kernel (+vm_compute), extraction, OCaml driver, Rust harness + counting allocator, gen/rdpconn.py; layouts and glue hand-written, validated by correspondence. Modelled not verified: yasna (model from source, coq/BerYasna.v), native-tls, CredSSP, HashMap order. KNOWN FINDING C05-yasna-length-overflow: yasna 0.3.2 itself panics on a BER length >= 2^64-pos (both profiles); the theorems hold for the real client only as far as its BER parser does not unwind; refutation lemma C05_ber_oracle_refuted. Four defects (#5 unwrap part, #7, #8, #9) repaired by fix: commits; model is of the repaired code."),
 "C10": dict(
   technique="Coq proof (symbolic evaluation of the message interpreter on the four fast-path layouts, induction over the updates of a PDU and over the rectangles of an update, induction over histories) of model callbacks = rectangles of an independent reference encoder; model tied to /repo by differential correspondence and an independent python encoder/oracle",
   text="Unbounded Coq theorems, both build profiles: for EVERY list of fast-path updates (any number of bitmap updates with any number of rectangles, every value of the seven 16-bit fields and of flags, with the compression header (flags&1, not 0x400), without it, or NO_HDR, any data incl. empty, any non-bitmap update code 0..15 with any bytes as body) encoded by the reference encoder RefFastPath.v (written from MS-RDPBCGR 2.2.9.1.2) whose fields fit their length fields, the model of RdpClient::read in state Data invokes the callback exactly once per rectangle, in wire order, with exactly the transmitted position, dimensions, depth, compression flag and data bytes, returns Ok, leaves the session unchanged and writes nothing; the same for the whole frame in the short and the long fast-path length form and all security-flag values; for every sequence of PDUs and every interleaving with input attempts the history's callbacks are the concatenation in order; non-bitmap updates (well-formed or not, known or unknown code) are transparent; outside the Data state nothing is delivered. Non-vacuity: a six-update PDU evaluated by the kernel gives the three expected callbacks. Tied to /repo on every run by ~620 (thorough ~8200) generated PDU sequences per profile (0-64 rectangles, 0-64 updates, every guard boundary: flags bits, data lengths 0/1/247/248/255/256 with and without header, update size 255/256, frame lengths 0x7f/0x80/0xff/0x100/0x3fff/0x4000/0x7fff, every non-bitmap code with a bitmap-looking body) replayed against the real RdpClient (debug + release) and the extracted model, callbacks compared with what the generator encoded.",
   design_ref="DESIGN.md section 6, C10",
   note="Trusted: Coq kernel (+vm_compute on closed terms), extraction, OCaml driver, Rust harness + cfg hooks, hand-written layouts/model validated by correspondence (not generated from source); spec encoder RefFastPath.v and oracle encoder gen/rdp.py are two independent transcriptions of the standard tied by golden bytes only. Scope: unfragmented, uncompressed updates (updateHeader bits 4-7 zero) and whole frames (C13). Observation outside the scope: the client tests bit 5 (a fragmentation bit) instead of bit 7 to decide whether compressionFlags is present."),
}

NOT_YET = {}
for i in range(1, 21):
    pid = "C%02d" % i
    if pid not in CLAIMED:
        NOT_YET[pid] = "check not built yet at this commit (construction in progress, see DESIGN.md section 10); not claimed"

def main():
    hooks = subprocess.run(["git", "-C", "/repo", "log", "--format=%H %s"], stdout=subprocess.PIPE).stdout.decode().split("\n")
    hook_commits = [l.split()[0] for l in hooks if "verif hook" in l]
    m = {
      "version": 1,
      "setup_cmd": "./setup.sh",
      "hooks": {
        "guard": "rdp_rs_verif",
        "enable": "RUSTFLAGS=\"--cfg rdp_rs_verif\" cargo build (the harness crate /verif/harness depends on /repo by path)",
        "baseline_off_cmd": "cd /repo && cargo test --lib --offline",
        "source_commits": hook_commits,
        "add_only": True
      },
      "engines": [
        {"name": "coq-proof+correspondence", "path": "/verif/check", "serves_properties": sorted(CLAIMED),
         "kind_free_text": "Coq 8.16 theorems about an executable Gallina model; model tied to /repo by differential execution (extracted OCaml model vs Rust harness over the real crate)"}
      ],
      "checks": [],
      "notes": "Entry point ./check <id> --tier quick|thorough. Known findings: KNOWN_FINDINGS.jsonl. Design: DESIGN.md.",
      "not_applicable": [{"property_id": k, "reason": v} for k, v in sorted(NOT_YET.items())]
    }
    for pid in sorted(CLAIMED):
        c = CLAIMED[pid]
        m["checks"].append({
          "property_id": pid,
          "quick_cmd": "./check %s --tier quick" % pid,
          "thorough_cmd": "./check %s --tier thorough" % pid,
          "evidence_file": "/verif/evidence/%s.json" % pid,
          "replay_cmd_template": "./check %s --replay {path}" % pid,
          "engine": "coq-proof+correspondence",
          "level_claimed": {"category": "proof", "text": c["text"], "design_ref": c["design_ref"]},
          "level_note": c["note"],
          "technique": c["technique"],
        })
    with open(os.path.join(ROOT, "MANIFEST.json"), "w") as f:
        json.dump(m, f, indent=1)
    print("MANIFEST.json: %d checks, %d not claimed" % (len(m["checks"]), len(m["not_applicable"])))

if __name__ == "__main__":
    main()
