#!/usr/bin/env python3
"""usage: tools/record_caught.py <seeded id> <check id> <result text> [confirm log]  -- record what I ran in seeded/<id>/meta.json"""
import sys, json, os, re
sid, chk, res = sys.argv[1], sys.argv[2], sys.argv[3]
p = os.path.join("/verif/seeded", sid, "meta.json")
o = json.load(open(p))
c = o.setdefault("confirmed_by_me", {})
c["applied_to"] = "/repo working tree via tools/try_mutant.sh (git apply, check, git checkout -- .)"
c["check"] = "./check %s --tier quick" % chk
c["result"] = res
if len(sys.argv) > 4:
    for l in open(sys.argv[4]):
        m = re.match(r"^(C\d+-\d+): (lib-with-patch: .*)$", l.strip())
        if m and m.group(1) == sid: c["scratch_worktree_run"] = m.group(2)
json.dump(o, open(p, "w"), indent=1)
