#!/usr/bin/env python3
"""Self-test of the control-code extractor (translator/rsctl.py): applies seeded changes and the behaviour-preserving
refactorings (harmless/) to a throw-away copy of the Rust sources and reports which normal forms change.

    tools/ctl_selftest.py [--repo /repo]     (the repository itself is never modified: sources are copied to a temp dir)"""
import sys, os, subprocess, tempfile, shutil, json
ROOT = os.path.dirname(os.path.dirname(os.path.abspath(__file__)))
sys.path.insert(0, os.path.join(ROOT, "translator"))
import rs2v, rsctl

SEEDED = ["C12-3", "C12-5", "C12-6", "C13-5", "C13-6", "C10-6", "C05-1", "C02-6"]


def sub(path, old, new, count=1):
    def f(root):
        fp = os.path.join(root, path)
        t = open(fp).read()
        assert old in t, "edit does not apply: %r not in %s" % (old, path)
        open(fp, "w").write(t.replace(old, new, count) if count else t.replace(old, new))
    return f


def resub(path, pat, new):
    import re
    def f(root):
        fp = os.path.join(root, path)
        t = open(fp).read()
        t2 = re.sub(pat, new, t)
        assert t2 != t, "edit does not apply: %r in %s" % (pat, path)
        open(fp, "w").write(t2)
    return f


TPKT, GLOBAL, MCS, LIC, CLIENT = "src/core/tpkt.rs", "src/core/global.rs", "src/core/mcs.rs", "src/core/license.rs", "src/core/client.rs"
# (description, edit, must it be noticed)
EDITS = [
    ("tpkt read: minimal TPKT size 4 -> 5", sub(TPKT, "if size.inner() < 4 {", "if size.inner() < 5 {"), True),
    ("tpkt read: long-form mask !0x80 -> !0xC0", sub(TPKT, "(short_length & !0x80)", "(short_length & !0xC0)"), True),
    ("tpkt read: read_body replaced by transport.read (the empty-body guard dropped)",
     sub(TPKT, "Ok(Payload::Raw(Cursor::new(self.read_body(size.inner() as usize - 4)?)))", "Ok(Payload::Raw(Cursor::new(self.transport.read(size.inner() as usize - 4)?)))"), True),
    ("tpkt read: guard rewritten `< 4 {Err} else {Ok}` -> `>= 4 {Ok} else {Err}` (same behaviour)",
     lambda root: (sub(TPKT, """            if size.inner() < 4 {
                Err(Error::RdpError(RdpError::new(RdpErrorKind::InvalidSize, "Invalid minimal size for TPKT")))
            }
            else {
                // now wait for body
                Ok(Payload::Raw(Cursor::new(self.read_body(size.inner() as usize - 4)?)))
            }""", """            if size.inner() >= 4 {
                Ok(Payload::Raw(Cursor::new(self.read_body(size.inner() as usize - 4)?)))
            } else {
                Err(Error::RdpError(RdpError::new(RdpErrorKind::InvalidSize, "too small")))
            }""")(root)), False),
    ("tpkt read: local `action` renamed, comments added, error message changed (same behaviour)",
     lambda root: (resub(TPKT, r'(?<!")\baction\b(?!")', "first_byte /* fp header */")(root)), False),
    ("tpkt read: a `while` loop added (syntax outside the subset: must fail closed)",
     sub(TPKT, "let mut action: u8 = 0;", "let mut action: u8 = 0;\n        while false { }"), True),
    ("mcs read: user id base 1001 -> 1002", sub(MCS, "per::read_integer_16(1001, &mut payload)?;\n\n                let channel_id", "per::read_integer_16(1002, &mut payload)?;\n\n                let channel_id"), True),
    ("mcs read: opcode shift >> 2 -> >> 1 in the disconnect test", sub(MCS, "if header >> 2 == DomainMCSPDU::DisconnectProviderUltimatum as u8", "if header >> 1 == DomainMCSPDU::DisconnectProviderUltimatum as u8"), True),
    ("mcs read: read_enumerates and read_length swapped", sub(MCS, "per::read_enumerates(&mut payload)?;\n                per::read_length(&mut payload)?;", "per::read_length(&mut payload)?;\n                per::read_enumerates(&mut payload)?;"), True),
    ("global from_fp: selector mask 0xf -> 0x1f", sub(GLOBAL, '"updateHeader"])? & 0xf)?', '"updateHeader"])? & 0x1f)?'), True),
    ("global from_pdu: font-map selects the font-list layout", sub(GLOBAL, "PDUType2::Pdutype2Fontmap => ts_font_map_pdu(),", "PDUType2::Pdutype2Fontmap => ts_font_list_pdu(),"), True),
    ("global from_control: body read from the wrong field", sub(GLOBAL, 'control["pduMessage"])?))?;', 'control["pduSource"])?))?;'), True),
    ("global from_control: two arms exchanged in the source (same behaviour)",
     sub(GLOBAL, """            PDUType::PdutypeDemandactivepdu => ts_demand_active_pdu(),
            PDUType::PdutypeDatapdu => share_data_header(None, None, None),""", """            PDUType::PdutypeDatapdu => share_data_header(None, None, None),
            PDUType::PdutypeDemandactivepdu => ts_demand_active_pdu(),"""), False),
    ("global read_data_pdu: deactivate-all resets to Data instead of DemandActivePDU", sub(GLOBAL, "self.state = ClientState::DemandActivePDU;\n                continue;", "self.state = ClientState::Data;\n                continue;"), True),
    ("global read_data_pdu: the reset moved after the data-PDU filter", sub(GLOBAL, """            if pdu.pdu_type == PDUType::PdutypeDeactivateallpdu {
                println!("GLOBAL: deactive/reactive sequence initiated");
                self.state = ClientState::DemandActivePDU;
                continue;
            }
            if pdu.pdu_type != PDUType::PdutypeDatapdu {
                println!("GLOBAL: Ignore PDU {:?}", pdu.pdu_type);
                continue;
            }""", """            if pdu.pdu_type != PDUType::PdutypeDatapdu {
                println!("GLOBAL: Ignore PDU {:?}", pdu.pdu_type);
                continue;
            }
            if pdu.pdu_type == PDUType::PdutypeDeactivateallpdu {
                println!("GLOBAL: deactive/reactive sequence initiated");
                self.state = ClientState::DemandActivePDU;
                continue;
            }"""), True),
    ("global Client::read: ControlCooperate expects Action::CtrlactionGrantedControl", sub(GLOBAL, "payload)?, Action::CtrlactionCooperate)?", "payload)?, Action::CtrlactionGrantedControl)?"), True),
    ("global Client::read: fast-path accepted in state FontMap (arm rewritten as a payload match)",
     sub(GLOBAL, """                if self.read_font_map_pdu(&mut try_let!(tpkt::Payload::Raw, payload)?)? {
                    // finish handshake now wait for sdata
                    self.state = ClientState::Data;
                }
                Ok(())""", """                match payload {
                    tpkt::Payload::Raw(mut stream) => self.read_data_pdu(&mut stream),
                    tpkt::Payload::FastPath(_sec_flag, mut stream) => self.read_fast_path(&mut stream, callback)
                }"""), True),
    ("license client_connect: StNoTransition -> StTotalAbort", sub(LIC, "== StateTransition::StNoTransition", "== StateTransition::StTotalAbort"), True),
    ("license parse_payload: UpgradeLicense accepted like NewLicense", sub(LIC, "MessageType::NewLicense => Ok(LicenseMessage::NewLicense),", "MessageType::NewLicense | MessageType::UpgradeLicense => Ok(LicenseMessage::NewLicense),"), True),
    ("client KeyboardLayout::from: \"fr\" => German", sub(CLIENT, '"fr" => KeyboardLayout::French,', '"fr" => KeyboardLayout::German,'), True),
    ("global write_input_event: function renamed (must fail closed)", sub(GLOBAL, "pub fn write_input_event<S", "pub fn write_input<S"), True),
]


def forms(repo):
    w = rs2v.load_world(repo)
    res, errs = rsctl.extract(w, repo)
    out = dict((k, rsctl.c_nf(v[1])) for k, v in res.items())
    for e in errs:
        out[e["ctl"]] = "FAIL-CLOSED: " + e["msg"]
    return out


def main():
    repo = os.environ.get("VERIF_REPO", "/repo")
    if "--repo" in sys.argv:
        repo = sys.argv[sys.argv.index("--repo") + 1]
    base = forms(repo)
    rows = []
    patches = [("seeded/" + s, os.path.join(ROOT, "seeded", s, "patch.diff"), True) for s in SEEDED] + \
              [("harmless/" + h, os.path.join(ROOT, "harmless", h, "patch.diff"), False) for h in sorted(os.listdir(os.path.join(ROOT, "harmless"))) if h.isdigit()]
    bad = 0
    patches += [(d, e, x) for d, e, x in EDITS]
    for name, patch, expect in patches:
        tmp = tempfile.mkdtemp(prefix="ctlself-")
        try:
            shutil.copytree(os.path.join(repo, "src"), os.path.join(tmp, "src"))
            if callable(patch):
                patch(tmp)
                name = "edit: " + name
            else:
                r = subprocess.run(["patch", "-p1", "-s", "-d", tmp, "-i", patch], stdout=subprocess.PIPE, stderr=subprocess.STDOUT)
                if r.returncode != 0:
                    print("%-14s patch does not apply: %s" % (name, r.stdout.decode()[:200])); bad += 1; continue
            cur = forms(tmp)
            diff = sorted(k for k in set(base) | set(cur) if base.get(k) != cur.get(k))
            closed = [k for k in diff if cur.get(k, "").startswith("FAIL-CLOSED")]
            ok = bool(diff) == expect
            bad += 0 if ok else 1
            print("%-14s\n    %-12s changed: %s%s" % (name, "noticed" if diff else "not noticed", ", ".join(diff) or "-",
                                                 ("   (fail closed: %s)" % ", ".join(closed)) if closed else ""), "" if ok else "   <-- UNEXPECTED")
            if "-v" in sys.argv:
                for k in diff:
                    print("   ---- %s\n%s" % (k, cur.get(k)))
        finally:
            shutil.rmtree(tmp, ignore_errors=True)
    sys.exit(1 if bad else 0)


if __name__ == "__main__":
    main()
