#!/bin/sh
# usage: tools/try_mutant.sh <patch.diff> <Cnn> [<Cnn>...]  -- applies the patch to /repo, runs the quick checks, reverts
patch="$1"; shift
cd /verif
git -C /repo status --short | grep -q . && { echo "repo dirty"; exit 2; }
git -C /repo apply "$patch" || { echo "patch does not apply"; exit 2; }
for p in "$@"; do
  ./check "$p" --tier quick 2>/dev/null | grep -E "^(VIOLATION|OK|KNOWN)" | cut -c1-300
done
git -C /repo checkout -- .
git -C /repo status --short
# restore what the runs above regenerated from the MUTATED source: generated Coq files and evidence must never be committed from such a run
python3 translator/rs2v.py --repo /repo --coq coq > /dev/null 2>&1
git -C /verif checkout -- evidence 2>/dev/null
