#!/usr/bin/env python3
"""merge lines of a confirm_mutant.sh log into seeded/<id>/meta.json"""
import sys, json, os, re
for l in open(sys.argv[1]):
    m = re.match(r"^(C\d+-\d+): (lib-with-patch: .*)$", l.strip())
    if not m: continue
    p = os.path.join("/verif/seeded", m.group(1), "meta.json")
    if not os.path.exists(p): continue
    o = json.load(open(p))
    o.setdefault("confirmed_by_me", {})["scratch_worktree_run"] = m.group(2)
    json.dump(o, open(p, "w"), indent=1)
    print("recorded", m.group(1))
