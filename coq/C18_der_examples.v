(* Sanity vectors for the DER model (Der.v): the crate's unit-test and doc-test
   byte vectors, and a few strictness checks of the decoder. *)
From RdpV Require Import Base Der.
Open Scope list_scope.
Open Scope N_scope.

(* ---------- sanity vectors (the crate's unit tests) ---------- *)

Example ex_domain_parameters :
  der_encode (domain_parameters 1 2 3 4 5 6 7 8) =
  [48; 24; 2; 1; 1; 2; 1; 2; 2; 1; 3; 2; 1; 4; 2; 1; 5; 2; 1; 6; 2; 1; 7; 2; 1; 8].
Proof. vm_compute. reflexivity. Qed.

Example ex_connect_initial :
  der_encode (connect_initial [1;2;3]) =
  [127; 101; 103; 4; 1; 1; 4; 1; 1; 1; 1; 255; 48; 26; 2; 1; 34; 2; 1; 2; 2; 1; 0; 2; 1; 1; 2; 1; 0;
   2; 1; 1; 2; 3; 0; 255; 255; 2; 1; 2; 48; 25; 2; 1; 1; 2; 1; 1; 2; 1; 1; 2; 1; 1; 2; 1; 0; 2; 1; 1;
   2; 2; 4; 32; 2; 1; 2; 48; 32; 2; 3; 0; 255; 255; 2; 3; 0; 252; 23; 2; 3; 0; 255; 255; 2; 1; 1; 2;
   1; 0; 2; 1; 1; 2; 3; 0; 255; 255; 2; 1; 2; 4; 3; 1; 2; 3].
Proof. vm_compute. reflexivity. Qed.

Example ex_connect_response :
  der_encode (connect_response [1;2;3]) =
  [127; 102; 39; 10; 1; 0; 2; 1; 0; 48; 26; 2; 1; 22; 2; 1; 3; 2; 1; 0; 2; 1; 1; 2; 1; 0; 2; 1; 1;
   2; 3; 0; 255; 248; 2; 1; 2; 4; 3; 1; 2; 3].
Proof. vm_compute. reflexivity. Qed.

Example ex_connect_initial_dec :
  der_decode_all connect_initial_sch (der_encode (connect_initial [1;2;3])) = Some (connect_initial [1;2;3]).
Proof. vm_compute. reflexivity. Qed.

Example ex_ts_request_dec :
  der_decode_all ts_request_sch (der_encode (ts_request [9;8;7])) = Some (ts_request [9;8;7]).
Proof. vm_compute. reflexivity. Qed.

(* asn1.rs doc-test vectors *)
Example ex_seqof : der_encode (DSeqOf [DInt 8; DInt 9]) = [48; 6; 2; 1; 8; 2; 1; 9].
Proof. vm_compute. reflexivity. Qed.
Example ex_explicit : der_encode (DExplicit Context 0 (DOctets [0;1;2;3])) = [160; 6; 4; 4; 0; 1; 2; 3].
Proof. vm_compute. reflexivity. Qed.
Example ex_implicit : der_encode (DImplicit Context 0 (DOctets [0;1;2;3])) = [128; 4; 0; 1; 2; 3].
Proof. vm_compute. reflexivity. Qed.
Example ex_enum : der_encode (DEnum 4) = [10; 1; 4].
Proof. vm_compute. reflexivity. Qed.
Example ex_seq : der_encode (DSeq [DInt 1; DBool false]) = [48; 6; 2; 1; 1; 1; 1; 0].
Proof. vm_compute. reflexivity. Qed.
Example ex_long_len :
  der_encode (DOctets (repeat 7 300)) = 4 :: 130 :: 1 :: 44 :: repeat 7 300.
Proof. vm_compute. reflexivity. Qed.

(* strictness of the decoder *)
Example ex_rej_nonminimal_int : der_decode SInt [2; 2; 0; 1] = None.
Proof. vm_compute. reflexivity. Qed.
Example ex_acc_sign_octet : der_decode SInt [2; 2; 0; 128; 9] = Some (DInt 128, [9]).
Proof. vm_compute. reflexivity. Qed.
Example ex_rej_negative_int : der_decode SInt [2; 1; 128] = None.
Proof. vm_compute. reflexivity. Qed.
Example ex_rej_u32_overflow : der_decode SInt [2; 5; 1; 0; 0; 0; 0] = None.
Proof. vm_compute. reflexivity. Qed.
Example ex_acc_u32_max : der_decode_all SInt [2; 5; 0; 255; 255; 255; 255] = Some (DInt 4294967295).
Proof. vm_compute. reflexivity. Qed.
Example ex_rej_long_len_small : der_decode SOctets [4; 129; 1; 7] = None.
Proof. vm_compute. reflexivity. Qed.
Example ex_rej_long_len_zero : der_decode SOctets (4 :: 130 :: 0 :: 200 :: repeat 7 200) = None.
Proof. vm_compute. reflexivity. Qed.
Example ex_rej_indefinite : der_decode (SSeq []) [48; 128; 0; 0] = None.
Proof. vm_compute. reflexivity. Qed.
Example ex_rej_truncated : der_decode SOctets [4; 3; 1; 2] = None.
Proof. vm_compute. reflexivity. Qed.
Example ex_rej_wrong_tag : der_decode SInt [4; 1; 1] = None.
Proof. vm_compute. reflexivity. Qed.
Example ex_rej_primitive_seq : der_decode (SSeq []) [16; 0] = None.
Proof. vm_compute. reflexivity. Qed.
Example ex_rej_trailing_inside : der_decode (SSeq [SInt]) [48; 5; 2; 1; 1; 5; 0] = None.
Proof. vm_compute. reflexivity. Qed.
Example ex_rej_trailing_all : der_decode_all SInt [2; 1; 1; 0] = None.
Proof. vm_compute. reflexivity. Qed.
Example ex_rej_bool : der_decode SBool [1; 1; 1] = None.
Proof. vm_compute. reflexivity. Qed.
Example ex_rej_high_tag_small : der_decode (SImplicit Application 5 SOctets) [95; 5; 0] = None.
Proof. vm_compute. reflexivity. Qed.
Example ex_high_tag_two_octets :
  der_encode (DImplicit Private 300 (DOctets [])) = [223; 130; 44; 0].
Proof. vm_compute. reflexivity. Qed.
Example ex_seqof_empty : der_decode_all (SSeqOf SInt) [48; 0] = Some (DSeqOf []).
Proof. vm_compute. reflexivity. Qed.
Example ex_seqof_dec :
  der_decode_all (SSeqOf SInt) [48; 6; 2; 1; 8; 2; 1; 9] = Some (DSeqOf [DInt 8; DInt 9]).
Proof. vm_compute. reflexivity. Qed.
