(* Generic theory of the message interpreter (Msg.v), for ALL message trees:
     (a) length_write / write_defined_iff_length : the length a message reports is the
         number of bytes it writes, and both are defined on the same messages;
     (b) read_write : reading the written bytes into the empty template reproduces the
         message exactly and consumes exactly the written bytes, for every message that
         passes the executable checker [wf]. *)
From RdpV Require Import Base Msg MsgInd.
Open Scope string_scope.
Open Scope list_scope.
Open Scope N_scope.

(* ================================================================ named copies of the nested loops *)
Fixpoint write_list (p : prof) (l : list msg) : option bytes :=
  match l with
  | [] => Some []
  | x :: tl => match write p x, write_list p tl with Some a, Some b => Some (a ++ b) | _, _ => None end
  end.

Fixpoint length_list (p : prof) (l : list msg) : option N :=
  match l with
  | [] => Some 0
  | x :: tl => match mlength p x, length_list p tl with Some a, Some b => Some (a + b) | _, _ => None end
  end.

Fixpoint write_fields (p : prof) (fs : list (string * msg)) (skip : list string) : option bytes :=
  match fs with
  | [] => Some []
  | (name, v) :: tl =>
      if mem name skip then write_fields p tl skip
      else match write p v with
           | None => None
           | Some a =>
               match options p v with
               | OPanic => None
               | OSkip f => match write_fields p tl (f :: skip) with Some b => Some (a ++ b) | None => None end
               | _ => match write_fields p tl skip with Some b => Some (a ++ b) | None => None end
               end
           end
  end.

Fixpoint length_fields (p : prof) (fs : list (string * msg)) (skip : list string) : option N :=
  match fs with
  | [] => Some 0
  | (name, v) :: tl =>
      if mem name skip then length_fields p tl skip
      else match options p v with
           | OPanic => None
           | OSkip f => match mlength p v, length_fields p tl (f :: skip) with Some a, Some b => Some (a + b) | _, _ => None end
           | _ => match mlength p v, length_fields p tl skip with Some a, Some b => Some (a + b) | _, _ => None end
           end
  end.

Lemma write_trame_eq p l : write p (MTrame l) = write_list p l.
Proof.
  induction l as [|x tl IH]; [reflexivity|].
  cbn [write_list]. rewrite <- IH. reflexivity.
Qed.

Lemma write_array_eq p l f : write p (MArray l f) = write_list p l.
Proof.
  induction l as [|x tl IH]; [reflexivity|].
  cbn [write_list]. rewrite <- IH. reflexivity.
Qed.

Lemma length_trame_eq p l : mlength p (MTrame l) = length_list p l.
Proof.
  induction l as [|x tl IH]; [reflexivity|].
  cbn [length_list]. rewrite <- IH. reflexivity.
Qed.

Lemma length_array_eq p l f : mlength p (MArray l f) = length_list p l.
Proof.
  induction l as [|x tl IH]; [reflexivity|].
  cbn [length_list]. rewrite <- IH. reflexivity.
Qed.

Lemma write_comp_eq p fs : write p (MComp fs) = write_fields p fs [].
Proof.
  cbn [write]. generalize (@nil string).
  induction fs as [|[name v] tl IH]; intros skip; [reflexivity|].
  cbn [write_fields].
  destruct (mem name skip) eqn:Hm.
  - apply IH.
  - destruct (write p v) as [a|]; [|reflexivity].
    destruct (options p v); rewrite ?IH; reflexivity.
Qed.

Lemma length_comp_eq p fs : mlength p (MComp fs) = length_fields p fs [].
Proof.
  cbn [mlength]. generalize (@nil string).
  induction fs as [|[name v] tl IH]; intros skip; [reflexivity|].
  cbn [length_fields].
  destruct (mem name skip) eqn:Hm.
  - apply IH.
  - destruct (options p v); rewrite ?IH; reflexivity.
Qed.

(* ================================================================ (a) length = bytes written *)
Definition lw_ok (p : prof) (m : msg) : Prop :=
  match write p m with
  | Some b => mlength p m = Some (nlen b)
  | None => mlength p m = None
  end.

Lemma lw_list p l : Forall (lw_ok p) l ->
  match write_list p l with
  | Some b => length_list p l = Some (nlen b)
  | None => length_list p l = None
  end.
Proof.
  induction l as [|x tl IH]; intros HF; cbn [write_list length_list]; [reflexivity|].
  inversion HF as [|? ? Hx Htl]; subst. specialize (IH Htl). unfold lw_ok in Hx.
  destruct (write p x) as [a|].
  - rewrite Hx. destruct (write_list p tl) as [b|].
    + rewrite IH. rewrite nlen_app. reflexivity.
    + rewrite IH. reflexivity.
  - rewrite Hx. reflexivity.
Qed.

Lemma lw_fields p fs : Forall (fun nv => lw_ok p (snd nv)) fs ->
  forall skip,
  match write_fields p fs skip with
  | Some b => length_fields p fs skip = Some (nlen b)
  | None => length_fields p fs skip = None
  end.
Proof.
  induction fs as [|[name v] tl IH]; intros HF skip; cbn [write_fields length_fields]; [reflexivity|].
  inversion HF as [|? ? Hv Htl]; subst. specialize (IH Htl). cbn [snd] in Hv. unfold lw_ok in Hv.
  destruct (mem name skip); [apply IH|].
  destruct (write p v) as [a|].
  - rewrite Hv. destruct (options p v) as [|f|f n|].
    + specialize (IH skip). destruct (write_fields p tl skip) as [b|]; rewrite IH; [rewrite nlen_app|]; reflexivity.
    + specialize (IH (f :: skip)). destruct (write_fields p tl (f :: skip)) as [b|]; rewrite IH; [rewrite nlen_app|]; reflexivity.
    + specialize (IH skip). destruct (write_fields p tl skip) as [b|]; rewrite IH; [rewrite nlen_app|]; reflexivity.
    + reflexivity.
  - rewrite Hv. destruct (options p v); reflexivity.
Qed.

Lemma lw_all p m : lw_ok p m.
Proof.
  induction m using msg_ind'; unfold lw_ok.
  - reflexivity.
  - destruct e; reflexivity.
  - destruct e; reflexivity.
  - reflexivity.
  - rewrite write_trame_eq, length_trame_eq. apply lw_list. exact H.
  - rewrite write_comp_eq, length_comp_eq. apply lw_fields. exact H.
  - exact IHm.
  - exact IHm.
  - reflexivity.
  - exact IHm.
  - rewrite write_array_eq, length_array_eq. apply lw_list. exact H.
  - rewrite write_array_eq, length_array_eq. apply lw_list. exact H.
Qed.

Theorem length_write : forall p m b, write p m = Some b -> mlength p m = Some (nlen b).
Proof. intros p m b H. pose proof (lw_all p m) as L. unfold lw_ok in L. rewrite H in L. exact L. Qed.

Theorem write_defined_iff_length : forall p m, write p m = None <-> mlength p m = None.
Proof.
  intros p m. pose proof (lw_all p m) as L. unfold lw_ok in L.
  destruct (write p m) as [b|]; split; intros H; try reflexivity; try exact L; try discriminate.
  rewrite L in H. discriminate.
Qed.

Corollary write_some_iff_length : forall p m, (exists b, write p m = Some b) <-> (exists n, mlength p m = Some n).
Proof.
  intros p m. pose proof (lw_all p m) as L. unfold lw_ok in L.
  destruct (write p m) as [b|]; split; intros [x Hx]; eauto; try discriminate.
  rewrite L in Hx. discriminate.
Qed.


(* ================================================================ boolean syntactic equality *)
Definition endian_eqb (a b : endian) : bool :=
  match a, b with BE, BE | LE, LE => true | _, _ => false end.

Lemma endian_eqb_eq a b : endian_eqb a b = true -> a = b.
Proof. destruct a, b; cbn; intros H; try discriminate; reflexivity. Qed.

Fixpoint bytes_eqb (a b : bytes) : bool :=
  match a, b with
  | [], [] => true
  | x :: a', y :: b' => (x =? y) && bytes_eqb a' b'
  | _, _ => false
  end.

Lemma bytes_eqb_eq a : forall b, bytes_eqb a b = true -> a = b.
Proof.
  induction a as [|x a' IH]; intros [|y b'] H; cbn [bytes_eqb] in H; try discriminate; [reflexivity|].
  apply andb_true_iff in H. destruct H as [Hx Ht]. apply N.eqb_eq in Hx. subst y.
  rewrite (IH b' Ht). reflexivity.
Qed.

Fixpoint cexp_eqb (a b : cexp) : bool :=
  match a, b with
  | XSelf, XSelf => true
  | XSelfField n, XSelfField n' => String.eqb n n'
  | XSub e k, XSub e' k' => cexp_eqb e e' && (k =? k')
  | XSubSat e k, XSubSat e' k' => cexp_eqb e e' && (k =? k')
  | XAdd e k, XAdd e' k' => cexp_eqb e e' && (k =? k')
  | XMul e k, XMul e' k' => cexp_eqb e e' && (k =? k')
  | _, _ => false
  end.

Lemma cexp_eqb_eq a : forall b, cexp_eqb a b = true -> a = b.
Proof.
  induction a as [|n|e IH k|e IH k|e IH k|e IH k]; intros [|n'|e' k'|e' k'|e' k'|e' k'] H;
    cbn [cexp_eqb] in H; try discriminate; try reflexivity;
    try (apply String.eqb_eq in H; subst; reflexivity);
    apply andb_true_iff in H; destruct H as [He Hk]; apply N.eqb_eq in Hk; subst k'; rewrite (IH e' He); reflexivity.
Qed.

Fixpoint ccond_eqb (a b : ccond) : bool :=
  match a, b with
  | CBits s m x, CBits s' m' x' => (s =? s') && (m =? m') && (x =? x')
  | CNot c, CNot c' => ccond_eqb c c'
  | COr c d, COr c' d' => ccond_eqb c c' && ccond_eqb d d'
  | CAnd c d, CAnd c' d' => ccond_eqb c c' && ccond_eqb d d'
  | _, _ => false
  end.

Lemma ccond_eqb_eq a : forall b, ccond_eqb a b = true -> a = b.
Proof.
  induction a as [s m x|c IH|c IHc d IHd|c IHc d IHd]; intros [s' m' x'|c'|c' d'|c' d'] H;
    cbn [ccond_eqb] in H; try discriminate.
  - apply andb_true_iff in H. destruct H as [H Hx]. apply andb_true_iff in H. destruct H as [Hs Hm].
    apply N.eqb_eq in Hs, Hm, Hx. subst. reflexivity.
  - rewrite (IH c' H). reflexivity.
  - apply andb_true_iff in H. destruct H as [Hc Hd]. rewrite (IHc c' Hc), (IHd d' Hd). reflexivity.
  - apply andb_true_iff in H. destruct H as [Hc Hd]. rewrite (IHc c' Hc), (IHd d' Hd). reflexivity.
Qed.

Definition clo_eqb (a b : clo) : bool :=
  match a, b with
  | CloNone, CloNone => true
  | CloSize t e, CloSize t' e' => String.eqb t t' && cexp_eqb e e'
  | CloSkipIf c t, CloSkipIf c' t' => ccond_eqb c c' && String.eqb t t'
  | _, _ => false
  end.

Lemma clo_eqb_eq a b : clo_eqb a b = true -> a = b.
Proof.
  destruct a as [|t e|c t], b as [|t' e'|c' t']; cbn [clo_eqb]; intros H; try discriminate; [reflexivity| |];
    apply andb_true_iff in H; destruct H as [H1 H2].
  - apply String.eqb_eq in H1. apply cexp_eqb_eq in H2. subst. reflexivity.
  - apply String.eqb_eq in H2. apply ccond_eqb_eq in H1. subst. reflexivity.
Qed.

Section EqLoops.
Variable eqb : msg -> msg -> bool.
Fixpoint list_eqb (l1 l2 : list msg) {struct l1} : bool :=
  match l1, l2 with
  | [], [] => true
  | x :: l1', y :: l2' => eqb x y && list_eqb l1' l2'
  | _, _ => false
  end.
Fixpoint fields_eqb (l1 l2 : list (string * msg)) {struct l1} : bool :=
  match l1, l2 with
  | [], [] => true
  | (n, x) :: l1', (n', y) :: l2' => String.eqb n n' && eqb x y && fields_eqb l1' l2'
  | _, _ => false
  end.
End EqLoops.

Fixpoint msg_eqb (a b : msg) {struct a} : bool :=
  match a, b with
  | MU8 v, MU8 v' => v =? v'
  | MU16 e v, MU16 e' v' => endian_eqb e e' && (v =? v')
  | MU32 e v, MU32 e' v' => endian_eqb e e' && (v =? v')
  | MBytes x, MBytes y => bytes_eqb x y
  | MTrame l, MTrame l' => list_eqb msg_eqb l l'
  | MComp fs, MComp fs' => fields_eqb msg_eqb fs fs'
  | MCheck x, MCheck y => msg_eqb x y
  | MDyn x c, MDyn y c' => msg_eqb x y && clo_eqb c c'
  | MOpt None, MOpt None => true
  | MOpt (Some x), MOpt (Some y) => msg_eqb x y
  | MArray l None, MArray l' None => list_eqb msg_eqb l l'
  | MArray l (Some t), MArray l' (Some t') => list_eqb msg_eqb l l' && msg_eqb t t'
  | _, _ => false
  end.

Lemma list_eqb_eq (eqb : msg -> msg -> bool) l1 :
  Forall (fun x => forall y, eqb x y = true -> x = y) l1 ->
  forall l2, list_eqb eqb l1 l2 = true -> l1 = l2.
Proof.
  induction l1 as [|x l1' IH]; intros HF [|y l2'] H; cbn [list_eqb] in H; try discriminate; [reflexivity|].
  inversion HF as [|? ? Hx Htl]; subst.
  apply andb_true_iff in H. destruct H as [H1 H2]. rewrite (Hx y H1), (IH Htl l2' H2). reflexivity.
Qed.

Lemma fields_eqb_eq (eqb : msg -> msg -> bool) l1 :
  Forall (fun nv => forall y, eqb (snd nv) y = true -> snd nv = y) l1 ->
  forall l2, fields_eqb eqb l1 l2 = true -> l1 = l2.
Proof.
  induction l1 as [|[n x] l1' IH]; intros HF [|[n' y] l2'] H; cbn [fields_eqb] in H; try discriminate; [reflexivity|].
  inversion HF as [|? ? Hx Htl]; subst. cbn [snd] in Hx.
  apply andb_true_iff in H. destruct H as [H H3]. apply andb_true_iff in H. destruct H as [H1 H2].
  apply String.eqb_eq in H1. subst n'. rewrite (Hx y H2), (IH Htl l2' H3). reflexivity.
Qed.

Lemma msg_eqb_eq a : forall b, msg_eqb a b = true -> a = b.
Proof.
  induction a using msg_ind'; intros b' Hb; destruct b'; cbn [msg_eqb] in Hb; try discriminate.
  - apply N.eqb_eq in Hb. subst. reflexivity.
  - apply andb_true_iff in Hb. destruct Hb as [H1 H2]. apply endian_eqb_eq in H1. apply N.eqb_eq in H2. subst. reflexivity.
  - apply andb_true_iff in Hb. destruct Hb as [H1 H2]. apply endian_eqb_eq in H1. apply N.eqb_eq in H2. subst. reflexivity.
  - apply bytes_eqb_eq in Hb. subst. reflexivity.
  - rewrite (list_eqb_eq msg_eqb l H l0 Hb). reflexivity.
  - rewrite (fields_eqb_eq msg_eqb fs H fs0 Hb). reflexivity.
  - rewrite (IHa b' Hb). reflexivity.
  - apply andb_true_iff in Hb. destruct Hb as [H1 H2]. apply clo_eqb_eq in H2. rewrite (IHa b' H1). subst. reflexivity.
  - destruct o; [discriminate|reflexivity].
  - destruct o as [y|]; [|discriminate]. rewrite (IHa y Hb). reflexivity.
  - destruct factory; [discriminate|]. rewrite (list_eqb_eq msg_eqb l H elems Hb). reflexivity.
  - destruct factory as [t'|]; [|discriminate].
    apply andb_true_iff in Hb. destruct Hb as [H1 H2].
    rewrite (list_eqb_eq msg_eqb l H elems H1), (IHa t' H2). reflexivity.
Qed.

Lemma msg_eqb_refl a : msg_eqb a a = true.
Proof.
  assert (Hb : forall b : bytes, bytes_eqb b b = true)
    by (induction b as [|x b IH]; cbn [bytes_eqb]; [reflexivity|rewrite N.eqb_refl, IH; reflexivity]).
  assert (He : forall e, endian_eqb e e = true) by (destruct e; reflexivity).
  assert (Hx : forall e, cexp_eqb e e = true)
    by (induction e as [|n|e IH k|e IH k|e IH k|e IH k]; cbn [cexp_eqb];
        rewrite ?String.eqb_refl, ?IH, ?N.eqb_refl; reflexivity).
  assert (Hc : forall c, ccond_eqb c c = true)
    by (induction c as [s m x|c IH|c IHc d IHd|c IHc d IHd]; cbn [ccond_eqb];
        rewrite ?N.eqb_refl, ?IH, ?IHc, ?IHd; reflexivity).
  assert (Hl : forall l, Forall (fun x => msg_eqb x x = true) l -> list_eqb msg_eqb l l = true).
  { induction l as [|x l IH]; intros HF; cbn [list_eqb]; [reflexivity|].
    inversion HF as [|? ? H1 H2]; subst. rewrite H1, (IH H2). reflexivity. }
  induction a using msg_ind'; cbn [msg_eqb]; rewrite ?N.eqb_refl, ?He, ?Hb; try reflexivity; auto.
  - induction fs as [|[n v] fs IH]; cbn [fields_eqb]; [reflexivity|].
    inversion H as [|? ? H1 H2]; subst. cbn [snd] in H1. rewrite String.eqb_refl, H1, (IH H2). reflexivity.
  - rewrite IHa. destruct c as [|t e|c t]; cbn [clo_eqb]; rewrite ?String.eqb_refl, ?Hx, ?Hc; reflexivity.
  - rewrite (Hl l H), IHa. reflexivity.
Qed.

(* ================================================================ leaf codecs *)
Lemma le16_of (n : N) : n < 65536 -> of_le16 (u16_lo n) (u16_hi n) = n.
Proof. intros H. unfold of_le16. exact (be16_of n H). Qed.

Section Leaf32.
Ltac Zify.zify_post_hook ::= Z.to_euclidean_division_equations.

Lemma div_65536 (n : N) : n / 65536 = n / 256 / 256.
Proof. rewrite N.div_div by lia. reflexivity. Qed.

Lemma div_16777216 (n : N) : n / 16777216 = n / 256 / 256 / 256.
Proof. rewrite !N.div_div by lia. reflexivity. Qed.

Lemma le32_of (n : N) : n < 4294967296 ->
  of_le32 (n mod 256) ((n / 256) mod 256) ((n / 65536) mod 256) ((n / 16777216) mod 256) = n.
Proof. intros H. unfold of_le32. rewrite div_65536, div_16777216. lia. Qed.

Lemma be32_of (n : N) : n < 4294967296 ->
  of_be32 ((n / 16777216) mod 256) ((n / 65536) mod 256) ((n / 256) mod 256) (n mod 256) = n.
Proof. intros H. unfold of_be32. rewrite div_65536, div_16777216. lia. Qed.
End Leaf32.

(* ================================================================ (b) the checker wf *)
(* reading this template at end of input fails cleanly (the error leaves an empty reader) *)
Definition fails_on_empty (p : prof) (t : msg) : bool :=
  match read p t [] with RErr _ [] _ => true | _ => false end.

Definition writes_nonempty (p : prof) (m : msg) : bool :=
  match write p m with Some (_ :: _) => true | _ => false end.

Definition length_is (p : prof) (m : msg) (n : N) : bool :=
  match mlength p m with Some k => k =? n | None => false end.

Definition is_nil {A} (l : list A) : bool := match l with [] => true | _ => false end.

(* what follows writes no byte at all (absent Options, empty blocks): the field in front of it still
   sees the end of the reader -- consecutive absent trailing Options are covered this way *)
Definition writes_nothing (p : prof) (l : list msg) : bool :=
  match write_list p l with Some [] => true | _ => false end.
Definition fields_write_nothing (p : prof) (fs : list (string * msg)) (skip : list string) : bool :=
  match write_fields p fs skip with Some [] => true | _ => false end.

(* The three loops of wf, abstracted over the checker of the elements ([wfr closed t m]);
   [wf] below instantiates [wfr] with itself, exactly as [read] does with its loops. *)
Section WfLoops.
Variable p : prof.
Variable wfr : bool -> msg -> msg -> bool.

(* l = written elements, tl = templates; an element inherits [closed] when nothing is written after it *)
Fixpoint wf_trame (closed : bool) (l tl : list msg) {struct l} : bool :=
  match l, tl with
  | [], [] => true
  | x :: l', tx :: tl' => wfr ((is_nil l' || writes_nothing p l') && closed) tx x && wf_trame closed l' tl'
  | _, _ => false
  end.

(* in lock-step with read_comp: skip = fields named by a SkipIf closure that fired,
   dyn = sizes announced by a Size closure *)
Fixpoint wf_fields (closed : bool) (fs tfs : list (string * msg)) (skip : list string) (dyn : list (string * N))
         {struct fs} : bool :=
  match fs, tfs with
  | [], [] => true
  | (name, v) :: fs', (tname, tv) :: tfs' =>
      String.eqb name tname &&
      (if mem name skip then msg_eqb v tv && wf_fields closed fs' tfs' skip dyn
       else
         match dyn_lookup name dyn with
         | Some n => wfr true tv v && length_is p v n && (n <=? isize_max)
         | None => wfr ((is_nil fs' || fields_write_nothing p fs'
                                        (match options p v with OSkip f => f :: skip | _ => skip end)) && closed) tv v
         end &&
         match options p v with
         | OPanic => false
         | OSkip f => wf_fields closed fs' tfs' (f :: skip) dyn
         | OSize f k => wf_fields closed fs' tfs' skip ((f, k) :: dyn)
         | ONone => wf_fields closed fs' tfs' skip dyn
         end)
  | _, _ => false
  end.

Fixpoint wf_elems (tmpl : msg) (l : list msg) {struct l} : bool :=
  match l with
  | [] => true
  | e :: l' => wfr false tmpl e && writes_nonempty p e && wf_elems tmpl l'
  end.
End WfLoops.

(* closed = true : nothing follows this message's bytes in the reader (last field of a
   bounded reader, or inside a sized sub-cursor).
   t = the EMPTY TEMPLATE the bytes are read into, m = the message written. *)
Fixpoint wf (p : prof) (closed : bool) (t m : msg) {struct m} : bool :=
  match m, t with
  | MU8 _, MU8 _ => true
  | MU16 e v, MU16 e' _ => endian_eqb e e' && (v <? 65536)
  | MU32 e v, MU32 e' _ => endian_eqb e e' && (v <? 4294967296)
  | MBytes b, MBytes tb =>
      match tb with
      | [] => closed                                           (* read_to_end *)
      | _ :: _ => Nat.eqb (List.length tb) (List.length b)     (* fixed-size block *)
      end
  | MTrame l, MTrame tl => wf_trame p (wf p) closed l tl
  | MComp fs, MComp tfs => wf_fields p (wf p) closed fs tfs [] []
  | MCheck v, MCheck tv => wf p closed tv v && check_eq tv v
  | MDyn v c, MDyn tv c' => clo_eqb c c' && wf p closed tv v
  | MOpt None, MOpt None => true
  | MOpt (Some v), MOpt (Some tv) => wf p closed tv v
  | MOpt None, MOpt (Some tv) => closed && fails_on_empty p tv
  | MArray elems f, MArray [] (Some tmpl) =>
      closed && match f with Some ft => msg_eqb ft tmpl | None => false end &&
      fails_on_empty p tmpl && wf_elems p (wf p) tmpl elems
  | _, _ => false
  end.

(* ================================================================ (b) the round trip *)
Lemma firstn_length_app {A} (a b : list A) : firstn (List.length a) (a ++ b) = a.
Proof. induction a as [|x a IH]; cbn [List.length firstn app]; [destruct b; reflexivity|rewrite IH; reflexivity]. Qed.

Lemma skipn_length_app {A} (a b : list A) : skipn (List.length a) (a ++ b) = b.
Proof. induction a as [|x a IH]; cbn [List.length skipn app]; [reflexivity|exact IH]. Qed.

Lemma take_app (a b : bytes) : take (List.length a) (a ++ b) = Some (a, b).
Proof.
  unfold take. rewrite firstn_length_app, skipn_length_app.
  destruct (Nat.leb_spec (List.length a) (List.length (a ++ b))) as [_|Hlt]; [reflexivity|].
  rewrite app_length in Hlt. lia.
Qed.

Lemma nothing_list p l bl : (is_nil l || writes_nothing p l) = true -> write_list p l = Some bl -> bl = [].
Proof.
  intros H Hw. destruct l as [|x l'].
  - cbn [write_list] in Hw. inversion Hw; reflexivity.
  - cbn [is_nil orb] in H. unfold writes_nothing in H. rewrite Hw in H. destruct bl; [reflexivity|discriminate].
Qed.

Lemma nothing_fields p fs sk bl : (is_nil fs || fields_write_nothing p fs sk) = true -> write_fields p fs sk = Some bl -> bl = [].
Proof.
  intros H Hw. destruct fs as [|x fs'].
  - cbn [write_fields] in Hw. inversion Hw; reflexivity.
  - cbn [is_nil orb] in H. unfold fields_write_nothing in H. rewrite Hw in H. destruct bl; [reflexivity|discriminate].
Qed.

Definition rw_ok (p : prof) (m : msg) : Prop :=
  forall t closed b rest,
    wf p closed t m = true -> write p m = Some b -> (closed = true -> rest = []) ->
    exists a, read p t (b ++ rest) = ROk m rest a.

Lemma rw_trame p l : Forall (rw_ok p) l ->
  forall tl closed b rest acc a,
    wf_trame p (wf p) closed l tl = true -> write_list p l = Some b -> (closed = true -> rest = []) ->
    exists a', read_trame (read p) tl (b ++ rest) acc a = ROk (MTrame (rev acc ++ l)) rest a'.
Proof.
  induction l as [|x l' IH]; intros HF tl closed b rest acc a Hwf Hw Hc; destruct tl as [|tx tl'];
    cbn [wf_trame] in Hwf; try discriminate.
  - cbn [write_list] in Hw. inversion Hw; subst b. cbn [read_trame app]. rewrite app_nil_r. eexists; reflexivity.
  - inversion HF as [|? ? Hx Hl']; subst.
    apply andb_true_iff in Hwf. destruct Hwf as [Hwx Hwl].
    cbn [write_list] in Hw.
    destruct (write p x) as [bx|] eqn:Hbx; [|discriminate].
    destruct (write_list p l') as [bl|] eqn:Hbl; [|discriminate].
    inversion Hw; subst b. clear Hw.
    rewrite <- app_assoc.
    destruct (Hx tx _ bx (bl ++ rest) Hwx Hbx) as [ax Hrx].
    { intros Hcl. apply andb_true_iff in Hcl. destruct Hcl as [Hn Hcl].
      rewrite (nothing_list p l' bl Hn Hbl). cbn [app]. apply Hc. exact Hcl. }
    cbn [read_trame]. rewrite Hrx.
    destruct (IH Hl' tl' closed bl rest (x :: acc) (N.max a ax) Hwl eq_refl Hc) as [a' Hr].
    exists a'. rewrite Hr. cbn [rev]. rewrite <- app_assoc. reflexivity.
Qed.

Lemma rw_fields p fs : Forall (fun nv => rw_ok p (snd nv)) fs ->
  forall tfs closed skip dyn b rest acc a,
    wf_fields p (wf p) closed fs tfs skip dyn = true -> write_fields p fs skip = Some b ->
    (closed = true -> rest = []) ->
    exists a', read_comp p (read p) tfs (b ++ rest) skip dyn acc a = ROk (MComp (rev acc ++ fs)) rest a'.
Proof.
  induction fs as [|[name v] fs' IH]; intros HF tfs closed skip dyn b rest acc a Hwf Hw Hc;
    destruct tfs as [|[tname tv] tfs']; cbn [wf_fields] in Hwf; try discriminate.
  - cbn [write_fields] in Hw. inversion Hw; subst b. cbn [read_comp app]. rewrite app_nil_r. eexists; reflexivity.
  - inversion HF as [|? ? Hv Hfs']; subst. cbn [snd] in Hv.
    apply andb_true_iff in Hwf. destruct Hwf as [Hn Hwf]. apply String.eqb_eq in Hn. subst tname.
    cbn [write_fields] in Hw. cbn [read_comp].
    destruct (mem name skip) eqn:Hm.
    + apply andb_true_iff in Hwf. destruct Hwf as [He Hwf]. apply msg_eqb_eq in He. subst tv.
      destruct (IH Hfs' tfs' closed skip dyn b rest ((name, v) :: acc) a Hwf Hw Hc) as [a' Hr].
      exists a'. rewrite Hr. cbn [rev]. rewrite <- app_assoc. reflexivity.
    + apply andb_true_iff in Hwf. destruct Hwf as [Hfield Hopts].
      destruct (write p v) as [bv|] eqn:Hbv; [|discriminate].
      remember (match options p v with OSkip f => f :: skip | _ => skip end) as skip' eqn:Eskip.
      assert (Hrf : forall bl, ((is_nil fs' || fields_write_nothing p fs' skip') = true -> bl = []) ->
                exists av, read_field (read p) tv (bv ++ bl ++ rest) (dyn_lookup name dyn) = ROk v (bl ++ rest) av).
      { intros bl Hbl. destruct (dyn_lookup name dyn) as [n|].
        - apply andb_true_iff in Hfield. destruct Hfield as [Hfield Hmax].
          apply andb_true_iff in Hfield. destruct Hfield as [Hwv Hlen].
          unfold length_is in Hlen. rewrite (length_write p v bv Hbv) in Hlen. apply N.eqb_eq in Hlen. subst n.
          apply N.leb_le in Hmax. unfold read_field.
          destruct (N.ltb_spec isize_max (nlen bv)) as [Hlt|_]; [lia|].
          unfold nlen. rewrite Nnat.Nat2N.id. rewrite take_app.
          destruct (Hv tv true bv [] Hwv Hbv (fun _ => eq_refl)) as [av Hr]. rewrite app_nil_r in Hr. rewrite Hr.
          eexists; reflexivity.
        - unfold read_field. apply (Hv tv _ bv (bl ++ rest) Hfield Hbv).
          intros Hcl. apply andb_true_iff in Hcl. destruct Hcl as [Hnil Hcl].
          rewrite (Hbl Hnil), (Hc Hcl). reflexivity. }
      assert (Hnil : forall sk bl, write_fields p fs' sk = Some bl -> (is_nil fs' || fields_write_nothing p fs' sk) = true -> bl = []).
      { intros sk bl Hbl Hnil. exact (nothing_fields p fs' sk bl Hnil Hbl). }
      destruct (options p v) as [|f|f k|] eqn:Hopt; [| | |discriminate]; subst skip'.
      * destruct (write_fields p fs' skip) as [bl|] eqn:Hbl; [|discriminate]. inversion Hw; subst b. clear Hw.
        rewrite <- app_assoc. destruct (Hrf bl (Hnil skip bl Hbl)) as [av Hr]. rewrite Hr. cbv beta iota. rewrite Hopt.
        destruct (IH Hfs' tfs' closed skip dyn bl rest ((name, v) :: acc) (N.max a av) Hopts Hbl Hc) as [a' Hr'].
        exists a'. rewrite Hr'. cbn [rev]. rewrite <- app_assoc. reflexivity.
      * destruct (write_fields p fs' (f :: skip)) as [bl|] eqn:Hbl; [|discriminate]. inversion Hw; subst b. clear Hw.
        rewrite <- app_assoc. destruct (Hrf bl (Hnil (f :: skip) bl Hbl)) as [av Hr]. rewrite Hr. cbv beta iota. rewrite Hopt.
        destruct (IH Hfs' tfs' closed (f :: skip) dyn bl rest ((name, v) :: acc) (N.max a av) Hopts Hbl Hc) as [a' Hr'].
        exists a'. rewrite Hr'. cbn [rev]. rewrite <- app_assoc. reflexivity.
      * destruct (write_fields p fs' skip) as [bl|] eqn:Hbl; [|discriminate]. inversion Hw; subst b. clear Hw.
        rewrite <- app_assoc. destruct (Hrf bl (Hnil skip bl Hbl)) as [av Hr]. rewrite Hr. cbv beta iota. rewrite Hopt.
        destruct (IH Hfs' tfs' closed skip ((f, k) :: dyn) bl rest ((name, v) :: acc) (N.max a av) Hopts Hbl Hc) as [a' Hr'].
        exists a'. rewrite Hr'. cbn [rev]. rewrite <- app_assoc. reflexivity.
Qed.

Lemma rw_array p tmpl mk : fails_on_empty p tmpl = true ->
  forall elems, Forall (rw_ok p) elems ->
  forall b fuel acc a,
    wf_elems p (wf p) tmpl elems = true -> write_list p elems = Some b -> (List.length b < fuel)%nat ->
    exists a', read_array (read p tmpl) mk fuel b acc a = ROk (mk (rev acc ++ elems)) [] a'.
Proof.
  intros Hfe. induction elems as [|x l' IH]; intros HF b fuel acc a Hwf Hw Hfuel;
    (destruct fuel as [|fuel]; [lia|]); cbn [read_array].
  - cbn [write_list] in Hw. inversion Hw; subst b. unfold fails_on_empty in Hfe.
    destruct (read p tmpl []) as [? ? ?|e r a'| |]; try discriminate.
    destruct r; [|discriminate]. rewrite app_nil_r. eexists; reflexivity.
  - inversion HF as [|? ? Hx Hl']; subst.
    cbn [wf_elems] in Hwf. apply andb_true_iff in Hwf. destruct Hwf as [Hwf Hwl].
    apply andb_true_iff in Hwf. destruct Hwf as [Hwe Hne].
    cbn [write_list] in Hw.
    destruct (write p x) as [bx|] eqn:Hbx; [|discriminate].
    destruct (write_list p l') as [bl|] eqn:Hbl; [|discriminate].
    inversion Hw; subst b. clear Hw.
    unfold writes_nonempty in Hne. rewrite Hbx in Hne. destruct bx as [|c bx']; [discriminate|].
    destruct (Hx tmpl false (c :: bx') bl Hwe Hbx) as [ae Hr]; [intros Hd; discriminate|].
    rewrite Hr.
    destruct (Nat.eqb_spec (List.length bl) (List.length ((c :: bx') ++ bl))) as [Heq|_].
    { rewrite app_length in Heq. cbn [List.length] in Heq. lia. }
    assert (Hf' : (List.length bl < fuel)%nat).
    { rewrite app_length in Hfuel. cbn [List.length] in Hfuel. lia. }
    destruct (IH Hl' bl fuel (x :: acc) (N.max a ae) Hwl eq_refl Hf') as [a' Hr'].
    exists a'. rewrite Hr'. cbn [rev]. rewrite <- app_assoc. reflexivity.
Qed.

Lemma rw_all p m : rw_ok p m.
Proof.
  induction m using msg_ind'; intros t closed b0 rest Hwf Hw Hc.
  - (* u8 *)
    destruct t; cbn [wf] in Hwf; try discriminate.
    cbn [write] in Hw. inversion Hw; subst b0. cbn [read app]. eexists; reflexivity.
  - (* u16 *)
    destruct t as [|e' v'| | | | | | | |]; cbn [wf] in Hwf; try discriminate.
    apply andb_true_iff in Hwf. destruct Hwf as [He Hv]. apply endian_eqb_eq in He. subst e'. apply N.ltb_lt in Hv.
    cbn [write] in Hw. inversion Hw; subst b0.
    destruct e; unfold enc16, be16, le16; cbn [read app]; [rewrite be16_of by exact Hv|rewrite le16_of by exact Hv];
      eexists; reflexivity.
  - (* u32 *)
    destruct t as [| |e' v'| | | | | | |]; cbn [wf] in Hwf; try discriminate.
    apply andb_true_iff in Hwf. destruct Hwf as [He Hv]. apply endian_eqb_eq in He. subst e'. apply N.ltb_lt in Hv.
    cbn [write] in Hw. inversion Hw; subst b0.
    destruct e; unfold enc32, be32, le32; cbn [read app]; [rewrite be32_of by exact Hv|rewrite le32_of by exact Hv];
      eexists; reflexivity.
  - (* bytes *)
    destruct t as [| | |tb| | | | | |]; cbn [wf] in Hwf; try discriminate.
    cbn [write] in Hw. inversion Hw; subst b0. cbn [read].
    destruct tb as [|t0 tb'].
    + rewrite (Hc Hwf). rewrite app_nil_r. eexists; reflexivity.
    + apply Nat.eqb_eq in Hwf. rewrite Hwf. rewrite take_app. eexists; reflexivity.
  - (* trame *)
    destruct t as [| | | |tl| | | | |]; cbn [wf] in Hwf; try discriminate.
    rewrite write_trame_eq in Hw. cbn [read].
    destruct (rw_trame p l H tl closed b0 rest [] 0 Hwf Hw Hc) as [a' Hr]. exists a'. exact Hr.
  - (* component *)
    destruct t as [| | | | |tfs| | | |]; cbn [wf] in Hwf; try discriminate.
    rewrite write_comp_eq in Hw. cbn [read].
    destruct (rw_fields p fs H tfs closed [] [] b0 rest [] 0 Hwf Hw Hc) as [a' Hr]. exists a'. exact Hr.
  - (* check *)
    destruct t as [| | | | | |tv| | |]; cbn [wf] in Hwf; try discriminate.
    apply andb_true_iff in Hwf. destruct Hwf as [Hwv Hck].
    cbn [write] in Hw. destruct (IHm tv closed b0 rest Hwv Hw Hc) as [a Hr].
    cbn [read]. rewrite Hr, Hck. eexists; reflexivity.
  - (* dyn *)
    destruct t as [| | | | | | |tv c'| |]; cbn [wf] in Hwf; try discriminate.
    apply andb_true_iff in Hwf. destruct Hwf as [Hcl Hwv]. apply clo_eqb_eq in Hcl. subst c'.
    cbn [write] in Hw. destruct (IHm tv closed b0 rest Hwv Hw Hc) as [a Hr].
    cbn [read]. rewrite Hr. eexists; reflexivity.
  - (* None *)
    destruct t as [| | | | | | | |[tv|]|]; cbn [wf] in Hwf; try discriminate.
    + apply andb_true_iff in Hwf. destruct Hwf as [Hcl Hfe].
      cbn [write] in Hw. inversion Hw; subst b0. rewrite (Hc Hcl). cbn [app read].
      unfold fails_on_empty in Hfe. destruct (read p tv []) as [? ? ?|e r a| |]; try discriminate.
      destruct r; [|discriminate]. eexists; reflexivity.
    + cbn [write] in Hw. inversion Hw; subst b0. cbn [app read]. eexists; reflexivity.
  - (* Some *)
    destruct t as [| | | | | | | |[tv|]|]; cbn [wf] in Hwf; try discriminate.
    cbn [write] in Hw. destruct (IHm tv closed b0 rest Hwf Hw Hc) as [a Hr].
    cbn [read]. rewrite Hr. eexists; reflexivity.
  - (* array written with the factory missing: never wf *)
    destruct t as [| | | | | | | | |[|te tl] [tmpl|]]; cbn [wf] in Hwf; try discriminate.
    rewrite andb_false_r in Hwf. discriminate.
  - (* array *)
    rename m into f.
    destruct t as [| | | | | | | | |[|te tl] [tmpl|]]; cbn [wf] in Hwf; try discriminate.
    apply andb_true_iff in Hwf. destruct Hwf as [Hwf Hwe].
    apply andb_true_iff in Hwf. destruct Hwf as [Hwf Hfe].
    apply andb_true_iff in Hwf. destruct Hwf as [Hcl Heq].
    apply msg_eqb_eq in Heq. subst f.
    rewrite write_array_eq in Hw. rewrite (Hc Hcl), app_nil_r. cbn [read].
    destruct (rw_array p tmpl (fun l0 => MArray ([] ++ l0) (Some tmpl)) Hfe l H b0 (S (List.length b0)) [] 0 Hwe Hw
                (Nat.lt_succ_diag_r _)) as [a' Hr].
    exists a'. exact Hr.
Qed.

(* THE ROUND TRIP: reading the written bytes (followed by arbitrary [rest] when the message
   is self-delimiting, by nothing when it relies on a bounded reader) into the empty
   template reproduces m exactly and leaves exactly [rest]. *)
Theorem read_write : forall p t m closed b rest,
  wf p closed t m = true -> write p m = Some b -> (closed = true -> rest = []) ->
  exists a, read p t (b ++ rest) = ROk m rest a.
Proof. intros p t m closed b rest. apply rw_all. Qed.

(* reported length = bytes written = bytes consumed *)
Corollary read_write_length : forall p t m closed b rest,
  wf p closed t m = true -> write p m = Some b -> (closed = true -> rest = []) ->
  mlength p m = Some (nlen b) /\
  exists a, read p t (b ++ rest) = ROk m rest a /\ nlen (b ++ rest) = nlen b + nlen rest.
Proof.
  intros p t m closed b rest Hwf Hw Hc. split; [apply length_write; exact Hw|].
  destruct (read_write p t m closed b rest Hwf Hw Hc) as [a Hr]. exists a. split; [exact Hr|apply nlen_app].
Qed.

(* ---- a message accepted by the checker is always writable (no closure traps) ---- *)
Definition wd_ok (p : prof) (m : msg) : Prop :=
  forall t closed, wf p closed t m = true -> exists b, write p m = Some b.

Lemma wd_trame p l : Forall (wd_ok p) l ->
  forall tl closed, wf_trame p (wf p) closed l tl = true -> exists b, write_list p l = Some b.
Proof.
  induction l as [|x l' IH]; intros HF tl closed Hwf; destruct tl as [|tx tl']; cbn [wf_trame] in Hwf; try discriminate.
  - eexists; reflexivity.
  - inversion HF as [|? ? Hx Hl']; subst. apply andb_true_iff in Hwf. destruct Hwf as [Hwx Hwl].
    destruct (Hx _ _ Hwx) as [bx Hbx]. destruct (IH Hl' _ _ Hwl) as [bl Hbl].
    cbn [write_list]. rewrite Hbx, Hbl. eexists; reflexivity.
Qed.

Lemma wd_fields p fs : Forall (fun nv => wd_ok p (snd nv)) fs ->
  forall tfs closed skip dyn, wf_fields p (wf p) closed fs tfs skip dyn = true ->
  exists b, write_fields p fs skip = Some b.
Proof.
  induction fs as [|[name v] fs' IH]; intros HF tfs closed skip dyn Hwf;
    destruct tfs as [|[tname tv] tfs']; cbn [wf_fields] in Hwf; try discriminate.
  - eexists; reflexivity.
  - inversion HF as [|? ? Hv Hfs']; subst. cbn [snd] in Hv.
    apply andb_true_iff in Hwf. destruct Hwf as [_ Hwf]. cbn [write_fields].
    destruct (mem name skip).
    + apply andb_true_iff in Hwf. destruct Hwf as [_ Hwf]. exact (IH Hfs' _ _ _ _ Hwf).
    + apply andb_true_iff in Hwf. destruct Hwf as [Hfield Hopts].
      assert (Hbv : exists bv, write p v = Some bv).
      { destruct (dyn_lookup name dyn) as [n|].
        - apply andb_true_iff in Hfield. destruct Hfield as [Hfield _].
          apply andb_true_iff in Hfield. destruct Hfield as [Hwv _]. exact (Hv _ _ Hwv).
        - exact (Hv _ _ Hfield). }
      destruct Hbv as [bv Hbv]. rewrite Hbv.
      destruct (options p v) as [|f|f k|]; [| | |discriminate];
        destruct (IH Hfs' _ _ _ _ Hopts) as [bl Hbl]; rewrite Hbl; eexists; reflexivity.
Qed.

Lemma wd_elems p wfr tmpl l : wf_elems p wfr tmpl l = true -> exists b, write_list p l = Some b.
Proof.
  induction l as [|x l' IH]; intros Hwf; cbn [wf_elems] in Hwf; [eexists; reflexivity|].
  apply andb_true_iff in Hwf. destruct Hwf as [Hwf Hwl].
  apply andb_true_iff in Hwf. destruct Hwf as [_ Hne].
  destruct (IH Hwl) as [bl Hbl]. unfold writes_nonempty in Hne. cbn [write_list].
  destruct (write p x) as [bx|]; [|discriminate]. rewrite Hbl. eexists; reflexivity.
Qed.

Lemma wd_all p m : wd_ok p m.
Proof.
  induction m using msg_ind'; intros t closed Hwf.
  - eexists; reflexivity.
  - eexists; reflexivity.
  - eexists; reflexivity.
  - eexists; reflexivity.
  - destruct t as [| | | |tl| | | | |]; cbn [wf] in Hwf; try discriminate.
    rewrite write_trame_eq. exact (wd_trame p l H _ _ Hwf).
  - destruct t as [| | | | |tfs| | | |]; cbn [wf] in Hwf; try discriminate.
    rewrite write_comp_eq. exact (wd_fields p fs H _ _ _ _ Hwf).
  - destruct t as [| | | | | |tv| | |]; cbn [wf] in Hwf; try discriminate.
    apply andb_true_iff in Hwf. destruct Hwf as [Hwv _]. exact (IHm _ _ Hwv).
  - destruct t as [| | | | | | |tv c'| |]; cbn [wf] in Hwf; try discriminate.
    apply andb_true_iff in Hwf. destruct Hwf as [_ Hwv]. exact (IHm _ _ Hwv).
  - eexists; reflexivity.
  - destruct t as [| | | | | | | |[tv|]|]; cbn [wf] in Hwf; try discriminate. exact (IHm _ _ Hwf).
  - destruct t as [| | | | | | | | |[|te tl] [tmpl|]]; cbn [wf] in Hwf; try discriminate.
    rewrite andb_false_r in Hwf. discriminate.
  - destruct t as [| | | | | | | | |[|te tl] [tmpl|]]; cbn [wf] in Hwf; try discriminate.
    apply andb_true_iff in Hwf. destruct Hwf as [_ Hwe].
    rewrite write_array_eq. exact (wd_elems p _ _ _ Hwe).
Qed.

Theorem wf_write_defined : forall p t m closed, wf p closed t m = true -> exists b, write p m = Some b.
Proof. intros p t m closed. apply wd_all. Qed.

(* everything at once: a checked message is writable, its length is the number of bytes
   written, and reading those bytes back gives the message and consumes exactly them *)
Theorem read_write_total : forall p t m closed,
  wf p closed t m = true ->
  exists b, write p m = Some b /\ mlength p m = Some (nlen b) /\
            forall rest, (closed = true -> rest = []) -> exists a, read p t (b ++ rest) = ROk m rest a.
Proof.
  intros p t m closed Hwf. destruct (wf_write_defined p t m closed Hwf) as [b Hb].
  exists b. split; [exact Hb|]. split; [apply length_write; exact Hb|].
  intros rest Hc. exact (read_write p t m closed b rest Hwf Hb Hc).
Qed.

(* ================================================================ non-vacuity: wf holds on every node kind *)
(* executable statement of the round trip on one instance (used to cross-check the examples) *)
Definition roundtrips (p : prof) (t m : msg) (rest : bytes) : bool :=
  match write p m with
  | Some b => match read p t (b ++ rest) with
              | ROk m' r _ => msg_eqb m' m && bytes_eqb r rest
              | _ => false
              end
  | None => false
  end.

Example ex_u8 : wf Debug false (MU8 0) (MU8 7) = true /\ roundtrips Debug (MU8 0) (MU8 7) [170] = true.
Proof. split; vm_compute; reflexivity. Qed.
Example ex_u16be : wf Debug false (MU16 BE 0) (MU16 BE 513) = true /\ roundtrips Debug (MU16 BE 0) (MU16 BE 513) [170] = true.
Proof. split; vm_compute; reflexivity. Qed.
Example ex_u16le : wf Debug false (MU16 LE 0) (MU16 LE 513) = true /\ roundtrips Debug (MU16 LE 0) (MU16 LE 513) [170] = true.
Proof. split; vm_compute; reflexivity. Qed.
Example ex_u32le : wf Release false (MU32 LE 0) (MU32 LE 305419896) = true
                   /\ roundtrips Release (MU32 LE 0) (MU32 LE 305419896) [170] = true.
Proof. split; vm_compute; reflexivity. Qed.
Example ex_u32be : wf Release false (MU32 BE 0) (MU32 BE 305419896) = true
                   /\ roundtrips Release (MU32 BE 0) (MU32 BE 305419896) [170] = true.
Proof. split; vm_compute; reflexivity. Qed.
Example ex_bytes_fixed : wf Debug false (MBytes [0; 0; 0]) (MBytes [1; 2; 3]) = true
                         /\ roundtrips Debug (MBytes [0; 0; 0]) (MBytes [1; 2; 3]) [170] = true.
Proof. split; vm_compute; reflexivity. Qed.
Example ex_bytes_last : wf Debug true (MBytes []) (MBytes [1; 2; 3]) = true
                        /\ roundtrips Debug (MBytes []) (MBytes [1; 2; 3]) [] = true.
Proof. split; vm_compute; reflexivity. Qed.

Definition ex_trame_t := MTrame [MU8 0; MU16 LE 0; MBytes []].
Definition ex_trame_m := MTrame [MU8 1; MU16 LE 2; MBytes [9; 9]].
Example ex_trame : wf Debug true ex_trame_t ex_trame_m = true /\ roundtrips Debug ex_trame_t ex_trame_m [] = true.
Proof. split; vm_compute; reflexivity. Qed.

(* Component with a Size closure: "data" is read through a sub-cursor of "len" bytes, and is not the last field *)
Definition ex_size_t := MComp [("len", MDyn (MU16 LE 0) (CloSize "data" XSelf)); ("data", MBytes []); ("tail", MU8 0)].
Definition ex_size_m := MComp [("len", MDyn (MU16 LE 3) (CloSize "data" XSelf)); ("data", MBytes [1; 2; 3]); ("tail", MU8 5)].
Example ex_comp_size : wf Debug false ex_size_t ex_size_m = true /\ roundtrips Debug ex_size_t ex_size_m [170] = true.
Proof. split; vm_compute; reflexivity. Qed.

(* Component with a SkipIf closure: bit 0 of "hdr" set => "opt" is skipped (keeps its template value) *)
Definition ex_skip_t := MComp [("hdr", MDyn (MU8 0) (CloSkipIf (CBits 0 1 1) "opt")); ("opt", MU16 LE 0); ("x", MU8 0)].
Definition ex_skip_m1 := MComp [("hdr", MDyn (MU8 1) (CloSkipIf (CBits 0 1 1) "opt")); ("opt", MU16 LE 0); ("x", MU8 4)].
Definition ex_skip_m2 := MComp [("hdr", MDyn (MU8 2) (CloSkipIf (CBits 0 1 1) "opt")); ("opt", MU16 LE 77); ("x", MU8 4)].
Example ex_comp_skipped : wf Debug false ex_skip_t ex_skip_m1 = true /\ roundtrips Debug ex_skip_t ex_skip_m1 [170] = true
                          /\ write Debug ex_skip_m1 = Some [1; 4].
Proof. repeat split; vm_compute; reflexivity. Qed.
Example ex_comp_not_skipped : wf Debug false ex_skip_t ex_skip_m2 = true /\ roundtrips Debug ex_skip_t ex_skip_m2 [170] = true
                              /\ write Debug ex_skip_m2 = Some [2; 77; 0; 4].
Proof. repeat split; vm_compute; reflexivity. Qed.

Example ex_check : wf Debug false (MCheck (MU16 LE 1002)) (MCheck (MU16 LE 1002)) = true
                   /\ roundtrips Debug (MCheck (MU16 LE 1002)) (MCheck (MU16 LE 1002)) [170] = true.
Proof. split; vm_compute; reflexivity. Qed.
Example ex_dyn : wf Debug false (MDyn (MU8 0) CloNone) (MDyn (MU8 5) CloNone) = true
                 /\ roundtrips Debug (MDyn (MU8 0) CloNone) (MDyn (MU8 5) CloNone) [170] = true.
Proof. split; vm_compute; reflexivity. Qed.
Example ex_opt_some : wf Debug false (MOpt (Some (MU16 LE 0))) (MOpt (Some (MU16 LE 5))) = true
                      /\ roundtrips Debug (MOpt (Some (MU16 LE 0))) (MOpt (Some (MU16 LE 5))) [170] = true.
Proof. split; vm_compute; reflexivity. Qed.
Example ex_opt_none_trailing : wf Debug true (MOpt (Some (MU16 LE 0))) (MOpt None) = true
                               /\ roundtrips Debug (MOpt (Some (MU16 LE 0))) (MOpt None) [] = true.
Proof. split; vm_compute; reflexivity. Qed.
Example ex_opt_none_none : wf Debug false (MOpt None) (MOpt None) = true.
Proof. reflexivity. Qed.

(* consecutive absent trailing options (TS_UD_SC_CORE without its two optional fields): the first absent
   one is followed by fields that write nothing *)
Definition ex_two_opt_t := MComp [("a", MU8 0); ("b", MOpt (Some (MU16 LE 0))); ("c", MOpt (Some (MU32 LE 0)))].
Definition ex_two_opt_m := MComp [("a", MU8 7); ("b", MOpt None); ("c", MOpt None)].
Example ex_opt_two_absent : wf Debug true ex_two_opt_t ex_two_opt_m = true /\ roundtrips Debug ex_two_opt_t ex_two_opt_m [] = true
                            /\ wf Debug false ex_two_opt_t ex_two_opt_m = false.
Proof. repeat split; vm_compute; reflexivity. Qed.

Definition ex_arr_t := MArray [] (Some (MU16 LE 0)).
Definition ex_arr_m := MArray [MU16 LE 1; MU16 LE 2] (Some (MU16 LE 0)).
Example ex_array : wf Debug true ex_arr_t ex_arr_m = true /\ roundtrips Debug ex_arr_t ex_arr_m [] = true.
Proof. split; vm_compute; reflexivity. Qed.

(* an array of sized components inside a sized field, followed by another field: every construct at once *)
Definition ex_elem (v : bytes) (n : N) :=
  MComp [("n", MDyn (MU8 n) (CloSize "v" XSelf)); ("v", MBytes v)].
Definition ex_all_t :=
  MComp [("total", MDyn (MU16 BE 0) (CloSize "items" XSelf)); ("magic", MCheck (MU32 BE 3405691582));
         ("items", MArray [] (Some (ex_elem [] 0))); ("end", MOpt (Some (MU8 0)))].
Definition ex_all_m :=
  MComp [("total", MDyn (MU16 BE 5) (CloSize "items" XSelf)); ("magic", MCheck (MU32 BE 3405691582));
         ("items", MArray [ex_elem [7; 8] 2; ex_elem [9] 1] (Some (ex_elem [] 0))); ("end", MOpt None)].
Example ex_all : wf Debug true ex_all_t ex_all_m = true /\ roundtrips Debug ex_all_t ex_all_m [] = true.
Proof. split; vm_compute; reflexivity. Qed.

(* the checker is not trivially permissive: each rejected instance really fails to round-trip *)
Example ex_neg_range : wf Debug false (MU16 LE 0) (MU16 LE 65536) = false /\ roundtrips Debug (MU16 LE 0) (MU16 LE 65536) [] = false.
Proof. split; vm_compute; reflexivity. Qed.
Example ex_neg_open_bytes : wf Debug false (MBytes []) (MBytes [1]) = false /\ roundtrips Debug (MBytes []) (MBytes [1]) [170] = false.
Proof. split; vm_compute; reflexivity. Qed.
Example ex_neg_open_opt : wf Debug false (MOpt (Some (MU8 0))) (MOpt None) = false
                          /\ roundtrips Debug (MOpt (Some (MU8 0))) (MOpt None) [170] = false.
Proof. split; vm_compute; reflexivity. Qed.
Example ex_neg_wrong_size :
  let m := MComp [("len", MDyn (MU16 LE 2) (CloSize "data" XSelf)); ("data", MBytes [1; 2; 3]); ("tail", MU8 5)] in
  wf Debug false ex_size_t m = false /\ roundtrips Debug ex_size_t m [] = false.
Proof. split; vm_compute; reflexivity. Qed.
