(* Facts about the concrete cipher model Rc4.v that the NTLM theorems need: the keystream
   does not depend on the data, so (a) the state after processing depends only on the
   length, (b) processing twice from the same state is the identity, (c) processing is
   injective.  Nothing here looks inside rc4_next. *)
From RdpV Require Import Base Rc4.

Lemma lxor_cancel (x k : N) : N.lxor (N.lxor x k) k = x.
Proof. rewrite N.lxor_assoc, N.lxor_nilpotent, N.lxor_0_r. reflexivity. Qed.

Lemma rc4_process_length (l : bytes) : forall r, length (fst (rc4_process r l)) = length l.
Proof.
  induction l as [|x l IH]; intro r; cbn [rc4_process].
  - reflexivity.
  - destruct (rc4_next r) as [k r1]. specialize (IH r1).
    destruct (rc4_process r1 l) as [o r2]. cbn [fst length] in *. f_equal. exact IH.
Qed.

Lemma rc4_state_by_length (a : bytes) :
  forall b r, length a = length b -> snd (rc4_process r a) = snd (rc4_process r b).
Proof.
  induction a as [|x a IH]; intros [|y b] r H; try discriminate; cbn [rc4_process].
  - reflexivity.
  - destruct (rc4_next r) as [k r1]. specialize (IH b r1).
    destruct (rc4_process r1 a) as [o r2]. destruct (rc4_process r1 b) as [o' r2'].
    cbn [snd] in *. apply IH. cbn [length] in H. lia.
Qed.

Lemma rc4_process_twice (l : bytes) :
  forall r, rc4_process r (fst (rc4_process r l)) = (l, snd (rc4_process r l)).
Proof.
  induction l as [|x l IH]; intro r; cbn [rc4_process].
  - reflexivity.
  - destruct (rc4_next r) as [k r1] eqn:E. specialize (IH r1).
    destruct (rc4_process r1 l) as [o r2]. cbn [fst snd] in *.
    cbn [rc4_process]. rewrite E, IH, lxor_cancel. reflexivity.
Qed.

Lemma rc4_process_involutive (l : bytes) r : fst (rc4_process r (fst (rc4_process r l))) = l.
Proof. rewrite rc4_process_twice. reflexivity. Qed.

Lemma rc4_process_inj (a b : bytes) r :
  fst (rc4_process r a) = fst (rc4_process r b) -> a = b.
Proof.
  intro H. rewrite <- (rc4_process_involutive a r), <- (rc4_process_involutive b r), H. reflexivity.
Qed.

Lemma rc4_process_app (a b : bytes) :
  forall r, rc4_process r (a ++ b) =
            (fst (rc4_process r a) ++ fst (rc4_process (snd (rc4_process r a)) b),
             snd (rc4_process (snd (rc4_process r a)) b)).
Proof.
  induction a as [|x a IH]; intro r; cbn [rc4_process app].
  - cbn [fst snd app]. destruct (rc4_process r b). reflexivity.
  - destruct (rc4_next r) as [k r1]. rewrite (IH r1).
    destruct (rc4_process r1 a) as [o r2]. cbn [fst snd app]. reflexivity.
Qed.

(* rc4k decrypts what rc4k encrypted (used by the key-exchange step of C15) *)
Lemma rc4k_involutive (key m c : bytes) : rc4k key m = Ok c -> rc4k key c = Ok m.
Proof.
  unfold rc4k. destruct (rc4_new key) as [h| | |]; cbn [obind]; try discriminate.
  intro H. injection H as <-. rewrite rc4_process_involutive. reflexivity.
Qed.
