(* SPECIFICATION: strict parsers of everything the client writes during network level authentication,
   written from the standards and independent of the emitters (Ntlm.v, LayoutsNtlmAuth.v, CsspGate*.v) and
   of the message interpreter (Msg.v); only Base.v and the parser combinators / string decoders of
   StrictPdu.v are imported.
     MS-NLMP 2.2.1.1  NEGOTIATE_MESSAGE
     MS-NLMP 2.2.1.3  AUTHENTICATE_MESSAGE, 2.2.2.1 AV_PAIR, 2.2.2.7 NTLMv2_CLIENT_CHALLENGE,
                      2.2.2.8 NTLMv2_RESPONSE, 2.2.2.3 / 2.2.2.4 LMv2 response, 2.2.2.10 VERSION
     MS-CSSP 2.2.1    TSRequest (X.690 DER), 2.2.1.1 NegoData, 2.2.1.2 TSCredentials, 2.2.1.2.1 TSPasswordCreds
   Strict: signature and message type; every (Len, MaxLen, BufferOffset) descriptor has Len = MaxLen and
   addresses bytes of the payload, the described fields tile the payload exactly (no gap, no overlap,
   nothing left over) in ANY order (the standard fixes none); fixed-size fields have their size; names are
   UTF-16LE without unpaired surrogates when NTLMSSP_NEGOTIATE_UNICODE is set (else bytes of the OEM code
   page, which no parser can interpret without knowing the page); the AV_PAIR list ends with a zero-length
   MsvAvEOL and nothing follows it; DER uses definite lengths in the minimal form, INTEGERs are minimal,
   every constructed value is consumed exactly, and each parser consumes exactly the token it is given.
   The parsers return the decoded fields.
   Readings (both accepted, nothing else), where the standard's text and the deployed base disagree:
     * VERSION: on the wire when NTLMSSP_NEGOTIATE_VERSION is set; when the flag is clear either absent
       (every pre-Vista client; receivers locate the payload by BufferOffset) or eight zero bytes (the
       letter of 2.2.1.1 / 2.2.1.3);
     * NTLMv2_CLIENT_CHALLENGE: the AV_PAIR list may be followed by four zero bytes (the Z(4) of the
       computation in 3.3.2) or by nothing (the structure of 2.2.2.7);
     * EncryptedRandomSessionKey is 16 bytes when NTLMSSP_NEGOTIATE_KEY_EXCH is set; without the flag the
       fields "SHOULD be zero and MUST be ignored on receipt": any length is accepted;
     * the character set of the names is Unicode iff NTLMSSP_NEGOTIATE_UNICODE is set, else OEM; that the
       NTLM_NEGOTIATE_OEM bit be set in that case (2.2.2.5) is not demanded;
     * the 16-byte MIC is a fixed field of the message (2.2.1.3); whether the MsvAvFlags pair announces it
       is authentication semantics (C15), not syntax;
     * reserved bits of NegotiateFlags and the per-id sizes of AV_PAIR values are not interpreted. *)
From RdpV Require Import Base StrictPdu.
Open Scope list_scope.
Open Scope N_scope.

(* ------------------------------------------------------------------ payload fields *)
(* b[off .. off+len) *)
Definition slice (b : bytes) (off len : N) : option bytes :=
  if off + len <=? nlen b then Some (firstn (N.to_nat len) (skipn (N.to_nat off) b)) else None.

(* a field descriptor (Len, MaxLen, BufferOffset) -> (offset, length) *)
Definition sp_descriptor : parser (N * N) :=
  len <- le16p ;; mx <- le16p ;; off <- le32p ;; guard (len =? mx) ;;; ret (off, len).

Definition f_end (a : N * N) : N := fst a + snd a.
Definition apart (a b : N * N) : bool := (f_end a <=? fst b) || (f_end b <=? fst a).
Fixpoint pairwise_apart (l : list (N * N)) : bool :=
  match l with [] => true | a :: r => forallb (apart a) r && pairwise_apart r end.
Fixpoint total_len (l : list (N * N)) : N := match l with [] => 0 | a :: r => snd a + total_len r end.
(* the fields lie in [start, stop), do not overlap, and their sizes add up to the region: an exact tiling *)
Definition tiles (start stop : N) (l : list (N * N)) : bool :=
  forallb (fun a => (start <=? fst a) && (f_end a <=? stop)) l && pairwise_apart l && (start + total_len l =? stop).

(* ------------------------------------------------------------------ character sets *)
Inductive name :=
| NUnicode (s : list N)      (* UTF-16LE, decoded to Unicode scalar values *)
| NOem (b : bytes).          (* bytes of the (unknown) OEM code page *)

Definition decode_name (unicode : bool) (b : bytes) : option name :=
  if unicode then
    match units_of b with
    | Some u => match utf16_decode u with Some s => Some (NUnicode s) | None => None end
    | None => None
    end
  else Some (NOem b).

(* ------------------------------------------------------------------ MS-NLMP *)
Definition NTLMSSP_SIGNATURE : bytes := [78; 84; 76; 77; 83; 83; 80; 0].     (* "NTLMSSP\0" *)
Definition BIT_UNICODE : N := 0.
Definition BIT_DOMAIN_SUPPLIED : N := 12.
Definition BIT_WORKSTATION_SUPPLIED : N := 13.
Definition BIT_VERSION : N := 25.
Definition BIT_KEY_EXCH : N := 30.

(* VERSION (2.2.2.10): NTLMRevisionCurrent MUST be NTLMSSP_REVISION_W2K3 (0x0F) *)
Definition sp_version : parser bytes := v <- takeN 8 ;; guard (nth 7 v 0 =? 15) ;;; ret v.

(* what stands where the VERSION structure is drawn.  zero_version selects the reading for a clear flag *)
Definition sp_version_slot (flags : N) (zero_version : bool) : parser (option bytes) :=
  if N.testbit flags BIT_VERSION then (v <- sp_version ;; ret (Some v))
  else if zero_version then (const [0; 0; 0; 0; 0; 0; 0; 0] ;;; ret None)
  else ret None.

(* AV_PAIR (2.2.2.1) *)
Definition sp_av_pair : parser (N * bytes) := id <- le16p ;; n <- le16p ;; v <- takeN n ;; ret (id, v).
(* the pairs before MsvAvEOL; ids MsvAvNbComputerName (1) .. MsvChannelBindings (10); MsvAvEOL has AvLen 0 *)
Fixpoint sp_av_list (fuel : nat) : parser (list (N * bytes)) :=
  match fuel with
  | O => fail
  | S f =>
      q <- sp_av_pair ;;
      if fst q =? 0 then (guard (nlen (snd q) =? 0) ;;; ret [])
      else (guard (fst q <=? 10) ;;; tl <- sp_av_list f ;; ret (q :: tl))
  end.

(* NTLMv2_RESPONSE (2.2.2.8) = Response (16) ++ NTLMv2_CLIENT_CHALLENGE (2.2.2.7) *)
Record ntlmv2_response := mkNtResponse {
  r_proof : bytes;                 (* NTProofStr *)
  r_timestamp : bytes;             (* 8 bytes *)
  r_client_challenge : bytes;      (* 8 bytes *)
  r_av_pairs : list (N * bytes) }. (* without the terminating MsvAvEOL *)

Definition sp_ntlmv2_response : parser ntlmv2_response :=
  proof <- takeN 16 ;;
  const [1] ;;; const [1] ;;;                      (* RespType, HiRespType *)
  const [0; 0] ;;; const [0; 0; 0; 0] ;;;          (* Reserved1, Reserved2 *)
  ts <- takeN 8 ;; cc <- takeN 8 ;;
  const [0; 0; 0; 0] ;;;                           (* Reserved3 *)
  n <- remaining ;; av <- sp_av_list (S (N.to_nat n)) ;;
  r <- remaining ;;
  (if r =? 0 then ret tt else const [0; 0; 0; 0]) ;;;
  ret (mkNtResponse proof ts cc av).

Record negotiate_data := mkNegotiate {
  g_flags : N; g_domain : bytes; g_workstation : bytes; g_version : option bytes }.

(* NEGOTIATE_MESSAGE; [tok] is the whole message (the descriptors count from its first byte) *)
Definition sp_negotiate_body (zero_version : bool) (tok : bytes) : parser negotiate_data :=
  const NTLMSSP_SIGNATURE ;;; t <- le32p ;; guard (t =? 1) ;;;
  flags <- le32p ;;
  dom <- sp_descriptor ;; ws <- sp_descriptor ;;
  ver <- sp_version_slot flags zero_version ;;
  pl <- remaining ;;
  let total := nlen tok in
  let dsup := N.testbit flags BIT_DOMAIN_SUPPLIED in
  let wsup := N.testbit flags BIT_WORKSTATION_SUPPLIED in
  (* a name that is not supplied has Len = MaxLen = 0 (its offset is not interpreted) *)
  guard (dsup || (snd dom =? 0)) ;;; guard (wsup || (snd ws =? 0)) ;;;
  guard (tiles (total - pl) total ((if dsup then [dom] else []) ++ (if wsup then [ws] else []))) ;;;
  _payload <- rest ;;
  d <- lift (if dsup then slice tok (fst dom) (snd dom) else Some []) ;;
  w <- lift (if wsup then slice tok (fst ws) (snd ws) else Some []) ;;
  ret (mkNegotiate flags d w ver).

Definition sp_negotiate (tok : bytes) : option negotiate_data :=
  match exactly (sp_negotiate_body false tok) tok with
  | Some d => Some d
  | None => exactly (sp_negotiate_body true tok) tok
  end.

Record authenticate_data := mkAuthenticate {
  a_flags : N; a_version : option bytes; a_mic : bytes;
  a_lm : bytes;                        (* LmChallengeResponse, 24 bytes *)
  a_nt : ntlmv2_response;
  a_domain : name; a_user : name; a_workstation : name;
  a_session_key : bytes }.             (* EncryptedRandomSessionKey *)

(* AUTHENTICATE_MESSAGE; [tok] is the whole message *)
Definition sp_authenticate_body (zero_version : bool) (tok : bytes) : parser authenticate_data :=
  const NTLMSSP_SIGNATURE ;;; t <- le32p ;; guard (t =? 3) ;;;
  lm <- sp_descriptor ;; nt <- sp_descriptor ;; dom <- sp_descriptor ;;
  usr <- sp_descriptor ;; ws <- sp_descriptor ;; key <- sp_descriptor ;;
  flags <- le32p ;;
  ver <- sp_version_slot flags zero_version ;;
  mic <- takeN 16 ;;
  pl <- remaining ;;
  let total := nlen tok in
  guard (tiles (total - pl) total [lm; nt; dom; usr; ws; key]) ;;;
  _payload <- rest ;;
  lmb <- lift (slice tok (fst lm) (snd lm)) ;; guard (snd lm =? 24) ;;;
  ntb <- lift (slice tok (fst nt) (snd nt)) ;; ntr <- lift (exactly sp_ntlmv2_response ntb) ;;
  let unicode := N.testbit flags BIT_UNICODE in
  db <- lift (slice tok (fst dom) (snd dom)) ;; d <- lift (decode_name unicode db) ;;
  ub <- lift (slice tok (fst usr) (snd usr)) ;; u <- lift (decode_name unicode ub) ;;
  wb <- lift (slice tok (fst ws) (snd ws)) ;; w <- lift (decode_name unicode wb) ;;
  kb <- lift (slice tok (fst key) (snd key)) ;;
  guard (negb (N.testbit flags BIT_KEY_EXCH) || (snd key =? 16)) ;;;
  ret (mkAuthenticate flags ver mic lmb ntr d u w kb).

Definition sp_authenticate (tok : bytes) : option authenticate_data :=
  match exactly (sp_authenticate_body false tok) tok with
  | Some d => Some d
  | None => exactly (sp_authenticate_body true tok) tok
  end.

(* ------------------------------------------------------------------ X.690 DER *)
(* definite length, minimal form: short below 128, else the fewest octets (no leading zero) *)
Definition der_length : parser N :=
  b <- u8 ;;
  if b <? 128 then ret b
  else if (129 <=? b) && (b <=? 136) then
    (d <- takeN (b - 128) ;; guard (negb (nth 0 d 0 =? 0)) ;;;
     let n := be_value 0 d in guard (128 <=? n) ;;; ret n)
  else fail.
Definition der_tlv (tag : N) : parser bytes := const [tag] ;;; n <- der_length ;; takeN n.
(* non-negative INTEGER in minimal two's complement *)
Definition der_uint : parser N :=
  c <- der_tlv 2 ;;
  match c with
  | [] => fail
  | [a] => guard (a <? 128) ;;; ret a
  | a :: b :: _ => guard (a <? 128) ;;; guard (negb ((a =? 0) && (b <? 128))) ;;; ret (be_value 0 c)
  end.
Definition der_octets : parser bytes := der_tlv 4.
(* [n] EXPLICIT: a constructed context-specific tag whose content is exactly one value *)
Definition der_explicit {A} (n : N) (m : parser A) : parser A := c <- der_tlv (160 + n) ;; sub m c.
(* OPTIONAL [n] EXPLICIT: present iff the next tag is [n] *)
Definition der_optional {A} (n : N) (m : parser A) : parser (option A) :=
  fun b => match b with
           | t :: _ => if t =? 160 + n then (a <- der_explicit n m ;; ret (Some a)) b else Some (None, b)
           | [] => Some (None, b)
           end.

(* ------------------------------------------------------------------ MS-CSSP *)
Record ts_request_data := mkTsRequest {
  q_version : N;
  q_nego_tokens : option (list bytes);
  q_auth_info : option bytes;
  q_pub_key_auth : option bytes;
  q_error_code : option N;
  q_client_nonce : option bytes }.

(* NegoData ::= SEQUENCE OF SEQUENCE { negoToken [0] OCTET STRING } *)
Definition sp_nego_token : parser bytes := e <- der_tlv 48 ;; sub (der_explicit 0 der_octets) e.
Definition sp_nego_data : parser (list bytes) :=
  c <- der_tlv 48 ;; sub (many (List.length c) sp_nego_token) c.

(* TSRequest ::= SEQUENCE { version [0] INTEGER, negoTokens [1] NegoData OPTIONAL, authInfo [2] OCTET STRING
   OPTIONAL, pubKeyAuth [3] OCTET STRING OPTIONAL, errorCode [4] INTEGER OPTIONAL, clientNonce [5] OCTET
   STRING OPTIONAL } *)
Definition sp_ts_request_fields : parser ts_request_data :=
  v <- der_explicit 0 der_uint ;;
  n <- der_optional 1 sp_nego_data ;;
  a <- der_optional 2 der_octets ;;
  k <- der_optional 3 der_octets ;;
  e <- der_optional 4 der_uint ;;
  cn <- der_optional 5 der_octets ;;
  ret (mkTsRequest v n a k e cn).
Definition sp_ts_request : parser ts_request_data := c <- der_tlv 48 ;; sub sp_ts_request_fields c.

Record ts_password_creds := mkPasswordCreds { w_domain : name; w_user : name; w_password : name }.

(* TSPasswordCreds ::= SEQUENCE { domainName [0] OCTET STRING, userName [1] OCTET STRING, password [2] OCTET
   STRING }; the strings are in the character set the authentication leg negotiated ([unicode]) *)
Definition sp_ts_password_creds_fields (unicode : bool) : parser ts_password_creds :=
  d <- der_explicit 0 der_octets ;; u <- der_explicit 1 der_octets ;; pw <- der_explicit 2 der_octets ;;
  dn <- lift (decode_name unicode d) ;; un <- lift (decode_name unicode u) ;; pn <- lift (decode_name unicode pw) ;;
  ret (mkPasswordCreds dn un pn).
Definition sp_ts_password_creds (unicode : bool) : parser ts_password_creds :=
  c <- der_tlv 48 ;; sub (sp_ts_password_creds_fields unicode) c.

(* TSCredentials ::= SEQUENCE { credType [0] INTEGER, credentials [1] OCTET STRING }; credType 1 = password
   credentials, the octet string is a DER TSPasswordCreds *)
Definition sp_ts_credentials_fields (unicode : bool) : parser ts_password_creds :=
  t <- der_explicit 0 der_uint ;; guard (t =? 1) ;;;
  cr <- der_explicit 1 der_octets ;;
  lift (exactly (sp_ts_password_creds unicode) cr).
Definition sp_ts_credentials (unicode : bool) : parser ts_password_creds :=
  c <- der_tlv 48 ;; sub (sp_ts_credentials_fields unicode) c.

(* ------------------------------------------------------------------ one CredSSP message of the client *)
(* MS-CSSP 3.1.5: the client sends (1) negoTokens with the SPNEGO/NTLM NEGOTIATE, (2) negoTokens with the
   AUTHENTICATE plus pubKeyAuth, (3) authInfo; never an errorCode *)
Inductive nla_pdu :=
| NlaNegotiate (version : N) (g : negotiate_data)
| NlaAuthenticate (version : N) (a : authenticate_data) (pub_key_auth : bytes)
| NlaCredentials (version : N) (auth_info : bytes).

Definition strict_parse_nla (m : bytes) : option nla_pdu :=
  match exactly sp_ts_request m with
  | None => None
  | Some q =>
      match q_error_code q with
      | Some _ => None
      | None =>
          match q_nego_tokens q, q_auth_info q, q_pub_key_auth q with
          | Some [t], None, None =>
              match sp_negotiate t with Some g => Some (NlaNegotiate (q_version q) g) | None => None end
          | Some [t], None, Some k =>
              match sp_authenticate t with Some a => Some (NlaAuthenticate (q_version q) a k) | None => None end
          | None, Some a, None => Some (NlaCredentials (q_version q) a)
          | _, _, _ => None
          end
      end
  end.

(* ------------------------------------------------------------------ any message of the client *)
Inductive client_pdu := CRdp (d : pdu) | CNla (d : nla_pdu).

(* a TPKT frame begins with the version octet 3, a DER TSRequest with the SEQUENCE tag 0x30 *)
Definition strict_parse_client (m : bytes) : option client_pdu :=
  match m with
  | 48 :: _ => match strict_parse_nla m with Some d => Some (CNla d) | None => None end
  | _ => match strict_parse m with Some d => Some (CRdp d) | None => None end
  end.
