(* C04: every PDU the client emits (ClientPdus.v) is accepted by the strict parsers written from
   the standards (StrictPdu.v), and the decoded fields are the configuration's. *)
From RdpV Require Import Base Msg LayoutsGlobal LayoutsConnect Link Tpkt Global RefInput ClientPdus StrictPdu.
Open Scope list_scope.
Open Scope N_scope.

Ltac Zify.zify_post_hook ::= Z.div_mod_to_equations.

(* ================================================================== what must be decoded *)
(* the longest prefix of the name whose UTF-16 form fits [budget] code units *)
Fixpoint fit_units (budget : nat) (s : ustring) : ustring :=
  match s with
  | [] => []
  | c :: r => let k := if c <? 65536 then 1%nat else 2%nat in
              if Nat.leb k budget then c :: fit_units (budget - k) r else []
  end.
(* what a decoder of a null-terminated field sees *)
Fixpoint before_null (s : ustring) : ustring :=
  match s with [] => [] | c :: r => if c =? 0 then [] else c :: before_null r end.
(* MS-RDPBCGR 2.2.1.3.2 clientName: up to 15 characters plus a null terminator *)
Definition wire_name (name : ustring) : ustring := before_null (fit_units 15 name).

Definition expected_core (c : config) (selected : N) : core_data :=
  mkCore 524292 (c_width c) (c_height c) 51713 43523 (c_layout c) 3790 (wire_name (c_name c)) 4 0 12 []
         [51713; 1; 0; 24; 10; 1; 0; 0; 0; selected].

Definition expected_connect_initial (c : config) (selected : N) : pdu :=
  PConnectInitial [34; 2; 0; 1; 0; 1; 65535; 2] [1; 1; 1; 1; 0; 1; 1056; 2] [65535; 64535; 65535; 1; 0; 1; 65535; 2]
                  (mkBlocks (expected_core c selected) (11, 0) (Some [])).

Definition expected_info (swapped : bool) (c : config) (i : server_ids) : pdu :=
  PClientInfo (i_uid i) (i_io i)
    (mkInfo 0 (INFO_FLAGS + (if c_autologon c then INFO_AUTOLOGON else 0)) (c_domain c) (c_user c) (c_password c) [] []
            (if is_rdp_version_5_plus swapped (i_version i) then Some (mkExt 2 [] [] 0 0) else None)).

Definition expected_confirm (c : config) (i : server_ids) : pdu :=
  PConfirmActive (i_uid i) (i_io i) (i_uid i)
    (mkConfirm (i_share i) (utf8 (c_name c)) [1; 2; 3; 4; 8; 12; 13; 15; 16; 17; 20; 26]
               (Some 1045) (Some (24, c_width c, c_height c)) (Some (21, c_layout c, 4, 0, 12))).

Definition expected_finalize (i : server_ids) : list pdu :=
  let u := i_uid i in let s := i_share i in
  [ PSynchronize u (i_io i) u s SERVER_CHANNEL;
    PControl u (i_io i) u s 4 0 0;
    PControl u (i_io i) u s 1 0 0;
    PFontList u (i_io i) u s ].

(* MS-RDPBCGR 2.2.8.1.1.3.1.1.3 / .1.1.1: what a submitted event must carry *)
Definition expected_event (e : input_ev) : in_event :=
  match e with
  | EvPointer x y b down =>
      IMouse ((match b with BLeft => 4096 | BRight => 8192 | BMiddle => 16384 | BNone => 2048 end) + (if down then 32768 else 0)) x y
  | EvKey code down => IKey (if down then 0 else 32768) code
  | EvBitmap => IKey 0 0
  end.
Definition expected_input (i : server_ids) (e : input_ev) : pdu :=
  PInput (i_uid i) (i_io i) (i_uid i) (i_share i) [expected_event e].

Definition expected_session (swapped : bool) (c : config) (i : server_ids) (evs : list input_ev) : list pdu :=
  [ expected_connect_initial c (i_selected i);
    PErectDomain 0 0; PAttachUser;
    PChannelJoin (i_uid i) (i_io i); PChannelJoin (i_uid i) (i_uid i);
    expected_info swapped c i;
    expected_confirm c i ]
  ++ expected_finalize i
  ++ map (expected_input i) evs
  ++ [ PDisconnect 3 ].                       (* rn-user-requested *)

Definition expected (swapped : bool) (c : config) (i : server_ids) (evs : list input_ev) : list pdu :=
  PConnectionRequest (if c_ram c then 1 else 0) (c_offered c) :: expected_session swapped c i evs.

(* ---- the hypotheses: type ranges, and what the length fields can carry ---- *)
Definition sendable (e : input_ev) : Prop :=
  match e with EvPointer x y _ _ => x < 65536 /\ y < 65536 | EvKey c _ => c < 65536 | EvBitmap => False end.

(* user data of the client info PDU / of the confirm-active PDU, in bytes *)
Definition info_size (swapped : bool) (c : config) (i : server_ids) : N :=
  32 + 2 * (nlen (utf16 (c_domain c)) + nlen (utf16 (c_user c)) + nlen (utf16 (c_password c)))
  + (if is_rdp_version_5_plus swapped (i_version i) then 190 else 0).
Definition confirm_size (c : config) : N := 396 + nlen (utf8 (c_name c)).

(* one X.691 length determinant without fragmentation *)
Definition PER_MAX : N := 16383.

Definition valid_cfg (swapped : bool) (c : config) (i : server_ids) : Prop :=
  (* Rust types: String = scalar values, u16 / u32 numbers *)
  Forall scalar (c_name c) /\ Forall scalar (c_domain c) /\ Forall scalar (c_user c) /\ Forall scalar (c_password c) /\
  c_width c < 65536 /\ c_height c < 65536 /\ c_layout c < 4294967296 /\ c_offered c < 4294967296 /\
  i_selected i < 4294967296 /\ i_share i < 4294967296 /\
  (* a user id as read_integer_16(1001) returns it *)
  1001 <= i_uid i <= 65535 /\
  (* the I/O channel id as the u16 field of the server network data carries it *)
  i_io i < 65536 /\
  (* what one PER length determinant can carry *)
  info_size swapped c i <= PER_MAX /\ confirm_size c <= PER_MAX.

(* ================================================================== numbers *)
Lemma le16_of (n : N) : n < 65536 -> of_le16 (u16_lo n) (u16_hi n) = n.
Proof. intros H. unfold of_le16. apply (be16_of n H). Qed.

Lemma le32_of (n : N) : n < 4294967296 ->
  of_le32 (n mod 256) ((n / 256) mod 256) ((n / 65536) mod 256) ((n / 16777216) mod 256) = n.
Proof.
  intros H. unfold of_le32.
  replace (n / 65536) with (n / 256 / 256) by (rewrite N.div_div by lia; reflexivity).
  replace (n / 16777216) with (n / 256 / 256 / 256) by (rewrite !N.div_div by lia; reflexivity).
  pose proof (N.div_mod n 256 ltac:(lia)) as H0.
  pose proof (N.div_mod (n / 256) 256 ltac:(lia)) as H1.
  pose proof (N.div_mod (n / 256 / 256) 256 ltac:(lia)) as H2.
  assert (H3 : n / 256 / 256 / 256 < 256).
  { rewrite !N.div_div by lia. apply N.div_lt_upper_bound; lia. }
  rewrite (N.mod_small _ _ H3).
  set (q1 := n / 256) in *. set (q2 := q1 / 256) in *. set (q3 := q2 / 256) in *.
  set (r0 := n mod 256) in *. set (r1 := q1 mod 256) in *. set (r2 := q2 mod 256) in *.
  clearbody q1 q2 q3 r0 r1 r2. lia.
Qed.

Lemma as_u16_small n : n < 65536 -> as_u16 n = n.
Proof. intros H. unfold as_u16. apply N.mod_small. exact H. Qed.

(* ================================================================== parser steps *)
Lemma bind_step {A B} (m : parser A) (k : A -> parser B) b a r :
  m b = Some (a, r) -> bind m k b = k a r.
Proof. intros H. unfold bind. rewrite H. reflexivity. Qed.

Lemma le16p_app n r : n < 65536 -> le16p (le16 n ++ r) = Some (n, r).
Proof. intros H. unfold le16, le16p. cbn [app]. rewrite le16_of by exact H. reflexivity. Qed.
Lemma be16p_app n r : n < 65536 -> be16p (be16 n ++ r) = Some (n, r).
Proof. intros H. unfold be16, be16p. cbn [app]. rewrite be16_of by exact H. reflexivity. Qed.
Lemma le32p_app n r : n < 4294967296 -> le32p (le32 n ++ r) = Some (n, r).
Proof. intros H. unfold le32, le32p. cbn [app]. rewrite le32_of by exact H. reflexivity. Qed.

Lemma firstn_nlen {A} (x r : list A) : firstn (N.to_nat (nlen x)) (x ++ r) = x.
Proof.
  unfold nlen. rewrite Nat2N.id. rewrite firstn_app, Nat.sub_diag, firstn_all. cbn. apply app_nil_r.
Qed.
Lemma skipn_nlen {A} (x r : list A) : skipn (N.to_nat (nlen x)) (x ++ r) = r.
Proof.
  unfold nlen. rewrite Nat2N.id. rewrite skipn_app, Nat.sub_diag, skipn_all. reflexivity.
Qed.

Lemma takeN_app x r : takeN (nlen x) (x ++ r) = Some (x, r).
Proof.
  unfold takeN. rewrite nlen_app.
  replace (nlen x <=? nlen x + nlen r) with true by (symmetry; apply N.leb_le; lia).
  rewrite firstn_nlen, skipn_nlen. reflexivity.
Qed.
Lemma takeN_app_n n x r : n = nlen x -> takeN n (x ++ r) = Some (x, r).
Proof. intros ->. apply takeN_app. Qed.

Lemma bytes_eqb_refl x : bytes_eqb x x = true.
Proof. induction x as [|a x IH]; cbn; [reflexivity|]. rewrite N.eqb_refl, IH. reflexivity. Qed.

Lemma const_app c r : const c (c ++ r) = Some (tt, r).
Proof. unfold const. rewrite (bind_step _ _ _ _ _ (takeN_app c r)). unfold guard. rewrite bytes_eqb_refl. reflexivity. Qed.

Lemma guard_true c b : c = true -> guard c b = Some (tt, b).
Proof. intros ->. reflexivity. Qed.

(* one step of a parser in a goal [bind m k input = _]: rewrite with the fact about [m] *)
Ltac pstep H := rewrite (bind_step _ _ _ _ _ H); cbv beta.
Ltac solve_guard :=
  first [ reflexivity
        | apply N.eqb_eq; first [reflexivity | lia]
        | apply N.leb_le; lia
        | apply N.ltb_lt; lia ].
Ltac pguard :=
  match goal with
  | |- context [bind (guard ?c) ?k ?b] =>
      let H := fresh "Hg" in
      assert (H : c = true) by solve_guard;
      rewrite (bind_step (guard c) k b tt b (guard_true c b H)); cbv beta; clear H
  end.

(* ================================================================== PER length, TPKT, X.224 *)
Lemma lor_bit15 n : n < 32768 -> N.lor n 32768 = n + 32768.
Proof.
  intros H.
  assert (Hd : N.land n 32768 = 0).
  { apply N.bits_inj. intros k. rewrite N.land_spec, N.bits_0.
    destruct (N.eq_dec k 15) as [->|Hk].
    - replace (N.testbit n 15) with false; [reflexivity|]. symmetry.
      apply N.bits_above_log2. destruct (N.eq_dec n 0) as [->|Hn]; [cbn; lia|].
      apply N.log2_lt_pow2; lia.
    - replace (N.testbit 32768 k) with false; [apply andb_false_r|].
      change 32768 with (2 ^ 15). symmetry. apply N.pow2_bits_false. congruence. }
  rewrite <- N.lxor_lor by exact Hd. rewrite N.add_nocarry_lxor by exact Hd. reflexivity.
Qed.

Lemma hi_lo_bit15 n : n < 32768 ->
  u16_hi (N.lor n 32768) = 128 + n / 256 /\ u16_lo (N.lor n 32768) = n mod 256.
Proof.
  intros H. rewrite lor_bit15 by exact H. unfold u16_hi, u16_lo. change 32768 with (128 * 256).
  rewrite N.div_add by lia. rewrite N.mod_add by lia.
  assert (n / 256 < 128) by (apply N.div_lt_upper_bound; lia).
  rewrite (N.mod_small (n / 256 + 128) 256) by lia. split; lia.
Qed.

Lemma per_length_write n r : n <= PER_MAX -> per_length (per_write_length (as_u16 n) ++ r) = Some (n, r).
Proof.
  unfold PER_MAX. intros H. rewrite as_u16_small by lia. unfold per_write_length.
  destruct (127 <? n) eqn:E.
  - apply N.ltb_lt in E. unfold be16. cbn [app]. unfold per_length.
    destruct (hi_lo_bit15 n ltac:(lia)) as [Hh Hl]. rewrite Hh, Hl.
    assert (n / 256 < 64) by (apply N.div_lt_upper_bound; lia).
    rewrite (bind_step _ _ (_ :: _) (128 + n / 256) ((n mod 256) :: r) eq_refl).
    replace (128 + n / 256 <? 128) with false by (symmetry; apply N.ltb_ge; lia).
    replace (128 + n / 256 <? 192) with true by (symmetry; apply N.ltb_lt; lia).
    rewrite (bind_step _ _ (_ :: _) (n mod 256) r eq_refl).
    replace ((128 + n / 256 - 128) * 256 + n mod 256) with n
      by (replace (128 + n / 256 - 128) with (n / 256) by lia; rewrite N.mul_comm; apply N.div_mod; lia).
    pguard. reflexivity.
  - apply N.ltb_ge in E. cbn [app]. unfold per_length.
    rewrite (bind_step _ _ (_ :: _) n r eq_refl).
    replace (n <? 128) with true by (symmetry; apply N.ltb_lt; lia). reflexivity.
Qed.

(* the bound is the real one: from 16384 on the client writes the 15-bit form RDP stacks use
   (0x80 | hi, lo); under X.691 a first length byte of 0xC0 and above announces a fragmented
   encoding, which the strict parser refuses *)
Lemma per_length_beyond n r : 16384 <= n < 32768 -> per_length (per_write_length n ++ r) = None.
Proof.
  intros H. unfold per_write_length.
  replace (127 <? n) with true by (symmetry; apply N.ltb_lt; lia).
  unfold be16. cbn [app]. unfold per_length.
  destruct (hi_lo_bit15 n ltac:(lia)) as [Hh Hl]. rewrite Hh.
  assert (64 <= n / 256) by (apply N.div_le_lower_bound; lia).
  assert (n / 256 < 128) by (apply N.div_lt_upper_bound; lia).
  rewrite (bind_step _ _ (_ :: _) (128 + n / 256) _ eq_refl).
  replace (128 + n / 256 <? 128) with false by (symmetry; apply N.ltb_ge; lia).
  replace (128 + n / 256 <? 192) with false by (symmetry; apply N.ltb_ge; lia).
  reflexivity.
Qed.

Lemma sp_tpkt_frame m : nlen m + 4 < 65536 -> sp_tpkt (tpkt_frame m) = Some m.
Proof.
  intros H. unfold sp_tpkt, tpkt_frame, exactly.
  rewrite (bind_step _ _ _ _ _ eq_refl).
  change ([3; 0] ++ be16 (nlen m + 4) ++ m) with ([3; 0] ++ (be16 (nlen m + 4) ++ m)).
  pstep (const_app [3; 0] (be16 (nlen m + 4) ++ m)).
  pstep (be16p_app (nlen m + 4) m H).
  assert (Hn : (nlen m + 4 =? nlen ([3; 0] ++ be16 (nlen m + 4) ++ m)) = true).
  { apply N.eqb_eq. rewrite !nlen_app. unfold be16. change (nlen [3; 0]) with 2.
    change (nlen [u16_hi (nlen m + 4); u16_lo (nlen m + 4)]) with 2. lia. }
  rewrite (bind_step _ _ _ _ _ (guard_true _ _ Hn)). reflexivity.
Qed.

(* ================================================================== X.224 data, MCS send-data-request *)
Lemma x224_frame_ok m : nlen m + 7 < 65536 -> x224_frame m = Ok (tpkt_frame (X224_DATA ++ m)).
Proof.
  unfold x224_frame. intros H.
  replace (65535 - 4 <? nlen (X224_DATA ++ m)) with false; [reflexivity|].
  symmetry; apply N.ltb_ge. rewrite nlen_app. change (nlen X224_DATA) with 3. lia.
Qed.

Lemma strict_parse_x224 m : nlen m + 7 < 65536 -> strict_parse (tpkt_frame (X224_DATA ++ m)) = exactly sp_mcs m.
Proof.
  intros H. unfold strict_parse.
  rewrite sp_tpkt_frame by (rewrite nlen_app; change (nlen X224_DATA) with 3; lia).
  unfold X224_DATA. cbn [app]. unfold exactly, sp_x224_data.
  change (2 :: 240 :: 128 :: m) with ([2; 240; 128] ++ m).
  rewrite (bind_step _ _ _ _ _ (const_app [2; 240; 128] m)). reflexivity.
Qed.

Lemma sp_mcs_domain h r : h <> 127 -> sp_mcs (h :: r) = sp_domain_pdu (h :: r).
Proof.
  intros Hh. unfold sp_mcs.
  destruct h as [|ph]; [reflexivity|].
  do 7 (destruct ph as [ph|ph|]; try reflexivity). exfalso. apply Hh. reflexivity.
Qed.

Lemma sp_domain_sdr uid io m :
  1001 <= uid <= 65535 -> io < 65536 -> nlen m <= PER_MAX ->
  sp_domain_pdu ([100] ++ be16 (uid - 1001) ++ be16 io ++ [112] ++ per_write_length (as_u16 (nlen m)) ++ m)
  = sp_user_data uid io m.
Proof.
  intros Hu Hio Hm. cbn [app].
  change (sp_domain_pdu (100 :: be16 (uid - 1001) ++ be16 io ++ 112 :: per_write_length (as_u16 (nlen m)) ++ m))
    with ((guard true ;;; i <- be16p ;; guard (i + 1001 <=? 65535) ;;; ch <- be16p ;;
           ps <- u8 ;; guard ((N.land ps 48 =? 48) && (N.land ps 15 =? 0)) ;;;
           n <- per_length ;; r <- remaining ;; guard (n =? r) ;;; sp_user_data (i + 1001) ch)
          (be16 (uid - 1001) ++ be16 io ++ 112 :: per_write_length (as_u16 (nlen m)) ++ m)).
  pguard.
  pstep (be16p_app (uid - 1001) (be16 io ++ 112 :: per_write_length (as_u16 (nlen m)) ++ m) ltac:(lia)).
  pguard.
  pstep (be16p_app io (112 :: per_write_length (as_u16 (nlen m)) ++ m) ltac:(lia)).
  rewrite (bind_step _ _ (112 :: _) 112 _ eq_refl).
  pguard.
  pstep (per_length_write (nlen m) m Hm).
  rewrite (bind_step _ _ m (nlen m) m eq_refl).
  pguard.
  replace (uid - 1001 + 1001) with uid by lia. reflexivity.
Qed.

Lemma nlen_be16 n : nlen (be16 n) = 2. Proof. reflexivity. Qed.
Lemma nlen_le16 n : nlen (le16 n) = 2. Proof. reflexivity. Qed.
Lemma nlen_le32 n : nlen (le32 n) = 4. Proof. reflexivity. Qed.
Lemma nlen_pwl n : nlen (per_write_length n) <= 2.
Proof. unfold per_write_length. destruct (127 <? n); [rewrite nlen_be16; lia|]. change (nlen [n]) with 1. lia. Qed.

(* a frame built by Global.mcs_frame around [b], whose user data parses to [d] *)
Lemma parse_mcs_frame c i b d :
  1001 <= i_uid i <= 65535 -> i_io i < 65536 -> nlen b <= PER_MAX ->
  sp_user_data (i_uid i) (i_io i) b = Some (d, []) ->
  strict_parse (mcs_frame (session_of c i) b) = Some d.
Proof.
  intros Hu Hio Hb Hd. unfold mcs_frame. cbn [user_id channel_id session_of].
  change ([2; 240; 128] ++ [100] ++ be16 (i_uid i - 1001) ++ be16 (i_io i) ++ [112] ++ per_write_length (as_u16 (nlen b)) ++ b)
    with (X224_DATA ++ ([100] ++ be16 (i_uid i - 1001) ++ be16 (i_io i) ++ [112] ++ per_write_length (as_u16 (nlen b)) ++ b)).
  assert (Hlen : nlen ([100] ++ be16 (i_uid i - 1001) ++ be16 (i_io i) ++ [112] ++ per_write_length (as_u16 (nlen b)) ++ b) + 7 < 65536).
  { rewrite !nlen_app, !nlen_be16. pose proof (nlen_pwl (as_u16 (nlen b))). unfold PER_MAX in Hb.
    change (nlen [100]) with 1. change (nlen [112]) with 1. lia. }
  rewrite strict_parse_x224 by exact Hlen.
  unfold exactly.
  replace (sp_mcs ([100] ++ be16 (i_uid i - 1001) ++ be16 (i_io i) ++ [112] ++ per_write_length (as_u16 (nlen b)) ++ b))
    with (sp_domain_pdu ([100] ++ be16 (i_uid i - 1001) ++ be16 (i_io i) ++ [112] ++ per_write_length (as_u16 (nlen b)) ++ b))
    by (symmetry; apply sp_mcs_domain; discriminate).
  rewrite sp_domain_sdr by assumption. rewrite Hd. reflexivity.
Qed.

Lemma mcs_frame_len c i b : nlen b <= PER_MAX -> nlen (mcs_frame (session_of c i) b) <= 65535.
Proof.
  intros Hb. unfold mcs_frame, tpkt_frame. rewrite !nlen_app, !nlen_be16. pose proof (nlen_pwl (as_u16 (nlen b))).
  unfold PER_MAX in Hb. change (nlen [3; 0]) with 2. change (nlen [2; 240; 128]) with 3.
  change (nlen [100]) with 1. change (nlen [112]) with 1. lia.
Qed.

Lemma checked_ok f : nlen f <= 65535 -> checked (Ok f) = Ok f.
Proof.
  intros H. unfold checked. cbn [obind].
  replace (65535 <? nlen f) with false; [reflexivity|]. symmetry. apply N.ltb_ge. exact H.
Qed.

(* ================================================================== fixed-size PDUs *)
Lemma emit_erect_domain_parses :
  exists f, emit_erect_domain = Ok f /\ strict_parse f = Some (PErectDomain 0 0).
Proof. eexists. split; [vm_compute; reflexivity|]. vm_compute. reflexivity. Qed.

Lemma emit_attach_user_parses :
  exists f, emit_attach_user = Ok f /\ strict_parse f = Some PAttachUser.
Proof. eexists. split; [vm_compute; reflexivity|]. vm_compute. reflexivity. Qed.

Lemma emit_disconnect_parses :
  exists f, emit_disconnect = Ok f /\ strict_parse f = Some (PDisconnect 3).
Proof. eexists. split; [vm_compute; reflexivity|]. vm_compute. reflexivity. Qed.

Lemma emit_channel_join_parses uid ch :
  1001 <= uid <= 65535 -> ch < 65536 ->
  exists f, emit_channel_join uid ch = Ok f /\ strict_parse f = Some (PChannelJoin uid ch).
Proof.
  intros Hu Hc. unfold emit_channel_join.
  assert (Hl : nlen ([56] ++ be16 (uid - 1001) ++ be16 ch) + 7 < 65536)
    by (rewrite !nlen_app, !nlen_be16; change (nlen [56]) with 1; lia).
  rewrite x224_frame_ok by exact Hl. eexists. split; [reflexivity|].
  rewrite strict_parse_x224 by exact Hl. unfold exactly. cbn [app].
  rewrite sp_mcs_domain by discriminate.
  change (sp_domain_pdu (56 :: be16 (uid - 1001) ++ be16 ch))
    with ((guard true ;;; i <- be16p ;; guard (i + 1001 <=? 65535) ;;; c <- be16p ;; ret (PChannelJoin (i + 1001) c))
          (be16 (uid - 1001) ++ be16 ch)).
  pguard.
  pstep (be16p_app (uid - 1001) (be16 ch) ltac:(lia)).
  pguard.
  replace (be16 ch) with (be16 ch ++ []) by apply app_nil_r.
  pstep (be16p_app ch [] Hc).
  replace (uid - 1001 + 1001) with uid by lia. reflexivity.
Qed.

(* ================================================================== data PDUs: synchronize, control, font list, input *)
(* the share-control PDU as a function of its variable bytes: user id (u0 u1), share id (s0..s3) *)
Definition data_pdu_bytes (total t2 u0 u1 s0 s1 s2 s3 : N) (body : bytes) : bytes :=
  [total; 0; 23; 0; u0; u1; s0; s1; s2; s3; 0; 1; total; 0; t2; 0; 0; 0] ++ body.

Lemma nlen_data_pdu_bytes total t2 u0 u1 s0 s1 s2 s3 body :
  nlen (data_pdu_bytes total t2 u0 u1 s0 s1 s2 s3 body) = 18 + nlen body.
Proof. unfold data_pdu_bytes. rewrite nlen_app. reflexivity. Qed.

Lemma user_data_sync ini ch u0 u1 s0 s1 s2 s3 :
  sp_user_data ini ch (data_pdu_bytes 22 31 u0 u1 s0 s1 s2 s3 [1; 0; 234; 3])
  = Some (PSynchronize ini ch (of_le16 u0 u1) (of_le32 s0 s1 s2 s3) 1002, []).
Proof. vm_compute. reflexivity. Qed.

Lemma user_data_control ini ch u0 u1 s0 s1 s2 s3 a :
  a = 4 \/ a = 1 ->
  sp_user_data ini ch (data_pdu_bytes 26 20 u0 u1 s0 s1 s2 s3 [a; 0; 0; 0; 0; 0; 0; 0])
  = Some (PControl ini ch (of_le16 u0 u1) (of_le32 s0 s1 s2 s3) a 0 0, []).
Proof. intros [-> | ->]; vm_compute; reflexivity. Qed.

Lemma user_data_fontlist ini ch u0 u1 s0 s1 s2 s3 :
  sp_user_data ini ch (data_pdu_bytes 26 39 u0 u1 s0 s1 s2 s3 [0; 0; 0; 0; 3; 0; 50; 0])
  = Some (PFontList ini ch (of_le16 u0 u1) (of_le32 s0 s1 s2 s3), []).
Proof. vm_compute. reflexivity. Qed.

Lemma user_data_mouse ini ch u0 u1 s0 s1 s2 s3 f0 f1 x0 x1 y0 y1 :
  sp_user_data ini ch (data_pdu_bytes 34 28 u0 u1 s0 s1 s2 s3 [1; 0; 0; 0; 0; 0; 0; 0; 1; 128; f0; f1; x0; x1; y0; y1])
  = Some (PInput ini ch (of_le16 u0 u1) (of_le32 s0 s1 s2 s3) [IMouse (of_le16 f0 f1) (of_le16 x0 x1) (of_le16 y0 y1)], []).
Proof. vm_compute. reflexivity. Qed.

Lemma user_data_key ini ch u0 u1 s0 s1 s2 s3 f0 f1 c0 c1 :
  sp_user_data ini ch (data_pdu_bytes 34 28 u0 u1 s0 s1 s2 s3 [1; 0; 0; 0; 0; 0; 0; 0; 4; 0; f0; f1; c0; c1; 0; 0])
  = Some (PInput ini ch (of_le16 u0 u1) (of_le32 s0 s1 s2 s3) [IKey (of_le16 f0 f1) (of_le16 c0 c1)], []).
Proof. vm_compute. reflexivity. Qed.

Section DataPdus.
Variable p : prof.
Variables (c : config) (i : server_ids).
Hypothesis Huid : 1001 <= i_uid i <= 65535.
Hypothesis Hio : i_io i < 65536.
Hypothesis Hshare : i_share i < 4294967296.

Let s := session_of c i.
Let uid := i_uid i.
Let sh := i_share i.

Definition data_pdu_of (total t2 : N) (body : bytes) : bytes :=
  data_pdu_bytes total t2 (u16_lo uid) (u16_hi uid) (sh mod 256) ((sh / 256) mod 256) ((sh / 65536) mod 256) ((sh / 16777216) mod 256) body.

Lemma write_sync : write_data_pdu p s PDUTYPE2_SYNCHRONIZE (ts_synchronize_pdu SERVER_CHANNEL) = Ok (mcs_frame s (data_pdu_of 22 31 [1; 0; 234; 3])).
Proof. reflexivity. Qed.
Lemma write_coop :
  write_data_pdu p s PDUTYPE2_CONTROL (ts_control_pdu CTRLACTION_COOPERATE) = Ok (mcs_frame s (data_pdu_of 26 20 [4; 0; 0; 0; 0; 0; 0; 0])).
Proof. reflexivity. Qed.
Lemma write_reqctl :
  write_data_pdu p s PDUTYPE2_CONTROL (ts_control_pdu CTRLACTION_REQUEST_CONTROL) = Ok (mcs_frame s (data_pdu_of 26 20 [1; 0; 0; 0; 0; 0; 0; 0])).
Proof. reflexivity. Qed.
Lemma write_fontlist : write_data_pdu p s PDUTYPE2_FONTLIST ts_font_list_pdu = Ok (mcs_frame s (data_pdu_of 26 39 [0; 0; 0; 0; 3; 0; 50; 0])).
Proof. reflexivity. Qed.

Lemma uid16 : of_le16 (u16_lo uid) (u16_hi uid) = uid.
Proof. apply le16_of. unfold uid. lia. Qed.
Lemma share32 : of_le32 (sh mod 256) ((sh / 256) mod 256) ((sh / 65536) mod 256) ((sh / 16777216) mod 256) = sh.
Proof. apply le32_of. exact Hshare. Qed.

Lemma data_frame_parses total t2 body d :
  nlen body <= 100 ->
  sp_user_data uid (i_io i) (data_pdu_of total t2 body) = Some (d, []) ->
  exists f, checked (Ok (mcs_frame s (data_pdu_of total t2 body))) = Ok f /\ strict_parse f = Some d.
Proof.
  intros Hb Hd.
  assert (Hl : nlen (data_pdu_of total t2 body) <= PER_MAX).
  { unfold data_pdu_of, PER_MAX. rewrite nlen_data_pdu_bytes. lia. }
  exists (mcs_frame s (data_pdu_of total t2 body)). split.
  - apply checked_ok. apply mcs_frame_len. exact Hl.
  - apply parse_mcs_frame; assumption.
Qed.

Lemma emit_finalize_parses :
  Forall2 (fun o d => exists f, o = Ok f /\ strict_parse f = Some d) (emit_finalize p c i) (expected_finalize i).
Proof.
  unfold emit_finalize, expected_finalize. fold s. fold uid. fold sh.
  rewrite write_sync, write_coop, write_reqctl, write_fontlist.
  repeat constructor.
  - apply data_frame_parses; [cbn; lia|]. unfold data_pdu_of. rewrite user_data_sync, uid16, share32. reflexivity.
  - apply data_frame_parses; [cbn; lia|]. unfold data_pdu_of. rewrite (user_data_control _ _ _ _ _ _ _ _ 4 (or_introl eq_refl)), uid16, share32. reflexivity.
  - apply data_frame_parses; [cbn; lia|]. unfold data_pdu_of. rewrite (user_data_control _ _ _ _ _ _ _ _ 1 (or_intror eq_refl)), uid16, share32. reflexivity.
  - apply data_frame_parses; [cbn; lia|]. unfold data_pdu_of. rewrite user_data_fontlist, uid16, share32. reflexivity.
Qed.

Lemma pointer_flags_plus b down :
  pointer_flags b down = (match b with BLeft => 4096 | BRight => 8192 | BMiddle => 16384 | BNone => 2048 end) + (if down then 32768 else 0).
Proof. destruct b, down; reflexivity. Qed.

Lemma emit_input_parses e :
  sendable e ->
  exists f, emit_input p c i e = Ok f /\ strict_parse f = Some (expected_input i e).
Proof.
  intros He. unfold emit_input, expected_input. fold s. fold uid. fold sh.
  destruct e as [x y b down | code down | ]; cbn [sendable] in He; [| |contradiction].
  - destruct He as [Hx Hy].
    assert (Hw : client_write p s (EvPointer x y b down) =
                 mkStep s (Ok tt) [mcs_frame s (data_pdu_of 34 28 ([1; 0; 0; 0; 0; 0; 0; 0; 1; 128] ++ le16 (pointer_flags b down) ++ le16 x ++ le16 y))] [])
      by reflexivity.
    rewrite Hw. cbn [r_out r_wire].
    destruct (data_frame_parses 34 28 ([1; 0; 0; 0; 0; 0; 0; 0; 1; 128] ++ le16 (pointer_flags b down) ++ le16 x ++ le16 y)
                (PInput uid (i_io i) uid sh [expected_event (EvPointer x y b down)])) as [f [Hc Hp]].
    + cbn. lia.
    + unfold data_pdu_of, le16. cbn [app]. rewrite user_data_mouse, uid16, share32.
      rewrite !le16_of by (try assumption; destruct b, down; cbn; lia).
      cbn [expected_event]. rewrite pointer_flags_plus. reflexivity.
    + exists f. split; [|exact Hp]. rewrite checked_ok in Hc; [exact Hc|].
      apply mcs_frame_len. unfold data_pdu_of, PER_MAX. rewrite nlen_data_pdu_bytes. cbn. lia.
  - assert (Hw : client_write p s (EvKey code down) =
                 mkStep s (Ok tt) [mcs_frame s (data_pdu_of 34 28 ([1; 0; 0; 0; 0; 0; 0; 0; 4; 0] ++ le16 (if down then 0 else 32768) ++ le16 code ++ [0; 0]))] [])
      by reflexivity.
    rewrite Hw. cbn [r_out r_wire].
    destruct (data_frame_parses 34 28 ([1; 0; 0; 0; 0; 0; 0; 0; 4; 0] ++ le16 (if down then 0 else 32768) ++ le16 code ++ [0; 0])
                (PInput uid (i_io i) uid sh [expected_event (EvKey code down)])) as [f [Hc Hp]].
    + cbn. lia.
    + unfold data_pdu_of, le16. cbn [app]. rewrite user_data_key, uid16, share32.
      rewrite !le16_of by (try assumption; destruct down; cbn; lia).
      reflexivity.
    + exists f. split; [|exact Hp]. rewrite checked_ok in Hc; [exact Hc|].
      apply mcs_frame_len. unfold data_pdu_of, PER_MAX. rewrite nlen_data_pdu_bytes. cbn. lia.
Qed.
End DataPdus.

(* ================================================================== connection request *)
Lemma cr_frame_parses f o0 o1 o2 o3 :
  f = 0 \/ f = 1 ->
  strict_parse (tpkt_frame [14; 224; 0; 0; 0; 0; 0; 1; f; 8; 0; o0; o1; o2; o3])
  = Some (PConnectionRequest f (of_le32 o0 o1 o2 o3)).
Proof. intros [-> | ->]; vm_compute; reflexivity. Qed.

Lemma emit_cr_parses p c :
  c_offered c < 4294967296 ->
  exists f, emit_cr p c = Ok f /\ strict_parse f = Some (PConnectionRequest (if c_ram c then 1 else 0) (c_offered c)).
Proof.
  intros Ho. unfold emit_cr.
  assert (Hw : wr p (x224_connection_pdu NEG_REQ (if c_ram c then 1 else 0) (c_offered c))
               = Ok [14; 224; 0; 0; 0; 0; 0; 1; (if c_ram c then 1 else 0); 8; 0;
                     c_offered c mod 256; (c_offered c / 256) mod 256; (c_offered c / 65536) mod 256; (c_offered c / 16777216) mod 256])
    by reflexivity.
  rewrite Hw. cbn [obind]. eexists. split; [reflexivity|].
  rewrite cr_frame_parses by (destruct (c_ram c); auto).
  rewrite le32_of by exact Ho. reflexivity.
Qed.

(* ================================================================== strings *)
Lemma nlen_units_le u : nlen (units_le u) = 2 * nlen u.
Proof.
  induction u as [|a u IH]; [reflexivity|].
  unfold units_le in *. cbn [flat_map]. rewrite nlen_app, IH, nlen_le16, nlen_cons. lia.
Qed.

Lemma units_of_units_le u : Forall (fun x => x < 65536) u -> units_of (units_le u) = Some u.
Proof.
  induction 1 as [|a u Ha Hu IH]; [reflexivity|].
  unfold units_le in *. cbn [flat_map]. unfold le16 at 1. cbn [app units_of].
  rewrite IH, le16_of by exact Ha. reflexivity.
Qed.

Lemma utf16_char_cases c : scalar c ->
  (c < 65536 /\ utf16_char c = [c] /\ ((55296 <=? c) && (c <? 56320) = false) /\ ((56320 <=? c) && (c <? 57344) = false))
  \/ (65536 <= c /\ exists h l, utf16_char c = [h; l] /\ 55296 <= h < 56320 /\ 56320 <= l < 57344 /\
                                65536 + (h - 55296) * 1024 + (l - 56320) = c).
Proof.
  intros Hs. unfold utf16_char. destruct (c <? 65536) eqn:E.
  - apply N.ltb_lt in E. left. repeat split; auto.
    + destruct Hs as [Hs|[Hs1 Hs2]].
      * replace (55296 <=? c) with false by (symmetry; apply N.leb_gt; lia). reflexivity.
      * replace (c <? 56320) with false by (symmetry; apply N.ltb_ge; lia). apply andb_false_r.
    + destruct Hs as [Hs|[Hs1 Hs2]].
      * replace (56320 <=? c) with false by (symmetry; apply N.leb_gt; lia). reflexivity.
      * replace (c <? 57344) with false by (symmetry; apply N.ltb_ge; lia). apply andb_false_r.
  - apply N.ltb_ge in E. right. split; [exact E|].
    destruct Hs as [Hs|[Hs1 Hs2]]; [lia|].
    exists (55296 + (c - 65536) / 1024), (56320 + (c - 65536) mod 1024).
    assert (Hq : (c - 65536) / 1024 < 1024) by (apply N.div_lt_upper_bound; lia).
    assert (Hr : (c - 65536) mod 1024 < 1024) by (apply N.mod_lt; lia).
    pose proof (N.div_mod (c - 65536) 1024 ltac:(lia)) as Hdm.
    split; [reflexivity|]. split; [lia|]. split; [lia|].
    replace (55296 + (c - 65536) / 1024 - 55296) with ((c - 65536) / 1024) by lia.
    replace (56320 + (c - 65536) mod 1024 - 56320) with ((c - 65536) mod 1024) by lia.
    lia.
Qed.

Lemma utf16_units_small s : Forall scalar s -> Forall (fun x => x < 65536) (utf16 s).
Proof.
  induction 1 as [|c s Hc Hs IH]; [constructor|].
  unfold utf16 in *. cbn [flat_map]. apply Forall_app. split; [|exact IH].
  destruct (utf16_char_cases c Hc) as [[H1 [-> _]]|[_ [h [l [-> [Hh [Hl _]]]]]]]; repeat constructor; lia.
Qed.

Lemma utf16_decode_utf16 s : Forall scalar s -> utf16_decode (utf16 s) = Some s.
Proof.
  induction 1 as [|c s Hc Hs IH]; [reflexivity|].
  unfold utf16 in *. cbn [flat_map].
  destruct (utf16_char_cases c Hc) as [[H1 [-> [E1 E2]]]|[_ [h [l [-> [Hh [Hl Heq]]]]]]]; cbn [app utf16_decode].
  - rewrite E1, E2, IH. reflexivity.
  - replace ((55296 <=? h) && (h <? 56320)) with true
      by (symmetry; apply andb_true_iff; split; [apply N.leb_le|apply N.ltb_lt]; lia).
    replace ((56320 <=? l) && (l <? 57344)) with true
      by (symmetry; apply andb_true_iff; split; [apply N.leb_le|apply N.ltb_lt]; lia).
    rewrite IH, Heq. reflexivity.
Qed.

Lemma counted_string_utf16le s r :
  Forall scalar s -> counted_string (nlen (utf16le s)) (utf16le s ++ [0; 0] ++ r) = Some (s, r).
Proof.
  intros Hs. unfold counted_string.
  pstep (takeN_app (utf16le s) ([0; 0] ++ r)).
  pstep (const_app [0; 0] r).
  unfold utf16le. rewrite units_of_units_le by (apply utf16_units_small; exact Hs).
  rewrite utf16_decode_utf16 by exact Hs. reflexivity.
Qed.

(* ---- the fixed 32-byte client name ---- *)
Lemma last_cons2 {A} (a b : A) l d : last (a :: b :: l) d = last (b :: l) d.
Proof. reflexivity. Qed.
Lemma removelast_cons2 {A} (a b : A) l : removelast (a :: b :: l) = a :: removelast (b :: l).
Proof. reflexivity. Qed.

Definition chop (t : list N) : list N := if is_high_surrogate (last t 0) then removelast t else t.

Lemma chop_cons a t : is_high_surrogate a = false -> t <> [] -> chop (a :: t) = a :: chop t.
Proof.
  intros Ha Ht. destruct t as [|b t]; [congruence|]. unfold chop. rewrite last_cons2, removelast_cons2.
  destruct (is_high_surrogate (last (b :: t) 0)); reflexivity.
Qed.
Lemma chop_cons_any a t : t <> [] -> chop (a :: t) = a :: chop t.
Proof.
  intros Ht. destruct t as [|b t]; [congruence|]. unfold chop. rewrite last_cons2, removelast_cons2.
  destruct (is_high_surrogate (last (b :: t) 0)); reflexivity.
Qed.

Lemma is_high_spec u : is_high_surrogate u = true <-> 55296 <= u < 56320.
Proof.
  unfold is_high_surrogate. rewrite andb_true_iff, N.leb_le, N.leb_le. lia.
Qed.

Lemma chop_firstn n s : Forall scalar s -> chop (firstn n (utf16 s)) = utf16 (fit_units n s).
Proof.
  intros Hs. revert n. induction Hs as [|c s Hc Hs IH]; intros n.
  - destruct n; reflexivity.
  - unfold utf16 in *. cbn [flat_map fit_units].
    destruct (utf16_char_cases c Hc) as [[H1 [Hu [E1 E2]]]|[H1 [h [l [Hu [Hh [Hl Heq]]]]]]]; rewrite Hu.
    + replace (c <? 65536) with true by (symmetry; apply N.ltb_lt; exact H1).
      destruct n as [|m]; [reflexivity|]. cbn [Nat.leb app firstn].
      replace (S m - 1)%nat with m by lia. cbn [flat_map]. rewrite Hu. cbn [app].
      rewrite <- IH.
      destruct (firstn m (flat_map utf16_char s)) as [|b t] eqn:Et.
      * unfold chop. cbn [last removelast].
        replace (is_high_surrogate c) with false; [reflexivity|].
        symmetry. apply not_true_is_false. rewrite is_high_spec. apply andb_false_iff in E1.
        destruct E1 as [E|E]; [apply N.leb_gt in E|apply N.ltb_ge in E]; lia.
      * apply chop_cons_any. discriminate.
    + replace (c <? 65536) with false by (symmetry; apply N.ltb_ge; exact H1).
      destruct n as [|[|m]]; [reflexivity| |].
      * cbn [Nat.leb app firstn]. unfold chop. cbn [last removelast].
        replace (is_high_surrogate h) with true by (symmetry; apply is_high_spec; lia). reflexivity.
      * cbn [Nat.leb app firstn]. replace (S (S m) - 2)%nat with m by lia. cbn [flat_map]. rewrite Hu. cbn [app].
        rewrite <- IH.
        destruct (firstn m (flat_map utf16_char s)) as [|b t] eqn:Et.
        -- unfold chop. cbn [last removelast].
           replace (is_high_surrogate l) with false; [reflexivity|].
           symmetry. apply not_true_is_false. rewrite is_high_spec. lia.
        -- rewrite chop_cons_any by discriminate. rewrite chop_cons_any by discriminate. reflexivity.
Qed.

Lemma utf16_fit_len n s : (List.length (utf16 (fit_units n s)) <= n)%nat.
Proof.
  revert n. induction s as [|c s IH]; intros n; [cbn; lia|].
  cbn [fit_units]. destruct (c <? 65536) eqn:E.
  - destruct n as [|m]; [cbn; lia|]. cbn [Nat.leb]. unfold utf16 in *. cbn [flat_map]. unfold utf16_char at 1. rewrite E.
    rewrite app_length. cbn [Datatypes.length]. specialize (IH (S m - 1)%nat). lia.
  - destruct n as [|[|m]]; [cbn; lia|cbn; lia|]. cbn [Nat.leb]. unfold utf16 in *. cbn [flat_map]. unfold utf16_char at 1. rewrite E.
    rewrite app_length. cbn [Datatypes.length]. specialize (IH (S (S m) - 2)%nat). lia.
Qed.

Lemma until_null_utf16 s z : Forall scalar s -> until_null (utf16 s ++ 0 :: z) = Some (utf16 (before_null s)).
Proof.
  induction 1 as [|c s Hc Hs IH]; [reflexivity|].
  unfold utf16 in *. cbn [flat_map before_null].
  destruct (utf16_char_cases c Hc) as [[H1 [Hu _]]|[H1 [h [l [Hu [Hh [Hl Heq]]]]]]].
  - rewrite Hu. cbn [app until_null]. destruct (c =? 0) eqn:E; [reflexivity|].
    rewrite IH. cbn [flat_map]. rewrite Hu. reflexivity.
  - rewrite Hu. cbn [app until_null].
    replace (h =? 0) with false by (symmetry; apply N.eqb_neq; lia).
    replace (l =? 0) with false by (symmetry; apply N.eqb_neq; lia).
    replace (c =? 0) with false by (symmetry; apply N.eqb_neq; lia).
    rewrite IH. cbn [flat_map]. rewrite Hu. reflexivity.
Qed.

Lemma before_null_scalar s : Forall scalar s -> Forall scalar (before_null s).
Proof. induction 1 as [|c s Hc Hs IH]; cbn; [constructor|]. destruct (c =? 0); constructor; auto. Qed.
Lemma fit_units_scalar n s : Forall scalar s -> Forall scalar (fit_units n s).
Proof.
  intros Hs. revert n. induction Hs as [|c s Hc Hs IH]; intros n; cbn; [constructor|].
  destruct (Nat.leb _ n); constructor; auto.
Qed.

Lemma client_name_units_eq name :
  Forall scalar name ->
  exists k, client_name_units name = utf16 (fit_units 15 name) ++ 0 :: repeat 0 k /\
            List.length (client_name_units name) = 16%nat.
Proof.
  intros Hs. unfold client_name_units. fold (chop (firstn 15 (utf16 name))). rewrite chop_firstn by exact Hs.
  pose proof (utf16_fit_len 15 name) as Hl.
  remember (List.length (utf16 (fit_units 15 name))) as n eqn:En.
  exists (15 - n)%nat. split.
  - replace (16 - n)%nat with (S (15 - n)) by lia. reflexivity.
  - rewrite app_length, repeat_length. lia.
Qed.

Lemma client_name_field_decodes name :
  Forall scalar name -> fixed_string (client_name_field name) = Some (wire_name name).
Proof.
  intros Hs. destruct (client_name_units_eq name Hs) as [k [Heq _]].
  unfold fixed_string, client_name_field. rewrite Heq.
  rewrite units_of_units_le.
  - rewrite until_null_utf16 by (apply fit_units_scalar; exact Hs).
    apply utf16_decode_utf16. apply before_null_scalar, fit_units_scalar, Hs.
  - apply Forall_app. split; [apply utf16_units_small, fit_units_scalar, Hs|].
    constructor; [lia|]. apply Forall_forall. intros x Hx. apply repeat_spec in Hx. subst. lia.
Qed.

Lemma client_name_field_len name : Forall scalar name -> List.length (client_name_field name) = 32%nat.
Proof.
  intros Hs. destruct (client_name_units_eq name Hs) as [k [_ Hl]].
  pose proof (nlen_units_le (client_name_units name)) as H. unfold client_name_field, nlen in *. lia.
Qed.

(* ================================================================== client info *)
Lemma mcs_send_frame c i m :
  nlen m <= PER_MAX -> mcs_send (i_uid i) (i_io i) m = Ok (mcs_frame (session_of c i) m).
Proof.
  intros Hm. unfold mcs_send. rewrite x224_frame_ok; [reflexivity|].
  rewrite !nlen_app, !nlen_be16. pose proof (nlen_pwl (as_u16 (nlen m))). unfold PER_MAX in Hm.
  change (nlen [100]) with 1. change (nlen [112]) with 1. lia.
Qed.

Definition ext_info_bytes : bytes := [2; 0; 2; 0; 0; 0; 2; 0; 0; 0] ++ zeros 172 ++ [0; 0; 0; 0; 0; 0; 0; 0].

(* the user data of the client info PDU in the shape Msg.write produces it *)
Definition info_written (fl cbd cbu cbp : N) (D U P : bytes) (ext : bool) : bytes :=
  le16 64 ++ le16 0 ++
  (le32 0 ++ le32 fl ++ le16 cbd ++ le16 cbu ++ le16 cbp ++ le16 0 ++ le16 0 ++
   (D ++ [0; 0]) ++ (U ++ [0; 0]) ++ (P ++ [0; 0]) ++ [0; 0] ++ [0; 0] ++ (if ext then ext_info_bytes else []) ++ []) ++ [].
(* the same bytes, flat *)
Definition info_flat (fl cbd cbu cbp : N) (D U P : bytes) (ext : bool) : bytes :=
  [64; 0] ++ [0; 0] ++ le32 0 ++ le32 fl ++ le16 cbd ++ le16 cbu ++ le16 cbp ++ le16 0 ++ le16 0 ++
  D ++ [0; 0] ++ U ++ [0; 0] ++ P ++ [0; 0] ++ [] ++ [0; 0] ++ [] ++ [0; 0] ++ (if ext then ext_info_bytes else []).

Lemma info_written_flat fl cbd cbu cbp D U P ext :
  info_written fl cbd cbu cbp D U P ext = info_flat fl cbd cbu cbp D U P ext.
Proof.
  unfold info_written, info_flat. rewrite !app_nil_r. rewrite <- !app_assoc. reflexivity.
Qed.

Lemma info_write p ext d u pw auto :
  write p (MTrame [u16le SEC_INFO_PKT; u16le 0; rdp_infos ext d u pw auto])
  = Some (info_written (INFO_FLAGS + (if auto then INFO_AUTOLOGON else 0))
                       (as_u16 (nlen (utf16le d ++ [0; 0]) - 2)) (as_u16 (nlen (utf16le u ++ [0; 0]) - 2))
                       (as_u16 (nlen (utf16le pw ++ [0; 0]) - 2)) (utf16le d) (utf16le u) (utf16le pw) ext).
Proof. destruct ext; reflexivity. Qed.

Lemma cb_field D : nlen D < 65536 -> as_u16 (nlen (D ++ [0; 0]) - 2) = nlen D.
Proof.
  intros H. rewrite nlen_app. change (nlen [0; 0]) with 2.
  replace (nlen D + 2 - 2) with (nlen D) by lia. apply as_u16_small. exact H.
Qed.

Lemma sp_ext_info_bytes : sp_ext_info ext_info_bytes = Some (mkExt 2 [] [] 0 0, []).
Proof. vm_compute. reflexivity. Qed.

Lemma nlen_utf16le s : nlen (utf16le s) = 2 * nlen (utf16 s).
Proof. unfold utf16le. apply nlen_units_le. Qed.

Lemma sp_client_info_flat (auto : bool) d u pw (ext : bool) :
  Forall scalar d -> Forall scalar u -> Forall scalar pw ->
  nlen (utf16le d) < 65536 -> nlen (utf16le u) < 65536 -> nlen (utf16le pw) < 65536 ->
  sp_client_info (info_flat (INFO_FLAGS + (if auto then INFO_AUTOLOGON else 0)) (nlen (utf16le d)) (nlen (utf16le u)) (nlen (utf16le pw))
                            (utf16le d) (utf16le u) (utf16le pw) ext)
  = Some (mkInfo 0 (INFO_FLAGS + (if auto then INFO_AUTOLOGON else 0)) d u pw [] []
                 (if ext then Some (mkExt 2 [] [] 0 0) else None), []).
Proof.
  intros Hd Hu Hp Ld Lu Lp.
  set (fl := INFO_FLAGS + (if auto then INFO_AUTOLOGON else 0)).
  assert (Hfl : fl < 4294967296) by (subst fl; destruct auto; cbv; reflexivity).
  unfold info_flat, sp_client_info.
  match goal with |- bind _ _ ([64; 0] ++ ?R) = _ => pstep (const_app [64; 0] R) end.
  match goal with |- bind _ _ ([0; 0] ++ ?R) = _ => pstep (const_app [0; 0] R) end.
  match goal with |- bind _ _ (le32 0 ++ ?R) = _ => pstep (le32p_app 0 R ltac:(lia)) end.
  match goal with |- bind _ _ (le32 fl ++ ?R) = _ => pstep (le32p_app fl R Hfl) end.
  assert (G1 : negb (N.land fl 16 =? 0) = true) by (subst fl; destruct auto; reflexivity).
  rewrite (bind_step _ _ _ _ _ (guard_true _ _ G1)).
  assert (G2 : (N.land fl info_flags_undefined =? 0) = true) by (subst fl; destruct auto; reflexivity).
  rewrite (bind_step _ _ _ _ _ (guard_true _ _ G2)).
  match goal with |- bind _ _ (le16 ?n ++ ?R) = _ => pstep (le16p_app n R Ld) end.
  match goal with |- bind _ _ (le16 ?n ++ ?R) = _ => pstep (le16p_app n R Lu) end.
  match goal with |- bind _ _ (le16 ?n ++ ?R) = _ => pstep (le16p_app n R Lp) end.
  match goal with |- bind _ _ (le16 0 ++ ?R) = _ => pstep (le16p_app 0 R ltac:(lia)) end.
  match goal with |- bind _ _ (le16 0 ++ ?R) = _ => pstep (le16p_app 0 R ltac:(lia)) end.
  match goal with |- bind _ _ (utf16le d ++ [0; 0] ++ ?R) = _ => pstep (counted_string_utf16le d R Hd) end.
  match goal with |- bind _ _ (utf16le u ++ [0; 0] ++ ?R) = _ => pstep (counted_string_utf16le u R Hu) end.
  match goal with |- bind _ _ (utf16le pw ++ [0; 0] ++ ?R) = _ => pstep (counted_string_utf16le pw R Hp) end.
  match goal with |- bind _ _ ([] ++ [0; 0] ++ ?R) = _ => pstep (counted_string_utf16le [] R (Forall_nil _)) end.
  match goal with |- bind _ _ ([] ++ [0; 0] ++ ?R) = _ => pstep (counted_string_utf16le [] R (Forall_nil _)) end.
  rewrite (bind_step _ _ _ _ _ eq_refl).
  destruct ext.
  - change (nlen ext_info_bytes =? 0) with false. cbv iota.
    rewrite (bind_step _ _ _ _ _ sp_ext_info_bytes). reflexivity.
  - reflexivity.
Qed.

Lemma info_flat_parses ini ch (auto : bool) d u pw (ext : bool) :
  Forall scalar d -> Forall scalar u -> Forall scalar pw ->
  nlen (utf16le d) < 65536 -> nlen (utf16le u) < 65536 -> nlen (utf16le pw) < 65536 ->
  sp_user_data ini ch (info_flat (INFO_FLAGS + (if auto then INFO_AUTOLOGON else 0)) (nlen (utf16le d)) (nlen (utf16le u)) (nlen (utf16le pw))
                                 (utf16le d) (utf16le u) (utf16le pw) ext)
  = Some (PClientInfo ini ch (mkInfo 0 (INFO_FLAGS + (if auto then INFO_AUTOLOGON else 0)) d u pw [] []
                                     (if ext then Some (mkExt 2 [] [] 0 0) else None)), []).
Proof.
  intros Hd Hu Hp Ld Lu Lp.
  pose proof (sp_client_info_flat auto d u pw ext Hd Hu Hp Ld Lu Lp) as Hinfo.
  unfold info_flat in *.
  match goal with |- sp_user_data ini ch ([64; 0] ++ [0; 0] ++ ?R) = _ =>
    change (sp_user_data ini ch ([64; 0] ++ [0; 0] ++ R)) with ((i <- sp_client_info ;; ret (PClientInfo ini ch i)) ([64; 0] ++ [0; 0] ++ R))
  end.
  rewrite (bind_step _ _ _ _ _ Hinfo). reflexivity.
Qed.

Lemma nlen_info_flat fl cbd cbu cbp D U P ext :
  nlen (info_flat fl cbd cbu cbp D U P ext) = 32 + (nlen D + nlen U + nlen P) + (if ext then 190 else 0).
Proof.
  unfold info_flat. rewrite !nlen_app, !nlen_le16, !nlen_le32.
  change (nlen [64; 0]) with 2. change (nlen [0; 0]) with 2. change (nlen (@nil N)) with 0.
  destruct ext; [change (nlen ext_info_bytes) with 190|change (nlen (@nil N)) with 0]; lia.
Qed.

Lemma emit_client_info_parses p swapped c i :
  valid_cfg swapped c i ->
  exists f, emit_client_info p swapped c i = Ok f /\ strict_parse f = Some (expected_info swapped c i).
Proof.
  intros [_ [Hd [Hu [Hp [_ [_ [_ [_ [_ [_ [Huid [Hio [Hinfo _]]]]]]]]]]]]].
  unfold emit_client_info, expected_info, wr. rewrite info_write. cbn [obind].
  set (ext := is_rdp_version_5_plus swapped (i_version i)) in *.
  unfold info_size, PER_MAX in Hinfo. fold ext in Hinfo.
  assert (Ld : nlen (utf16le (c_domain c)) < 65536) by (rewrite nlen_utf16le; lia).
  assert (Lu : nlen (utf16le (c_user c)) < 65536) by (rewrite nlen_utf16le; lia).
  assert (Lp : nlen (utf16le (c_password c)) < 65536) by (rewrite nlen_utf16le; lia).
  rewrite !cb_field by assumption. rewrite info_written_flat.
  assert (Hl : nlen (info_flat (INFO_FLAGS + (if c_autologon c then INFO_AUTOLOGON else 0)) (nlen (utf16le (c_domain c)))
                               (nlen (utf16le (c_user c))) (nlen (utf16le (c_password c)))
                               (utf16le (c_domain c)) (utf16le (c_user c)) (utf16le (c_password c)) ext) <= PER_MAX).
  { rewrite nlen_info_flat, !nlen_utf16le. unfold PER_MAX. destruct ext; lia. }
  rewrite (mcs_send_frame c i _ Hl). eexists. split; [reflexivity|].
  apply parse_mcs_frame; [exact Huid|exact Hio|exact Hl|].
  apply info_flat_parses; assumption.
Qed.

(* ================================================================== confirm active *)
(* numberCapabilities, pad2Octets and the twelve capability sets; the bytes the configuration
   determines are variables: desktop width / height (bitmap set), keyboard layout (input set) *)
Definition caps_section_explicit (w0 w1 h0 h1 l0 l1 l2 l3 : N) : bytes :=
  [
   12; 0; 0; 0; 1; 0; 24; 0; 1; 0; 3; 0; 0; 2; 0; 0; 0; 0; 21; 4; 0; 0; 0; 0; 0; 0; 0; 0; 2; 0; 28; 0; 24; 0;
   1; 0; 1; 0; 1; 0; w0; w1; h0; h1; 0; 0; 0; 0; 1; 0; 0; 0; 1; 0; 0; 0; 3; 0; 88; 0; 0; 0; 0; 0; 0; 0; 0; 0;
   0; 0; 0; 0; 0; 0; 0; 0; 0; 0; 0; 0; 1; 0; 20; 0; 0; 0; 1; 0; 0; 0; 10; 0; 0; 0; 0; 0; 0; 0; 0; 0; 0; 0; 0;
   0; 0; 0; 0; 0; 0; 0; 0; 0; 0; 0; 0; 0; 0; 0; 0; 0; 0; 0; 0; 0; 0; 0; 0; 0; 0; 0; 0; 0; 0; 132; 3; 0; 0; 0;
   0; 0; 0; 0; 0; 0; 4; 0; 40; 0; 0; 0; 0; 0; 0; 0; 0; 0; 0; 0; 0; 0; 0; 0; 0; 0; 0; 0; 0; 0; 0; 0; 0; 0; 0;
   0; 0; 0; 0; 0; 0; 0; 0; 0; 0; 0; 8; 0; 8; 0; 0; 0; 20; 0; 12; 0; 8; 0; 0; 0; 0; 0; 13; 0; 88; 0; 21; 0; 0;
   0; l0; l1; l2; l3; 4; 0; 0; 0; 0; 0; 0; 0; 12; 0; 0; 0; 0; 0; 0; 0; 0; 0; 0; 0; 0; 0; 0; 0; 0; 0; 0; 0; 0;
   0; 0; 0; 0; 0; 0; 0; 0; 0; 0; 0; 0; 0; 0; 0; 0; 0; 0; 0; 0; 0; 0; 0; 0; 0; 0; 0; 0; 0; 0; 0; 0; 0; 0; 0;
   0; 0; 0; 0; 0; 0; 0; 0; 0; 0; 0; 0; 15; 0; 8; 0; 0; 0; 0; 0; 16; 0; 52; 0; 0; 0; 0; 0; 0; 0; 0; 0; 0; 0;
   0; 0; 0; 0; 0; 0; 0; 0; 0; 0; 0; 0; 0; 0; 0; 0; 0; 0; 0; 0; 0; 0; 0; 0; 0; 0; 0; 0; 0; 0; 0; 0; 0; 0; 0;
   0; 0; 0; 17; 0; 12; 0; 0; 0; 0; 0; 0; 0; 0; 0; 20; 0; 12; 0; 0; 0; 0; 0; 0; 0; 0; 0; 26; 0; 8; 0; 0; 0; 0;
   0 ].

Lemma caps_section_parses w0 w1 h0 h1 l0 l1 l2 l3 :
  sp_capability_section (caps_section_explicit w0 w1 h0 h1 l0 l1 l2 l3)
  = Some (([1; 2; 3; 4; 8; 12; 13; 15; 16; 17; 20; 26], Some 1045, Some (24, of_le16 w0 w1, of_le16 h0 h1),
           Some (21, of_le32 l0 l1 l2 l3, 4, 0, 12)), []).
Proof. vm_compute. reflexivity. Qed.

Definition confirm_written (uid share : N) (cname capsec : bytes) : bytes :=
  let message := le32 share ++ (le16 1002 ++ (le16 (as_u16 (nlen cname)) ++ (le16 380 ++ (cname ++ capsec)))) in
  le16 (as_u16 (as_u16 (nlen message) + 6)) ++ (le16 19 ++ (le16 uid ++ (message ++ []))).

Definition confirm_flat (uid share : N) (cname capsec : bytes) : bytes :=
  le16 (396 + nlen cname) ++ le16 19 ++ le16 uid ++ le32 share ++ [234; 3] ++ le16 (nlen cname) ++ le16 380 ++ cname ++ capsec.

Lemma confirm_write p c i :
  write_confirm_active p (session_of c i)
  = Ok (mcs_frame (session_of c i)
          (confirm_written (i_uid i) (i_share i) (utf8 (c_name c))
             (caps_section_explicit (u16_lo (c_width c)) (u16_hi (c_width c)) (u16_lo (c_height c)) (u16_hi (c_height c))
                (c_layout c mod 256) ((c_layout c / 256) mod 256) ((c_layout c / 65536) mod 256) ((c_layout c / 16777216) mod 256)))).
Proof. reflexivity. Qed.

Lemma confirm_written_flat uid share cname capsec :
  nlen capsec = 380 -> nlen cname + 396 < 65536 ->
  confirm_written uid share cname capsec = confirm_flat uid share cname capsec.
Proof.
  intros Hc Hn. unfold confirm_written, confirm_flat. cbv zeta.
  rewrite !nlen_app, nlen_le32, !nlen_le16, Hc.
  rewrite (as_u16_small (nlen cname)) by lia.
  rewrite (as_u16_small (4 + (2 + (2 + (2 + (nlen cname + 380)))))) by lia.
  rewrite as_u16_small by lia.
  replace (4 + (2 + (2 + (2 + (nlen cname + 380)))) + 6) with (396 + nlen cname) by lia.
  rewrite app_nil_r. rewrite <- ?app_assoc. reflexivity.
Qed.

Lemma confirm_flat_parses ini ch uid share cname w0 w1 h0 h1 l0 l1 l2 l3 :
  uid < 65536 -> share < 4294967296 -> nlen cname + 396 < 65536 ->
  sp_user_data ini ch (confirm_flat uid share cname (caps_section_explicit w0 w1 h0 h1 l0 l1 l2 l3))
  = Some (PConfirmActive ini ch uid
            (mkConfirm share cname [1; 2; 3; 4; 8; 12; 13; 15; 16; 17; 20; 26] (Some 1045)
                       (Some (24, of_le16 w0 w1, of_le16 h0 h1)) (Some (21, of_le32 l0 l1 l2 l3, 4, 0, 12))), []).
Proof.
  intros Hu Hs Hn.
  set (capsec := caps_section_explicit w0 w1 h0 h1 l0 l1 l2 l3).
  assert (Hcl : nlen capsec = 380) by reflexivity.
  assert (Hsc : sp_share_control (confirm_flat uid share cname capsec)
                = Some ((3, uid, 396 + nlen cname),
                        le32 share ++ [234; 3] ++ le16 (nlen cname) ++ le16 380 ++ cname ++ capsec)).
  { unfold sp_share_control, confirm_flat.
    rewrite (bind_step _ _ _ _ _ eq_refl).
    match goal with |- bind _ _ (le16 ?n ++ ?R) = _ => pstep (le16p_app n R ltac:(lia)) end.
    assert (G : (396 + nlen cname =? nlen (le16 (396 + nlen cname) ++ le16 19 ++ le16 uid ++ le32 share ++ [234; 3] ++ le16 (nlen cname) ++ le16 380 ++ cname ++ capsec)) = true).
    { apply N.eqb_eq. rewrite !nlen_app, !nlen_le16, nlen_le32, Hcl. change (nlen [234; 3]) with 2. lia. }
    rewrite (bind_step _ _ _ _ _ (guard_true _ _ G)).
    match goal with |- bind _ _ (le16 19 ++ ?R) = _ => pstep (le16p_app 19 R ltac:(lia)) end.
    pguard.
    match goal with |- bind _ _ (le16 uid ++ ?R) = _ => pstep (le16p_app uid R Hu) end.
    reflexivity. }
  assert (Hca : sp_confirm_active (le32 share ++ [234; 3] ++ le16 (nlen cname) ++ le16 380 ++ cname ++ capsec)
                = Some (mkConfirm share cname [1; 2; 3; 4; 8; 12; 13; 15; 16; 17; 20; 26] (Some 1045)
                                  (Some (24, of_le16 w0 w1, of_le16 h0 h1)) (Some (21, of_le32 l0 l1 l2 l3, 4, 0, 12)), [])).
  { unfold sp_confirm_active.
    match goal with |- bind _ _ (le32 share ++ ?R) = _ => pstep (le32p_app share R Hs) end.
    match goal with |- bind _ _ ([234; 3] ++ ?R) = _ => pstep (const_app [234; 3] R) end.
    match goal with |- bind _ _ (le16 ?n ++ ?R) = _ => pstep (le16p_app n R ltac:(lia)) end.
    match goal with |- bind _ _ (le16 380 ++ ?R) = _ => pstep (le16p_app 380 R ltac:(lia)) end.
    pstep (takeN_app cname capsec).
    rewrite (bind_step _ _ _ _ _ eq_refl).
    rewrite Hcl. pguard.
    subst capsec. rewrite (bind_step _ _ _ _ _ (caps_section_parses w0 w1 h0 h1 l0 l1 l2 l3)). reflexivity. }
  (* dispatch on the first four bytes: pduType 0x0013 is not a security header's flagsHi *)
  assert (Hd : sp_user_data ini ch (confirm_flat uid share cname capsec) = sp_share_pdu ini ch (confirm_flat uid share cname capsec))
    by reflexivity.
  rewrite Hd. unfold sp_share_pdu. rewrite (bind_step _ _ _ _ _ Hsc). cbv beta iota.
  change (3 =? 3) with true. cbv iota.
  rewrite (bind_step _ _ _ _ _ Hca). reflexivity.
Qed.

Lemma nlen_confirm_flat uid share cname capsec :
  nlen capsec = 380 -> nlen (confirm_flat uid share cname capsec) = 396 + nlen cname.
Proof.
  intros Hc. unfold confirm_flat. rewrite !nlen_app, !nlen_le16, nlen_le32, Hc. change (nlen [234; 3]) with 2. lia.
Qed.

Lemma emit_confirm_active_parses p swapped c i :
  valid_cfg swapped c i ->
  exists f, emit_confirm_active p c i = Ok f /\ strict_parse f = Some (expected_confirm c i).
Proof.
  intros [_ [_ [_ [_ [Hw [Hh [Hl [_ [_ [Hs [Huid [Hio [_ Hconf]]]]]]]]]]]]].
  unfold confirm_size, PER_MAX in Hconf.
  unfold emit_confirm_active, expected_confirm. rewrite confirm_write.
  set (capsec := caps_section_explicit _ _ _ _ _ _ _ _).
  assert (Hcl : nlen capsec = 380) by reflexivity.
  rewrite confirm_written_flat by (try exact Hcl; lia).
  assert (Hlen : nlen (confirm_flat (i_uid i) (i_share i) (utf8 (c_name c)) capsec) <= PER_MAX).
  { rewrite nlen_confirm_flat by exact Hcl. unfold PER_MAX. lia. }
  rewrite checked_ok by (apply mcs_frame_len; exact Hlen).
  eexists. split; [reflexivity|].
  apply parse_mcs_frame; [exact Huid|exact Hio|exact Hlen|].
  subst capsec. rewrite confirm_flat_parses by lia.
  rewrite !le16_of by assumption. rewrite le32_of by assumption. reflexivity.
Qed.

(* ================================================================== connect-initial *)
(* the MCS connect-initial (after the X.224 data header) around the 32-byte client name field;
   the bytes the configuration determines are variables: desktop width / height, keyboard
   layout, selected protocol *)
Definition ci_prefix (w0 w1 h0 h1 l0 l1 l2 l3 : N) : bytes :=
  [
   127; 101; 130; 1; 105; 4; 1; 1; 4; 1; 1; 1; 1; 255; 48; 26; 2; 1; 34; 2; 1; 2; 2; 1; 0; 2; 1; 1; 2; 1; 0;
   2; 1; 1; 2; 3; 0; 255; 255; 2; 1; 2; 48; 25; 2; 1; 1; 2; 1; 1; 2; 1; 1; 2; 1; 1; 2; 1; 0; 2; 1; 1; 2; 2;
   4; 32; 2; 1; 2; 48; 32; 2; 3; 0; 255; 255; 2; 3; 0; 252; 23; 2; 3; 0; 255; 255; 2; 1; 1; 2; 1; 0; 2; 1; 1;
   2; 3; 0; 255; 255; 2; 1; 2; 4; 130; 1; 3; 0; 5; 0; 20; 124; 0; 1; 128; 250; 0; 8; 0; 16; 0; 1; 192; 0; 68;
   117; 99; 97; 128; 236; 1; 192; 216; 0; 4; 0; 8; 0; w0; w1; h0; h1; 1; 202; 3; 170; l0; l1; l2; l3; 206;
   14; 0; 0 ].
Definition ci_suffix (s0 s1 s2 s3 : N) : bytes :=
  [
   4; 0; 0; 0; 0; 0; 0; 0; 12; 0; 0; 0; 0; 0; 0; 0; 0; 0; 0; 0; 0; 0; 0; 0; 0; 0; 0; 0; 0; 0; 0; 0; 0; 0; 0;
   0; 0; 0; 0; 0; 0; 0; 0; 0; 0; 0; 0; 0; 0; 0; 0; 0; 0; 0; 0; 0; 0; 0; 0; 0; 0; 0; 0; 0; 0; 0; 0; 0; 0; 0;
   0; 0; 0; 0; 0; 0; 1; 202; 1; 0; 0; 0; 0; 0; 24; 0; 10; 0; 1; 0; 0; 0; 0; 0; 0; 0; 0; 0; 0; 0; 0; 0; 0; 0;
   0; 0; 0; 0; 0; 0; 0; 0; 0; 0; 0; 0; 0; 0; 0; 0; 0; 0; 0; 0; 0; 0; 0; 0; 0; 0; 0; 0; 0; 0; 0; 0; 0; 0; 0;
   0; 0; 0; 0; 0; 0; 0; 0; 0; 0; 0; 0; 0; 0; 0; 0; 0; s0; s1; s2; s3; 2; 192; 12; 0; 11; 0; 0; 0; 0; 0; 0; 0;
   3; 192; 8; 0; 0; 0; 0; 0 ].

Definition ci_core_raw (w h lay sel : N) (nf : bytes) : core_of bytes :=
  mkCore 524292 w h 51713 43523 lay 3790 nf 4 0 12 (zeros 64) [51713; 1; 0; 24; 10; 1; 0; 0; 0; sel].

Ltac destruct_list32 nf :=
  do 32 (destruct nf as [|? nf]; [discriminate|]); destruct nf; [|discriminate].

Lemma ci_raw_parses w0 w1 h0 h1 l0 l1 l2 l3 s0 s1 s2 s3 nf :
  List.length nf = 32%nat ->
  sp_connect_initial_raw (ci_prefix w0 w1 h0 h1 l0 l1 l2 l3 ++ nf ++ ci_suffix s0 s1 s2 s3)
  = Some (([34; 2; 0; 1; 0; 1; 65535; 2], [1; 1; 1; 1; 0; 1; 1056; 2], [65535; 64535; 65535; 1; 0; 1; 65535; 2],
           mkBlocks (ci_core_raw (of_le16 w0 w1) (of_le16 h0 h1) (of_le32 l0 l1 l2 l3) (le_value [s0; s1; s2; s3]) nf) (11, 0) (Some [])), []).
Proof. intros Hl. destruct_list32 nf. vm_compute. reflexivity. Qed.

Lemma le_value4 a b c d : le_value [a; b; c; d] = of_le32 a b c d.
Proof. unfold le_value, of_le32. lia. Qed.

Lemma ci_emitted p c sel nf :
  List.length nf = 32%nat ->
  obind (obind (block p CS_CORE (client_core_data (c_width c) (c_height c) (c_layout c) sel nf)) (fun b1 =>
         obind (block p CS_SECURITY client_security_data) (fun b2 =>
         obind (block p CS_NET client_network_data) (fun b3 => Ok (b1 ++ b2 ++ b3)))))
        (fun ud => x224_frame (connect_initial (write_conference_create_request ud)))
  = Ok (tpkt_frame (X224_DATA ++
          (ci_prefix (u16_lo (c_width c)) (u16_hi (c_width c)) (u16_lo (c_height c)) (u16_hi (c_height c))
                     (c_layout c mod 256) ((c_layout c / 256) mod 256) ((c_layout c / 65536) mod 256) ((c_layout c / 16777216) mod 256)
           ++ nf ++ ci_suffix (sel mod 256) ((sel / 256) mod 256) ((sel / 65536) mod 256) ((sel / 16777216) mod 256)))).
Proof. intros Hl. destruct_list32 nf. reflexivity. Qed.

Lemma fixed_string_zeros64 : fixed_string (zeros 64) = Some [].
Proof. vm_compute. reflexivity. Qed.

Lemma emit_connect_initial_parses p swapped c i :
  valid_cfg swapped c i ->
  exists f, emit_connect_initial p c (i_selected i) = Ok f /\ strict_parse f = Some (expected_connect_initial c (i_selected i)).
Proof.
  intros [Hn [_ [_ [_ [Hw [Hh [Hl [_ [Hs _]]]]]]]]].
  pose proof (client_name_field_len (c_name c) Hn) as Hlen.
  eexists. split; [exact (ci_emitted p c (i_selected i) _ Hlen)|].
  match goal with |- strict_parse (tpkt_frame (X224_DATA ++ ?m)) = _ => set (body := m) end.
  assert (Hbl : nlen body = 366).
  { subst body. rewrite !nlen_app. unfold nlen. rewrite Hlen. reflexivity. }
  rewrite strict_parse_x224 by lia.
  assert (Hm : sp_mcs body = sp_connect_initial_pdu body) by reflexivity.
  unfold exactly. rewrite Hm. unfold sp_connect_initial_pdu. subst body.
  rewrite (bind_step _ _ _ _ _ (ci_raw_parses _ _ _ _ _ _ _ _ _ _ _ _ _ Hlen)). cbv beta iota.
  rewrite le_value4. rewrite !le16_of by assumption. rewrite !le32_of by assumption.
  unfold decode_blocks, decode_core, ci_core_raw. cbn [b_core b_security b_channels k_name k_ime k_version k_width k_height k_color_depth k_sas k_layout k_build k_kbd_type k_kbd_subtype k_kbd_fnkeys k_optional].
  rewrite (client_name_field_decodes _ Hn), fixed_string_zeros64.
  reflexivity.
Qed.

(* ================================================================== the whole transcript *)
Definition parses_to (o : outcome bytes) (d : pdu) : Prop := exists f, o = Ok f /\ strict_parse f = Some d.

Lemma valid_uid swapped c i : valid_cfg swapped c i -> 1001 <= i_uid i <= 65535.
Proof. intros H. apply H. Qed.
Lemma valid_io swapped c i : valid_cfg swapped c i -> i_io i < 65536.
Proof. intros H. apply H. Qed.
Lemma valid_share swapped c i : valid_cfg swapped c i -> i_share i < 4294967296.
Proof. intros H. apply H. Qed.

Lemma inputs_parse p swapped c i evs :
  valid_cfg swapped c i -> Forall sendable evs ->
  Forall2 parses_to (map (emit_input p c i) evs) (map (expected_input i) evs).
Proof.
  intros Hv He. induction He as [|e evs He Hes IH]; cbn [map]; constructor; auto.
  apply emit_input_parses; [eapply valid_uid|eapply valid_io|eapply valid_share|]; eauto.
Qed.

Theorem all_parse p swapped c i evs :
  valid_cfg swapped c i -> Forall sendable evs ->
  Forall2 parses_to (emitted p swapped c i evs) (expected swapped c i evs).
Proof.
  intros Hv He. pose proof (valid_uid _ _ _ Hv) as Hu. pose proof (valid_io _ _ _ Hv) as Hio.
  unfold emitted, expected, emitted_session, expected_session.
  constructor. { apply emit_cr_parses. apply Hv. }
  cbn [app].
  constructor. { eapply emit_connect_initial_parses; eauto. }
  constructor. { apply emit_erect_domain_parses. }
  constructor. { apply emit_attach_user_parses. }
  constructor. { apply emit_channel_join_parses; [exact Hu|lia]. }
  constructor. { apply emit_channel_join_parses; [exact Hu|lia]. }
  constructor. { apply emit_client_info_parses; exact Hv. }
  constructor. { eapply emit_confirm_active_parses; eauto. }
  apply Forall2_app. { apply emit_finalize_parses; [exact Hu|exact Hio|eapply valid_share; eauto]. }
  apply Forall2_app. { eapply inputs_parse; eauto. }
  constructor; [|constructor]. apply emit_disconnect_parses.
Qed.

(* no write of the transcript fails: the run reaches its end and puts exactly these frames on the wire *)
Lemma run_writes_ok l ds : Forall2 parses_to l ds ->
  forall acc, exists fs, run_writes l acc = (Ok tt, rev acc ++ fs) /\ Forall2 (fun f d => strict_parse f = Some d) fs ds.
Proof.
  induction 1 as [|o d l ds [f [-> Hf]] Hl IH]; intros acc.
  - exists []. split; [cbn; rewrite app_nil_r; reflexivity|constructor].
  - destruct (IH (f :: acc)) as [fs [Hr Hfs]]. exists (f :: fs). split.
    + cbn [run_writes]. rewrite Hr. cbn [rev]. rewrite <- app_assoc. reflexivity.
    + constructor; assumption.
Qed.

Theorem transcript_completes p swapped c i evs :
  valid_cfg swapped c i -> Forall sendable evs ->
  exists fs, run_writes (emitted p swapped c i evs) [] = (Ok tt, fs) /\
             Forall2 (fun f d => strict_parse f = Some d) fs (expected swapped c i evs).
Proof.
  intros Hv He. destruct (run_writes_ok _ _ (all_parse p swapped c i evs Hv He) []) as [fs [Hr Hfs]].
  exists fs. split; assumption.
Qed.

(* the client name field on its own *)
Theorem client_name_field_wellformed name :
  Forall scalar name ->
  List.length (client_name_field name) = 32%nat /\ fixed_string (client_name_field name) = Some (wire_name name).
Proof. intros H. split; [apply client_name_field_len|apply client_name_field_decodes]; exact H. Qed.

(* the wire name is the whole name when it fits and has no embedded null *)
Lemma fit_units_all n s : (List.length (utf16 s) <= n)%nat -> fit_units n s = s.
Proof.
  revert n. induction s as [|c s IH]; intros n Hn; [reflexivity|].
  cbn [fit_units]. unfold utf16 in *. cbn [flat_map] in Hn. rewrite app_length in Hn.
  unfold utf16_char in Hn at 1. destruct (c <? 65536); cbn [Datatypes.length] in Hn.
  - destruct n as [|m]; [lia|]. cbn [Nat.leb]. f_equal. apply IH. lia.
  - destruct n as [|[|m]]; [lia|lia|]. cbn [Nat.leb]. f_equal. apply IH. lia.
Qed.
Lemma before_null_all s : Forall (fun c => c <> 0) s -> before_null s = s.
Proof.
  induction 1 as [|c s Hc Hs IH]; [reflexivity|]. cbn [before_null].
  replace (c =? 0) with false by (symmetry; apply N.eqb_neq; exact Hc). f_equal. exact IH.
Qed.
Theorem wire_name_short name :
  (List.length (utf16 name) <= 15)%nat -> Forall (fun c => c <> 0) name -> wire_name name = name.
Proof. intros Hl Hz. unfold wire_name. rewrite fit_units_all by exact Hl. apply before_null_all. exact Hz. Qed.

(* ================================================================== a concrete run *)
(* name "Ré\U0001F600中-client-name" (17 UTF-16 units, a surrogate pair inside the first 15), Latin-1 / CJK /
   non-BMP credentials, a server that reports the version for which extended info is sent *)
Definition demo_cfg : config :=
  mkCfg 3 false true 1024 768 1036
        [82; 233; 128512; 20013; 45; 99; 108; 105; 101; 110; 116; 45; 110; 97; 109; 101]
        [67; 79; 82; 80] [106; 252; 114; 103; 101; 110; 128512] [112; 97; 223; 119; 246; 114; 100; 19990; 30028; 1114111].
Definition demo_ids : server_ids := mkIds 1 524289 1007 66538 1005.
Definition demo_events : list input_ev := [EvPointer 4660 65534 BRight true; EvKey 28 false].

Lemma demo_valid : valid_cfg true demo_cfg demo_ids /\ Forall sendable demo_events.
Proof.
  assert (Hsc : forall l, forallb is_scalar l = true -> Forall scalar l).
  { induction l as [|x l IH]; cbn [forallb]; [constructor|]. intros H. apply andb_true_iff in H. destruct H as [H1 H2].
    constructor; [|apply IH; exact H2]. unfold is_scalar in H1. unfold scalar.
    apply orb_true_iff in H1. destruct H1 as [H1|H1]; [left; apply N.ltb_lt; exact H1|].
    apply andb_true_iff in H1. destruct H1 as [Ha Hb]. right. split; [apply N.leb_le; exact Ha|apply N.ltb_lt; exact Hb]. }
  split.
  - unfold valid_cfg.
    split; [apply Hsc; vm_compute; reflexivity|]. split; [apply Hsc; vm_compute; reflexivity|].
    split; [apply Hsc; vm_compute; reflexivity|]. split; [apply Hsc; vm_compute; reflexivity|].
    repeat split; vm_compute; congruence.
  - repeat constructor; vm_compute; reflexivity.
Qed.

Lemma demo_run :
  map (fun o => match o with Ok f => strict_parse f | _ => None end) (emitted Debug true demo_cfg demo_ids demo_events)
  = map Some (expected true demo_cfg demo_ids demo_events)
  /\ wire_name (c_name demo_cfg) = [82; 233; 128512; 20013; 45; 99; 108; 105; 101; 110; 116; 45; 110; 97].
Proof. split; vm_compute; reflexivity. Qed.

(* ================================================================== the frames are byte strings *)
Lemma wf_cons b l : b < 256 -> wf_bytes l -> wf_bytes (b :: l).
Proof. intros. constructor; assumption. Qed.
Lemma wf_app2 a b : wf_bytes a -> wf_bytes b -> wf_bytes (a ++ b).
Proof. intros. apply Forall_app. split; assumption. Qed.
Lemma mod256 n : n mod 256 < 256. Proof. apply N.mod_lt. lia. Qed.
Lemma wf_le16 n : wf_bytes (le16 n).
Proof. unfold le16, u16_lo, u16_hi. repeat constructor; apply mod256. Qed.
Lemma wf_be16 n : wf_bytes (be16 n).
Proof. unfold be16, u16_lo, u16_hi. repeat constructor; apply mod256. Qed.
Lemma wf_le32 n : wf_bytes (le32 n).
Proof. unfold le32. repeat constructor; apply mod256. Qed.
Lemma wf_pwl n : wf_bytes (per_write_length n).
Proof.
  unfold per_write_length. destruct (127 <? n) eqn:E; [apply wf_be16|].
  apply N.ltb_ge in E. repeat constructor. lia.
Qed.
Lemma wf_tpkt_frame m : wf_bytes m -> wf_bytes (tpkt_frame m).
Proof. intros H. unfold tpkt_frame. apply wf_app2; [repeat constructor; lia|]. apply wf_app2; [apply wf_be16|exact H]. Qed.
Lemma wf_mcs_frame s b : wf_bytes b -> wf_bytes (mcs_frame s b).
Proof.
  intros H. unfold mcs_frame. apply wf_tpkt_frame.
  repeat (first [apply wf_app2 | apply wf_be16 | apply wf_pwl | exact H | (repeat constructor; lia)]).
Qed.
Lemma wf_zeros n : wf_bytes (zeros n).
Proof. unfold zeros. apply Forall_forall. intros x Hx. apply repeat_spec in Hx. subst. lia. Qed.
Lemma wf_units_le u : wf_bytes (units_le u).
Proof. induction u as [|a u IH]; [constructor|]. unfold units_le in *. cbn [flat_map]. apply wf_app2; [apply wf_le16|exact IH]. Qed.

Lemma wf_utf8 s : Forall scalar s -> wf_bytes (utf8 s).
Proof.
  induction 1 as [|c s Hc Hs IH]; [constructor|].
  unfold utf8 in *. cbn [flat_map]. apply wf_app2; [|exact IH].
  assert (Hm : forall x, 128 + x mod 64 < 256) by (intros x; pose proof (N.mod_lt x 64 ltac:(lia)); lia).
  unfold utf8_char.
  destruct (c <? 128) eqn:E1; [apply N.ltb_lt in E1; repeat constructor; lia|].
  destruct (c <? 2048) eqn:E2.
  { apply N.ltb_lt in E2. assert (c / 64 < 32) by (apply N.div_lt_upper_bound; lia).
    repeat constructor; [lia|apply Hm]. }
  destruct (c <? 65536) eqn:E3.
  { apply N.ltb_lt in E3. assert (c / 4096 < 16) by (apply N.div_lt_upper_bound; lia).
    repeat constructor; [lia|apply Hm|apply Hm]. }
  assert (c < 1114112) by (destruct Hc as [Hc|[_ Hc]]; lia).
  assert (c / 262144 < 5) by (apply N.div_lt_upper_bound; lia).
  repeat constructor; [lia|apply Hm|apply Hm|apply Hm].
Qed.

Lemma wf_caps_section w0 w1 h0 h1 l0 l1 l2 l3 :
  w0 < 256 -> w1 < 256 -> h0 < 256 -> h1 < 256 -> l0 < 256 -> l1 < 256 -> l2 < 256 -> l3 < 256 ->
  wf_bytes (caps_section_explicit w0 w1 h0 h1 l0 l1 l2 l3).
Proof. intros. unfold caps_section_explicit. repeat (apply wf_cons; [lia|]). constructor. Qed.
Lemma wf_ci_prefix w0 w1 h0 h1 l0 l1 l2 l3 :
  w0 < 256 -> w1 < 256 -> h0 < 256 -> h1 < 256 -> l0 < 256 -> l1 < 256 -> l2 < 256 -> l3 < 256 ->
  wf_bytes (ci_prefix w0 w1 h0 h1 l0 l1 l2 l3).
Proof. intros. unfold ci_prefix. repeat (apply wf_cons; [lia|]). constructor. Qed.
Lemma wf_ci_suffix s0 s1 s2 s3 : s0 < 256 -> s1 < 256 -> s2 < 256 -> s3 < 256 -> wf_bytes (ci_suffix s0 s1 s2 s3).
Proof. intros. unfold ci_suffix. repeat (apply wf_cons; [lia|]). constructor. Qed.

Definition is_wf (o : outcome bytes) : Prop := exists f, o = Ok f /\ wf_bytes f.

Lemma wf_data_pdu_of i total t2 body :
  total < 256 -> t2 < 256 -> wf_bytes body -> wf_bytes (data_pdu_of i total t2 body).
Proof.
  intros Ht H2 Hb. unfold data_pdu_of, data_pdu_bytes. apply wf_app2; [|exact Hb].
  unfold u16_lo, u16_hi. repeat (apply wf_cons; [first [lia | apply mod256]|]). constructor.
Qed.

Theorem all_wf p swapped c i evs :
  valid_cfg swapped c i -> Forall sendable evs -> Forall is_wf (emitted p swapped c i evs).
Proof.
  intros Hv He.
  pose proof Hv as [Hn [Hd [Hu [Hp [Hw [Hh [Hl [Ho [Hs [Hsh [Huid [Hio [Hinfo Hconf]]]]]]]]]]]]].
  assert (Hdata : forall total t2 body, total < 256 -> t2 < 256 -> wf_bytes body -> nlen body <= 100 ->
                    is_wf (checked (Ok (mcs_frame (session_of c i) (data_pdu_of i total t2 body))))).
  { intros total t2 body Ht H2 Hb Hlen. eexists. split.
    - apply checked_ok. apply mcs_frame_len. unfold data_pdu_of, PER_MAX. rewrite nlen_data_pdu_bytes. lia.
    - apply wf_mcs_frame. apply wf_data_pdu_of; assumption. }
  unfold emitted, emitted_session.
  constructor.
  { (* connection request *)
    unfold emit_cr.
    assert (Hwr : wr p (x224_connection_pdu NEG_REQ (if c_ram c then 1 else 0) (c_offered c))
                 = Ok [14; 224; 0; 0; 0; 0; 0; 1; (if c_ram c then 1 else 0); 8; 0;
                       c_offered c mod 256; (c_offered c / 256) mod 256; (c_offered c / 65536) mod 256; (c_offered c / 16777216) mod 256])
      by reflexivity.
    rewrite Hwr. cbn [obind]. eexists. split; [reflexivity|]. apply wf_tpkt_frame.
    repeat (apply wf_cons; [first [lia | apply mod256 | destruct (c_ram c); lia]|]). constructor. }
  cbn [app].
  constructor.
  { eexists. split; [exact (ci_emitted p c (i_selected i) _ (client_name_field_len _ Hn))|].
    apply wf_tpkt_frame. apply wf_app2; [repeat constructor; lia|].
    apply wf_app2; [apply wf_ci_prefix; unfold u16_lo, u16_hi; apply mod256|].
    apply wf_app2; [apply wf_units_le|apply wf_ci_suffix; apply mod256]. }
  constructor. { eexists. split; [vm_compute; reflexivity|]. repeat constructor; lia. }
  constructor. { eexists. split; [vm_compute; reflexivity|]. repeat constructor; lia. }
  assert (Hcj : forall ch, ch < 65536 -> is_wf (emit_channel_join (i_uid i) ch)).
  { intros ch Hc. unfold emit_channel_join.
    rewrite x224_frame_ok by (rewrite !nlen_app, !nlen_be16; change (nlen [56]) with 1; lia).
    eexists. split; [reflexivity|]. apply wf_tpkt_frame.
    repeat (first [apply wf_app2 | apply wf_be16 | (repeat constructor; lia)]). }
  constructor. { apply Hcj. exact Hio. }
  constructor. { apply Hcj. lia. }
  constructor.
  { (* client info *)
    unfold emit_client_info, wr. rewrite info_write. cbn [obind].
    set (ext := is_rdp_version_5_plus swapped (i_version i)) in *.
    unfold info_size, PER_MAX in Hinfo. fold ext in Hinfo.
    assert (Ld : nlen (utf16le (c_domain c)) < 65536) by (rewrite nlen_utf16le; lia).
    assert (Lu : nlen (utf16le (c_user c)) < 65536) by (rewrite nlen_utf16le; lia).
    assert (Lp : nlen (utf16le (c_password c)) < 65536) by (rewrite nlen_utf16le; lia).
    rewrite !cb_field by assumption. rewrite info_written_flat.
    rewrite (mcs_send_frame c i) by (rewrite nlen_info_flat, !nlen_utf16le; unfold PER_MAX; destruct ext; lia).
    eexists. split; [reflexivity|]. apply wf_mcs_frame. unfold info_flat, utf16le.
    repeat (first [apply wf_app2 | apply wf_le16 | apply wf_le32 | apply wf_units_le | (repeat constructor; lia)
                  | (destruct ext; [unfold ext_info_bytes; repeat (first [apply wf_app2 | apply wf_zeros | (repeat constructor; lia)]) | constructor])]). }
  constructor.
  { (* confirm active *)
    unfold confirm_size, PER_MAX in Hconf. unfold emit_confirm_active. rewrite confirm_write.
    set (capsec := caps_section_explicit _ _ _ _ _ _ _ _).
    assert (Hcl : nlen capsec = 380) by reflexivity.
    rewrite confirm_written_flat by (try exact Hcl; lia).
    rewrite checked_ok by (apply mcs_frame_len; rewrite nlen_confirm_flat by exact Hcl; unfold PER_MAX; lia).
    eexists. split; [reflexivity|]. apply wf_mcs_frame. unfold confirm_flat.
    repeat (first [apply wf_app2 | apply wf_le16 | apply wf_le32 | apply wf_utf8; exact Hn | (repeat constructor; lia)]).
    subst capsec. apply wf_caps_section; unfold u16_lo, u16_hi; apply mod256. }
  apply Forall_app. split.
  { unfold emit_finalize.
    rewrite (write_sync p c i), (write_coop p c i), (write_reqctl p c i), (write_fontlist p c i).
    repeat constructor; apply Hdata; try lia; try (repeat constructor; lia); cbn; lia. }
  apply Forall_app. split.
  { induction He as [|e evs Hev Hes IH]; cbn [map]; constructor; [|exact IH].
    unfold emit_input.
    destruct e as [x y b down | code down | ]; cbn [sendable] in Hev; [| |contradiction].
    - assert (Hwr : client_write p (session_of c i) (EvPointer x y b down) =
                   mkStep (session_of c i) (Ok tt)
                     [mcs_frame (session_of c i) (data_pdu_of i 34 28 ([1; 0; 0; 0; 0; 0; 0; 0; 1; 128] ++ le16 (pointer_flags b down) ++ le16 x ++ le16 y))] [])
        by reflexivity.
      rewrite Hwr. cbn [r_out r_wire]. eexists. split; [reflexivity|]. apply wf_mcs_frame. apply wf_data_pdu_of; try lia.
      repeat (first [apply wf_app2 | apply wf_le16 | (repeat constructor; lia)]).
    - assert (Hwr : client_write p (session_of c i) (EvKey code down) =
                   mkStep (session_of c i) (Ok tt)
                     [mcs_frame (session_of c i) (data_pdu_of i 34 28 ([1; 0; 0; 0; 0; 0; 0; 0; 4; 0] ++ le16 (if down then 0 else 32768) ++ le16 code ++ [0; 0]))] [])
        by reflexivity.
      rewrite Hwr. cbn [r_out r_wire]. eexists. split; [reflexivity|]. apply wf_mcs_frame. apply wf_data_pdu_of; try lia.
      repeat (first [apply wf_app2 | apply wf_le16 | (repeat constructor; lia)]). }
  constructor; [|constructor]. eexists. split; [vm_compute; reflexivity|]. repeat constructor; lia.
Qed.
