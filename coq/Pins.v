(* HAND-MAINTAINED pins: the normalised Rust source text of every VALUE expression (a field initialiser that is
   not a literal) that the hand-written value functions of the model were written against.

   The translator writes the CURRENT text to Gen/Pins_gen.v; Gen/Tie/P_<file>__<layout>.v proves
   `Pins.pin_x = Pins_gen.pin_x` by reflexivity.  When such a lemma fails, the Rust expression of that field changed:
   re-read the hand-written function named in the comment, update it if its value changed, and only then copy the
   new text here (`translator/rs2v.py --emit-pins` prints the current texts in this format).
   Text after `WHERE` = the statements of the function's preamble the expression depends on. *)
From Coq Require Import String.
Open Scope string_scope.

(* ---- src/core/capability.rs: fn capability_set   modelled by: LayoutsGlobal.capability_set_t; LayoutsGlobal.capability_set cap_type body body_len *)
Definition pin_capability__capability_set__capabilitySetType : string :=
  "default_capability.cap_type as u16  WHERE  let default_capability = capability.unwrap_or(Capability { cap_type : CapabilitySetType::CapstypeGeneral, message : component![] });".
Definition pin_capability__capability_set__lengthCapability : string :=
  "default_capability.message.length() as u16 + 4  WHERE  let default_capability = capability.unwrap_or(Capability { cap_type : CapabilitySetType::CapstypeGeneral, message : component![] });".
Definition pin_capability__capability_set__capabilitySet : string :=
  "to_vec(&default_capability.message)  WHERE  let default_capability = capability.unwrap_or(Capability { cap_type : CapabilitySetType::CapstypeGeneral, message : component![] });".

(* ---- src/core/capability.rs: fn ts_general_capability_set   modelled by: LayoutsGlobal.ts_general_capability_set 0; LayoutsGlobal.ts_general_capability_set extra_flags *)
Definition pin_capability__ts_general_capability_set__extraFlags : string :=
  "extra_flags.unwrap_or(0)".

(* ---- src/core/capability.rs: fn ts_bitmap_capability_set   modelled by: LayoutsGlobal.ts_bitmap_capability_set 0 0 0; LayoutsGlobal.ts_bitmap_capability_set bpp w h *)
Definition pin_capability__ts_bitmap_capability_set__preferredBitsPerPixel : string :=
  "preferred_bits_per_pixel.unwrap_or(0)".
Definition pin_capability__ts_bitmap_capability_set__desktopWidth : string :=
  "desktop_width.unwrap_or(0)".
Definition pin_capability__ts_bitmap_capability_set__desktopHeight : string :=
  "desktop_height.unwrap_or(0)".

(* ---- src/core/capability.rs: fn ts_order_capability_set   modelled by: LayoutsGlobal.ts_order_capability_set 2; LayoutsGlobal.ts_order_capability_set order_flags *)
Definition pin_capability__ts_order_capability_set__orderFlags : string :=
  "order_flags.unwrap_or(OrderFlag::NEGOTIATEORDERSUPPORT as u16)".

(* ---- src/core/capability.rs: fn ts_input_capability_set   modelled by: LayoutsGlobal.ts_input_capability_set 0 1036; LayoutsGlobal.ts_input_capability_set input_flags layout *)
Definition pin_capability__ts_input_capability_set__inputFlags : string :=
  "input_flags.unwrap_or(0)".
Definition pin_capability__ts_input_capability_set__keyboardLayout : string :=
  "keyboard_layout.unwrap_or(KeyboardLayout::French) as u32".

(* ---- src/core/gcc.rs: fn client_core_data   modelled by: Gcc.client_core_data version width height layout name16 selected; ClientPdus.client_core_data w h layout selected name_field *)
Definition pin_gcc__client_core_data__version : string :=
  "client_parameter.rdp_version as u32  WHERE  let client_parameter = parameter.unwrap_or(ClientData { width : 0, height : 0, layout : KeyboardLayout::French, server_selected_protocol : 0, rdp_version : Version::RdpVersion5plus, name : """".to_string() });".
Definition pin_gcc__client_core_data__desktopWidth : string :=
  "client_parameter.width  WHERE  let client_parameter = parameter.unwrap_or(ClientData { width : 0, height : 0, layout : KeyboardLayout::French, server_selected_protocol : 0, rdp_version : Version::RdpVersion5plus, name : """".to_string() });".
Definition pin_gcc__client_core_data__desktopHeight : string :=
  "client_parameter.height  WHERE  let client_parameter = parameter.unwrap_or(ClientData { width : 0, height : 0, layout : KeyboardLayout::French, server_selected_protocol : 0, rdp_version : Version::RdpVersion5plus, name : """".to_string() });".
Definition pin_gcc__client_core_data__kbdLayout : string :=
  "client_parameter.layout as u32  WHERE  let client_parameter = parameter.unwrap_or(ClientData { width : 0, height : 0, layout : KeyboardLayout::French, server_selected_protocol : 0, rdp_version : Version::RdpVersion5plus, name : """".to_string() });".
Definition pin_gcc__client_core_data__clientName : string :=
  "client_name.iter().flat_map(| c | c.to_le_bytes().to_vec()).collect::< Vec < u8 >> ()  WHERE  let client_parameter = parameter.unwrap_or(ClientData { width : 0, height : 0, layout : KeyboardLayout::French, server_selected_protocol : 0, rdp_version : Version::RdpVersion5plus, name : """".to_string() });  ;;  let mut client_name : Vec < u16 > = client_parameter.name.encode_utf16().take(15).collect();  ;;  if let Some(0xD800 ..= 0xDBFF) = client_name.last() { client_name.pop(); }  ;;  client_name.resize(16, 0);".
Definition pin_gcc__client_core_data__serverSelectedProtocol : string :=
  "client_parameter.server_selected_protocol  WHERE  let client_parameter = parameter.unwrap_or(ClientData { width : 0, height : 0, layout : KeyboardLayout::French, server_selected_protocol : 0, rdp_version : Version::RdpVersion5plus, name : """".to_string() });".

(* ---- src/core/gcc.rs: fn channel_def   modelled by: (unmodelled) *)
Definition pin_gcc__channel_def__name : string :=
  "name.as_bytes().to_vec()".
Definition pin_gcc__channel_def__options : string :=
  "options".

(* ---- src/core/gcc.rs: fn client_network_data   modelled by: Gcc.client_network_data channel_count channel_def_array; ClientPdus.client_network_data *)
Definition pin_gcc__client_network_data__channelCount : string :=
  "channel_def_array.len() as u32".
Definition pin_gcc__client_network_data__channelDefArray : string :=
  "to_vec(&channel_def_array)".

(* ---- src/core/gcc.rs: fn block_header   modelled by: LayoutsConnect.block_header_t; ClientPdus.block_header t len; Gcc.block_header p data_type len *)
Definition pin_gcc__block_header__type : string :=
  "data_type.unwrap_or(MessageType::CsCore) as u16".
Definition pin_gcc__block_header__length : string :=
  "length.unwrap_or(0) as u16 + 4".

(* ---- src/core/global.rs: fn ts_confirm_active_pdu   modelled by: LayoutsGlobal.ts_confirm_active_pdu_t; LayoutsGlobal.ts_confirm_active_pdu share_id source caps caps_len *)
Definition pin_global__ts_confirm_active_pdu__shareId : string :=
  "share_id.unwrap_or(0)".
Definition pin_global__ts_confirm_active_pdu__lengthSourceDescriptor : string :=
  "default_source.len() as u16  WHERE  let default_source = source.unwrap_or(vec![]);".
Definition pin_global__ts_confirm_active_pdu__lengthCombinedCapabilities : string :=
  "default_capabilities_set.length() as u16 + 4  WHERE  let default_capabilities_set = capabilities_set.unwrap_or(Array::new(|| capability_set(None)));".
Definition pin_global__ts_confirm_active_pdu__sourceDescriptor : string :=
  "default_source  WHERE  let default_source = source.unwrap_or(vec![]);".
Definition pin_global__ts_confirm_active_pdu__numberCapabilities : string :=
  "default_capabilities_set.inner().len() as u16  WHERE  let default_capabilities_set = capabilities_set.unwrap_or(Array::new(|| capability_set(None)));".
Definition pin_global__ts_confirm_active_pdu__capabilitySets : string :=
  "default_capabilities_set  WHERE  let default_capabilities_set = capabilities_set.unwrap_or(Array::new(|| capability_set(None)));".

(* ---- src/core/global.rs: fn share_data_header   modelled by: LayoutsGlobal.share_data_header_t; LayoutsGlobal.share_data_header share_id pdu_type_2 message *)
Definition pin_global__share_data_header__shareId : string :=
  "share_id.unwrap_or(0)".
Definition pin_global__share_data_header__uncompressedLength : string :=
  "default_message.length() as u16 + 18  WHERE  let default_message = message.unwrap_or(vec![]);".
Definition pin_global__share_data_header__pduType2 : string :=
  "pdu_type_2.unwrap_or(PDUType2::Pdutype2ArcStatusPdu) as u8".
Definition pin_global__share_data_header__payload : string :=
  "default_message  WHERE  let default_message = message.unwrap_or(vec![]);".

(* ---- src/core/global.rs: fn share_control_header   modelled by: LayoutsGlobal.share_control_header_t; LayoutsGlobal.share_control_header pdu_type pdu_source message *)
Definition pin_global__share_control_header__totalLength : string :=
  "default_message.length() as u16 + 6  WHERE  let default_message = message.unwrap_or(vec![]);".
Definition pin_global__share_control_header__pduType : string :=
  "pdu_type.unwrap_or(PDUType::PdutypeDemandactivepdu) as u16".
Definition pin_global__share_control_header__PDUSource : string :=
  "pdu_source.unwrap_or(0)".
Definition pin_global__share_control_header__pduMessage : string :=
  "default_message  WHERE  let default_message = message.unwrap_or(vec![]);".

(* ---- src/core/global.rs: fn ts_synchronize_pdu   modelled by: LayoutsGlobal.ts_synchronize_pdu 0; LayoutsGlobal.ts_synchronize_pdu target_user *)
Definition pin_global__ts_synchronize_pdu__targetUser : string :=
  "target_user.unwrap_or(0)".

(* ---- src/core/global.rs: fn ts_control_pdu   modelled by: LayoutsGlobal.ts_control_pdu LayoutsGlobal.CTRLACTION_COOPERATE; LayoutsGlobal.ts_control_pdu action *)
Definition pin_global__ts_control_pdu__action : string :=
  "action.unwrap_or(Action::CtrlactionCooperate) as u16".

(* ---- src/core/global.rs: fn ts_input_pdu_data   modelled by: LayoutsGlobal.ts_input_pdu_data events *)
Definition pin_global__ts_input_pdu_data__numEvents : string :=
  "default_events.inner().len() as u16  WHERE  let default_events = events.unwrap_or(Array::new(|| ts_input_event(None, None)));".
Definition pin_global__ts_input_pdu_data__slowPathInputEvents : string :=
  "default_events  WHERE  let default_events = events.unwrap_or(Array::new(|| ts_input_event(None, None)));".

(* ---- src/core/global.rs: fn ts_input_event   modelled by: LayoutsGlobal.ts_input_event message_type data *)
Definition pin_global__ts_input_event__messageType : string :=
  "message_type.unwrap_or(InputEventType::InputEventMouse) as u16".
Definition pin_global__ts_input_event__slowPathInputData : string :=
  "data.unwrap_or(vec![])".

(* ---- src/core/global.rs: fn ts_pointer_event   modelled by: LayoutsGlobal.ts_pointer_event flags x y *)
Definition pin_global__ts_pointer_event__pointerFlags : string :=
  "flags.unwrap_or(0)".
Definition pin_global__ts_pointer_event__xPos : string :=
  "x.unwrap_or(0)".
Definition pin_global__ts_pointer_event__yPos : string :=
  "y.unwrap_or(0)".

(* ---- src/core/global.rs: fn ts_keyboard_event   modelled by: LayoutsGlobal.ts_keyboard_event flags code *)
Definition pin_global__ts_keyboard_event__keyboardFlags : string :=
  "flags.unwrap_or(0)".
Definition pin_global__ts_keyboard_event__keyCode : string :=
  "key_code.unwrap_or(0)".

(* ---- src/nla/ntlm.rs: fn negotiate_message   modelled by: LayoutsNtlm.negotiate_message flags; LayoutsNtlmAuth.negotiate_message_l flags *)
Definition pin_ntlm__negotiate_message__NegotiateFlags : string :=
  "flags".

(* ---- src/nla/ntlm.rs: fn authenticate_message   modelled by: LayoutsNtlmAuth.authenticate_message_l lm nt domain user workstation key flags; obind (LayoutsNtlm.authenticate_message p lm nt domain user workstation key flags) (fun r => Ok (fst r)) *)
Definition pin_ntlm__authenticate_message__LmChallengeResponseLen : string :=
  "lm_challenge_response.len() as u16".
Definition pin_ntlm__authenticate_message__LmChallengeResponseMaxLen : string :=
  "lm_challenge_response.len() as u16".
Definition pin_ntlm__authenticate_message__LmChallengeResponseBufferOffset : string :=
  "offset  WHERE  let offset = if flags & (Negotiate::NtlmsspNegociateVersion as u32) == 0 { 80 } else { 88 };".
Definition pin_ntlm__authenticate_message__NtChallengeResponseLen : string :=
  "nt_challenge_response.len() as u16".
Definition pin_ntlm__authenticate_message__NtChallengeResponseMaxLen : string :=
  "nt_challenge_response.len() as u16".
Definition pin_ntlm__authenticate_message__NtChallengeResponseBufferOffset : string :=
  "offset + lm_challenge_response.len() as u32  WHERE  let offset = if flags & (Negotiate::NtlmsspNegociateVersion as u32) == 0 { 80 } else { 88 };".
Definition pin_ntlm__authenticate_message__DomainNameLen : string :=
  "domain.len() as u16".
Definition pin_ntlm__authenticate_message__DomainNameMaxLen : string :=
  "domain.len() as u16".
Definition pin_ntlm__authenticate_message__DomainNameBufferOffset : string :=
  "offset + (lm_challenge_response.len() + nt_challenge_response.len()) as u32  WHERE  let offset = if flags & (Negotiate::NtlmsspNegociateVersion as u32) == 0 { 80 } else { 88 };".
Definition pin_ntlm__authenticate_message__UserNameLen : string :=
  "user.len() as u16".
Definition pin_ntlm__authenticate_message__UserNameMaxLen : string :=
  "user.len() as u16".
Definition pin_ntlm__authenticate_message__UserNameBufferOffset : string :=
  "offset + (lm_challenge_response.len() + nt_challenge_response.len() + domain.len()) as u32  WHERE  let offset = if flags & (Negotiate::NtlmsspNegociateVersion as u32) == 0 { 80 } else { 88 };".
Definition pin_ntlm__authenticate_message__WorkstationLen : string :=
  "workstation.len() as u16".
Definition pin_ntlm__authenticate_message__WorkstationMaxLen : string :=
  "workstation.len() as u16".
Definition pin_ntlm__authenticate_message__WorkstationBufferOffset : string :=
  "offset + (lm_challenge_response.len() + nt_challenge_response.len() + domain.len() + user.len()) as u32  WHERE  let offset = if flags & (Negotiate::NtlmsspNegociateVersion as u32) == 0 { 80 } else { 88 };".
Definition pin_ntlm__authenticate_message__EncryptedRandomSessionLen : string :=
  "encrypted_random_session_key.len() as u16".
Definition pin_ntlm__authenticate_message__EncryptedRandomSessionMaxLen : string :=
  "encrypted_random_session_key.len() as u16".
Definition pin_ntlm__authenticate_message__EncryptedRandomSessionBufferOffset : string :=
  "offset + (lm_challenge_response.len() + nt_challenge_response.len() + domain.len() + user.len() + workstation.len()) as u32  WHERE  let offset = if flags & (Negotiate::NtlmsspNegociateVersion as u32) == 0 { 80 } else { 88 };".
Definition pin_ntlm__authenticate_message__NegotiateFlags : string :=
  "flags".

(* ---- src/nla/ntlm.rs: fn message_signature_ex   modelled by: LayoutsNtlm.message_signature_ex_t; LayoutsNtlm.message_signature_ex check_sum seq_num *)
Definition pin_ntlm__message_signature_ex__Checksum : string :=
  "if let Some(sum) = check_sum { sum[0 .. 8].to_vec() } else { vec![0; 8] }".
Definition pin_ntlm__message_signature_ex__SeqNum : string :=
  "if let Some(seq) = seq_num { seq } else { 0 }".

(* ---- src/core/sec.rs: fn rdp_infos   modelled by: ClientPdus.rdp_infos true domain user password auto; ClientPdus.rdp_infos false domain user password auto *)
Definition pin_sec__rdp_infos__flag : string :=
  "InfoFlag::InfoMouse as u32 | InfoFlag::InfoUnicode as u32 | InfoFlag::InfoLogonnotify as u32 | InfoFlag::InfoLogonerrors as u32 | InfoFlag::InfoDisablectrlaltdel as u32 | InfoFlag::InfoEnablewindowskey as u32 | if auto_logon { InfoFlag::InfoAutologon as u32 } else { 0 }".
Definition pin_sec__rdp_infos__cbDomain : string :=
  "(domain_format.len() - 2) as u16  WHERE  let mut domain_format = domain.to_unicode();  ;;  domain_format.push(0);  ;;  domain_format.push(0);".
Definition pin_sec__rdp_infos__cbUserName : string :=
  "(username_format.len() - 2) as u16  WHERE  let mut username_format = username.to_unicode();  ;;  username_format.push(0);  ;;  username_format.push(0);".
Definition pin_sec__rdp_infos__cbPassword : string :=
  "(password_format.len() - 2) as u16  WHERE  let mut password_format = password.to_unicode();  ;;  password_format.push(0);  ;;  password_format.push(0);".
Definition pin_sec__rdp_infos__domain : string :=
  "domain_format  WHERE  let mut domain_format = domain.to_unicode();  ;;  domain_format.push(0);  ;;  domain_format.push(0);".
Definition pin_sec__rdp_infos__userName : string :=
  "username_format  WHERE  let mut username_format = username.to_unicode();  ;;  username_format.push(0);  ;;  username_format.push(0);".
Definition pin_sec__rdp_infos__password : string :=
  "password_format  WHERE  let mut password_format = password.to_unicode();  ;;  password_format.push(0);  ;;  password_format.push(0);".
Definition pin_sec__rdp_infos__extendedInfos : string :=
  "is_extended_info".

(* ---- src/core/tpkt.rs: fn tpkt_header   modelled by: MComp [("action", MU8 3); ("flag", MU8 0); ("size", MU16 BE (size + 4))] *)
Definition pin_tpkt__tpkt_header__size : string :=
  "size + 4".

(* ---- src/core/x224.rs: fn rdp_neg_req   modelled by: LayoutsConnect.rdp_neg_req neg_type flag result; LayoutsConnect.rdp_neg_req LayoutsConnect.NEG_REQ 0 0 *)
Definition pin_x224__rdp_neg_req__type : string :=
  "neg_type.unwrap_or(NegotiationType::TypeRDPNegReq) as u8".
Definition pin_x224__rdp_neg_req__flag : string :=
  "flag.unwrap_or(0)".
Definition pin_x224__rdp_neg_req__result : string :=
  "result.unwrap_or(0)".

(* ---- src/core/x224.rs: fn x224_crq   modelled by: LayoutsConnect.x224_crq len code *)
Definition pin_x224__x224_crq__len : string :=
  "(len + 6) as u8".
Definition pin_x224__x224_crq__code : string :=
  "code as u8".

(* ---- src/core/x224.rs: fn x224_connection_pdu   modelled by: LayoutsConnect.x224_connection_pdu_t; LayoutsConnect.x224_connection_pdu neg_type flag result *)
Definition pin_x224__x224_connection_pdu__header : string :=
  "x224_crq(negotiation.length() as u8, MessageType::X224TPDUConnectionRequest)  WHERE  let negotiation = rdp_neg_req(neg_type, protocols, mode);".
Definition pin_x224__x224_connection_pdu__negotiation : string :=
  "negotiation  WHERE  let negotiation = rdp_neg_req(neg_type, protocols, mode);".
