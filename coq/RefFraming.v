(* Specification of RDP framing, written from T.123 §8 (TPKT) and MS-RDPBCGR
   §2.2.9.1.2 (fast-path output header), independently of the implementation. *)
From RdpV Require Import Base.

Inductive frame :=
| Slow (reserved : N) (payload : bytes)                 (* 03 rsv len_be16 payload *)
| Fast (action : N) (long : bool) (payload : bytes).    (* action len1 [len2] payload *)

Definition enc (f : frame) : bytes :=
  match f with
  | Slow r p => [3; r] ++ be16 (nlen p + 4) ++ p
  | Fast a false p => [a; nlen p + 2] ++ p
  | Fast a true p => [a; 128 + u16_hi (nlen p + 3); u16_lo (nlen p + 3)] ++ p
  end.

(* what a frame may be: every length field must be able to carry its value; the first
   byte 3 is TPKT, every other first byte is treated as a fast-path header whose two
   top bits are the security flags *)
Definition valid (f : frame) : Prop :=
  match f with
  | Slow r p => r < 256 /\ nlen p + 4 <= 65535
  | Fast a false p => a < 256 /\ a <> 3 /\ nlen p + 2 <= 127
  | Fast a true p => a < 256 /\ a <> 3 /\ nlen p + 3 <= 32767
  end.

Inductive delivered :=
| DRaw (p : bytes)
| DFast (sec_flags : N) (p : bytes).

Definition expected (f : frame) : delivered :=
  match f with
  | Slow _ p => DRaw p
  | Fast a _ p => DFast ((a / 64) mod 4) p
  end.
