(* PDU layouts of nla/ntlm.rs as terms of the message model (Msg.v): version,
   negotiate_message, challenge_message, authenticate_message, av_pair,
   message_signature_ex.  Hand-written from the component![..] declarations (field
   order, kinds, widths, endianness, constants, closures); tied to /repo by the C07
   correspondence run (harness/src/nla.rs vs ocaml/nla/driver.ml). *)
From RdpV Require Import Base Msg LayoutsGlobal.
Open Scope string_scope.
Open Scope list_scope.
Open Scope N_scope.

(* ---- enum Negotiate (the bits the code looks at) ---- *)
Definition NTLMSSP_NEGOTIATE_56 : N := 2147483648.
Definition NTLMSSP_NEGOTIATE_KEY_EXCH : N := 1073741824.
Definition NTLMSSP_NEGOTIATE_128 : N := 536870912.
Definition NTLMSSP_NEGOTIATE_VERSION : N := 33554432.          (* 0x02000000 = bit 25 *)
Definition NTLMSSP_NEGOTIATE_EXTENDED_SESSION_SECURITY : N := 524288.
Definition NTLMSSP_NEGOTIATE_ALWAYS_SIGN : N := 32768.
Definition NTLMSSP_NEGOTIATE_NTLM : N := 512.
Definition NTLMSSP_NEGOTIATE_SEAL : N := 32.
Definition NTLMSSP_NEGOTIATE_SIGN : N := 16.
Definition NTLMSSP_REQUEST_TARGET : N := 4.
Definition NTLMSSP_NEGOTIATE_UNICODE : N := 1.

(* the flags of Ntlm::create_negotiate_message: 0x60088235 *)
Definition negotiate_flags : N :=
  NTLMSSP_NEGOTIATE_KEY_EXCH + NTLMSSP_NEGOTIATE_128 + NTLMSSP_NEGOTIATE_EXTENDED_SESSION_SECURITY +
  NTLMSSP_NEGOTIATE_ALWAYS_SIGN + NTLMSSP_NEGOTIATE_NTLM + NTLMSSP_NEGOTIATE_SEAL + NTLMSSP_NEGOTIATE_SIGN +
  NTLMSSP_REQUEST_TARGET + NTLMSSP_NEGOTIATE_UNICODE.

(* |node| if node.inner() & NtlmsspNegociateVersion == 0 { SkipField("Version") } *)
Definition skip_version : clo := CloSkipIf (CBits 25 1 0) "Version".

Definition ntlm_signature : bytes := [78; 84; 76; 77; 83; 83; 80; 0].     (* "NTLMSSP\0" *)

(* version(): 6.0 build 6002, NTLM revision 15 *)
Definition version : msg :=
  MComp [
    ("ProductMajorVersion", MU8 6);
    ("ProductMinorVersion", MU8 0);
    ("ProductBuild", u16le 6002);
    ("Reserved", MTrame [u16le 0; MU8 0]);
    ("NTLMRevisionCurrent", MU8 15)
  ].

Definition negotiate_message (flags : N) : msg :=
  MComp [
    ("Signature", MBytes ntlm_signature);
    ("MessageType", u32le 1);
    ("NegotiateFlags", MDyn (u32le flags) skip_version);
    ("DomainNameLen", u16le 0);
    ("DomainNameMaxLen", u16le 0);
    ("DomainNameBufferOffset", u32le 0);
    ("WorkstationLen", u16le 0);
    ("WorkstationMaxLen", u16le 0);
    ("WorkstationBufferOffset", u32le 0);
    ("Version", version);
    ("Payload", MBytes [])
  ].

(* second message, server -> client: the read template *)
Definition challenge_message : msg :=
  MComp [
    ("Signature", MCheck (MBytes ntlm_signature));
    ("MessageType", MCheck (u32le 2));
    ("TargetNameLen", u16le 0);
    ("TargetNameLenMax", u16le 0);
    ("TargetNameBufferOffset", u32le 0);
    ("NegotiateFlags", MDyn (u32le 0) skip_version);
    ("ServerChallenge", MBytes (zeros 8));
    ("Reserved", MBytes (zeros 8));
    ("TargetInfoLen", u16le 0);
    ("TargetInfoMaxLen", u16le 0);
    ("TargetInfoBufferOffset", u32le 0);
    ("Version", version);
    ("Payload", MBytes [])
  ].

(* `x as u32` of a usize *)
Definition as_u32 (n : N) : N := n mod 4294967296.

Section Authenticate.
Variable p : prof.

(* authenticate_message(lm, nt, domain, user, workstation, key, flags) -> (Component, payload).
   The offsets are u32 additions `offset + (usize sum) as u32`: they trap in a debug build
   when the client's own strings are gigabytes long (not server controlled; the sizes the
   server controls are 16-bit). *)
Definition authenticate_message (lm nt domain user workstation key : bytes) (flags : N) : outcome (msg * bytes) :=
  let payload := lm ++ nt ++ domain ++ user ++ workstation ++ key in
  let offset := if N.land flags NTLMSSP_NEGOTIATE_VERSION =? 0 then 80 else 88 in
  let l16 (b : bytes) := u16le (as_u16 (nlen b)) in
  obind (add_w p 32 offset (as_u32 (nlen lm))) (fun o_nt =>
  obind (add_w p 32 offset (as_u32 (nlen lm + nlen nt))) (fun o_dom =>
  obind (add_w p 32 offset (as_u32 (nlen lm + nlen nt + nlen domain))) (fun o_user =>
  obind (add_w p 32 offset (as_u32 (nlen lm + nlen nt + nlen domain + nlen user))) (fun o_ws =>
  obind (add_w p 32 offset (as_u32 (nlen lm + nlen nt + nlen domain + nlen user + nlen workstation))) (fun o_key =>
  Ok (MComp [
    ("Signature", MCheck (MBytes ntlm_signature));
    ("MessageType", MCheck (u32le 3));
    ("LmChallengeResponseLen", l16 lm);
    ("LmChallengeResponseMaxLen", l16 lm);
    ("LmChallengeResponseBufferOffset", u32le offset);
    ("NtChallengeResponseLen", l16 nt);
    ("NtChallengeResponseMaxLen", l16 nt);
    ("NtChallengeResponseBufferOffset", u32le o_nt);
    ("DomainNameLen", l16 domain);
    ("DomainNameMaxLen", l16 domain);
    ("DomainNameBufferOffset", u32le o_dom);
    ("UserNameLen", l16 user);
    ("UserNameMaxLen", l16 user);
    ("UserNameBufferOffset", u32le o_user);
    ("WorkstationLen", l16 workstation);
    ("WorkstationMaxLen", l16 workstation);
    ("WorkstationBufferOffset", u32le o_ws);
    ("EncryptedRandomSessionLen", l16 key);
    ("EncryptedRandomSessionMaxLen", l16 key);
    ("EncryptedRandomSessionBufferOffset", u32le o_key);
    ("NegotiateFlags", MDyn (u32le flags) skip_version);
    ("Version", version)
  ], payload)))))).
End Authenticate.

(* AV_PAIR: id, length, value sized by the length *)
Definition av_pair : msg :=
  MComp [
    ("AvId", u16le 0);
    ("AvLen", MDyn (u16le 0) (CloSize "Value" XSelf));
    ("Value", MBytes [])
  ].

(* enum AvId: TryFromPrimitive domain 0..=10 *)
Definition MSV_AV_EOL : N := 0.
Definition MSV_AV_TIMESTAMP : N := 7.
Definition avid_known (i : N) : bool := i <=? 10.

(* message_signature_ex(check_sum, seq_num): `sum[0..8]` is a slice of the caller's buffer *)
Definition message_signature_ex (check_sum : option bytes) (seq_num : option N) : outcome msg :=
  let sq := match seq_num with Some s => s | None => 0 end in
  match check_sum with
  | Some sum =>
      if 8 <=? nlen sum
      then Ok (MComp [("Version", MCheck (u32le 1)); ("Checksum", MBytes (firstn 8 sum)); ("SeqNum", u32le sq)])
      else Panic
  | None => Ok (MComp [("Version", MCheck (u32le 1)); ("Checksum", MBytes (zeros 8)); ("SeqNum", u32le sq)])
  end.

(* the read template used by gss_unwrapex *)
Definition message_signature_ex_t : msg :=
  MComp [("Version", MCheck (u32le 1)); ("Checksum", MBytes (zeros 8)); ("SeqNum", u32le 0)].
