(* PDU layouts read during connection setup, as terms of the message model:
   core/x224.rs (x224_crq, rdp_neg_req, x224_connection_pdu), core/gcc.rs (block_header,
   server_core_data, server_security_data, server_network_data), core/sec.rs
   (security_header), core/license.rs (preamble, license_binary_blob,
   licensing_error_message).  Hand-written from the component![..] declarations of the
   REPAIRED code (field order, kinds, widths, endianness, constants, closures); tied to
   /repo by the connect correspondence run. *)
From RdpV Require Import Base Msg LayoutsGlobal.
Open Scope string_scope.
Open Scope list_scope.
Open Scope N_scope.

(* ---- x224 ---- *)
Definition NEG_REQ : N := 1.
Definition NEG_RSP : N := 2.
Definition NEG_FAILURE : N := 3.

Definition PROTOCOL_RDP : N := 0.
Definition PROTOCOL_SSL : N := 1.
Definition PROTOCOL_HYBRID : N := 2.
Definition PROTOCOL_HYBRID_EX : N := 8.

Definition X224_CONNECTION_REQUEST : N := 224.   (* 0xE0 *)

Definition rdp_neg_req (neg_type flag result : N) : msg :=
  MComp [
    ("type", MU8 neg_type);
    ("flag", MU8 flag);
    ("length", MCheck (u16le 8));
    ("result", u32le result)
  ].

Definition x224_crq (len code : N) : msg :=
  MComp [
    ("len", MU8 ((len + 6) mod 256));
    ("code", MU8 code);
    ("padding", MTrame [u16le 0; u16le 0; MU8 0])
  ].

Definition x224_connection_pdu (neg_type flag result : N) : msg :=
  MComp [
    ("header", x224_crq 8 X224_CONNECTION_REQUEST);
    ("negotiation", rdp_neg_req neg_type flag result)
  ].

(* the template read_connection_confirm reads into: x224_connection_pdu(None, None, None) *)
Definition x224_connection_pdu_t : msg := x224_connection_pdu NEG_REQ 0 0.

(* ---- gcc ---- *)
Definition SC_CORE : N := 3073.       (* 0x0C01 *)
Definition SC_SECURITY : N := 3074.   (* 0x0C02 *)
Definition SC_NET : N := 3075.        (* 0x0C03 *)
Definition CS_CORE : N := 49153.      (* 0xC001 *)

Definition block_header_t : msg :=
  MComp [ ("type", u16le CS_CORE); ("length", u16le 4) ].

Definition server_core_data : msg :=
  MComp [
    ("rdpVersion", u32le 0);
    ("clientRequestedProtocol", MOpt (Some (u32le 0)));
    ("earlyCapabilityFlags", MOpt (Some (u32le 0)))
  ].

Definition server_security_data : msg :=
  MComp [ ("encryptionMethod", u32le 0); ("encryptionLevel", u32le 0) ].

Definition server_network_data : msg :=
  MComp [
    ("MCSChannelId", u16le 0);
    ("channelCount", MDyn (u16le 0) (CloSize "channelIdArray" (XMul XSelf 2)));
    ("channelIdArray", MArray [] (Some (u16le 0)))
  ].

(* ---- sec ---- *)
Definition SEC_LICENSE_PKT : N := 128.   (* 0x0080 *)

Definition security_header : msg :=
  MComp [ ("securityFlag", u16le 0); ("securityFlagHi", u16le 0) ].

(* ---- license ---- *)
Definition LIC_NEW_LICENSE : N := 3.
Definition LIC_ERROR_ALERT : N := 255.
Definition lic_msgtype_known (t : N) : bool :=
  existsb (N.eqb t) [1; 2; 3; 4; 18; 19; 21; 255].
Definition lic_errorcode_known (c : N) : bool :=
  existsb (N.eqb c) [1; 2; 3; 4; 6; 7; 8; 11; 12].
Definition lic_transition_known (c : N) : bool :=
  existsb (N.eqb c) [1; 2; 3; 4].
Definition STATUS_VALID_CLIENT : N := 7.
Definition ST_NO_TRANSITION : N := 2.

Definition preamble : msg :=
  MComp [
    ("bMsgtype", MU8 0);
    ("flag", MU8 0);
    ("wMsgSize", MDyn (u16le 0) (size_minus "message" 4));
    ("message", MBytes [])
  ].

Definition license_binary_blob : msg :=
  MComp [
    ("wBlobType", u16le 0);
    ("wBlobLen", MDyn (u16le 0) (size_of "blobData"));
    ("blobData", MBytes [])
  ].

Definition licensing_error_message : msg :=
  MComp [
    ("dwErrorCode", u32le 0);
    ("dwStateTransition", u32le 0);
    ("blob", license_binary_blob)
  ].
