From RdpV Require Import Base Sweep Link Tpkt RefFraming.

Definition no_empty (cs : stream) : Prop := Forall (fun c => c <> []) cs.

Lemma app_eq_split_le {A} (c r a b : list A) :
  c ++ r = a ++ b -> (length c <= length a)%nat -> exists a', a = c ++ a' /\ r = a' ++ b.
Proof.
  revert a. induction c as [|x c IH]; intros a H Hl.
  - exists a. auto.
  - destruct a as [|y a]; [cbn in Hl; lia|]. cbn in H. injection H as -> H.
    destruct (IH a H) as [a' [-> ->]]; [cbn in Hl; lia|]. exists a'. auto.
Qed.

Lemma app_eq_split_gt {A} (c r a b : list A) :
  c ++ r = a ++ b -> (length a < length c)%nat ->
  firstn (length a) c = a /\ b = skipn (length a) c ++ r.
Proof.
  revert c. induction a as [|y a IH]; intros c H Hl.
  - cbn. auto.
  - destruct c as [|x c]; [cbn in Hl; lia|]. cbn in H. injection H as -> H.
    destruct (IH c H) as [H1 H2]; [cbn in Hl; lia|]. cbn [length firstn skipn]. rewrite H1. auto.
Qed.

(* "for every schedule of partial reads": however the bytes a ++ b are cut into
   non-empty chunks, read_exact |a| returns a and leaves exactly b. *)
Lemma read_exact_chunking :
  forall (n : nat) (cs : stream) (a b : bytes),
    no_empty cs -> concat cs = a ++ b -> length a = n ->
    exists cs', read_exact n cs = (Some a, cs') /\ concat cs' = b /\ no_empty cs'.
Proof.
  intros n cs. revert n.
  induction cs as [|c cs IH]; intros n a b Hne Hcat Hlen.
  - cbn in Hcat. symmetry in Hcat. apply app_eq_nil in Hcat. destruct Hcat as [-> ->].
    cbn in Hlen. subst n. exists []. cbn. repeat split; auto.
  - destruct n as [|n'].
    + destruct a; [|discriminate]. exists (c :: cs). cbn. repeat split; auto.
    + inversion Hne as [|? ? Hc Hne']; subst.
      destruct c as [|x c']; [congruence|].
      cbn [read_exact]. cbn [concat] in Hcat.
      destruct (Nat.leb (length (x :: c')) (S n')) eqn:Hle.
      * apply Nat.leb_le in Hle.
        destruct (app_eq_split_le _ _ _ _ Hcat) as [a' [-> Hcat']]; [lia|].
        destruct (IH (S n' - length (x :: c'))%nat a' b Hne' Hcat') as [cs' [Hr [Hc' Hn']]].
        { rewrite app_length in Hlen. lia. }
        rewrite Hr. exists cs'. repeat split; auto.
      * apply Nat.leb_gt in Hle.
        destruct (app_eq_split_gt _ _ _ _ Hcat) as [H1 H2]; [lia|].
        rewrite Hlen in H1, H2.
        exists (skipn (S n') (x :: c') :: cs).
        split; [rewrite H1; reflexivity|]. split; [cbn [concat]; auto|].
        constructor; auto.
        intro Hnil. apply (f_equal (@length N)) in Hnil. rewrite skipn_length in Hnil.
        cbn [length] in Hnil, Hle. lia.
Qed.

Lemma link_read_chunking :
  forall (n : nat) (cs : stream) (a b : bytes),
    (0 < n)%nat -> no_empty cs -> concat cs = a ++ b -> length a = n ->
    exists cs', link_read n cs = (Ok a, cs') /\ concat cs' = b /\ no_empty cs'.
Proof.
  intros n cs a b Hpos Hne Hcat Hlen.
  destruct (read_exact_chunking n cs a b Hne Hcat Hlen) as [cs' [Hr [Hc Hn]]].
  exists cs'. unfold link_read. destruct n; [lia|]. rewrite Hr. auto.
Qed.

Lemma read_body_chunking :
  forall (n : nat) (cs : stream) (a b : bytes),
    no_empty cs -> concat cs = a ++ b -> length a = n ->
    exists cs', read_body n cs = (Ok a, cs') /\ concat cs' = b /\ no_empty cs'.
Proof.
  intros n cs a b Hne Hcat Hlen. destruct n as [|n'].
  - destruct a; [|discriminate]. exists cs. cbn. auto.
  - unfold read_body. apply link_read_chunking; auto. lia.
Qed.

Definition to_delivered (p : payload) : delivered :=
  match p with Raw b => DRaw b | FastPath s b => DFast s b end.

Lemma sec_flags_eq (a : N) : N.land (N.shiftr a 6) 3 = (a / 64) mod 4.
Proof.
  rewrite N.shiftr_div_pow2. change (2 ^ 6) with 64.
  change 3 with (N.ones 2). rewrite N.land_ones. reflexivity.
Qed.

Lemma nlen_to_nat {A} (l : list A) : N.to_nat (nlen l) = length l.
Proof. unfold nlen. apply Nat2N.id. Qed.

(* one frame, any chunking *)
Lemma tpkt_read_frame :
  forall (f : frame) (cs : stream) (rest : bytes),
    valid f -> no_empty cs -> concat cs = enc f ++ rest ->
    exists cs', tpkt_read cs = (Ok match expected f with DRaw p => Raw p | DFast s p => FastPath s p end, cs')
                /\ concat cs' = rest /\ no_empty cs'.
Proof.
  intros f cs rest Hv Hne Hcat.
  destruct f as [r p | a [|] p]; cbn [enc valid expected] in *.
  - (* slow path *)
    destruct Hv as [Hr Hlen].
    destruct (link_read_chunking 2 cs [3; r] (be16 (nlen p + 4) ++ p ++ rest)) as [cs1 [H1 [Hc1 Hn1]]].
    { lia. } { exact Hne. } { rewrite Hcat. cbn [app]. rewrite <- app_assoc. reflexivity. } { reflexivity. }
    unfold tpkt_read. rewrite H1. cbn [N.eqb Pos.eqb].
    destruct (link_read_chunking 2 cs1 (be16 (nlen p + 4)) (p ++ rest)) as [cs2 [H2 [Hc2 Hn2]]].
    { lia. } { exact Hn1. } { exact Hc1. } { reflexivity. }
    unfold be16 in H2. rewrite H2.
    rewrite be16_of by lia.
    destruct (N.ltb_spec (nlen p + 4) 4) as [Hlt|Hge]; [lia|].
    replace (nlen p + 4 - 4) with (nlen p) by lia. rewrite nlen_to_nat.
    destruct (read_body_chunking (length p) cs2 p rest) as [cs3 [H3 [Hc3 Hn3]]]; auto.
    rewrite H3. exists cs3. auto.
  - (* fast path, long form *)
    destruct Hv as [Ha [Ha3 Hlen]].
    set (L := nlen p + 3) in *.
    destruct (link_read_chunking 2 cs [a; 128 + u16_hi L] ([u16_lo L] ++ p ++ rest)) as [cs1 [H1 [Hc1 Hn1]]].
    { lia. } { exact Hne. } { rewrite Hcat. reflexivity. } { reflexivity. }
    unfold tpkt_read. rewrite H1.
    destruct (N.eqb_spec a 3) as [|_]; [contradiction|].
    assert (Hhi : u16_hi L < 128).
    { unfold u16_hi. rewrite N.mod_small; apply N.div_lt_upper_bound; lia. }
    assert (Hlo : u16_lo L < 256) by (unfold u16_lo; apply N.mod_lt; lia).
    destruct (land128_hi _ Hhi) as [Hl128 Hl127].
    rewrite Hl128. cbn [N.eqb Pos.eqb].
    destruct (link_read_chunking 1 cs1 [u16_lo L] (p ++ rest)) as [cs2 [H2 [Hc2 Hn2]]].
    { lia. } { exact Hn1. } { exact Hc1. } { reflexivity. }
    rewrite H2. rewrite Hl127. rewrite lor_shl8 by assumption.
    assert (HL : u16_hi L * 256 + u16_lo L = L).
    { change (of_be16 (u16_hi L) (u16_lo L) = L). apply be16_of. lia. }
    rewrite HL.
    destruct (N.ltb_spec L 3) as [Hlt|Hge]; [lia|].
    replace (L - 3) with (nlen p) by lia. rewrite nlen_to_nat.
    destruct (read_body_chunking (length p) cs2 p rest) as [cs3 [H3 [Hc3 Hn3]]]; auto.
    rewrite H3. rewrite sec_flags_eq. exists cs3. auto.
  - (* fast path, short form *)
    destruct Hv as [Ha [Ha3 Hlen]].
    destruct (link_read_chunking 2 cs [a; nlen p + 2] (p ++ rest)) as [cs1 [H1 [Hc1 Hn1]]].
    { lia. } { exact Hne. } { rewrite Hcat. reflexivity. } { reflexivity. }
    unfold tpkt_read. rewrite H1.
    destruct (N.eqb_spec a 3) as [|_]; [contradiction|].
    rewrite land128_lo by lia. cbn [N.eqb].
    destruct (N.ltb_spec (nlen p + 2) 2) as [Hlt|Hge]; [lia|].
    replace (nlen p + 2 - 2) with (nlen p) by lia. rewrite nlen_to_nat.
    destruct (read_body_chunking (length p) cs1 p rest) as [cs3 [H3 [Hc3 Hn3]]]; auto.
    rewrite H3. rewrite sec_flags_eq. exists cs3. auto.
Qed.

(* successive reads *)
Fixpoint reads (k : nat) (cs : stream) : outcome (list payload) * stream :=
  match k with
  | O => (Ok [], cs)
  | S k' =>
      match tpkt_read cs with
      | (Ok p, cs') =>
          let (r, cs'') := reads k' cs' in
          (match r with Ok ps => Ok (p :: ps) | Err e => Err e | Panic => Panic | Spin => Spin end, cs'')
      | (Err e, cs') => (Err e, cs')
      | (Panic, cs') => (Panic, cs')
      | (Spin, cs') => (Spin, cs')
      end
  end.

Definition of_delivered (d : delivered) : payload :=
  match d with DRaw p => Raw p | DFast s p => FastPath s p end.

Theorem deframe_exact :
  forall (fs : list frame) (tail : bytes) (cs : stream),
    Forall valid fs -> no_empty cs -> concat cs = flat_map enc fs ++ tail ->
    exists cs', reads (length fs) cs = (Ok (map (fun f => of_delivered (expected f)) fs), cs')
                /\ concat cs' = tail.
Proof.
  induction fs as [|f fs IH]; intros tail cs Hv Hne Hcat.
  - exists cs. cbn in *. auto.
  - inversion Hv as [|? ? Hvf Hvfs]; subst.
    cbn [flat_map] in Hcat. rewrite <- app_assoc in Hcat.
    destruct (tpkt_read_frame f cs (flat_map enc fs ++ tail) Hvf Hne Hcat) as [cs1 [H1 [Hc1 Hn1]]].
    destruct (IH tail cs1 Hvfs Hn1 Hc1) as [cs2 [H2 Hc2]].
    exists cs2. cbn [length reads map]. unfold of_delivered at 1. rewrite H1, H2. auto.
Qed.

(* a declared length shorter than the frame's own header is rejected, and exactly the
   header bytes have been consumed *)
Theorem short_rejected_slow :
  forall (r size : N) (rest : bytes) (cs : stream),
    size < 4 -> no_empty cs -> concat cs = [3; r] ++ be16 size ++ rest ->
    exists cs', tpkt_read cs = (Err EInvalidSize, cs') /\ concat cs' = rest.
Proof.
  intros r size rest cs Hs Hne Hcat.
  destruct (link_read_chunking 2 cs [3; r] (be16 size ++ rest)) as [cs1 [H1 [Hc1 Hn1]]];
    [lia | exact Hne | exact Hcat | reflexivity |].
  unfold tpkt_read. rewrite H1. cbn [N.eqb Pos.eqb].
  destruct (link_read_chunking 2 cs1 (be16 size) rest) as [cs2 [H2 [Hc2 Hn2]]];
    [lia | exact Hn1 | exact Hc1 | reflexivity |].
  unfold be16 in H2. rewrite H2. rewrite be16_of by lia.
  destruct (N.ltb_spec size 4); [|lia]. exists cs2. auto.
Qed.

Theorem short_rejected_fast_short :
  forall (a len : N) (rest : bytes) (cs : stream),
    a <> 3 -> len < 2 -> no_empty cs -> concat cs = [a; len] ++ rest ->
    exists cs', tpkt_read cs = (Err EInvalidSize, cs') /\ concat cs' = rest.
Proof.
  intros a len rest cs Ha Hl Hne Hcat.
  destruct (link_read_chunking 2 cs [a; len] rest) as [cs1 [H1 [Hc1 Hn1]]];
    [lia | exact Hne | exact Hcat | reflexivity |].
  unfold tpkt_read. rewrite H1.
  destruct (N.eqb_spec a 3) as [|_]; [contradiction|].
  rewrite land128_lo by lia. cbn [N.eqb].
  destruct (N.ltb_spec len 2); [|lia]. exists cs1. auto.
Qed.

Theorem short_rejected_fast_long :
  forall (a len : N) (rest : bytes) (cs : stream),
    a <> 3 -> len < 3 -> no_empty cs ->
    concat cs = [a; 128 + u16_hi len; u16_lo len] ++ rest ->
    exists cs', tpkt_read cs = (Err EInvalidSize, cs') /\ concat cs' = rest.
Proof.
  intros a len rest cs Ha Hl Hne Hcat.
  destruct (link_read_chunking 2 cs [a; 128 + u16_hi len] ([u16_lo len] ++ rest)) as [cs1 [H1 [Hc1 Hn1]]];
    [lia | exact Hne | exact Hcat | reflexivity |].
  unfold tpkt_read. rewrite H1.
  destruct (N.eqb_spec a 3) as [|_]; [contradiction|].
  assert (Hhi : u16_hi len < 128).
  { unfold u16_hi. rewrite N.mod_small; apply N.div_lt_upper_bound; lia. }
  assert (Hlo : u16_lo len < 256) by (unfold u16_lo; apply N.mod_lt; lia).
  destruct (land128_hi _ Hhi) as [Hl128 Hl127].
  rewrite Hl128. cbn [N.eqb Pos.eqb].
  destruct (link_read_chunking 1 cs1 [u16_lo len] rest) as [cs2 [H2 [Hc2 Hn2]]];
    [lia | exact Hn1 | exact Hc1 | reflexivity |].
  rewrite H2, Hl127, lor_shl8 by assumption.
  assert (HL : u16_hi len * 256 + u16_lo len = len).
  { change (of_be16 (u16_hi len) (u16_lo len) = len). apply be16_of. lia. }
  rewrite HL. destruct (N.ltb_spec len 3); [|lia]. exists cs2. auto.
Qed.

(* the X.224 data layer strips exactly its 3-byte header *)
Theorem x224_read_strips :
  forall (r : N) (p rest : bytes) (cs : stream),
    r < 256 -> nlen p + 7 <= 65535 -> no_empty cs ->
    concat cs = enc (Slow r ([2; 240; 128] ++ p)) ++ rest ->
    exists cs', x224_read cs = (Ok (Raw p), cs') /\ concat cs' = rest.
Proof.
  intros r p rest cs Hr Hlen Hne Hcat.
  destruct (tpkt_read_frame (Slow r ([2; 240; 128] ++ p)) cs rest) as [cs1 [H1 [Hc1 _]]]; auto.
  { cbn [valid]. split; auto. cbn [app]. rewrite !nlen_cons. lia. }
  unfold x224_read. rewrite H1. cbn. exists cs1. auto.
Qed.

(* non-vacuity: three mixed frames, one of them empty, dribbled one byte at a time *)
Definition ex_frames : list frame :=
  [Slow 0 [1; 2; 3]; Slow 0 []; Fast 128 false [9; 9]; Fast 0 true [7]; Fast 64 false []].
Definition dribble (l : bytes) : stream := map (fun b => [b]) l.

Example deframe_example :
  reads 5 (dribble (flat_map enc ex_frames ++ [42])) =
  (Ok [Raw [1; 2; 3]; Raw []; FastPath 2 [9; 9]; FastPath 0 [7]; FastPath 1 []], [[42]]).
Proof. vm_compute. reflexivity. Qed.

Example ex_frames_valid : Forall valid ex_frames.
Proof. unfold ex_frames. repeat constructor; cbn; try lia. Qed.
