(* The two readings of MS-RDPBCGR 3.1.9 agree on streams none of whose orders straddles the end of the
   first scan line: RefRleLit.lit_sem (fFirstLine frozen per order) = RefRle.sem (per pixel).
   A statement about the two specifications only (no decoder involved). *)
From RdpV Require Import Base Buf Rle16 RefRle RefRleLit Rle16_sem_proofs.

Ltac Zify.zify_post_hook ::= Z.to_euclidean_division_equations.

(* where the frozen flag tells the truth about a pixel, both readings compute the same pixel *)
Lemma px_agree first w fg o : 0 < w ->
  (first = true /\ nlen o < w) \/ (first = false /\ w <= nlen o) ->
  fg_px w fg o = lit_fg first w fg o /\ bg_px w o = lit_bg first w o.
Proof.
  intros Hw [[-> Hlt]|[-> Hge]]; unfold fg_px, bg_px, above, lit_fg, lit_bg, peek.
  - assert (E : (0 <? w) && (w <=? nlen o) = false) by (apply andb_false_iff; right; apply N.leb_gt; exact Hlt).
    rewrite E. split; reflexivity.
  - assert (E : (0 <? w) && (w <=? nlen o) = true) by (apply andb_true_iff; split; [apply N.ltb_lt|apply N.leb_le]; assumption).
    rewrite E. split; reflexivity.
Qed.

Lemma run_ext (px px' : list N -> N) : forall n out,
  (forall o, nlen out <= nlen o -> nlen o < nlen out + N.of_nat n -> px o = px' o) ->
  run n px out = run n px' out.
Proof.
  induction n as [|n IH]; intros out H; [reflexivity|].
  cbn [run]. rewrite (H out) by lia. apply IH.
  intros o H1 H2. rewrite nlen_app, nlen_cons, nlen_nil in H1, H2. apply H; lia.
Qed.

Lemma fgbg_lit first w fg masks : forall n i out,
  (forall o, nlen out <= nlen o -> nlen o < nlen out + N.of_nat n ->
             fg_px w fg o = lit_fg first w fg o /\ bg_px w o = lit_bg first w o) ->
  fgbg n i w fg masks out = lit_fgbg n i first w fg masks out.
Proof.
  induction n as [|n IH]; intros i out H; [reflexivity|].
  cbn [fgbg lit_fgbg]. destruct (H out ltac:(lia) ltac:(lia)) as [E1 E2]. rewrite E1, E2. apply IH.
  intros o H1 H2. rewrite nlen_app, nlen_cons, nlen_nil in H1, H2. apply H; lia.
Qed.

Definition sim (w : N) (ss : sstate) (ls : lstate) : Prop :=
  ls_out ls = ss_out ss /\ ls_fg ls = ss_fg ss /\ ls_ins ls = ss_ins ss /\
  (nlen (ss_out ss) <= w -> ls_first ls = true) /\ (w < nlen (ss_out ss) -> ls_first ls = false).

Lemma nlen_sem_order w o ss : 1 <= order_pixels o ->
  nlen (ss_out (sem_order w o ss)) = nlen (ss_out ss) + order_pixels o.
Proof.
  intros Hp. destruct o; cbn [order_pixels] in Hp; cbn [sem_order ss_out order_pixels];
    rewrite ?nlen_run, ?nlen_fgbg, ?nlen_dither, ?nlen_app, ?nlen_cons, ?nlen_nil; try lia.
  destruct (ss_ins ss && negb (nlen (ss_out ss) =? w)); rewrite nlen_app, nlen_cons, nlen_nil; lia.
Qed.

Lemma sim_order w o ss ls : 0 < w -> 1 <= order_pixels o -> sim w ss ls ->
  negb ((nlen (ss_out ss) <? w) && (w <? nlen (ss_out ss) + order_pixels o)) = true ->
  sim w (sem_order w o ss) (lit_order w o ls).
Proof.
  intros Hw Hp (Ho & Hf & Hi & Hf1 & Hf2) Hns.
  pose proof (nlen_sem_order w o ss Hp) as Hlen.
  destruct ls as [lo lf li lfirst]. destruct ss as [out fg ins]. cbn [ls_out ls_fg ls_ins ls_first ss_out ss_fg ss_ins] in *.
  subst lo lf li.
  apply negb_true_iff in Hns. apply andb_false_iff in Hns.
  set (leave := lfirst && (w <=? nlen out)).
  set (first := if leave then false else lfirst).
  set (lins := if leave then false else ins).
  (* the frozen flag is right for every pixel of this order *)
  assert (Hfirst : (first = true /\ nlen out + order_pixels o <= w) \/ (first = false /\ w <= nlen out)).
  { subst first leave. destruct (N.lt_ge_cases (nlen out) w) as [Hlt|Hge].
    - left. rewrite Hf1 by lia. assert (E : w <=? nlen out = false) by (apply N.leb_gt; exact Hlt). rewrite E. cbn [andb].
      split; [reflexivity|]. destruct Hns as [Hn|Hn]; [apply N.ltb_ge in Hn; lia|apply N.ltb_ge in Hn; exact Hn].
    - right. split; [|exact Hge]. destruct lfirst; [|reflexivity].
      assert (E : w <=? nlen out = true) by (apply N.leb_le; exact Hge). rewrite E. reflexivity. }
  assert (Hins : lins = ins && negb (nlen out =? w)).
  { subst lins leave. destruct (N.lt_trichotomy (nlen out) w) as [Hlt|[He|Hgt]].
    - assert (E : w <=? nlen out = false) by (apply N.leb_gt; exact Hlt). rewrite E, andb_false_r.
      assert (E' : nlen out =? w = false) by (apply N.eqb_neq; lia). rewrite E', andb_true_r. reflexivity.
    - rewrite Hf1 by lia. rewrite He, N.leb_refl, N.eqb_refl. cbn [andb negb]. rewrite andb_false_r. reflexivity.
    - rewrite Hf2 by lia. cbn [andb].
      assert (E' : nlen out =? w = false) by (apply N.eqb_neq; lia). rewrite E', andb_true_r. reflexivity. }
  assert (Hag : forall g o', nlen out <= nlen o' -> nlen o' < nlen out + order_pixels o ->
                  fg_px w g o' = lit_fg first w g o' /\ bg_px w o' = lit_bg first w o').
  { intros g o' H1 H2. apply px_agree; [exact Hw|]. destruct Hfirst as [[-> Hle]|[-> Hge]]; [left|right]; split; auto; lia. }
  (* it is enough to compare the pixels *)
  assert (Hsuff : forall out1 out2 g b, out1 = out2 -> nlen out1 = nlen out + order_pixels o ->
            sim w (mkSS out1 g b) (mkLS out2 g b first)).
  { intros out1 out2 g b <- Hl. unfold sim. cbn [ls_out ls_fg ls_ins ls_first ss_out ss_fg ss_ins].
    repeat split; rewrite Hl; intros Hc; destruct Hfirst as [[-> Hle]|[-> Hge]]; try reflexivity; lia. }
  unfold lit_order. cbn [ls_out ls_fg ls_ins ls_first]. fold leave. fold first. fold lins.
  destruct o; cbn [sem_order ss_out ss_fg ss_ins order_pixels] in *; apply Hsuff; try exact Hlen; clear Hsuff Hlen.
  - (* background run *)
    rewrite Hins. destruct (ins && negb (nlen out =? w)).
    + destruct (Hag fg out ltac:(lia) ltac:(lia)) as [E1 _]. rewrite E1. apply run_ext.
      intros o' H1 H2. rewrite nlen_app, nlen_cons, nlen_nil in H1, H2. apply (Hag fg); lia.
    + replace (N.to_nat n) with (S (N.to_nat n - 1)) at 2 by lia. cbn [run].
      destruct (Hag fg out ltac:(lia) ltac:(lia)) as [_ E2]. rewrite E2. apply run_ext.
      intros o' H1 H2. rewrite nlen_app, nlen_cons, nlen_nil in H1, H2. apply (Hag fg); lia.
  - apply run_ext. intros o' H1 H2. apply (Hag fg); lia.
  - apply run_ext. intros o' H1 H2. apply (Hag fg0); lia.
  - apply fgbg_lit. intros o' H1 H2. apply Hag; lia.
  - apply fgbg_lit. intros o' H1 H2. apply Hag; lia.
  - reflexivity.
  - reflexivity.
  - reflexivity.
  - apply fgbg_lit. intros o' H1 H2. apply Hag; cbn in H2; lia.
  - apply fgbg_lit. intros o' H1 H2. apply Hag; cbn in H2; lia.
  - reflexivity.
  - reflexivity.
Qed.

Lemma sim_from w : 0 < w -> forall os ss ls, Forall (fun o => 1 <= order_pixels o) os -> sim w ss ls ->
  no_straddle_from w (nlen (ss_out ss)) os = true -> sim w (sem_from w os ss) (lit_from w os ls).
Proof.
  intros Hw. induction os as [|o os IH]; intros ss ls Hpos Hs Hns; [exact Hs|].
  pose proof (Forall_inv Hpos) as Hp. pose proof (Forall_inv_tail Hpos) as Hpos'. cbv beta in Hp.
  cbn [no_straddle_from] in Hns. apply andb_true_iff in Hns. destruct Hns as [Hn1 Hn2].
  change (sem_from w (o :: os) ss) with (sem_from w os (sem_order w o ss)).
  change (lit_from w (o :: os) ls) with (lit_from w os (lit_order w o ls)).
  apply IH; [exact Hpos'|apply sim_order; assumption|].
  rewrite nlen_sem_order by exact Hp. exact Hn2.
Qed.

(* every serialisable order produces at least one pixel *)
Lemma ser_pixels f o b : ser f o = Some b -> 1 <= order_pixels o.
Proof.
  assert (Hrun : forall f c bits off mega n hb, hdr_run f c bits off mega n = Some hb -> 0 < off -> 1 <= n).
  { intros f0 c bits off mega n hb H Hoff. destruct f0; cbn [hdr_run] in H;
      match type of H with (if ?c then _ else _) = _ => destruct c eqn:E; [|discriminate] end;
      apply andb_true_iff in E; destruct E as [E1 E2]; apply N.leb_le in E1; lia. }
  assert (Hfgbg : forall f c bits mega n hb, hdr_fgbg f c bits mega n = Some hb -> 1 <= n).
  { intros f0 c bits mega n hb H. destruct f0; cbn [hdr_fgbg] in H;
      match type of H with (if ?c then _ else _) = _ => destruct c eqn:E; [|discriminate] end.
    - apply andb_true_iff in E. destruct E as [E E3]. apply andb_true_iff in E. destruct E as [E1 E2].
      apply N.eqb_eq in E1. apply N.leb_le in E2. lia.
    - apply andb_true_iff in E. destruct E as [E1 E2]. apply N.leb_le in E1. lia.
    - apply andb_true_iff in E. destruct E as [E1 E2]. apply N.leb_le in E1. lia. }
  intros H. destruct o; cbn [ser] in H; cbn [order_pixels]; try lia.
  - eapply Hrun; [exact H|lia].
  - eapply Hrun; [exact H|lia].
  - destruct (is16 fg); [|discriminate]. destruct (hdr_run f 192 15 16 246 n) eqn:E; [|discriminate]. eapply Hrun; [exact E|lia].
  - destruct (masks_ok n masks); [|discriminate]. destruct (hdr_fgbg f 64 31 242 n) eqn:E; [|discriminate]. eapply Hfgbg; exact E.
  - destruct (is16 fg && masks_ok n masks); [|discriminate]. destruct (hdr_fgbg f 208 15 247 n) eqn:E; [|discriminate]. eapply Hfgbg; exact E.
  - destruct (is16 c); [|discriminate]. destruct (hdr_run f 96 31 32 243 n) eqn:E; [|discriminate]. eapply Hrun; [exact E|lia].
  - destruct (forallb is16 pixels); [|discriminate]. destruct (hdr_run f 128 31 32 244 (nlen pixels)) eqn:E; [|discriminate].
    eapply Hrun; [exact E|lia].
  - destruct (is16 c1 && is16 c2); [|discriminate]. destruct (hdr_run f 224 15 16 248 n) eqn:E; [|discriminate].
    assert (1 <= n) by (eapply Hrun; [exact E|lia]). lia.
Qed.

Lemma serialises_pixels os bs : serialises os bs -> Forall (fun o => 1 <= order_pixels o) os.
Proof. induction 1 as [|o os f b bs Hs _ IH]; constructor; [eapply ser_pixels; exact Hs|exact IH]. Qed.

Theorem lit_sem_agrees w os bs : 0 < w -> serialises os bs -> no_straddle w os = true -> lit_sem w os = sem w os.
Proof.
  intros Hw Hser Hns. unfold lit_sem, sem.
  destruct (sim_from w Hw os (mkSS [] 65535 false) (mkLS [] 65535 false true)) as (E & _).
  - eapply serialises_pixels; exact Hser.
  - unfold sim. cbn. repeat split. intros H. lia.
  - exact Hns.
  - exact E.
Qed.

(* the side condition is needed: a foreground run of 3 pixels on a 2-pixel-wide image straddles the first line;
   the literal reading writes the foreground colour three times, the per-pixel reading XORs the third pixel with
   the pixel above it (and that is what the decoder does, by the C09 theorem) *)
Lemma lit_sem_differs :
  ser FShort (OFg 3) = Some [35] /\ no_straddle 2 [OFg 3] = false /\
  lit_sem 2 [OFg 3] = [65535; 65535; 65535] /\ sem 2 [OFg 3] = [65535; 65535; 0].
Proof. repeat split; vm_compute; reflexivity. Qed.
