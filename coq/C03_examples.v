(* C03: concrete, non-trivial instances (non-vacuity of the hypotheses of the C03 theorems, and the refutation
   witness of the known finding), evaluated on the EXECUTABLE instance of the model (FlowRun.v: the yasna
   model as BER parser, the CsspGate model with concrete MD4 / MD5 / HMAC-MD5 / RC4 as CredSSP).
   The server scripts are produced by the reference server of RefSequence.v. *)
From RdpV Require Import Base Msg LayoutsGlobal LayoutsConnect Link Tpkt Global BerYasna Connect ConnectRun ClientPdus Flow FlowRun.
From RdpV Require Import Ntlm StrictPdu RefSequence.
From RdpV Require C01_proofs C15_proofs.
Open Scope list_scope.
Open Scope N_scope.

(* a stream cut into reads of at most n bytes *)
Fixpoint chunks_of (fuel : nat) (n : nat) (b : bytes) : stream :=
  match fuel with
  | O => []
  | S f => match b with [] => [] | _ => firstn n b :: chunks_of f n (skipn n b) end
  end.
Definition chunked (n : nat) (b : bytes) : stream := chunks_of (S (List.length b)) n b.

(* ---- TLS (SSL selected), two activations, every server parameter away from its usual value *)
Definition ex_cfg : fcfg :=
  mkFcfg (mkCfg 1 false true 1024 768 1036 [82; 233; 128512] [68; 111; 109] [85; 115; 101; 114] [80; 228; 115; 115; 128512]) true false.

Definition ex_srv : server :=
  mkServer SEL_SSL 31 4660 1007 1005 524292 (Some 1) None (LicValidClient 131 4) 640
    [ mkRound 66538 [82; 68; 80; 0] [(1, [1; 0; 3; 0; 0; 2; 0; 0; 0; 0; 29; 4; 0; 0; 0; 0; 0; 0; 1; 1]); (30, [1; 2]); (9, [234; 3; 0; 0])] 7;
      mkRound 4294967295 [] [] 0 ].

Definition ex_env : cssp_env := mkCsspEnv (fun x => x) (mkNtlm [] [] [] [] []) false [] [] [].

Definition ex_run : flow_result :=
  flow_impl Debug ex_env ex_cfg (List.length (session_frames ex_srv None (sv_rounds ex_srv)))
            (chunked 5 (ref_confirm ex_srv))
            (Some (chunked 7 (List.concat (List.tl (replies ex_srv true))))).

Definition unit_kinds (r : flow_result) : list (option kind) := map frame_kind (funits (fl_trace r)).

Lemma ex_run_ok :
  fl_res ex_run = Ok tt /\ fl_stage ex_run = StShutdown /\
  unit_kinds ex_run = map Some (expected_kinds ex_srv true) /\
  List.length (expected_kinds ex_srv true) = 18%nat.
Proof. vm_compute. repeat split; reflexivity. Qed.

(* the same server stopping before its 9th reply: the client has sent exactly what precedes it *)
Definition ex_run_cut : flow_result :=
  flow_impl Debug ex_env ex_cfg (List.length (session_frames ex_srv None (sv_rounds ex_srv)))
            (chunked 5 (ref_confirm ex_srv))
            (Some (chunked 3 (List.concat (firstn 7 (List.tl (replies ex_srv true)))))).

Lemma ex_run_cut_ok :
  fl_res ex_run_cut = Err EIo /\ fl_stage ex_run_cut = StRead 2 /\
  unit_kinds ex_run_cut = map Some (sent_before_reply ex_srv true 8).
Proof. vm_compute. repeat split; reflexivity. Qed.

(* ---- NLA (HYBRID selected): the CredSSP exchange of C01's concrete example, then the same sequence *)
Definition nla_cfg : fcfg :=
  mkFcfg (mkCfg 3 false false 800 600 1033 [114; 100; 112] C15_proofs.ex_dom C15_proofs.ex_user C15_proofs.ex_pw) false false.
Definition nla_srv : server :=
  mkServer SEL_HYBRID 0 0 1001 1003 524289 None None (LicNewLicence 3 [1; 2; 3; 4; 5; 6; 7; 8]) 128 [ mkRound 1 [] [] 0 ].
Definition nla_env : cssp_env :=
  mkCsspEnv C15_proofs.ascii_upper C01_proofs.ex_state false C01_proofs.ex_pubkey C15_proofs.ex_nonce C15_proofs.ex_key.

Definition nla_post (reply1 : list bytes) : stream :=
  reply1 ++ [C01_proofs.ex_reply2_ok] ++ chunked 50 (List.concat (List.tl (replies nla_srv false))).

Definition nla_run : flow_result :=
  flow_impl Debug nla_env nla_cfg 5 [ref_confirm nla_srv] (Some (nla_post [C01_proofs.ex_reply1])).

(* the units of the trace that are TPKT frames decode to the mandated sequence; the three others are the
   CredSSP messages of the reference exchange, in their place *)
Lemma nla_run_ok :
  fl_res nla_run = Ok tt /\
  funits (fl_trace nla_run) =
    (hd [] (funits (fl_trace nla_run))) :: [C01_proofs.ex_w1; C01_proofs.ex_w2; C01_proofs.ex_w3] ++ skipn 4 (funits (fl_trace nla_run)) /\
  map frame_kind (hd [] (funits (fl_trace nla_run)) :: skipn 4 (funits (fl_trace nla_run))) = map Some (expected_kinds nla_srv false).
Proof. vm_compute. repeat split; reflexivity. Qed.

(* KNOWN FINDING C03-credssp-split: the SAME conforming server delivering its first TSRequest in two TLS
   records (two reads) is refused: the single Link::read(0) returns half of the DER structure *)
Definition nla_run_split : flow_result :=
  flow_impl Debug nla_env nla_cfg 5 [ref_confirm nla_srv]
            (Some (nla_post [firstn 40 C01_proofs.ex_reply1; skipn 40 C01_proofs.ex_reply1])).

Lemma nla_run_split_refused :
  fl_res nla_run_split = Err EAsn1 /\ fl_stage nla_run_split = StConnect /\
  List.concat (nla_post [firstn 40 C01_proofs.ex_reply1; skipn 40 C01_proofs.ex_reply1]) = List.concat (nla_post [C01_proofs.ex_reply1]).
Proof. vm_compute. repeat split; reflexivity. Qed.

(* ---- the hypotheses of the theorems hold on these instances *)
From Coq Require Import Lia.
From RdpV Require Import C13_proofs C03_base C03_proofs.

Lemma no_empty_dec (cs : stream) : forallb (fun c => match c with [] => false | _ => true end) cs = true -> no_empty cs.
Proof.
  induction cs as [|c cs IH]; intros H; [constructor|]. cbn [forallb] in H. apply andb_true_iff in H. destruct H as [H1 H2].
  constructor; [destruct c; [discriminate|discriminate]|apply IH; exact H2].
Qed.

Lemma holds_dec (cs : stream) (b : bytes) :
  forallb (fun c => match c with [] => false | _ => true end) cs = true -> List.concat cs = b -> holds cs b.
Proof. intros H1 H2. split; [apply no_empty_dec; exact H1|exact H2]. Qed.

Lemma forall_dec {A} (P : A -> Prop) (f : A -> bool) (l : list A) :
  (forall x, f x = true -> P x) -> forallb f l = true -> Forall P l.
Proof.
  intros Hf. induction l as [|x l IH]; intros H; [constructor|]. cbn [forallb] in H. apply andb_true_iff in H.
  destruct H. constructor; auto.
Qed.

Lemma scalars_dec l : forallb is_scalar l = true -> Forall scalar l.
Proof.
  apply forall_dec. intros x H. unfold is_scalar in H. unfold scalar. apply orb_true_iff in H. destruct H as [H|H].
  - left. apply N.ltb_lt. exact H.
  - apply andb_true_iff in H. destruct H as [H1 H2]. right. split; [apply N.leb_le; exact H1|apply N.ltb_lt; exact H2].
Qed.

Lemma bytes_dec l : forallb (fun b => b <? 256) l = true -> Forall byte l.
Proof. apply forall_dec. intros x H. apply N.ltb_lt. exact H. Qed.


Lemma ex_cfg_valid : valid_fcfg ex_cfg.
Proof.
  unfold valid_fcfg. cbn [f_pdu ex_cfg c_name c_domain c_user c_password c_width c_height c_layout c_offered].
  split; [apply scalars_dec; vm_compute; reflexivity|].
  split; [apply scalars_dec; vm_compute; reflexivity|].
  split; [apply scalars_dec; vm_compute; reflexivity|].
  split; [apply scalars_dec; vm_compute; reflexivity|].
  split; [lia|]. split; [lia|]. split; [lia|]. split; [left; reflexivity|].
  split; vm_compute; congruence.
Qed.

Lemma nla_cfg_valid : valid_fcfg nla_cfg.
Proof.
  unfold valid_fcfg. cbn [f_pdu nla_cfg c_name c_domain c_user c_password c_width c_height c_layout c_offered].
  split; [apply scalars_dec; vm_compute; reflexivity|].
  split; [apply scalars_dec; vm_compute; reflexivity|].
  split; [apply scalars_dec; vm_compute; reflexivity|].
  split; [apply scalars_dec; vm_compute; reflexivity|].
  split; [lia|]. split; [lia|]. split; [lia|]. split; [right; reflexivity|].
  split; vm_compute; congruence.
Qed.

Lemma ex_srv_conforming : conforming (c_offered (f_pdu ex_cfg)) ex_srv.
Proof.
  unfold conforming. cbn [ex_srv ex_cfg f_pdu c_offered sv_selected sv_neg_flags sv_src_ref sv_uid sv_io sv_version sv_requested sv_early
                                 sv_licence sv_lic_secflags sv_rounds opt_lt licence_ok].
  split; [left; reflexivity|]. split; [vm_compute; congruence|]. split; [lia|]. split; [lia|]. split; [lia|]. split; [lia|].
  split; [lia|]. split; [lia|]. split; [lia|]. split; [exact I|]. split; [split; lia|]. split; [right; reflexivity|].
  constructor; [|constructor; [|constructor]].
  - unfold round_ok. cbn [r_share r_sessid r_source r_caps]. split; [lia|]. split; [lia|]. split; [apply bytes_dec; reflexivity|].
    split; [|vm_compute; congruence].
    repeat (constructor; [split; [cbn [fst]; lia|apply bytes_dec; reflexivity]|]). constructor.
  - unfold round_ok. cbn [r_share r_sessid r_source r_caps]. split; [lia|]. split; [lia|]. split; [constructor|]. split; [constructor|vm_compute; congruence].
Qed.
Lemma nla_srv_conforming : conforming (c_offered (f_pdu nla_cfg)) nla_srv.
Proof.
  unfold conforming. cbn [nla_srv nla_cfg f_pdu c_offered sv_selected sv_neg_flags sv_src_ref sv_uid sv_io sv_version sv_requested sv_early
                                 sv_licence sv_lic_secflags sv_rounds opt_lt licence_ok].
  split; [right; reflexivity|]. split; [vm_compute; congruence|]. split; [lia|]. split; [lia|]. split; [lia|]. split; [lia|].
  split; [lia|]. split; [lia|]. split; [exact I|]. split; [exact I|]. split; [split; [lia|split; [apply bytes_dec; reflexivity|vm_compute; congruence]]|]. split; [left; reflexivity|].
  constructor; [|constructor].
  unfold round_ok. cbn [r_share r_sessid r_source r_caps]. split; [lia|]. split; [lia|]. split; [constructor|]. split; [constructor|vm_compute; congruence].
Qed.

Lemma ex_streams :
  holds (chunked 5 (ref_confirm ex_srv)) (ref_confirm ex_srv) /\
  holds (chunked 7 (List.concat (List.tl (replies ex_srv true)))) (List.concat (List.tl (replies ex_srv true))) /\
  holds (chunked 3 (List.concat (firstn 7 (List.tl (replies ex_srv true))))) (List.concat (firstn 7 (List.tl (replies ex_srv true)))).
Proof. split; [|split]; apply holds_dec; vm_compute; reflexivity. Qed.

Lemma ex_ber : ber_ok (ber_connect_response Debug) ex_srv /\ ber_ok (ber_connect_response Release) ex_srv /\
               ber_ok (ber_connect_response Debug) nla_srv.
Proof. split; [|split]; vm_compute; reflexivity. Qed.

(* the CredSSP oracle hypothesis of the NLA theorems is what the executable CsspGate model answers on the
   reference exchange: three messages, success, the stream after the two TSRequests *)
Lemma nla_oracle :
  cssp_run_exec Debug nla_env (nla_post [C01_proofs.ex_reply1])
  = (3%nat, Ok (chunked 50 (List.concat (List.tl (replies nla_srv false))))) /\
  holds (chunked 50 (List.concat (List.tl (replies nla_srv false)))) (List.concat (List.tl (replies nla_srv false))).
Proof. split; [vm_compute; reflexivity|apply holds_dec; vm_compute; reflexivity]. Qed.

(* ================================================================== NLA against the REFERENCE CredSSP server (RefCredssp.v) *)
From RdpV Require Import Md5 Md4 Hmac Utf NtlmSeal RefNlmp RefNlmpSeal Der DerRead CsspGate CsspGateExec FlowNla RefCredssp.
From RdpV Require Import C16_proofs C03_nla_proofs.

(* the CredSSP server of the example: the account of nla_cfg, the CHALLENGE of C15's example, the key of C01's *)
Definition nla_csrv : cssp_server :=
  mkCsspServer (mkAccount C15_proofs.ex_user C15_proofs.ex_dom (md4 (utf16le C15_proofs.ex_pw))) C15_proofs.ex_chal C01_proofs.ex_pubkey.
Definition nla_par : nla_params := mkNla false None C01_proofs.ex_pubkey C15_proofs.ex_nonce C15_proofs.ex_key.

(* its two replies are, byte for byte, the replies of the python reference (gen/credssp.py) used by C01 ... *)
Lemma nla_reference_replies :
  cssp_reply1 nla_csrv = C01_proofs.ex_reply1 /\
  cssp_reply2 md5 hmac_md5 nla_csrv C15_proofs.ex_key = C01_proofs.ex_reply2_ok /\
  nla_post [C01_proofs.ex_reply1]
    = nla_stream md5 hmac_md5 nla_csrv nla_par (chunked 50 (List.concat (List.tl (replies nla_srv false)))).
Proof. repeat split; vm_compute; reflexivity. Qed.

(* ... it accepts the three messages of the reference client, recovers the session key and receives the
   configured credentials *)
Lemma nla_serve_ex :
  cssp_serve md5 hmac_md5 C15_proofs.ascii_upper nla_csrv CsStart [C01_proofs.ex_w1; C01_proofs.ex_w2; C01_proofs.ex_w3]
  = ([C01_proofs.ex_reply1; C01_proofs.ex_reply2_ok],
     CsDone C15_proofs.ex_key (utf16le C15_proofs.ex_dom) (utf16le C15_proofs.ex_user) (utf16le C15_proofs.ex_pw)).
Proof. vm_compute. reflexivity. Qed.

Lemma one_read_dec r : (nlen r <=? 1500) = true -> one_read r.
Proof. intros H. apply N.leb_le. exact H. Qed.

(* the hypotheses of the NLA theorems hold on this instance *)
Lemma nla_ok_ex : nla_ok md4 md5 hmac_md5 nla_cfg nla_par nla_csrv.
Proof.
  destruct C15_proofs.ex_hypotheses as (Hwf & Hok & Hin & Hun & Hkx & Huni & _ & _).
  unfold nla_ok. split; [|split; [vm_compute; reflexivity|split; [vm_compute; reflexivity|split; [vm_compute; reflexivity|split; [vm_compute; reflexivity|split]]]]].
  - unfold cssp_conforming. cbn [nla_csrv cs_challenge cs_account]. split; [exact Hwf|]. split.
    + exists C15_proofs.ex_pairs, [], C15_proofs.ex_ts. split; [reflexivity|]. split; [exact Hok|]. split; [exact Hin|].
      split; [exact Hun|reflexivity].
    + split; [exact Hkx|left; exact Huni].
  - apply one_read_dec. vm_compute. reflexivity.
  - apply one_read_dec. vm_compute. reflexivity.
Qed.

(* FlowRun's executable instance IS the generic model flow_nla at the concrete hash and codec functions *)
Lemma nla_run_generic :
  flow_nla md4 md5 hmac_md5 C15_proofs.ascii_upper Debug x_create_ts_request x_create_ts_authenticate x_create_ts_credentials
           x_create_ts_authinfo (x_read_ts_server_challenge Debug) (x_read_ts_validate Debug)
           (ber_connect_response Debug) true (tls_after (nla_post [C01_proofs.ex_reply1]))
           nla_cfg nla_par 5 [ref_confirm nla_srv] (nla_post [C01_proofs.ex_reply1])
  = nla_run.
Proof. vm_compute. reflexivity. Qed.

(* the other modes on the same exchange: hash mode (the password field stays empty), blank credentials *)
Definition nla_par_hash : nla_params :=
  mkNla false (Some (md4 (utf16le C15_proofs.ex_pw))) C01_proofs.ex_pubkey C15_proofs.ex_nonce C15_proofs.ex_key.
Definition nla_par_blank : nla_params := mkNla true None C01_proofs.ex_pubkey C15_proofs.ex_nonce C15_proofs.ex_key.

Definition nla_cssp_ex (n : nla_params) : outcome unit * list bytes :=
  nla_cssp md4 md5 hmac_md5 C15_proofs.ascii_upper Debug x_create_ts_request x_create_ts_authenticate x_create_ts_credentials
           x_create_ts_authinfo (x_read_ts_server_challenge Debug) (x_read_ts_validate Debug)
           nla_cfg n (nla_stream md5 hmac_md5 nla_csrv n []).

Lemma nla_modes_ex :
  nla_cssp_ex nla_par = (Ok tt, [C01_proofs.ex_w1; C01_proofs.ex_w2; C01_proofs.ex_w3]) /\
  (fst (nla_cssp_ex nla_par_hash) = Ok tt /\
   snd (cssp_serve md5 hmac_md5 C15_proofs.ascii_upper nla_csrv CsStart (snd (nla_cssp_ex nla_par_hash)))
   = CsDone C15_proofs.ex_key (utf16le C15_proofs.ex_dom) (utf16le C15_proofs.ex_user) []) /\
  (fst (nla_cssp_ex nla_par_blank) = Ok tt /\
   snd (cssp_serve md5 hmac_md5 C15_proofs.ascii_upper nla_csrv CsStart (snd (nla_cssp_ex nla_par_blank)))
   = CsDone C15_proofs.ex_key [] [] []).
Proof. repeat split; vm_compute; reflexivity. Qed.

(* the reference server does not accept just anything: one flipped bit in the sealed public key of the second message
   or in the sealed credentials of the third, an account with another NT hash, a server whose certificate has another
   key (the client sealed the key of the certificate IT saw: a relayed exchange), the second message sent twice, the
   second message without the first -- each ends in CsRefused *)
Definition flip_last (b : bytes) : bytes := firstn (List.length b - 1) b ++ [N.lxor (last b 0) 1].

Lemma nla_serve_rejects :
  let serve := cssp_serve md5 hmac_md5 C15_proofs.ascii_upper in
  let w1 := C01_proofs.ex_w1 in let w2 := C01_proofs.ex_w2 in let w3 := C01_proofs.ex_w3 in
  snd (serve nla_csrv CsStart [w1; flip_last w2; w3]) = CsRefused /\
  snd (serve nla_csrv CsStart [w1; w2; flip_last w3]) = CsRefused /\
  snd (serve (mkCsspServer (mkAccount C15_proofs.ex_user C15_proofs.ex_dom (md4 (utf16le C15_proofs.ex_user)))
                           C15_proofs.ex_chal C01_proofs.ex_pubkey) CsStart [w1; w2; w3]) = CsRefused /\
  snd (serve (mkCsspServer (cs_account nla_csrv) C15_proofs.ex_chal (C01_proofs.ex_pubkey ++ [1])) CsStart [w1; w2; w3]) = CsRefused /\
  snd (serve nla_csrv CsStart [w1; w2; w2]) = CsRefused /\
  snd (serve nla_csrv CsStart [w2]) = CsRefused.
Proof. repeat split; vm_compute; reflexivity. Qed.
