(* Executable model of exactly the DER (X.690) shapes rdp-rs drives through the
   external crate yasna (src/nla/asn1.rs): INTEGER (u32), ENUMERATED (i64, the
   non-negative half), BOOLEAN, OCTET STRING (primitive), SEQUENCE, SEQUENCE OF,
   EXPLICIT and IMPLICIT tagging.  Model only: no proofs in this file (the
   proofs live in C18_der_proofs.v), every definition is a plain Fixpoint on
   N / nat / lists so that it extracts. *)
From RdpV Require Import Base.
Open Scope list_scope.
Open Scope N_scope.

(* ---------- values and schemas ---------- *)

Inductive tclass := Universal | Application | Context | Private.

Inductive dval :=
| DInt (n : N)                 (* INTEGER holding a u32: 0 <= n < 2^32 *)
| DEnum (n : N)                (* ENUMERATED (Rust i64); domain 0 <= n < 2^63 *)
| DBool (b : bool)
| DOctets (b : bytes)          (* OCTET STRING, primitive *)
| DSeq (l : list dval)         (* SEQUENCE *)
| DSeqOf (l : list dval)       (* SEQUENCE OF *)
| DExplicit (c : tclass) (tag : N) (v : dval)   (* [c tag] EXPLICIT *)
| DImplicit (c : tclass) (tag : N) (v : dval).  (* [c tag] IMPLICIT *)

Inductive dsch :=
| SInt | SEnum | SBool | SOctets
| SSeq (l : list dsch)
| SSeqOf (s : dsch)            (* one element schema, used repeatedly *)
| SExplicit (c : tclass) (tag : N) (s : dsch)
| SImplicit (c : tclass) (tag : N) (s : dsch).

Definition tclass_eqb (a b : tclass) : bool :=
  match a, b with
  | Universal, Universal | Application, Application
  | Context, Context | Private, Private => true
  | _, _ => false
  end.

(* [conforms s v]: v is an instance of schema s. *)
Fixpoint conforms (s : dsch) (v : dval) {struct v} : bool :=
  match v, s with
  | DInt _, SInt => true
  | DEnum _, SEnum => true
  | DBool _, SBool => true
  | DOctets _, SOctets => true
  | DSeq vs, SSeq ss =>
      (fix go (vs : list dval) (ss : list dsch) {struct vs} : bool :=
         match vs with
         | [] => match ss with [] => true | _ :: _ => false end
         | v' :: vs' =>
             match ss with
             | [] => false
             | s' :: ss' => conforms s' v' && go vs' ss'
             end
         end) vs ss
  | DSeqOf vs, SSeqOf s' => forallb (conforms s') vs
  | DExplicit c t v', SExplicit c' t' s' => tclass_eqb c c' && (t =? t') && conforms s' v'
  | DImplicit c t v', SImplicit c' t' s' => tclass_eqb c c' && (t =? t') && conforms s' v'
  | _, _ => false
  end.

(* Boolean domain predicate: the numbers fit the Rust types. *)
Fixpoint dwf (v : dval) : bool :=
  match v with
  | DInt n => n <? 4294967296
  | DEnum n => n <? 9223372036854775808
  | DBool _ => true
  | DOctets _ => true
  | DSeq l => forallb dwf l
  | DSeqOf l => forallb dwf l
  | DExplicit _ _ v' => dwf v'
  | DImplicit _ _ v' => dwf v'
  end.

(* ---------- digit strings ---------- *)

(* The k-digit big-endian representation of n in base [base] (n taken modulo
   base^k), most significant digit first. *)
Fixpoint be_digits (base : N) (k : nat) (n : N) : list N :=
  match k with
  | O => []
  | S k' => (n / base ^ N.of_nat k') mod base :: be_digits base k' n
  end.

Definition of_digits (base : N) (acc : N) (l : list N) : N :=
  fold_left (fun a d => a * base + d) l acc.

Definition be_bytes (k : nat) (n : N) : bytes := be_digits 256 k n.
Definition of_be (b : bytes) : N := of_digits 256 0 b.

(* Number of [bits]-bit digits needed to write n (0 needs none). *)
Definition ndigits (bits : N) (n : N) : nat := N.to_nat ((N.size n + (bits - 1)) / bits).

(* [split_n n b]: the first n elements of b and the rest; None when b is shorter.
   Structural on b, so a hostile huge n costs nothing. *)
Fixpoint split_n (n : N) (b : bytes) {struct b} : option (bytes * bytes) :=
  if n =? 0 then Some ([], b)
  else match b with
       | [] => None
       | x :: tl =>
           match split_n (n - 1) tl with
           | Some (h, r) => Some (x :: h, r)
           | None => None
           end
       end.

(* ---------- identifier octets (X.690 8.1.2) ---------- *)

Definition class_bits (c : tclass) : N :=
  match c with Universal => 0 | Application => 1 | Context => 2 | Private => 3 end.

Definition class_of_bits (n : N) : tclass :=
  match n with 0 => Universal | 1 => Application | 2 => Context | _ => Private end.

(* base-128 big-endian, continuation bit on every octet but the last *)
Fixpoint enc_b128 (k : nat) (n : N) : bytes :=
  match k with
  | O => []
  | S k' => ((n / 128 ^ N.of_nat k') mod 128 + match k' with O => 0 | S _ => 128 end)
              :: enc_b128 k' n
  end.

Definition enc_ident (c : tclass) (constructed : bool) (t : N) : bytes :=
  let hi := class_bits c * 64 + (if constructed then 32 else 0) in
  if t <? 31 then [hi + t]
  else (hi + 31) :: enc_b128 (ndigits 7 t) t.

Fixpoint dec_b128 (acc : N) (b : bytes) {struct b} : option (N * bytes) :=
  match b with
  | [] => None
  | x :: tl =>
      if 256 <=? x then None
      else if x <? 128 then Some (acc * 128 + x, tl)
      else dec_b128 (acc * 128 + (x - 128)) tl
  end.

(* Strict: a high-tag-number form must not start with a zero digit (0x80) and
   must not be used for a tag number below 31. *)
Definition dec_ident (b : bytes) : option ((tclass * bool * N) * bytes) :=
  match b with
  | [] => None
  | x :: tl =>
      if 256 <=? x then None
      else
        let c := class_of_bits (x / 64) in
        let k := (x / 32) mod 2 =? 1 in
        let low := x mod 32 in
        if low <? 31 then Some ((c, k, low), tl)
        else match tl with
             | [] => None
             | y :: _ =>
                 if y =? 128 then None
                 else match dec_b128 0 tl with
                      | Some (t, rest) => if t <? 31 then None else Some ((c, k, t), rest)
                      | None => None
                      end
             end
  end.

(* ---------- length octets, definite form (X.690 8.1.3, 10.1) ---------- *)

Definition enc_len (n : N) : bytes :=
  if n <? 128 then [n]
  else let k := ndigits 8 n in (128 + N.of_nat k) :: be_bytes k n.

(* Strict: the indefinite form (0x80) is rejected, the long form must have a
   non-zero first octet and must announce at least 128.  (A first octet 0xff is
   reserved by X.690; here it reads as "127 length octets", which then announce
   at least 256^126 content octets, so the TLV is rejected as truncated.) *)
Definition dec_len (b : bytes) : option (N * bytes) :=
  match b with
  | [] => None
  | x :: tl =>
      if x <? 128 then Some (x, tl)
      else match split_n (x - 128) tl with
           | Some (ds, rest) =>
               match ds with
               | [] => None
               | d :: _ =>
                   if d =? 0 then None
                   else let n := of_be ds in
                        if n <? 128 then None else Some (n, rest)
               end
           | None => None
           end
  end.

(* ---------- INTEGER / ENUMERATED contents (X.690 8.3), non-negative ---------- *)

(* Minimal two's complement of a non-negative number: size n / 8 + 1 octets,
   i.e. a leading 0x00 exactly when the top bit would otherwise be set. *)
Definition enc_int (n : N) : bytes := be_bytes (N.to_nat (N.size n / 8 + 1)) n.

(* Strict and non-negative only: empty contents, a set sign bit, and a leading
   0x00 not needed for the sign are all rejected. *)
Definition dec_int (b : bytes) : option N :=
  match b with
  | [] => None
  | x :: tl =>
      if 128 <=? x then None
      else match tl with
           | [] => Some x
           | y :: _ =>
               if (x =? 0) && (y <? 128) then None else Some (of_be b)
           end
  end.

(* ---------- TLV ---------- *)

Definition tlv (ct : tclass * N) (constructed : bool) (content : bytes) : bytes :=
  enc_ident (fst ct) constructed (snd ct) ++ enc_len (nlen content) ++ content.

(* Expect identifier (class, constructed, tag); return (content, rest). *)
Definition dec_tlv (ct : tclass * N) (constructed : bool) (b : bytes) : option (bytes * bytes) :=
  match dec_ident b with
  | Some ((c', k', t'), b1) =>
      if tclass_eqb (fst ct) c' && Bool.eqb constructed k' && (snd ct =? t') then
        match dec_len b1 with
        | Some (n, b2) => split_n n b2
        | None => None
        end
      else None
  | None => None
  end.

(* A pending IMPLICIT tag overrides the natural identifier of the next TLV (the
   outermost pending tag wins, as in yasna's implicit_tag field). *)
Definition pick (o : option (tclass * N)) (d : tclass * N) : tclass * N :=
  match o with Some x => x | None => d end.

(* ---------- encoder ---------- *)

Fixpoint der_enc (o : option (tclass * N)) (v : dval) {struct v} : bytes :=
  match v with
  | DInt n => tlv (pick o (Universal, 2)) false (enc_int n)
  | DEnum n => tlv (pick o (Universal, 10)) false (enc_int n)
  | DBool b => tlv (pick o (Universal, 1)) false [if b then 255 else 0]
  | DOctets b => tlv (pick o (Universal, 4)) false b
  | DSeq l => tlv (pick o (Universal, 16)) true (concat (map (der_enc None) l))
  | DSeqOf l => tlv (pick o (Universal, 16)) true (concat (map (der_enc None) l))
  | DExplicit c t v' => tlv (pick o (c, t)) true (der_enc None v')
  | DImplicit c t v' => der_enc (Some (pick o (c, t))) v'
  end.

Definition der_encode (v : dval) : bytes := der_enc None v.

(* Observers used to state the shape of an encoding: natural identifier,
   constructed bit and contents octets of a value. *)
Definition der_tag (v : dval) : tclass * N :=
  match v with
  | DInt _ => (Universal, 2)
  | DEnum _ => (Universal, 10)
  | DBool _ => (Universal, 1)
  | DOctets _ => (Universal, 4)
  | DSeq _ => (Universal, 16)
  | DSeqOf _ => (Universal, 16)
  | DExplicit c t _ => (c, t)
  | DImplicit c t _ => (c, t)
  end.

Fixpoint der_constructed (v : dval) : bool :=
  match v with
  | DInt _ | DEnum _ | DBool _ | DOctets _ => false
  | DSeq _ | DSeqOf _ | DExplicit _ _ _ => true
  | DImplicit _ _ v' => der_constructed v'
  end.

Fixpoint der_content (v : dval) : bytes :=
  match v with
  | DInt n => enc_int n
  | DEnum n => enc_int n
  | DBool b => [if b then 255 else 0]
  | DOctets b => b
  | DSeq l => concat (map (der_enc None) l)
  | DSeqOf l => concat (map (der_enc None) l)
  | DExplicit _ _ v' => der_enc None v'
  | DImplicit _ _ v' => der_content v'
  end.

(* ---------- decoder ---------- *)

(* Decode one value per schema of the list, in order. *)
Definition dec_seq (f : dsch -> bytes -> option (dval * bytes))
  : list dsch -> bytes -> option (list dval * bytes) :=
  fix go (ss : list dsch) (b : bytes) {struct ss} : option (list dval * bytes) :=
  match ss with
  | [] => Some ([], b)
  | s :: ss' =>
      match f s b with
      | Some (v, b') =>
          match go ss' b' with
          | Some (vs, b'') => Some (v :: vs, b'')
          | None => None
          end
      | None => None
      end
  end.

(* Decode values with one decoder until the input is used up. *)
Definition dec_many (f : bytes -> option (dval * bytes))
  : nat -> bytes -> option (list dval) :=
  fix go (fuel : nat) (b : bytes) {struct fuel} : option (list dval) :=
  match b with
  | [] => Some []
  | _ :: _ =>
      match fuel with
      | O => None
      | S fuel' =>
          match f b with
          | Some (v, b') =>
              match go fuel' b' with
              | Some vs => Some (v :: vs)
              | None => None
              end
          | None => None
          end
      end
  end.

Fixpoint der_dec (o : option (tclass * N)) (s : dsch) (b : bytes) {struct s}
  : option (dval * bytes) :=
  match s with
  | SInt =>
      match dec_tlv (pick o (Universal, 2)) false b with
      | Some (content, rest) =>
          match dec_int content with
          | Some n => if n <? 4294967296 then Some (DInt n, rest) else None
          | None => None
          end
      | None => None
      end
  | SEnum =>
      match dec_tlv (pick o (Universal, 10)) false b with
      | Some (content, rest) =>
          match dec_int content with
          | Some n => if n <? 9223372036854775808 then Some (DEnum n, rest) else None
          | None => None
          end
      | None => None
      end
  | SBool =>
      match dec_tlv (pick o (Universal, 1)) false b with
      | Some (content, rest) =>
          match content with
          | [x] => if x =? 255 then Some (DBool true, rest)
                   else if x =? 0 then Some (DBool false, rest) else None
          | _ => None
          end
      | None => None
      end
  | SOctets =>
      match dec_tlv (pick o (Universal, 4)) false b with
      | Some (content, rest) => Some (DOctets content, rest)
      | None => None
      end
  | SSeq ss =>
      match dec_tlv (pick o (Universal, 16)) true b with
      | Some (content, rest) =>
          match dec_seq (fun s' b' => der_dec None s' b') ss content with
          | Some (vs, []) => Some (DSeq vs, rest)
          | _ => None
          end
      | None => None
      end
  | SSeqOf s' =>
      match dec_tlv (pick o (Universal, 16)) true b with
      | Some (content, rest) =>
          match dec_many (fun b' => der_dec None s' b') (length content) content with
          | Some vs => Some (DSeqOf vs, rest)
          | None => None
          end
      | None => None
      end
  | SExplicit c t s' =>
      match dec_tlv (pick o (c, t)) true b with
      | Some (content, rest) =>
          match der_dec None s' content with
          | Some (v, []) => Some (DExplicit c t v, rest)
          | _ => None
          end
      | None => None
      end
  | SImplicit c t s' =>
      match der_dec (Some (pick o (c, t))) s' b with
      | Some (v, rest) => Some (DImplicit c t v, rest)
      | None => None
      end
  end.

Definition der_decode (s : dsch) (b : bytes) : option (dval * bytes) := der_dec None s b.

Definition der_decode_all (s : dsch) (b : bytes) : option dval :=
  match der_decode s b with
  | Some (v, []) => Some v
  | _ => None
  end.

(* ---------- the shapes rdp-rs uses ---------- *)

(* core/mcs.rs *)
Definition domain_parameters (a b c d e f g h : N) : dval :=
  DSeq [DInt a; DInt b; DInt c; DInt d; DInt e; DInt f; DInt g; DInt h].
Definition domain_parameters_sch : dsch :=
  SSeq [SInt; SInt; SInt; SInt; SInt; SInt; SInt; SInt].

Definition connect_initial (user_data : bytes) : dval :=
  DImplicit Application 101
    (DSeq [DOctets [1]; DOctets [1]; DBool true;
           domain_parameters 34 2 0 1 0 1 65535 2;
           domain_parameters 1 1 1 1 0 1 1056 2;
           domain_parameters 65535 64535 65535 1 0 1 65535 2;
           DOctets user_data]).
Definition connect_initial_sch : dsch :=
  SImplicit Application 101
    (SSeq [SOctets; SOctets; SBool;
           domain_parameters_sch; domain_parameters_sch; domain_parameters_sch;
           SOctets]).

Definition connect_response (user_data : bytes) : dval :=
  DImplicit Application 102
    (DSeq [DEnum 0; DInt 0; domain_parameters 22 3 0 1 0 1 65528 2; DOctets user_data]).
Definition connect_response_sch : dsch :=
  SImplicit Application 102 (SSeq [SEnum; SInt; domain_parameters_sch; SOctets]).

(* nla/cssp.rs *)
Definition ts_request (nego : bytes) : dval :=
  DSeq [DExplicit Context 0 (DInt 2);
        DExplicit Context 1 (DSeqOf [DSeq [DExplicit Context 0 (DOctets nego)]])].
Definition ts_request_sch : dsch :=
  SSeq [SExplicit Context 0 SInt;
        SExplicit Context 1 (SSeqOf (SSeq [SExplicit Context 0 SOctets]))].

Definition ts_authenticate (nego pubkey : bytes) : dval :=
  DSeq [DExplicit Context 0 (DInt 2);
        DExplicit Context 1 (DSeqOf [DSeq [DExplicit Context 0 (DOctets nego)]]);
        DExplicit Context 3 (DOctets pubkey)].
Definition ts_authenticate_sch : dsch :=
  SSeq [SExplicit Context 0 SInt;
        SExplicit Context 1 (SSeqOf (SSeq [SExplicit Context 0 SOctets]));
        SExplicit Context 3 SOctets].

Definition ts_validate (pubkey : bytes) : dval :=
  DSeq [DExplicit Context 0 (DInt 2); DExplicit Context 3 (DOctets pubkey)].
Definition ts_validate_sch : dsch :=
  SSeq [SExplicit Context 0 SInt; SExplicit Context 3 SOctets].

Definition ts_password_creds (dom user pw : bytes) : dval :=
  DSeq [DExplicit Context 0 (DOctets dom);
        DExplicit Context 1 (DOctets user);
        DExplicit Context 2 (DOctets pw)].
Definition ts_password_creds_sch : dsch :=
  SSeq [SExplicit Context 0 SOctets; SExplicit Context 1 SOctets; SExplicit Context 2 SOctets].

Definition ts_credentials (dom user pw : bytes) : dval :=
  DSeq [DExplicit Context 0 (DInt 1);
        DExplicit Context 1 (DOctets (der_encode (ts_password_creds dom user pw)))].
Definition ts_credentials_sch : dsch :=
  SSeq [SExplicit Context 0 SInt; SExplicit Context 1 SOctets].

Definition ts_authinfo (info : bytes) : dval :=
  DSeq [DExplicit Context 0 (DInt 2); DExplicit Context 2 (DOctets info)].
Definition ts_authinfo_sch : dsch :=
  SSeq [SExplicit Context 0 SInt; SExplicit Context 2 SOctets].

