(* Model of the active-session code: mcs::Client::{read,write}, global::Client (state
   machine, PDU dispatch, fast-path), RdpClient::{read,write,try_write}.  Control flow is
   hand-written; every parse goes through the message interpreter (Msg.v) on the layouts
   of LayoutsGlobal.v.  Frames enter as the bytes of ONE complete TPKT / fast-path frame
   (deframing is C13's business) and client output is the list of complete TPKT frames
   put on the wire. *)
From RdpV Require Import Base Msg LayoutsGlobal Link Tpkt.
Open Scope string_scope.
Open Scope list_scope.
Open Scope N_scope.

Inductive gstate := SDemandActive | SSynchronize | SControlCooperate | SControlGranted | SFontMap | SData.

Record session := mkSession {
  st : gstate;
  user_id : N;        (* assigned by the server in attach-user-confirm *)
  channel_id : N;     (* the global (I/O) channel: the id the server network data announced (1003 in practice) *)
  width : N; height : N; layout : N;
  share_id : option N;
  cname : bytes       (* client name, UTF-8 bytes *)
}.

Definition set_state (s : session) (x : gstate) : session :=
  mkSession x (user_id s) (channel_id s) (width s) (height s) (layout s) (share_id s) (cname s).
Definition set_share (s : session) (x : option N) : session :=
  mkSession (st s) (user_id s) (channel_id s) (width s) (height s) (layout s) x (cname s).

Record bitmap_event := mkBitmap {
  dest_left : N; dest_top : N; dest_right : N; dest_bottom : N;
  bwidth : N; bheight : N; bpp : N; is_compress : bool; bdata : bytes
}.

Section WithProfile.
Variable p : prof.

Definition rd (m : msg) (input : bytes) : outcome msg :=
  match read p m input with
  | ROk m' _ _ => Ok m'
  | RErr e _ _ => Err e
  | RPanic => Panic
  | RSpin => Spin
  end.

Definition wr (m : msg) : outcome bytes :=
  match write p m with Some b => Ok b | None => Panic end.

Definition mlen (m : msg) : outcome N :=
  match mlength p m with Some n => Ok n | None => Panic end.

(* ------------------------------------------------------------------ PER bits used by MCS *)
(* per::read_integer_16(minimum): U16::BE + minimum, checked *)
Definition per_read_integer_16 (minimum : N) (input : bytes) : outcome (N * bytes) :=
  match input with
  | h :: l :: r => let v := of_be16 h l + minimum in
                   if v <? 65536 then Ok (v, r) else Err EInvalidSize
  | _ => Err EIo
  end.

Definition per_read_length (input : bytes) : outcome (N * bytes) :=
  match input with
  | b :: r =>
      if N.land b 128 =? 0 then Ok (b, r)
      else match r with
           | b2 :: r2 => Ok (N.shiftl (N.land b 127) 8 + b2, r2)
           | [] => Err EIo
           end
  | [] => Err EIo
  end.

Definition per_write_length (len : N) : bytes :=
  if 127 <? len then be16 (N.lor len 32768) else [len].

(* ------------------------------------------------------------------ mcs *)
Inductive channel := ChGlobal | ChUser.

(* mcs::Client::read on an already deframed x224 payload *)
Definition mcs_read (s : session) (pl : payload) : outcome payload :=
  match pl with
  | FastPath f b => Ok (FastPath f b)
  | Raw b =>
      match b with
      | [] => Err EIo
      | header :: r0 =>
          if N.shiftr header 2 =? 8 then Err EDisconnect
          else if negb (N.shiftr header 2 =? 26) then Err EInvalidData
          else
            obind (per_read_integer_16 1001 r0) (fun '(_, r1) =>
            obind (per_read_integer_16 0 r1) (fun '(chan, r2) =>
              if negb ((chan =? channel_id s) || (chan =? user_id s)) then Err EUnknown
              else
                match r2 with
                | [] => Err EIo
                | _ :: r3 => obind (per_read_length r3) (fun '(_, r4) =>
                    (* the "user" channel: RdpClient::read refuses it once the header is parsed *)
                    if chan =? channel_id s then Ok (Raw r4) else Err EUnexpectedType)
                end))
      end
  end.

(* mcs::Client::write("global", message) down to the wire: one TPKT frame *)
Definition mcs_frame (s : session) (message : bytes) : bytes :=
  tpkt_frame ([2; 240; 128] ++ [100] ++ be16 (user_id s - 1001) ++ be16 (channel_id s) ++ [112]
              ++ per_write_length (as_u16 (nlen message)) ++ message).

(* ------------------------------------------------------------------ global: PDU parsing *)
Definition pdu_from_control (control : msg) : outcome (N * msg) :=
  obind (cast_num 16 (get control "pduType")) (fun pdu_type =>
  if negb (pdutype_known pdu_type) then Err EInvalidCast else
  let tmpl :=
    if pdu_type =? PDUTYPE_DEMANDACTIVE then Some ts_demand_active_pdu
    else if pdu_type =? PDUTYPE_DATA then Some share_data_header_t
    else if pdu_type =? PDUTYPE_CONFIRMACTIVE then Some ts_confirm_active_pdu_t
    else if pdu_type =? PDUTYPE_DEACTIVATEALL then Some ts_deactivate_all_pdu
    else None in
  match tmpl with
  | None => Err ENotImplemented
  | Some t =>
      obind (cast_bytes (get control "pduMessage")) (fun body =>
      obind (rd t body) (fun m => Ok (pdu_type, m)))
  end).

Definition pdu_from_stream (input : bytes) : outcome (N * msg) :=
  obind (rd share_control_header_t input) pdu_from_control.

Definition data_pdu_from_pdu (pdu : msg) : outcome (N * msg) :=
  obind (cast_num 8 (get pdu "pduType2")) (fun t2 =>
  if negb (pdutype2_known t2) then Err EInvalidCast else
  let tmpl :=
    if t2 =? PDUTYPE2_SYNCHRONIZE then Some (ts_synchronize_pdu 0)
    else if t2 =? PDUTYPE2_CONTROL then Some (ts_control_pdu CTRLACTION_COOPERATE)
    else if t2 =? PDUTYPE2_FONTLIST then Some ts_font_list_pdu
    else if t2 =? PDUTYPE2_FONTMAP then Some ts_font_map_pdu
    else if t2 =? PDUTYPE2_SET_ERROR_INFO then Some ts_set_error_info_pdu
    else None in
  match tmpl with
  | None => Err ENotImplemented
  | Some t =>
      obind (cast_bytes (get pdu "payload")) (fun body =>
      obind (rd t body) (fun m => Ok (t2, m)))
  end).

(* Capability::from_capability_set: only its ability to crash matters (errors are printed
   and ignored, the result is stored and never read) *)
Definition capability_from_set (cs : msg) : outcome unit :=
  obind (cast_num 16 (get cs "capabilitySetType")) (fun t =>
  if negb (capset_type_known t) then Err EInvalidCast else
  match capability_template t with
  | None => Err EUnknown
  | Some tmpl =>
      obind (cast_bytes (get cs "capabilitySet")) (fun body =>
      obind (rd tmpl body) (fun _ => Ok tt))
  end).

Fixpoint caps_crash (l : list msg) : outcome unit :=
  match l with
  | [] => Ok tt
  | c :: tl => match capability_from_set c with
               | Panic => Panic | Spin => Spin
               | _ => caps_crash tl
               end
  end.

(* ------------------------------------------------------------------ global: writing *)
Definition write_pdu (s : session) (pdu_type : N) (m : msg) : outcome bytes :=
  obind (wr m) (fun body =>
  obind (wr (share_control_header pdu_type (user_id s) body)) (fun b => Ok (mcs_frame s b))).

Definition write_data_pdu (s : session) (t2 : N) (m : msg) : outcome bytes :=
  obind (wr m) (fun body =>
  write_pdu s PDUTYPE_DATA (share_data_header (match share_id s with Some x => x | None => 0 end) t2 body)).

Definition mk_capset (cap_type : N) (m : msg) : outcome msg :=
  obind (wr m) (fun body => obind (mlen m) (fun l => Ok (capability_set cap_type body l))).

Fixpoint sequence {A} (l : list (outcome A)) : outcome (list A) :=
  match l with
  | [] => Ok []
  | x :: tl => obind x (fun a => obind (sequence tl) (fun r => Ok (a :: r)))
  end.

Definition client_capabilities (s : session) : outcome (list msg) :=
  sequence [
    mk_capset 1 (ts_general_capability_set 1045);   (* LONG_CREDENTIALS | NO_BITMAP_COMPRESSION_HDR | ENC_SALTED_CHECKSUM | FASTPATH_OUTPUT *)
    mk_capset 2 (ts_bitmap_capability_set 24 (width s) (height s));
    mk_capset 3 (ts_order_capability_set 10);
    mk_capset 4 ts_bitmap_cache_capability_set;
    mk_capset 8 ts_pointer_capability_set;
    mk_capset 12 ts_sound_capability_set;
    mk_capset 13 (ts_input_capability_set 21 (layout s));
    mk_capset 15 ts_brush_capability_set;
    mk_capset 16 ts_glyph_capability_set;
    mk_capset 17 ts_offscreen_capability_set;
    mk_capset 20 ts_virtualchannel_capability_set;
    mk_capset 26 ts_multifragment_update_capability_ts ].

Definition write_confirm_active (s : session) : outcome bytes :=
  obind (client_capabilities s) (fun caps =>
  obind (mlen (MArray caps None)) (fun cl =>
  write_pdu s PDUTYPE_CONFIRMACTIVE
    (ts_confirm_active_pdu (match share_id s with Some x => x | None => 0 end) (cname s) caps cl))).

(* the MCS channel id of the server (MS-RDPBCGR: 0x03EA), target of the client's synchronize PDU
   (repaired code: it used to carry the I/O channel id) *)
Definition SERVER_CHANNEL : N := 1002.

Definition write_client_finalize (s : session) : outcome (list bytes) :=
  sequence [
    write_data_pdu s PDUTYPE2_SYNCHRONIZE (ts_synchronize_pdu SERVER_CHANNEL);
    write_data_pdu s PDUTYPE2_CONTROL (ts_control_pdu CTRLACTION_COOPERATE);
    write_data_pdu s PDUTYPE2_CONTROL (ts_control_pdu CTRLACTION_REQUEST_CONTROL);
    write_data_pdu s PDUTYPE2_FONTLIST ts_font_list_pdu ].

(* ------------------------------------------------------------------ global: reading per state *)
Record step_result := mkStep {
  r_session : session;
  r_out : outcome unit;
  r_wire : list bytes;             (* complete TPKT frames written, in order *)
  r_events : list bitmap_event     (* callback invocations, in order *)
}.

Definition done (s : session) (o : outcome unit) := mkStep s o [] [].

Definition lift {A} (s : session) (o : outcome A) (k : A -> step_result) : step_result :=
  match o with
  | Ok a => k a
  | Err e => done s (Err e)
  | Panic => done s Panic
  | Spin => done s Spin
  end.

Definition read_demand_active (s : session) (input : bytes) : step_result :=
  lift s (pdu_from_stream input) (fun '(t, m) =>
  if negb (t =? PDUTYPE_DEMANDACTIVE) then done s (Ok tt) else
  lift s (match get m "capabilitySets" with
          | None => Panic
          | Some cs => match trame_of cs with Some l => Ok l | None => Err EInvalidCast end
          end) (fun caps =>
  lift s (caps_crash caps) (fun _ =>
  lift s (cast_num 32 (get m "shareId")) (fun sid =>
  let s1 := set_share s (Some sid) in
  lift s1 (write_confirm_active s1) (fun f0 =>
  lift s1 (write_client_finalize s1) (fun fs =>
  mkStep (set_state s1 SSynchronize) (Ok tt) (f0 :: fs) [])))))).

(* the three "expect one data PDU" states *)
Definition read_expect_data (s : session) (input : bytes) (want_t2 : N) (want_action : option N) (next : gstate) : step_result :=
  lift s (pdu_from_stream input) (fun '(t, m) =>
  if negb (t =? PDUTYPE_DATA) then done s (Ok tt) else
  lift s (data_pdu_from_pdu m) (fun '(t2, d) =>
  if negb (t2 =? want_t2) then done s (Ok tt) else
  match want_action with
  | None => done (set_state s next) (Ok tt)
  | Some a =>
      lift s (cast_num 16 (get d "action")) (fun act =>
      if act =? a then done (set_state s next) (Ok tt) else done s (Err EUnexpectedType))
  end)).

(* state Data, slow path: an Array of share-control PDUs in one frame *)
Fixpoint data_pdus (s : session) (l : list msg) : session * outcome unit :=
  match l with
  | [] => (s, Ok tt)
  | c :: tl =>
      match pdu_from_control c with
      | Ok (t, m) =>
          if t =? PDUTYPE_DEACTIVATEALL then data_pdus (set_state s SDemandActive) tl
          else if negb (t =? PDUTYPE_DATA) then data_pdus s tl
          else match data_pdu_from_pdu m with
               | Ok (t2, d) =>
                   if t2 =? PDUTYPE2_SET_ERROR_INFO then
                     match cast_num 32 (get d "errorInfo") with
                     | Ok _ => data_pdus s tl
                     | Err e => (s, Err e) | Panic => (s, Panic) | Spin => (s, Spin)
                     end
                   else data_pdus s tl
               | Err _ => data_pdus s tl
               | Panic => (s, Panic)
               | Spin => (s, Spin)
               end
      | Err e => (s, Err e)
      | Panic => (s, Panic)
      | Spin => (s, Spin)
      end
  end.

Definition read_data_pdu (s : session) (input : bytes) : step_result :=
  lift s (rd (MArray [] (Some share_control_header_t)) input) (fun arr =>
  match trame_of arr with
  | None => done s (Err EInvalidCast)
  | Some l => let (s', o) := data_pdus s l in done s' o
  end).

Definition rect_event (r : msg) : outcome bitmap_event :=
  obind (cast_num 16 (get r "destLeft")) (fun a =>
  obind (cast_num 16 (get r "destTop")) (fun b =>
  obind (cast_num 16 (get r "destRight")) (fun c =>
  obind (cast_num 16 (get r "destBottom")) (fun d =>
  obind (cast_num 16 (get r "width")) (fun w =>
  obind (cast_num 16 (get r "height")) (fun h =>
  obind (cast_num 16 (get r "bitsPerPixel")) (fun bp =>
  obind (cast_num 16 (get r "flags")) (fun fl =>
  obind (cast_bytes (get r "bitmapDataStream")) (fun data =>
  Ok (mkBitmap a b c d w h bp (negb (N.land fl 1 =? 0)) data)))))))))).

Fixpoint rect_events (l : list msg) (acc : list bitmap_event) : list bitmap_event * outcome unit :=
  match l with
  | [] => (acc, Ok tt)
  | r :: tl => match rect_event r with
               | Ok e => rect_events tl (acc ++ [e])
               | Err e => (acc, Err e) | Panic => (acc, Panic) | Spin => (acc, Spin)
               end
  end.

Definition fp_from_fp (u : msg) : outcome (N * msg) :=
  obind (cast_num 8 (get u "updateHeader")) (fun h =>
  let t := N.land h 15 in
  if negb (fp_type_known t) then Err EInvalidCast else
  let tmpl :=
    if t =? FP_BITMAP then Some ts_fp_update_bitmap
    else if t =? FP_COLOR then Some ts_colorpointerattribute
    else if t =? FP_SYNCHRONIZE then Some empty_component
    else if t =? FP_PTR_NULL then Some empty_component
    else None in
  match tmpl with
  | None => Err ENotImplemented
  | Some tm =>
      obind (cast_bytes (get u "updateData")) (fun body =>
      obind (rd tm body) (fun m => Ok (t, m)))
  end).

Fixpoint fp_updates (l : list msg) (acc : list bitmap_event) : list bitmap_event * outcome unit :=
  match l with
  | [] => (acc, Ok tt)
  | u :: tl =>
      match fp_from_fp u with
      | Ok (t, m) =>
          if t =? FP_BITMAP then
            match get m "rectangles" with
            | None => (acc, Panic)
            | Some rs =>
                match trame_of rs with
                | None => (acc, Err EInvalidCast)
                | Some rl => match rect_events rl acc with
                             | (acc', Ok _) => fp_updates tl acc'
                             | other => other
                             end
                end
            end
          else fp_updates tl acc
      | Err _ => fp_updates tl acc
      | Panic => (acc, Panic)
      | Spin => (acc, Spin)
      end
  end.

Definition read_fast_path (s : session) (input : bytes) : step_result :=
  lift s (rd (MArray [] (Some ts_fp_update)) input) (fun arr =>
  match trame_of arr with
  | None => done s (Err EInvalidCast)
  | Some l => let (evs, o) := fp_updates l [] in mkStep s o [] evs
  end).

(* global::Client::read *)
Definition global_read (s : session) (pl : payload) : step_result :=
  match st s with
  | SData =>
      match pl with
      | Raw b => read_data_pdu s b
      | FastPath _ b => read_fast_path s b
      end
  | other =>
      match pl with
      | FastPath _ _ => done s (Err EInvalidCast)             (* try_let!(Payload::Raw, ..) *)
      | Raw b =>
          match other with
          | SDemandActive => read_demand_active s b
          | SSynchronize => read_expect_data s b PDUTYPE2_SYNCHRONIZE None SControlCooperate
          | SControlCooperate => read_expect_data s b PDUTYPE2_CONTROL (Some CTRLACTION_COOPERATE) SControlGranted
          | SControlGranted => read_expect_data s b PDUTYPE2_CONTROL (Some CTRLACTION_GRANTED_CONTROL) SFontMap
          | SFontMap => read_expect_data s b PDUTYPE2_FONTMAP None SData
          | SData => done s (Ok tt)
          end
      end
  end.

(* RdpClient::read on the bytes of one complete frame *)
Definition frame_payload (frame : bytes) : outcome payload :=
  match x224_read [frame] with
  | (o, _) => o
  end.

Definition client_read (s : session) (frame : bytes) : step_result :=
  lift s (frame_payload frame) (fun pl =>
  lift s (mcs_read s pl) (fun pl' => global_read s pl')).

(* ------------------------------------------------------------------ RdpClient::write *)
Inductive button := BNone | BLeft | BRight | BMiddle.
Inductive input_ev :=
| EvPointer (x y : N) (b : button) (down : bool)
| EvKey (code : N) (down : bool)
| EvBitmap.                       (* an event kind that cannot be sent *)

Definition pointer_flags (b : button) (down : bool) : N :=
  N.lor (match b with BLeft => 4096 | BRight => 8192 | BMiddle => 16384 | BNone => 2048 end)
        (if down then 32768 else 0).

Definition write_input_event (s : session) (event_type : N) (ev : msg) : step_result :=
  match st s with
  | SData =>
      lift s (wr ev) (fun data =>
      lift s (write_data_pdu s PDUTYPE2_INPUT (ts_input_pdu_data [ts_input_event event_type data])) (fun f =>
      mkStep s (Ok tt) [f] []))
  | _ => done s (Err EInvalidAutomata)
  end.

Definition client_write (s : session) (e : input_ev) : step_result :=
  match e with
  | EvPointer x y b down => write_input_event s INPUT_EVENT_MOUSE (ts_pointer_event (pointer_flags b down) x y)
  | EvKey code down => write_input_event s INPUT_EVENT_SCANCODE (ts_keyboard_event (if down then 0 else 32768) code)
  | EvBitmap => done s (Err EUnexpectedType)
  end.

Definition client_try_write (s : session) (e : input_ev) : step_result :=
  let r := client_write s e in
  match r_out r with
  | Err EInvalidAutomata => mkStep (r_session r) (Ok tt) (r_wire r) (r_events r)
  | _ => r
  end.

End WithProfile.

(* impl From<&str> for KeyboardLayout (core/client.rs) followed by `as u32`: the layout code of a layout name given
   as its UTF-8 bytes; "fr" => French, "us" => US, anything else => US (the arms are disjoint: their order is immaterial) *)
Fixpoint kbd_name_eqb (a b : bytes) : bool :=
  match a, b with [], [] => true | x :: ta, y :: tb => (x =? y) && kbd_name_eqb ta tb | _, _ => false end.
Definition keyboard_layout_from (name : bytes) : N :=
  if kbd_name_eqb name [102; 114] then 1036 else if kbd_name_eqb name [117; 115] then 1033 else 1033.

Definition init_session_io (uid io w h lay : N) (name : bytes) : session :=
  mkSession SDemandActive uid io w h lay None name.
Definition init_session (uid w h lay : N) (name : bytes) : session := init_session_io uid 1003 w h lay name.

(* a scripted run: what the harness replays against RdpClient *)
Inductive op :=
| OpRead (frame : bytes)
| OpWrite (e : input_ev)
| OpTryWrite (e : input_ev).

Definition do_op (p : prof) (s : session) (o : op) : step_result :=
  match o with
  | OpRead f => client_read p s f
  | OpWrite e => client_write p s e
  | OpTryWrite e => client_try_write p s e
  end.

Fixpoint run_ops (p : prof) (s : session) (ops : list op) : list step_result :=
  match ops with
  | [] => []
  | o :: tl => let r := do_op p s o in r :: run_ops p (r_session r) tl
  end.
