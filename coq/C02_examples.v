(* Concrete negotiations for the C02 statements, run through the extracted instantiation
   [negotiate_impl] (ConnectRun.v).  Frames: C05_examples.v (reference encoders). *)
From RdpV Require Import Base Msg LayoutsGlobal LayoutsConnect Link Tpkt Global BerYasna Connect ConnectRun C02_proofs C05_examples.
Open Scope list_scope.
Open Scope N_scope.

(* connection confirm selecting PROTOCOL_SSL (ex_cc selects RDP, ex_cc_hybrid selects HYBRID) *)
Definition ex_cc_ssl : bytes := [3; 0; 0; 19; 14; 208; 0; 0; 0; 0; 0; 2; 0; 8; 0; 1; 0; 0; 0].
Definition ex_rest : stream := [ex_mcs; ex_attach; ex_join_global; ex_join_user; ex_license].

(* what Connector offers with NLA on, certificate checking on *)
Definition cfg_nla_check : config := mkConfig 3 true false false 3 true.
Definition cfg_ssl_only : config := mkConfig 1 true false false 3 false.
Definition cfg_plain_rdp : config := mkConfig 0 false false false 3 false.

Definition tls_run : list tev :=
  [RawWrite (CR 3 0); TlsStart true; TlsWrite (CI 366 1); TlsWrite ED; TlsWrite AU; TlsWrite (CJ 3 1003); TlsWrite (CJ 3 1004);
   TlsWrite (INFO 3 1003 228)].

Lemma ex_negotiations :
  (* SSL selected, trusted certificate, checking on: connects, everything after the request inside TLS *)
  (exists r, fst (negotiate_impl Debug true true cfg_nla_check (ex_cc_ssl :: ex_rest) ex_rest) = Ok r) /\
  s_ev (snd (negotiate_impl Debug true true cfg_nla_check (ex_cc_ssl :: ex_rest) ex_rest)) = tls_run /\
  (* downgrade attempt: plain RDP selected although SSL|HYBRID was offered *)
  fst (negotiate_impl Debug true true cfg_nla_check (ex_cc :: ex_rest) ex_rest) = Err EInvalidProtocol /\
  s_ev (snd (negotiate_impl Debug true true cfg_nla_check (ex_cc :: ex_rest) ex_rest)) = [RawWrite (CR 3 0)] /\
  (* HYBRID selected although only SSL was offered *)
  fst (negotiate_impl Debug true true cfg_ssl_only (ex_cc_hybrid :: ex_rest) ex_rest) = Err EInvalidProtocol /\
  s_ev (snd (negotiate_impl Debug true true cfg_ssl_only (ex_cc_hybrid :: ex_rest) ex_rest)) = [RawWrite (CR 1 0)] /\
  (* untrusted certificate, checking on *)
  fst (negotiate_impl Debug false true cfg_nla_check (ex_cc_ssl :: ex_rest) ex_rest) = Err ESsl /\
  s_ev (snd (negotiate_impl Debug false true cfg_nla_check (ex_cc_ssl :: ex_rest) ex_rest)) = [RawWrite (CR 3 0); TlsStart false] /\
  (* NLA: the first CredSSP token leaves inside TLS *)
  s_ev (snd (negotiate_impl Debug true true cfg_nla_check (ex_cc_hybrid :: ex_rest) ex_rest)) = [RawWrite (CR 3 0); TlsStart true; TlsWrite CSSP] /\
  (* plain RDP security requested explicitly (not reachable through Connector): the Client Info travels in clear *)
  (exists r, fst (negotiate_impl Debug true true cfg_plain_rdp (ex_cc :: ex_rest) ex_rest) = Ok r) /\
  In (RawWrite (INFO 3 1003 228)) (s_ev (snd (negotiate_impl Debug true true cfg_plain_rdp (ex_cc :: ex_rest) ex_rest))).
Proof.
  split; [eexists; vm_compute; reflexivity|].
  repeat (split; [vm_compute; reflexivity|]).
  split; [eexists; vm_compute; reflexivity|]. vm_compute. auto 10.
Qed.
