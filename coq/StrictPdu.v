(* SPECIFICATION: strict recursive-descent parsers of every PDU an RDP client writes on the RDP
   layers, written from the standards and independent of the emitters (ClientPdus.v) and of the
   message interpreter (Msg.v):
     TPKT (RFC 1006 / T.123), X.224 class 0 CR and DT TPDUs, MS-RDPBCGR 2.2.1.1 (RDP_NEG_REQ),
     T.125 Connect-Initial (BER) and domain PDUs (aligned PER), T.124 ConnectData /
     ConferenceCreateRequest as MS-RDPBCGR 2.2.1.3 lays it out, client data blocks 2.2.1.3.2-4,
     client info 2.2.1.11, confirm active 2.2.1.13.2 with the capability sets of 2.2.7,
     synchronize / control / font list 2.2.1.14-18, slow-path input 2.2.8.1.1.3,
     disconnect provider ultimatum 2.2.2.3.
   Strict: every length / count field must equal the size / number of what it describes, fixed
   fields have their size, constants their value, strings are UTF-16LE without unpaired
   surrogates and null-terminated as specified, and the parser consumes exactly the frame.
   The parsers return the decoded field values.
   Where the standard's own examples disagree both readings are accepted and nothing else:
   TS_SHAREDATAHEADER.uncompressedLength may be the length of the whole share PDU (server
   examples) or that length minus 14 (client examples). *)
From RdpV Require Import Base.
Open Scope list_scope.
Open Scope N_scope.

(* ------------------------------------------------------------------ parser combinators *)
Definition parser (A : Type) := bytes -> option (A * bytes).
Definition ret {A} (a : A) : parser A := fun b => Some (a, b).
Definition bind {A B} (m : parser A) (k : A -> parser B) : parser B :=
  fun b => match m b with Some (a, r) => k a r | None => None end.
Definition fail {A} : parser A := fun _ => None.
Notation "x <- m ;; k" := (bind m (fun x => k)) (at level 61, m at next level, right associativity).
Notation "m ;;; k" := (bind m (fun _ => k)) (at level 61, right associativity).

Definition guard (c : bool) : parser unit := fun b => if c then Some (tt, b) else None.
Definition lift {A} (o : option A) : parser A := fun b => match o with Some a => Some (a, b) | None => None end.
Definition u8 : parser N := fun b => match b with x :: r => Some (x, r) | [] => None end.
Definition le16p : parser N := fun b => match b with x :: y :: r => Some (of_le16 x y, r) | _ => None end.
Definition be16p : parser N := fun b => match b with x :: y :: r => Some (of_be16 x y, r) | _ => None end.
Definition le32p : parser N :=
  fun b => match b with x :: y :: z :: t :: r => Some (of_le32 x y z t, r) | _ => None end.
Definition takeN (n : N) : parser bytes :=
  fun b => if n <=? nlen b then Some (firstn (N.to_nat n) b, skipn (N.to_nat n) b) else None.
Definition remaining : parser N := fun b => Some (nlen b, b).
Definition rest : parser bytes := fun b => Some (b, []).

Fixpoint bytes_eqb (a b : bytes) : bool :=
  match a, b with
  | [], [] => true
  | x :: a', y :: b' => (x =? y) && bytes_eqb a' b'
  | _, _ => false
  end.
(* the next bytes are exactly [c] *)
Definition const (c : bytes) : parser unit := x <- takeN (nlen c) ;; guard (bytes_eqb x c).

(* run [m] on [b], which it must consume exactly *)
Definition exactly {A} (m : parser A) (b : bytes) : option A :=
  match m b with Some (a, []) => Some a | _ => None end.
Definition sub {A} (m : parser A) (b : bytes) : parser A := lift (exactly m b).

Fixpoint times {A} (n : nat) (m : parser A) : parser (list A) :=
  match n with
  | O => ret []
  | S k => x <- m ;; tl <- times k m ;; ret (x :: tl)
  end.

(* elements until the input is exhausted ([fuel] >= number of elements) *)
Fixpoint many {A} (fuel : nat) (m : parser A) : parser (list A) :=
  fun b => match b with
           | [] => Some ([], [])
           | _ => match fuel with
                  | O => None
                  | S f => (x <- m ;; tl <- many f m ;; ret (x :: tl)) b
                  end
           end.

Definition mem_N (x : N) (l : list N) : bool := existsb (N.eqb x) l.
Fixpoint nodup_N (l : list N) : bool :=
  match l with [] => true | x :: tl => negb (mem_N x tl) && nodup_N tl end.
Fixpoint assoc {A} (k : N) (l : list (N * A)) : option A :=
  match l with [] => None | (x, v) :: tl => if x =? k then Some v else assoc k tl end.

(* ------------------------------------------------------------------ strings *)
Fixpoint units_of (b : bytes) : option (list N) :=
  match b with
  | [] => Some []
  | x :: y :: r => match units_of r with Some u => Some (of_le16 x y :: u) | None => None end
  | _ => None
  end.

(* UTF-16 code units -> Unicode scalar values; unpaired surrogates are refused *)
Fixpoint utf16_decode (u : list N) : option (list N) :=
  match u with
  | [] => Some []
  | a :: r =>
      if (55296 <=? a) && (a <? 56320) then
        match r with
        | b :: r' =>
            if (56320 <=? b) && (b <? 57344) then
              match utf16_decode r' with
              | Some s => Some (65536 + (a - 55296) * 1024 + (b - 56320) :: s)
              | None => None
              end
            else None
        | [] => None
        end
      else if (56320 <=? a) && (a <? 57344) then None
      else match utf16_decode r with Some s => Some (a :: s) | None => None end
  end.

(* the code units before the first null; None when there is no null *)
Fixpoint until_null (u : list N) : option (list N) :=
  match u with
  | [] => None
  | a :: r => if a =? 0 then Some [] else match until_null r with Some s => Some (a :: s) | None => None end
  end.

(* fixed-size, null-terminated UTF-16 field: the characters before the terminator *)
Definition fixed_string (b : bytes) : option (list N) :=
  match units_of b with
  | Some u => match until_null u with Some v => utf16_decode v | None => None end
  | None => None
  end.

(* [cb] bytes of characters followed by a 2-byte null terminator that [cb] does not count *)
Definition counted_string (cb : N) : parser (list N) :=
  b <- takeN cb ;; const [0; 0] ;;;
  lift (match units_of b with Some u => utf16_decode u | None => None end).

(* [cb] bytes of characters INCLUDING the mandatory null terminator *)
Definition counted_string_incl (cb : N) : parser (list N) :=
  guard (2 <=? cb) ;;; b <- takeN cb ;;
  lift (match units_of b with
        | Some u => if last u 1 =? 0 then utf16_decode (removelast u) else None
        | None => None
        end).

(* little-endian value of a field of any width *)
Fixpoint le_value (b : bytes) : N := match b with [] => 0 | x :: r => x + 256 * le_value r end.
Fixpoint be_value (acc : N) (b : bytes) : N := match b with [] => acc | x :: r => be_value (acc * 256 + x) r end.

(* ------------------------------------------------------------------ TPKT, X.224 *)
Definition sp_tpkt (frame : bytes) : option bytes :=
  exactly (n <- remaining ;; const [3; 0] ;;; len <- be16p ;; guard (len =? n) ;;; rest) frame.

Definition sp_x224_data : parser unit := const [2; 240; 128].

(* decoded PDUs *)
(* client core data; [S] = how the two fixed-size string fields are held (raw bytes, then decoded) *)
Record core_of (S : Type) := mkCore {
  k_version : N; k_width : N; k_height : N; k_color_depth : N; k_sas : N; k_layout : N; k_build : N;
  k_name : S; k_kbd_type : N; k_kbd_subtype : N; k_kbd_fnkeys : N; k_ime : S;
  k_optional : list N      (* the optional fields present, in order, as little-endian values *)
}.
Arguments mkCore {S}. Arguments k_version {S}. Arguments k_width {S}. Arguments k_height {S}. Arguments k_color_depth {S}.
Arguments k_sas {S}. Arguments k_layout {S}. Arguments k_build {S}. Arguments k_name {S}. Arguments k_kbd_type {S}.
Arguments k_kbd_subtype {S}. Arguments k_kbd_fnkeys {S}. Arguments k_ime {S}. Arguments k_optional {S}.
Record blocks_of (S : Type) := mkBlocks {
  b_core : core_of S;
  b_security : N * N;                    (* encryptionMethods, extEncryptionMethods *)
  b_channels : option (list (bytes * N)) (* CS_NET: channel names and options *)
}.
Arguments mkBlocks {S}. Arguments b_core {S}. Arguments b_security {S}. Arguments b_channels {S}.
Definition core_data := core_of (list N).
Definition client_blocks := blocks_of (list N).
Record ext_info := mkExt { e_family : N; e_address : list N; e_dir : list N; e_session : N; e_perf : N }.
Record info_data := mkInfo {
  n_codepage : N; n_flags : N; n_domain : list N; n_user : list N; n_password : list N;
  n_shell : list N; n_workdir : list N; n_ext : option ext_info
}.
Record confirm_data := mkConfirm {
  f_share : N; f_source : bytes; f_caps : list N;       (* capability set types in order *)
  f_general : option N;                                 (* extraFlags *)
  f_bitmap : option (N * N * N);                        (* preferredBitsPerPixel, desktopWidth, desktopHeight *)
  f_input : option (N * N * N * N * N)                  (* inputFlags, keyboardLayout, type, subtype, function keys *)
}.
Inductive in_event := IMouse (flags x y : N) | IKey (flags code : N).

Inductive pdu :=
| PConnectionRequest (flags protocols : N)
| PConnectInitial (target minimum maximum : list N) (blocks : client_blocks)
| PErectDomain (sub_height sub_interval : N)
| PAttachUser
| PChannelJoin (initiator channel : N)
| PDisconnect (reason : N)
(* send-data-requests: initiator, channel, then the user data *)
| PClientInfo (initiator channel : N) (i : info_data)
| PConfirmActive (initiator channel source : N) (c : confirm_data)
| PSynchronize (initiator channel source share target : N)
| PControl (initiator channel source share action grant control : N)
| PFontList (initiator channel source share : N)
| PInput (initiator channel source share : N) (events : list in_event).

(* X.224 connection request with an RDP negotiation request and nothing else (no routing
   token / cookie, no correlation info: the flag announcing it must be clear) *)
Definition sp_connection_request : parser pdu :=
  li <- u8 ;; n <- remaining ;; guard (li =? n) ;;;
  const [224] ;;; const [0; 0] ;;; _src <- be16p ;; const [0] ;;;
  const [1] ;;; flags <- u8 ;; const [8; 0] ;;; protocols <- le32p ;;
  guard (N.land flags 252 =? 0) ;;;
  ret (PConnectionRequest flags protocols).

(* ------------------------------------------------------------------ BER *)
Definition ber_length : parser N :=
  b <- u8 ;;
  if b <? 128 then ret b
  else if (129 <=? b) && (b <=? 132) then (d <- takeN (b - 128) ;; ret (be_value 0 d))
  else fail.                                  (* indefinite / oversized *)
Definition ber_tlv (tag : bytes) : parser bytes := const tag ;;; n <- ber_length ;; takeN n.
(* non-negative INTEGER in minimal two's complement *)
Definition ber_uint : parser N :=
  c <- ber_tlv [2] ;;
  match c with
  | [] => fail
  | [a] => guard (a <? 128) ;;; ret a
  | a :: b :: _ => guard (a <? 128) ;;; guard (negb ((a =? 0) && (b <? 128))) ;;; ret (be_value 0 c)
  end.
Definition domain_parameters : parser (list N) := c <- ber_tlv [48] ;; sub (times 8 ber_uint) c.

(* T.125 Connect-Initial ::= [APPLICATION 101] IMPLICIT SEQUENCE { calling, called OCTET STRING,
   upwardFlag BOOLEAN, target / minimum / maximum DomainParameters, userData OCTET STRING } *)
Definition sp_connect_initial : parser (list N * list N * list N * bytes) :=
  c <- ber_tlv [127; 101] ;;
  sub (_calling <- ber_tlv [4] ;; _called <- ber_tlv [4] ;;
       up <- ber_tlv [1] ;; guard (nlen up =? 1) ;;;
       t <- domain_parameters ;; mi <- domain_parameters ;; ma <- domain_parameters ;;
       ud <- ber_tlv [4] ;; ret (t, mi, ma, ud)) c.

(* ------------------------------------------------------------------ PER *)
(* length determinant (X.691 10.9): one byte below 128, two bytes below 16384, no fragments *)
Definition per_length : parser N :=
  b <- u8 ;;
  if b <? 128 then ret b
  else if b <? 192 then (c <- u8 ;; let n := (b - 128) * 256 + c in guard (128 <=? n) ;;; ret n)
  else fail.
(* semi-constrained whole number (lower bound 0): length, then minimal big-endian octets *)
Definition per_uint : parser N :=
  n <- per_length ;; guard (1 <=? n) ;;; c <- takeN n ;;
  match c with
  | a :: _ :: _ => guard (negb (a =? 0)) ;;; ret (be_value 0 c)
  | _ => ret (be_value 0 c)
  end.

(* T.124 ConnectData with a ConferenceCreateRequest carrying one h221NonStandard user-data set
   keyed "Duca" (MS-RDPBCGR 2.2.1.3): returns the client data blocks *)
Definition sp_conference_create_request : parser bytes :=
  const [0; 5; 0; 20; 124; 0; 1] ;;;               (* key: object {0 0 20 124 0 1} *)
  n <- per_length ;; r <- remaining ;; guard (n =? r) ;;;   (* connectPDU *)
  const [0; 8] ;;;                                 (* conferenceCreateRequest, userData present *)
  const [0; 16] ;;;                                (* conferenceName: numeric "1" *)
  const [0] ;;;                                    (* padding *)
  const [1] ;;;                                    (* one user-data set *)
  const [192] ;;;                                  (* h221NonStandard *)
  const [0] ;;; const [68; 117; 99; 97] ;;;        (* 4-byte key "Duca" *)
  m <- per_length ;; r2 <- remaining ;; guard (m =? r2) ;;; rest.

(* ------------------------------------------------------------------ client data blocks *)
(* optional tail of the client core data: every field may be absent only if all later ones are *)
Definition core_optional_widths : list N := [2; 2; 4; 2; 2; 2; 64; 1; 1; 4; 4; 4; 2; 4; 4].
Fixpoint optional_chain (widths : list N) : parser (list N) :=
  fun b => match b with
           | [] => Some ([], [])
           | _ => match widths with
                  | [] => None
                  | w :: tl => (x <- takeN w ;; r <- optional_chain tl ;; ret (le_value x :: r)) b
                  end
           end.

(* structure of the client core data; the two fixed-size strings still as bytes *)
Definition sp_core_raw : parser (core_of bytes) :=
  version <- le32p ;; guard (version / 65536 =? 8) ;;;
  w <- le16p ;; h <- le16p ;;
  depth <- le16p ;; guard ((depth =? 51712) || (depth =? 51713)) ;;;
  sas <- le16p ;; guard (sas =? 43523) ;;;
  layout <- le32p ;; build <- le32p ;;
  nm <- takeN 32 ;;
  kt <- le32p ;; kst <- le32p ;; kfk <- le32p ;;
  im <- takeN 64 ;;
  opt <- optional_chain core_optional_widths ;;
  ret (mkCore version w h depth sas layout build nm kt kst kfk im opt).

(* clientName and imeFileName are null-terminated UTF-16 strings *)
Definition decode_core (r : core_of bytes) : option core_data :=
  match fixed_string (k_name r), fixed_string (k_ime r) with
  | Some name, Some ime =>
      Some (mkCore (k_version r) (k_width r) (k_height r) (k_color_depth r) (k_sas r) (k_layout r) (k_build r) name
                   (k_kbd_type r) (k_kbd_subtype r) (k_kbd_fnkeys r) ime (k_optional r))
  | _, _ => None
  end.

Definition sp_security : parser (N * N) :=
  em <- le32p ;; ext <- le32p ;; guard (N.land em 4294967268 =? 0) ;;; ret (em, ext).

Definition sp_net : parser (list (bytes * N)) :=
  n <- le32p ;; guard (n <=? 31) ;;;
  times (N.to_nat n) (name <- takeN 8 ;; guard (mem_N 0 name) ;;; options <- le32p ;; ret (name, options)).

Definition sp_block : parser (N * bytes) :=
  t <- le16p ;; n <- le16p ;; guard (4 <=? n) ;;; b <- takeN (n - 4) ;; ret (t, b).

Definition CS_CORE_T : N := 49153.
Definition CS_SECURITY_T : N := 49154.
Definition CS_NET_T : N := 49155.
Definition other_client_blocks : list N := [49156; 49157; 49158; 49160; 49162].  (* cluster, monitor, mcs msgchannel, monitor ex, multitransport *)

Definition sp_client_blocks_raw (b : bytes) : option (blocks_of bytes) :=
  match exactly (many (List.length b) sp_block) b with
  | None => None
  | Some bl =>
      let types := map fst bl in
      if negb (nodup_N types) then None
      else if negb (forallb (fun t => mem_N t (CS_CORE_T :: CS_SECURITY_T :: CS_NET_T :: other_client_blocks)) types) then None
      else match assoc CS_CORE_T bl, assoc CS_SECURITY_T bl with
           | Some cb, Some sb =>
               match exactly sp_core_raw cb, exactly sp_security sb with
               | Some core, Some sec =>
                   match assoc CS_NET_T bl with
                   | None => Some (mkBlocks core sec None)
                   | Some nb => match exactly sp_net nb with
                                | Some ch => Some (mkBlocks core sec (Some ch))
                                | None => None
                                end
                   end
               | _, _ => None
               end
           | _, _ => None
           end
  end.

Definition decode_blocks (r : blocks_of bytes) : option client_blocks :=
  match decode_core (b_core r) with
  | Some c => Some (mkBlocks c (b_security r) (b_channels r))
  | None => None
  end.

(* ------------------------------------------------------------------ client info *)
Definition info_flags_undefined : N := 4227858436.   (* 0xFC000004 *)

Definition sp_ext_info : parser ext_info :=
  fam <- le16p ;; guard (mem_N fam [0; 2; 23]) ;;;
  cba <- le16p ;; addr <- counted_string_incl cba ;;
  cbd <- le16p ;; dir <- counted_string_incl cbd ;;
  _tz <- takeN 172 ;; sid <- le32p ;; perf <- le32p ;;
  ret (mkExt fam addr dir sid perf).

Definition sp_client_info : parser info_data :=
  const [64; 0] ;;; const [0; 0] ;;;                 (* basic security header: SEC_INFO_PKT *)
  cp <- le32p ;; fl <- le32p ;;
  guard (negb (N.land fl 16 =? 0)) ;;;               (* INFO_UNICODE: the strings are UTF-16 *)
  guard (N.land fl info_flags_undefined =? 0) ;;;
  cbd <- le16p ;; cbu <- le16p ;; cbp <- le16p ;; cba <- le16p ;; cbw <- le16p ;;
  d <- counted_string cbd ;; u <- counted_string cbu ;; pw <- counted_string cbp ;;
  sh <- counted_string cba ;; wd <- counted_string cbw ;;
  r <- remaining ;;
  if r =? 0 then ret (mkInfo cp fl d u pw sh wd None)
  else (e <- sp_ext_info ;; ret (mkInfo cp fl d u pw sh wd (Some e))).

(* ------------------------------------------------------------------ share control / data *)
(* -> (type, source, totalLength) *)
Definition sp_share_control : parser (N * N * N) :=
  n <- remaining ;; tl <- le16p ;; guard (tl =? n) ;;;
  pt <- le16p ;; guard (pt / 16 =? 1) ;;;            (* protocol version 1 *)
  src <- le16p ;; ret (pt mod 16, src, tl).

(* -> (shareId, pduType2) *)
Definition sp_share_data (total : N) : parser (N * N) :=
  sid <- le32p ;; _pad <- u8 ;; stream <- u8 ;; guard (mem_N stream [1; 2; 4]) ;;;
  ul <- le16p ;; guard ((ul =? total) || (ul + 14 =? total)) ;;;
  t2 <- u8 ;; const [0] ;;; const [0; 0] ;;;        (* not compressed *)
  ret (sid, t2).

(* lengths of the capability sets of MS-RDPBCGR 2.2.7 (header included) *)
Definition cap_length_ok (t n : N) : bool :=
  match assoc t [(1, [24]); (2, [28]); (3, [88]); (4, [40]); (5, [12]); (7, [12]); (8, [8; 10]); (9, [8]); (10, [8]);
                 (12, [8]); (13, [88]); (14, [4; 8]); (15, [8]); (16, [52]); (17, [12]); (18, [12]); (19, [40]);
                 (20, [8; 12]); (21, [12]); (22, [8]); (24, [12]); (25, [11]); (26, [8]); (27, [8]); (28, [11]); (30, [6])] with
  | Some l => mem_N n l
  | None => mem_N t [23; 29]          (* variable-size sets *)
  end.

Definition sp_capset : parser (N * bytes) :=
  t <- le16p ;; n <- le16p ;; guard (4 <=? n) ;;; guard (cap_length_ok t n) ;;; b <- takeN (n - 4) ;; ret (t, b).

Definition sp_general : parser N :=
  _os <- le32p ;; v <- le16p ;; guard (v =? 512) ;;; _pad <- le16p ;; _c <- le16p ;; extra <- le16p ;; _r <- takeN 8 ;; ret extra.
Definition sp_bitmap : parser (N * N * N) :=
  bpp <- le16p ;; _r <- takeN 6 ;; w <- le16p ;; h <- le16p ;; _t <- takeN 12 ;; ret (bpp, w, h).
Definition sp_input_cap : parser (N * N * N * N * N) :=
  fl <- le16p ;; _pad <- le16p ;; lay <- le32p ;; kt <- le32p ;; kst <- le32p ;; kfk <- le32p ;;
  im <- takeN 64 ;; _ime <- lift (fixed_string im) ;; ret (fl, lay, kt, kst, kfk).

Definition opt_sub {A} (m : parser A) (o : option bytes) : option (option A) :=
  match o with
  | None => Some None
  | Some b => match exactly m b with Some a => Some (Some a) | None => None end
  end.

(* numberCapabilities, pad2Octets and the capability sets, to the end of the PDU:
   -> (types in order, general, bitmap, input) *)
Definition sp_capability_section : parser (list N * option N * option (N * N * N) * option (N * N * N * N * N)) :=
  n <- le16p ;; _pad <- le16p ;;
  k <- remaining ;; caps <- many (N.to_nat k) sp_capset ;;
  guard (nlen caps =? n) ;;; guard (nodup_N (map fst caps)) ;;;
  g <- lift (opt_sub sp_general (assoc 1 caps)) ;;
  bm <- lift (opt_sub sp_bitmap (assoc 2 caps)) ;;
  inp <- lift (opt_sub sp_input_cap (assoc 13 caps)) ;;
  ret (map fst caps, g, bm, inp).

Definition sp_confirm_active : parser confirm_data :=
  sid <- le32p ;; const [234; 3] ;;;                 (* originatorId 0x03EA *)
  lsd <- le16p ;; lcc <- le16p ;; src <- takeN lsd ;;
  r <- remaining ;; guard (lcc =? r) ;;;             (* covers numberCapabilities, pad2Octets, capabilitySets *)
  c <- sp_capability_section ;;
  let '(types, g, bm, inp) := c in
  ret (mkConfirm sid src types g bm inp).

Definition sp_in_event : parser in_event :=
  _time <- le32p ;; mt <- le16p ;;
  if mt =? 32769 then (f <- le16p ;; x <- le16p ;; y <- le16p ;; ret (IMouse f x y))
  else if mt =? 4 then (f <- le16p ;; c <- le16p ;; const [0; 0] ;;; ret (IKey f c))
  else fail.

(* a share control PDU: confirm active, or a data PDU (synchronize, control, font list, input) *)
Definition sp_share_pdu (ini ch : N) : parser pdu :=
  h <- sp_share_control ;;
  let '(pt, src, total) := h in
  if pt =? 3 then (c <- sp_confirm_active ;; ret (PConfirmActive ini ch src c))
  else if pt =? 7 then
    (sd <- sp_share_data total ;;
     let '(sid, t2) := sd in
     if t2 =? 31 then (const [1; 0] ;;; t <- le16p ;; ret (PSynchronize ini ch src sid t))
     else if t2 =? 20 then
       (a <- le16p ;; guard ((1 <=? a) && (a <=? 4)) ;;; g <- le16p ;; c <- le32p ;; ret (PControl ini ch src sid a g c))
     else if t2 =? 39 then (const [0; 0; 0; 0; 3; 0; 50; 0] ;;; ret (PFontList ini ch src sid))
     else if t2 =? 28 then
       (n <- le16p ;; _pad <- le16p ;; r <- remaining ;; guard (r =? 12 * n) ;;;
        evs <- times (N.to_nat n) sp_in_event ;; ret (PInput ini ch src sid evs))
     else fail)
  else fail.

(* the user data of a send-data-request on the I/O channel *)
Definition sp_user_data (ini ch : N) : parser pdu :=
  fun d =>
  match d with
  | _ :: _ :: 0 :: 0 :: _ =>      (* a basic security header (flagsHi = 0); a share control header has pduType here *)
      (i <- sp_client_info ;; ret (PClientInfo ini ch i)) d
  | _ => sp_share_pdu ini ch d
  end.

(* ------------------------------------------------------------------ T.125 domain PDUs *)
Definition sp_domain_pdu : parser pdu :=
  h <- u8 ;;
  let c := h / 4 in let low := h mod 4 in
  if c =? 1 then (guard (low =? 0) ;;; a <- per_uint ;; b <- per_uint ;; ret (PErectDomain a b))
  else if c =? 10 then (guard (low =? 0) ;;; ret PAttachUser)
  else if c =? 14 then
    (guard (low =? 0) ;;; i <- be16p ;; guard (i + 1001 <=? 65535) ;;; ch <- be16p ;; ret (PChannelJoin (i + 1001) ch))
  else if c =? 25 then
    (guard (low =? 0) ;;; i <- be16p ;; guard (i + 1001 <=? 65535) ;;; ch <- be16p ;;
     ps <- u8 ;; guard ((N.land ps 48 =? 48) && (N.land ps 15 =? 0)) ;;;    (* begin | end, padding *)
     n <- per_length ;; r <- remaining ;; guard (n =? r) ;;;
     sp_user_data (i + 1001) ch)
  else if c =? 8 then
    (b2 <- u8 ;; let reason := low * 2 + b2 / 128 in
     guard (reason <=? 4) ;;; guard (b2 mod 128 =? 0) ;;; ret (PDisconnect reason))
  else fail.

(* ------------------------------------------------------------------ one client frame *)
(* structure: BER envelope, GCC conference create request, client data blocks *)
Definition sp_connect_initial_raw : parser (list N * list N * list N * blocks_of bytes) :=
  ci <- sp_connect_initial ;;
  let '(tg, mi, ma, ud) := ci in
  r <- lift (match exactly sp_conference_create_request ud with
             | Some b => sp_client_blocks_raw b
             | None => None
             end) ;;
  ret (tg, mi, ma, r).
Definition sp_connect_initial_pdu : parser pdu :=
  x <- sp_connect_initial_raw ;;
  let '(tg, mi, ma, r) := x in
  blocks <- lift (decode_blocks r) ;;
  ret (PConnectInitial tg mi ma blocks).

(* what follows the X.224 data header *)
Definition sp_mcs : parser pdu :=
  fun x => match x with
           | 127 :: _ => sp_connect_initial_pdu x     (* BER: [APPLICATION 101] *)
           | _ => sp_domain_pdu x                     (* PER *)
           end.

Definition strict_parse (frame : bytes) : option pdu :=
  match sp_tpkt frame with
  | None => None
  | Some t =>
      match t with
      | _ :: 224 :: _ => exactly sp_connection_request t
      | _ => exactly (sp_x224_data ;;; sp_mcs) t
      end
  end.
