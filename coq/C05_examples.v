(* Concrete byte strings for the C05 statements: the server side of a connection that
   succeeds (reference encoders of gen/rdpconn.py, the recipe of DESIGN.md Appendix B) and
   the witnesses of the repaired defects.  Generated text, checked by computation. *)
From RdpV Require Import Base Msg LayoutsGlobal LayoutsConnect Link Tpkt Global BerYasna Connect ConnectRun.
Open Scope list_scope.
Open Scope N_scope.

Definition ex_cc : bytes := [3; 0; 0; 19; 14; 208; 0; 0; 0; 0; 0; 2; 0; 8; 0; 0; 0; 0; 0].
Definition ex_mcs : bytes := [3; 0; 0; 100; 2; 240; 128; 127; 102; 90; 10; 1; 0; 2; 1; 0; 48; 26; 2; 1; 22; 2; 1; 3; 2; 1; 0; 2; 1; 1; 2; 1; 0; 2; 1; 1; 2; 3; 0; 255; 248; 2; 1; 2; 4; 54; 0; 5; 0; 20; 124; 0; 1; 46; 20; 118; 10; 1; 1; 0; 1; 192; 0; 77; 99; 68; 110; 32; 1; 12; 12; 0; 4; 0; 8; 0; 0; 0; 0; 0; 2; 12; 12; 0; 0; 0; 0; 0; 0; 0; 0; 0; 3; 12; 8; 0; 235; 3; 0; 0].
Definition ex_attach : bytes := [3; 0; 0; 11; 2; 240; 128; 46; 0; 0; 3].
Definition ex_join_global : bytes := [3; 0; 0; 15; 2; 240; 128; 62; 0; 0; 3; 3; 235; 3; 235].
Definition ex_join_user : bytes := [3; 0; 0; 15; 2; 240; 128; 62; 0; 0; 3; 3; 236; 3; 236].
Definition ex_license : bytes := [3; 0; 0; 34; 2; 240; 128; 104; 0; 3; 3; 235; 112; 20; 128; 0; 0; 0; 255; 3; 16; 0; 7; 0; 0; 0; 2; 0; 0; 0; 0; 0; 0; 0].

(* one transport read per frame *)
Definition ex_conversation : stream := [ex_cc; ex_mcs; ex_attach; ex_join_global; ex_join_user; ex_license].
(* the same bytes dribbled: a different fragmentation of the same conversation *)
Definition ex_conversation_split : stream :=
  [firstn 3 ex_cc; skipn 3 ex_cc ++ firstn 50 ex_mcs; skipn 50 ex_mcs; ex_attach ++ ex_join_global; ex_join_user; ex_license].

Definition ex_config : config := mkConfig 0 false false false 3 false.
(* NLA requested through the x224 API without an authentication protocol *)
Definition ex_config_nla_noauth : config := mkConfig 3 false false false 3 false.

(* defect witnesses (inputs that made the unrepaired code panic) *)
Definition ex_lic_msgsize3 : bytes := [255; 3; 3; 0; 7; 0; 0; 0; 2; 0; 0; 0; 0; 0; 0; 0].          (* licence preamble, wMsgSize = 3 *)
Definition ex_gcc_blocklen3 : bytes := [0; 5; 0; 20; 124; 0; 1; 18; 20; 118; 10; 1; 1; 0; 1; 192; 0; 77; 99; 68; 110; 4; 1; 12; 3; 0].       (* GCC response, first block length = 3 *)
Definition ex_gcc_no_net : bytes := [0; 5; 0; 20; 124; 0; 1; 26; 20; 118; 10; 1; 1; 0; 1; 192; 0; 77; 99; 68; 110; 12; 1; 12; 12; 0; 4; 0; 8; 0; 0; 0; 0; 0].          (* GCC response with SC_CORE only *)
Definition ex_gcc_no_core : bytes := [0; 5; 0; 20; 124; 0; 1; 22; 20; 118; 10; 1; 1; 0; 1; 192; 0; 77; 99; 68; 110; 8; 3; 12; 8; 0; 235; 3; 0; 0].         (* GCC response with SC_NET only *)
Definition ex_cc_hybrid : bytes := [3; 0; 0; 19; 14; 208; 0; 0; 0; 0; 0; 2; 0; 8; 0; 2; 0; 0; 0].           (* connection confirm selecting PROTOCOL_HYBRID *)
(* connect-response whose ENUMERATED carries the length 88 ff ff ff ff ff ff ff ff *)
Definition ex_ber_overflow : bytes := [127; 102; 98; 10; 136; 255; 255; 255; 255; 255; 255; 255; 255; 0; 2; 1; 0; 48; 26; 2; 1; 22; 2; 1; 3; 2; 1; 0; 2; 1; 1; 2; 1; 0; 2; 1; 1; 2; 3; 0; 255; 248; 2; 1; 2; 4; 54; 0; 5; 0; 20; 124; 0; 1; 46; 20; 118; 10; 1; 1; 0; 1; 192; 0; 77; 99; 68; 110; 32; 1; 12; 12; 0; 4; 0; 8; 0; 0; 0; 0; 0; 2; 12; 12; 0; 0; 0; 0; 0; 0; 0; 0; 0; 3; 12; 8; 0; 235; 3; 0; 0].
