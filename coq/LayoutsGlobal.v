(* PDU layouts of core/global.rs and core/capability.rs as terms of the message model.
   Hand-written from the component![..] declarations (field order, kinds, widths,
   endianness, constants, closures); tied to /repo by the per-layout and whole-session
   correspondence runs. *)
From RdpV Require Import Base Msg.
Open Scope string_scope.
Open Scope list_scope.
Open Scope N_scope.

Definition u16le (v : N) := MU16 LE v.
Definition u32le (v : N) := MU32 LE v.
Definition size_of (target : string) := CloSize target XSelf.
Definition size_minus (target : string) (k : N) := CloSize target (XSubSat XSelf k).

(* truncation `as u16` *)
Definition as_u16 (n : N) : N := n mod 65536.

(* ---- PDUType / PDUType2 / fast-path update codes ---- *)
Definition PDUTYPE_DEMANDACTIVE : N := 17.    (* 0x11 *)
Definition PDUTYPE_CONFIRMACTIVE : N := 19.   (* 0x13 *)
Definition PDUTYPE_DEACTIVATEALL : N := 22.   (* 0x16 *)
Definition PDUTYPE_DATA : N := 23.            (* 0x17 *)
Definition PDUTYPE_SERVER_REDIR : N := 26.    (* 0x1A *)

Definition pdutype_known (t : N) : bool :=
  (t =? 17) || (t =? 19) || (t =? 22) || (t =? 23) || (t =? 26).

Definition PDUTYPE2_CONTROL : N := 20.
Definition PDUTYPE2_INPUT : N := 28.
Definition PDUTYPE2_SYNCHRONIZE : N := 31.
Definition PDUTYPE2_FONTLIST : N := 39.
Definition PDUTYPE2_FONTMAP : N := 40.
Definition PDUTYPE2_SET_ERROR_INFO : N := 47.
Definition PDUTYPE2_ARC_STATUS : N := 50.

(* TryFromPrimitive domain of PDUType2: explicit discriminants, plus Unknown = 0x38 (implicit: 0x37 + 1) *)
Definition pdutype2_known (t : N) : bool :=
  existsb (N.eqb t) [2; 20; 27; 28; 31; 33; 34; 35; 36; 37; 38; 39; 40; 41; 43; 44; 45; 46; 47; 48; 49; 50; 54; 55; 56].

(* FastPathUpdateType: explicit 0..6, 8..0xB, plus Unknown = 0xC *)
Definition fp_type_known (t : N) : bool :=
  existsb (N.eqb t) [0; 1; 2; 3; 4; 5; 6; 8; 9; 10; 11; 12].
Definition FP_BITMAP : N := 1.
Definition FP_SYNCHRONIZE : N := 3.
Definition FP_PTR_NULL : N := 5.
Definition FP_COLOR : N := 9.

(* ---- share control / share data ---- *)
Definition share_control_header (pdu_type pdu_source : N) (message : bytes) : msg :=
  MComp [
    ("totalLength", MDyn (u16le (as_u16 (as_u16 (nlen message) + 6))) (size_minus "pduMessage" 6));
    ("pduType", u16le pdu_type);
    ("PDUSource", MOpt (Some (u16le pdu_source)));
    ("pduMessage", MBytes message)
  ].
Definition share_control_header_t := share_control_header PDUTYPE_DEMANDACTIVE 0 [].

Definition share_data_header (share_id pdu_type_2 : N) (message : bytes) : msg :=
  MComp [
    ("shareId", u32le share_id);
    ("pad1", MU8 0);
    ("streamId", MU8 1);
    ("uncompressedLength", MDyn (u16le (as_u16 (as_u16 (nlen message) + 18))) (size_minus "payload" 18));
    ("pduType2", MU8 pdu_type_2);
    ("compressedType", MU8 0);
    ("compressedLength", u16le 0);
    ("payload", MBytes message)
  ].
Definition share_data_header_t := share_data_header 0 PDUTYPE2_ARC_STATUS [].

(* ---- capability sets ---- *)
Definition capability_set (cap_type : N) (body : bytes) (body_len : N) : msg :=
  MComp [
    ("capabilitySetType", u16le cap_type);
    ("lengthCapability", MDyn (u16le (as_u16 (as_u16 body_len + 4))) (size_minus "capabilitySet" 4));
    ("capabilitySet", MBytes body)
  ].
Definition capability_set_t := capability_set 1 [] 0.

Definition zeros (n : nat) : bytes := repeat 0 n.

Definition ts_general_capability_set (extra_flags : N) : msg :=
  MComp [
    ("osMajorType", u16le 1); ("osMinorType", u16le 3);
    ("protocolVersion", MCheck (u16le 512)); ("pad2octetsA", u16le 0);
    ("generalCompressionTypes", MCheck (u16le 0)); ("extraFlags", u16le extra_flags);
    ("updateCapabilityFlag", MCheck (u16le 0)); ("remoteUnshareFlag", MCheck (u16le 0));
    ("generalCompressionLevel", MCheck (u16le 0)); ("refreshRectSupport", MU8 0);
    ("suppressOutputSupport", MU8 0) ].

Definition ts_bitmap_capability_set (bpp w h : N) : msg :=
  MComp [
    ("preferredBitsPerPixel", u16le bpp);
    ("receive1BitPerPixel", MCheck (u16le 1)); ("receive4BitsPerPixel", MCheck (u16le 1));
    ("receive8BitsPerPixel", MCheck (u16le 1));
    ("desktopWidth", u16le w); ("desktopHeight", u16le h);
    ("pad2octets", u16le 0); ("desktopResizeFlag", u16le 0);
    ("bitmapCompressionFlag", MCheck (u16le 1)); ("highColorFlags", MCheck (MU8 0));
    ("drawingFlags", MU8 0); ("multipleRectangleSupport", MCheck (u16le 1));
    ("pad2octetsB", u16le 0) ].

Definition ts_order_capability_set (order_flags : N) : msg :=
  MComp [
    ("terminalDescriptor", MBytes (zeros 16)); ("pad4octetsA", u32le 0);
    ("desktopSaveXGranularity", u16le 1); ("desktopSaveYGranularity", u16le 20);
    ("pad2octetsA", u16le 0); ("maximumOrderLevel", u16le 1); ("numberFonts", u16le 0);
    ("orderFlags", u16le order_flags); ("orderSupport", MBytes (zeros 32));
    ("textFlags", u16le 0); ("orderSupportExFlags", u16le 0); ("pad4octetsB", u32le 0);
    ("desktopSaveSize", u32le 230400); ("pad2octetsC", u16le 0); ("pad2octetsD", u16le 0);
    ("textANSICodePage", u16le 0); ("pad2octetsE", u16le 0) ].

Definition ts_bitmap_cache_capability_set : msg :=
  MComp [
    ("pad1", u32le 0); ("pad2", u32le 0); ("pad3", u32le 0); ("pad4", u32le 0); ("pad5", u32le 0); ("pad6", u32le 0);
    ("cache0Entries", u16le 0); ("cache0MaximumCellSize", u16le 0);
    ("cache1Entries", u16le 0); ("cache1MaximumCellSize", u16le 0);
    ("cache2Entries", u16le 0); ("cache2MaximumCellSize", u16le 0) ].

Definition ts_pointer_capability_set : msg :=
  MComp [ ("colorPointerFlag", u16le 0); ("colorPointerCacheSize", u16le 20) ].

Definition ts_input_capability_set (input_flags layout : N) : msg :=
  MComp [
    ("inputFlags", u16le input_flags); ("pad2octetsA", u16le 0);
    ("keyboardLayout", u32le layout); ("keyboardType", u32le 4);
    ("keyboardSubType", u32le 0); ("keyboardFunctionKey", u32le 12);
    ("imeFileName", MBytes (zeros 64)) ].

Definition ts_brush_capability_set : msg := MComp [ ("brushSupportLevel", u32le 0) ].

Definition cache_entry : msg := MComp [ ("cacheEntries", u16le 0); ("cacheMaximumCellSize", u16le 0) ].

Definition ts_glyph_capability_set : msg :=
  MComp [
    ("glyphCache", MTrame (repeat cache_entry 10));
    ("fragCache", u32le 0); ("glyphSupportLevel", u16le 0); ("pad2octets", u16le 0) ].

Definition ts_offscreen_capability_set : msg :=
  MComp [ ("offscreenSupportLevel", u32le 0); ("offscreenCacheSize", u16le 0); ("offscreenCacheEntries", u16le 0) ].

Definition ts_virtualchannel_capability_set : msg :=
  MComp [ ("flags", u32le 0); ("VCChunkSize", MOpt (Some (u32le 0))) ].

Definition ts_sound_capability_set : msg := MComp [ ("soundFlags", u16le 0); ("pad2octetsA", u16le 0) ].

Definition ts_multifragment_update_capability_ts : msg := MComp [ ("MaxRequestSize", u32le 0) ].

(* Capability::from_capability_set: the template selected by capabilitySetType *)
Definition capset_type_known (t : N) : bool :=
  ((1 <=? t) && (t <=? 5)) || ((7 <=? t) && (t <=? 10)) || ((12 <=? t) && (t <=? 30)).

Definition capability_template (t : N) : option msg :=
  if t =? 1 then Some (ts_general_capability_set 0)
  else if t =? 2 then Some (ts_bitmap_capability_set 0 0 0)
  else if t =? 3 then Some (ts_order_capability_set 2)
  else if t =? 4 then Some ts_bitmap_cache_capability_set
  else if t =? 8 then Some ts_pointer_capability_set
  else if t =? 13 then Some (ts_input_capability_set 0 1036)
  else if t =? 15 then Some ts_brush_capability_set
  else if t =? 16 then Some ts_glyph_capability_set
  else if t =? 17 then Some ts_offscreen_capability_set
  else if t =? 20 then Some ts_virtualchannel_capability_set
  else if t =? 12 then Some ts_sound_capability_set
  else if t =? 26 then Some ts_multifragment_update_capability_ts
  else None.

(* ---- demand / confirm / deactivate ---- *)
Definition ts_demand_active_pdu : msg :=
  MComp [
    ("shareId", u32le 0);
    ("lengthSourceDescriptor", MDyn (u16le 0) (size_of "sourceDescriptor"));
    ("lengthCombinedCapabilities", MDyn (u16le 0) (size_minus "capabilitySets" 4));
    ("sourceDescriptor", MBytes []);
    ("numberCapabilities", u16le 0);
    ("pad2Octets", u16le 0);
    ("capabilitySets", MArray [] (Some capability_set_t));
    ("sessionId", u32le 0)
  ].

Definition ts_confirm_active_pdu (share_id : N) (source : bytes) (caps : list msg) (caps_len : N) : msg :=
  MComp [
    ("shareId", u32le share_id);
    ("originatorId", MCheck (u16le 1002));
    ("lengthSourceDescriptor", MDyn (u16le (as_u16 (nlen source))) (size_of "sourceDescriptor"));
    ("lengthCombinedCapabilities", MDyn (u16le (as_u16 (as_u16 caps_len + 4))) (size_minus "capabilitySets" 4));
    ("sourceDescriptor", MBytes source);
    ("numberCapabilities", u16le (as_u16 (nlen caps)));
    ("pad2Octets", u16le 0);
    ("capabilitySets", MArray caps None)
  ].
Definition ts_confirm_active_pdu_t : msg :=
  MComp [
    ("shareId", u32le 0);
    ("originatorId", MCheck (u16le 1002));
    ("lengthSourceDescriptor", MDyn (u16le 0) (size_of "sourceDescriptor"));
    ("lengthCombinedCapabilities", MDyn (u16le 4) (size_minus "capabilitySets" 4));
    ("sourceDescriptor", MBytes []);
    ("numberCapabilities", u16le 0);
    ("pad2Octets", u16le 0);
    ("capabilitySets", MArray [] (Some capability_set_t))
  ].

Definition ts_deactivate_all_pdu : msg :=
  MComp [
    ("shareId", u32le 0);
    ("lengthSourceDescriptor", MDyn (u16le 0) (size_of "sourceDescriptor"));
    ("sourceDescriptor", MBytes [])
  ].

(* ---- data PDUs ---- *)
Definition ts_synchronize_pdu (target_user : N) : msg :=
  MComp [ ("messageType", MCheck (u16le 1)); ("targetUser", MOpt (Some (u16le target_user))) ].
Definition ts_control_pdu (action : N) : msg :=
  MComp [ ("action", u16le action); ("grantId", u16le 0); ("controlId", u32le 0) ].
Definition ts_font_list_pdu : msg :=
  MComp [ ("numberFonts", u16le 0); ("totalNumFonts", u16le 0); ("listFlags", u16le 3); ("entrySize", u16le 50) ].
Definition ts_font_map_pdu : msg :=
  MComp [ ("numberEntries", u16le 0); ("totalNumEntries", u16le 0); ("mapFlags", u16le 3); ("entrySize", u16le 4) ].
Definition ts_set_error_info_pdu : msg := MComp [ ("errorInfo", u32le 0) ].

Definition CTRLACTION_REQUEST_CONTROL : N := 1.
Definition CTRLACTION_GRANTED_CONTROL : N := 2.
Definition CTRLACTION_COOPERATE : N := 4.

(* ---- input ---- *)
Definition INPUT_EVENT_SCANCODE : N := 4.
Definition INPUT_EVENT_MOUSE : N := 32769.

Definition ts_input_event (message_type : N) (data : bytes) : msg :=
  MComp [ ("eventTime", u32le 0); ("messageType", u16le message_type); ("slowPathInputData", MBytes data) ].
Definition ts_input_pdu_data (events : list msg) : msg :=
  MComp [ ("numEvents", u16le (as_u16 (nlen events))); ("pad2Octets", u16le 0);
          ("slowPathInputEvents", MArray events None) ].
Definition ts_pointer_event (flags x y : N) : msg :=
  MComp [ ("pointerFlags", u16le flags); ("xPos", u16le x); ("yPos", u16le y) ].
Definition ts_keyboard_event (flags code : N) : msg :=
  MComp [ ("keyboardFlags", u16le flags); ("keyCode", u16le code); ("pad2Octets", u16le 0) ].

(* ---- fast path ---- *)
Definition ts_fp_update : msg :=
  MComp [
    ("updateHeader", MDyn (MU8 0) (CloSkipIf (CBits 4 2 0) "compressionFlags"));
    ("compressionFlags", MU8 0);
    ("size", MDyn (u16le 0) (size_of "updateData"));
    ("updateData", MBytes [])
  ].

Definition ts_cd_header : msg :=
  MComp [ ("cbCompFirstRowSize", MCheck (u16le 0)); ("cbCompMainBodySize", u16le 0);
          ("cbScanWidth", u16le 0); ("cbUncompressedSize", u16le 0) ].

(* flags & BITMAP_COMPRESSION == 0 || flags & NO_BITMAP_COMPRESSION_HDR != 0 *)
Definition no_compr_hdr : ccond := COr (CBits 0 1 0) (CNot (CBits 0 1024 0)).

Definition ts_bitmap_data : msg :=
  MComp [
    ("destLeft", u16le 0); ("destTop", u16le 0); ("destRight", u16le 0); ("destBottom", u16le 0);
    ("width", u16le 0); ("height", u16le 0); ("bitsPerPixel", u16le 0);
    ("flags", MDyn (u16le 0) (CloSkipIf no_compr_hdr "bitmapComprHdr"));
    ("bitmapLength", MDyn (u16le 0) (size_of "bitmapDataStream"));
    ("bitmapComprHdr", MDyn ts_cd_header (CloSize "bitmapDataStream" (XSelfField "cbCompMainBodySize")));
    ("bitmapDataStream", MBytes [])
  ].

Definition ts_fp_update_bitmap : msg :=
  MComp [ ("header", MCheck (u16le 1)); ("numberRectangles", u16le 0);
          ("rectangles", MArray [] (Some ts_bitmap_data)) ].

Definition ts_colorpointerattribute : msg :=
  MComp [
    ("cacheIndex ", u16le 0); ("hotSpot ", u32le 0); ("width", u16le 0); ("height", u16le 0);
    ("lengthAndMask", MDyn (u16le 0) (size_of "andMaskData"));
    ("lengthXorMask", MDyn (u16le 0) (size_of "xorMaskData"));
    ("xorMaskData", MBytes []); ("andMaskData", MBytes []);
    ("pad", MOpt (Some (MU8 0)))
  ].

Definition empty_component : msg := MComp [].
