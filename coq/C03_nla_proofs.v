(* C03, the NLA half: the CredSSP exchange of the whole-connection model (FlowNla.v: Flow.v with CsspGate.v's
   cssp_connect as the CredSSP oracle) against the REFERENCE CredSSP / NTLM server of RefCredssp.v, and the
   connection-sequence theorems with HYBRID selected WITHOUT a hypothesis on the outcome of CredSSP. *)
From Coq Require Import Lia.
From RdpV Require Import Base Msg Link Tpkt Global Connect ClientPdus Flow FlowNla.
From RdpV Require Import C13_proofs StrictPdu RefSequence C03_base C03_proofs.
From RdpV Require Import Rc4 Rc4_proofs Utf Ntlm NtlmSeal RefNlmp RefNlmpSeal Der CsspGate RefCredssp.
From RdpV Require Import C16_proofs C15_proofs C18_der_proofs C01_proofs C03_der_exec.
Open Scope list_scope.
Open Scope N_scope.
#[local] Notation length := List.length (only parsing).

(* ================================================================== A. small facts *)
Lemma le_nat_succ l : le_nat (le_succ l) = le_nat l + 1.
Proof.
  induction l as [|b tl IH]; [reflexivity|].
  cbn [le_succ]. destruct (N.eqb_spec b 255) as [->|Hne]; cbn [le_nat]; [rewrite IH|]; lia.
Qed.

Lemma link_read0_one (r : bytes) (rest : stream) : one_read r -> link_read0 (r :: rest) = (r, rest).
Proof.
  unfold one_read, link_read0, tread, nlen. intros H.
  replace (Nat.leb (length r) 1500) with true; [reflexivity|].
  symmetry. apply Nat.leb_le. lia.
Qed.

(* the NEGOTIATE_MESSAGE the client sends: a constant *)
Definition the_negotiate : bytes := C15_proofs.ex_negotiate.

Lemma negotiate_created p : create_negotiate_message p = Ok the_negotiate.
Proof. destruct p; vm_compute; reflexivity. Qed.

Lemma negotiate_is_negotiate : is_negotiate the_negotiate = true.
Proof. vm_compute. reflexivity. Qed.

(* self.is_unicode after read_challenge_message, on the CHALLENGE a server writes *)
Lemma challenge_unicode p c : wf_challenge c ->
  challenge_is_unicode p (challenge_bytes c) = (N.land (c_flags c) 1 =? 1).
Proof.
  intros Hwf. unfold challenge_is_unicode. destruct (read_challenge_bytes p c Hwf) as [a E]. rewrite E.
  change (cast_num 32 (get (challenge_read c) "NegotiateFlags")) with (Ok (c_flags c)). reflexivity.
Qed.

(* the DER of a TLV is at least as long as its contents *)
Lemma nlen_tlv_ge ct k content : nlen content <= nlen (tlv ct k content).
Proof. unfold tlv. rewrite !nlen_app. lia. Qed.

Lemma nlen_ts_request_ge t : nlen t <= nlen (der_encode (ts_request t)).
Proof.
  unfold der_encode, ts_request. cbn [der_enc pick map List.concat]. rewrite !app_nil_r.
  pose proof (nlen_tlv_ge (Universal, 4) false t) as H1.
  pose proof (nlen_tlv_ge (Context, 0) true (tlv (Universal, 4) false t)) as H2.
  pose proof (nlen_tlv_ge (Universal, 16) true (tlv (Context, 0) true (tlv (Universal, 4) false t))) as H3.
  pose proof (nlen_tlv_ge (Universal, 16) true (tlv (Universal, 16) true (tlv (Context, 0) true (tlv (Universal, 4) false t)))) as H4.
  pose proof (nlen_tlv_ge (Context, 1) true (tlv (Universal, 16) true (tlv (Universal, 16) true (tlv (Context, 0) true (tlv (Universal, 4) false t))))) as H5.
  etransitivity; [|apply nlen_tlv_ge]. rewrite nlen_app. lia.
Qed.

Lemma nlen_ts_validate_ge k : nlen k <= nlen (der_encode (ts_validate k)).
Proof.
  unfold der_encode, ts_validate. cbn [der_enc pick map List.concat]. rewrite !app_nil_r.
  pose proof (nlen_tlv_ge (Universal, 4) false k) as H1.
  pose proof (nlen_tlv_ge (Context, 3) true (tlv (Universal, 4) false k)) as H2.
  etransitivity; [|apply nlen_tlv_ge]. rewrite nlen_app. lia.
Qed.

Lemma nlen_le_succ_ge l : nlen l <= nlen (le_succ l).
Proof.
  induction l as [|b tl IH]; [unfold nlen; cbn [List.length N.of_nat]; lia|].
  cbn [le_succ]. destruct (b =? 255); rewrite !nlen_cons; lia.
Qed.

(* ================================================================== B. the CredSSP exchange *)
(* What is assumed of the external TSRequest codecs (yasna): the writers produce the DER (X.690) encoding of the
   MS-CSSP shapes -- the encoding of the TLV model of C18 (Der.v), whose round trip C18 proves -- on arguments of up
   to 2^32 bytes in total ([ARG_MAX]; nothing is assumed beyond), and the readers recover the token of a reply
   that arrives whole (one read of at most 1500 bytes).  C03_der_exec.v proves exactly this of the executable
   codecs (CsspGateExec.v writers, DerRead.v readers): [codec_ok_exec] below. *)
Definition codec_ok (create_ts_request : bytes -> bytes) (create_ts_authenticate : bytes -> bytes -> bytes)
           (create_ts_credentials : bytes -> bytes -> bytes -> bytes) (create_ts_authinfo : bytes -> bytes)
           (read_ts_server_challenge read_ts_validate : bytes -> outcome bytes) : Prop :=
  (forall n, nlen n <= ARG_MAX -> create_ts_request n = der_encode (ts_request n)) /\
  (forall t k, nlen t + nlen k <= ARG_MAX -> create_ts_authenticate t k = der_encode (ts_authenticate t k)) /\
  (forall d u pw, nlen d + nlen u + nlen pw <= ARG_MAX -> create_ts_credentials d u pw = der_encode (ts_credentials d u pw)) /\
  (forall i, nlen i <= ARG_MAX -> create_ts_authinfo i = der_encode (ts_authinfo i)) /\
  (forall t, one_read (der_encode (ts_request t)) -> read_ts_server_challenge (der_encode (ts_request t)) = Ok t) /\
  (forall k, one_read (der_encode (ts_validate k)) -> read_ts_validate (der_encode (ts_validate k)) = Ok k).

(* a conforming CredSSP / NTLM server: a well-formed CHALLENGE_MESSAGE (any server challenge, any flags with
   key exchange and -- unless the account names are ASCII -- Unicode), whose target info is a list of AV pairs
   (any of the ids 1..10, in any order, any trailing bytes) with one 8-byte timestamp *)
Definition cssp_conforming (s : cssp_server) : Prop :=
  let c := cs_challenge s in
  wf_challenge c /\
  (exists pairs trailing ts,
     c_target_info c = av_bytes pairs trailing /\ Forall av_ok pairs /\
     List.In (7, ts) pairs /\ (forall v, List.In (7, v) pairs -> v = ts) /\ length ts = 8%nat) /\
  N.testbit (c_flags c) FLAG_KEY_EXCH = true /\
  (N.testbit (c_flags c) FLAG_UNICODE = true \/
   (is_ascii (a_user (cs_account s)) = true /\ is_ascii (a_domain (cs_account s)) = true)).

(* the guard of read_challenge_message (InvalidSize otherwise): the AUTHENTICATE fields have 16-bit lengths *)
Definition auth_fits (st : ntlm) (c : challenge_fields) : Prop :=
  let u := N.land (c_flags c) 1 =? 1 in
  nlen (c_target_info c) + 44 <= 65535 /\
  nlen (encode_name u (n_domain st)) <= 65535 /\ nlen (encode_name u (n_user st)) <= 65535 /\
  (* ... and the password (TSPasswordCreds) is not longer than a name may be *)
  nlen (encode_name u (n_password st)) <= 65535.

(* TSPasswordCreds as cssp_connect fills it *)
Definition ts_creds (st : ntlm) (restricted unicode : bool) : bytes * bytes * bytes :=
  if restricted then ([], [], [])
  else (encode_name unicode (n_domain st), encode_name unicode (n_user st), encode_name unicode (n_password st)).

(* the server's final state: every message accepted, this session key recovered, these TSPasswordCreds received *)
Definition cs_done (key : bytes) (creds : bytes * bytes * bytes) : cssp_state :=
  let '(d, u, pw) := creds in CsDone key d u pw.

Lemma ts_creds_size st restricted c : auth_fits st c ->
  let '(d, u, pw) := ts_creds st restricted (N.land (c_flags c) 1 =? 1) in nlen d + nlen u + nlen pw <= 200000.
Proof.
  intros (_ & H2 & H3 & H4). unfold ts_creds. destruct restricted; [unfold nlen; cbn [List.length N.of_nat]; lia|]. lia.
Qed.

(* an outcome that is not a success, carried to another type *)
Definition not_ok {A} (o : outcome A) : Prop := forall x, o <> Ok x.
Definition fail_of {A B} (o : outcome A) : outcome B :=
  match o with Ok _ => Panic | Err e => Err e | Panic => Panic | Spin => Spin end.
Lemma fail_of_not_ok {A B} (o : outcome A) : not_ok (@fail_of A B o).
Proof. destruct o; intros x; discriminate. Qed.

Section Exchange.
Variable md5 : bytes -> bytes.
Variable hmac : bytes -> bytes -> bytes.
Variable uppercase : list N -> list N.
Variable p : prof.
Variable create_ts_request : bytes -> bytes.
Variable create_ts_authenticate : bytes -> bytes -> bytes.
Variable create_ts_credentials : bytes -> bytes -> bytes -> bytes.
Variable create_ts_authinfo : bytes -> bytes.
Variable read_ts_server_challenge : bytes -> outcome bytes.
Variable read_ts_validate : bytes -> outcome bytes.
Hypothesis md5_len : forall x, length (md5 x) = 16%nat.
Hypothesis hmac_len : forall k x, length (hmac k x) = 16%nat.
Hypothesis Hcodec : codec_ok create_ts_request create_ts_authenticate create_ts_credentials create_ts_authinfo
                             read_ts_server_challenge read_ts_validate.

Notation connect := (cssp_connect md5 hmac p create_ts_request create_ts_authenticate create_ts_credentials
                                  create_ts_authinfo read_ts_server_challenge read_ts_validate).
Notation serve := (cssp_serve md5 hmac uppercase).
Notation step := (cssp_step md5 hmac uppercase).

Lemma oversize_false st c nonce ts ek :
  auth_fits st c -> length nonce = 8%nat -> length ts = 8%nat ->
  oversize (pieces_of hmac st c nonce ts ek) = false.
Proof.
  intros (H1 & H2 & H3 & _) Hn Ht. unfold oversize, pieces_of. cbn [pc_nt pc_dom pc_user].
  assert (Hnt : nlen (hmac (n_key_nt st) (c_server_challenge c ++ temp_of ts nonce (c_target_info c)) ++ temp_of ts nonce (c_target_info c))
                = 44 + nlen (c_target_info c)).
  { unfold temp_of. rewrite !nlen_app, (nlen_hmac hmac hmac_len), (nlen_len8 _ Hn), (nlen_len8 _ Ht).
    change (nlen [1]) with 1. change (nlen (repeat 0 6)) with 6. change (nlen (repeat 0 4)) with 4. lia. }
  rewrite Hnt.
  replace (65535 <? 44 + nlen (c_target_info c)) with false by (symmetry; apply N.ltb_ge; lia).
  replace (65535 <? nlen (encode_name (N.land (c_flags c) 1 =? 1) (n_domain st))) with false by (symmetry; apply N.ltb_ge; lia).
  replace (65535 <? nlen (encode_name (N.land (c_flags c) 1 =? 1) (n_user st))) with false by (symmetry; apply N.ltb_ge; lia).
  reflexivity.
Qed.

(* ---- sizes: a sealed message is 16 bytes longer; the AUTHENTICATE token is below 300 000 bytes *)
Lemma nlen_wrap d m : nlen (fst (nlmp_wrap hmac d m)) = 16 + nlen m.
Proof.
  unfold nlmp_wrap, SEAL, MAC. cbn [handle sigkey seqnum].
  pose proof (rc4_process_length m (handle d)) as Hm.
  destruct (rc4_process (handle d) m) as [sealed h1]. cbn [fst] in Hm.
  pose proof (rc4_process_length (firstn 8 (hmac (sigkey d) (le32 (seqnum d) ++ m))) h1) as Hc.
  destruct (rc4_process h1 (firstn 8 (hmac (sigkey d) (le32 (seqnum d) ++ m)))) as [ck h2]. cbn [fst snd] in *.
  rewrite firstn_8_of_16 in Hc by apply hmac_len.
  rewrite !nlen_app. unfold nlen. rewrite Hm, Hc, !le32_length. cbn [N.of_nat]. lia.
Qed.

Lemma token_size st c nonce ts ek negotiate key :
  oversize (pieces_of hmac st c nonce ts ek) = false -> length nonce = 8%nat -> length ek = 16%nat ->
  nlen (token_of hmac (pieces_of hmac st c nonce ts ek) (c_flags c) negotiate (challenge_bytes c) key) <= 300000.
Proof.
  intros Hov Hn Hek. unfold oversize in Hov. apply orb_false_iff in Hov. destruct Hov as [Hov H3].
  apply orb_false_iff in Hov. destruct Hov as [H1 H2]. apply N.ltb_ge in H1, H2, H3.
  set (x := pieces_of hmac st c nonce ts ek) in *.
  assert (Hlm : nlen (pc_lm x) = 24).
  { unfold x, pieces_of. cbn [pc_lm]. rewrite nlen_app, (nlen_hmac hmac hmac_len), (nlen_len8 _ Hn). reflexivity. }
  assert (Hk : nlen (pc_ek x) = 16) by (unfold x, pieces_of; cbn [pc_ek]; unfold nlen; rewrite Hek; reflexivity).
  unfold token_of, auth_header, token_payload.
  rewrite !nlen_app, nlen_fixed, (nlen_hmac hmac hmac_len).
  assert (Hv : nlen (if N.testbit (c_flags c) FLAG_VERSION then version_bytes else []) <= 8)
    by (destruct (N.testbit (c_flags c) FLAG_VERSION); unfold nlen; cbn; lia).
  change (nlen (@nil N)) with 0. lia.
Qed.

(* ---- the client's side: cssp_connect on the two replies of the reference server *)
Lemma client_run st restricted srv nonce key rest :
  keys_match hmac uppercase st (cs_account srv) -> cssp_conforming srv -> auth_fits st (cs_challenge srv) ->
  length nonce = 8%nat -> length key = 16%nat ->
  one_read (cssp_reply1 srv) -> one_read (cssp_reply2 md5 hmac srv key) ->
  exists c0 token,
    build_security_interface md5 key = Ok c0 /\
    session_dir md5 key Client = Some (send_dir c0) /\ session_dir md5 key Server = Some (recv_dir c0 0) /\
    read_challenge_message hmac p st the_negotiate (challenge_bytes (cs_challenge srv)) nonce key = Ok token /\
    let d1 := snd (nlmp_wrap hmac (send_dir c0) (cs_pubkey srv)) in
    let '(d, u, pw) := ts_creds st restricted (N.land (c_flags (cs_challenge srv)) 1 =? 1) in
    connect st restricted (Ok (cs_pubkey srv)) (cssp_reply1 srv :: cssp_reply2 md5 hmac srv key :: rest) nonce key =
    (Ok tt, [create_ts_request the_negotiate;
             create_ts_authenticate token (fst (nlmp_wrap hmac (send_dir c0) (cs_pubkey srv)));
             create_ts_authinfo (fst (nlmp_wrap hmac d1 (create_ts_credentials d u pw)))]).
Proof.
  intros Hkeys (Hwf & (pairs & trailing & ts & Hti & Hok & Hin & Hun & Hts) & Hkx & Hnames) Hfits Hnonce Hkey Hr1 Hr2.
  destruct Hcodec as (Cw1 & Cw2 & Cw3 & Cw4 & Cr1 & Cr2).
  destruct (build_is_spec md5 md5_len key) as (c0 & Hb & Hdc & Hds).
  destruct (builds_or_refuses_av hmac hmac_len p st the_negotiate (cs_challenge srv) nonce key pairs trailing ts Hwf Hti Hok Hin Hun)
    as (ek & _ & Hbuild).
  cbv zeta in Hbuild. destruct Hbuild as [Hbuild _].
  specialize (Hbuild (oversize_false st (cs_challenge srv) nonce ts ek Hfits Hnonce Hts)).
  exists c0. eexists. split; [exact Hb|]. split; [exact Hdc|]. split; [exact Hds|]. split; [exact Hbuild|].
  cbv zeta.
  destruct (ts_creds st restricted (N.land (c_flags (cs_challenge srv)) 1 =? 1)) as [[d u] pw] eqn:Ecreds.
  unfold cssp_connect. rewrite negotiate_created.
  rewrite (link_read0_one _ _ Hr1).
  unfold cssp_reply1 in *. rewrite (Cr1 _ Hr1). rewrite Hbuild, Hb.
  rewrite (wrap_is_seal hmac hmac_len).
  rewrite (link_read0_one _ _ Hr2).
  unfold cssp_reply2, cssp_key_proof in *. rewrite Hds in *.
  unfold final_round. rewrite (Cr2 _ Hr2).
  set (c1 := with_send c0 (snd (nlmp_wrap hmac (send_dir c0) (cs_pubkey srv)))).
  rewrite (client_unwrap_of_peer_wrap hmac hmac_len c1 (recv_dir c0 0) (le_succ (cs_pubkey srv)) eq_refl eq_refl).
  rewrite le_nat_succ, N.eqb_refl. cbn [negb].
  rewrite (challenge_unicode p _ Hwf).
  rewrite (wrap_is_seal hmac hmac_len).
  unfold ts_creds in Ecreds. destruct restricted; injection Ecreds as <- <- <-; reflexivity.
Qed.

(* ---- the server's side: the reference server on the three messages *)
Lemma server_run st srv nonce key c0 token d u pw :
  keys_match hmac uppercase st (cs_account srv) -> cssp_conforming srv -> auth_fits st (cs_challenge srv) ->
  length nonce = 8%nat -> length key = 16%nat ->
  one_read (cssp_reply2 md5 hmac srv key) -> nlen d + nlen u + nlen pw <= 200000 ->
  session_dir md5 key Client = Some (send_dir c0) -> session_dir md5 key Server = Some (recv_dir c0 0) ->
  read_challenge_message hmac p st the_negotiate (challenge_bytes (cs_challenge srv)) nonce key = Ok token ->
  let d1 := snd (nlmp_wrap hmac (send_dir c0) (cs_pubkey srv)) in
  serve srv CsStart [create_ts_request the_negotiate;
                     create_ts_authenticate token (fst (nlmp_wrap hmac (send_dir c0) (cs_pubkey srv)));
                     create_ts_authinfo (fst (nlmp_wrap hmac d1 (create_ts_credentials d u pw)))]
  = ([cssp_reply1 srv; cssp_reply2 md5 hmac srv key], CsDone key d u pw).
Proof.
  intros Hkeys (Hwf & (pairs & trailing & ts & Hti & Hok & Hin & Hun & Hts) & Hkx & Hnames) Hfits Hnonce Hkey Hr2 Hcreds Hdc Hds Htok d1.
  destruct Hcodec as (Cw1 & Cw2 & Cw3 & Cw4 & _ & _).
  (* sizes: the token, the public key, the sealed blobs are far below ARG_MAX *)
  assert (Htoksz : nlen token <= 300000).
  { destruct (builds_or_refuses_av hmac hmac_len p st the_negotiate (cs_challenge srv) nonce key pairs trailing ts Hwf Hti Hok Hin Hun)
      as (ek & Hlek & Hbuild).
    cbv zeta in Hbuild. destruct Hbuild as [Hbuild _].
    pose proof (oversize_false st (cs_challenge srv) nonce ts ek Hfits Hnonce Hts) as Hov.
    rewrite (Hbuild Hov) in Htok. injection Htok as <-.
    apply token_size; [exact Hov|exact Hnonce|rewrite Hlek; exact Hkey]. }
  assert (Hpk : nlen (cs_pubkey srv) <= 1500).
  { unfold one_read, cssp_reply2, cssp_key_proof in Hr2. rewrite Hds in Hr2.
    pose proof (nlen_ts_validate_ge (fst (nlmp_wrap hmac (recv_dir c0 0) (le_succ (cs_pubkey srv))))) as H1.
    rewrite nlen_wrap in H1. pose proof (nlen_le_succ_ge (cs_pubkey srv)). lia. }
  rewrite (Cw1 the_negotiate) by (change (nlen the_negotiate) with 32; unfold ARG_MAX; lia).
  rewrite (Cw2 token) by (rewrite nlen_wrap; unfold ARG_MAX; lia).
  rewrite (Cw3 d u pw) by (unfold ARG_MAX; lia).
  rewrite Cw4 by (rewrite nlen_wrap; pose proof (nlen_ts_credentials_le d u pw ltac:(unfold ARG_MAX; lia)); unfold ARG_MAX; lia).
  pose proof (accepts_av hmac uppercase hmac_len p st (cs_account srv) the_negotiate (cs_challenge srv) nonce key pairs trailing ts token
                Hkeys Hwf Hti Hok Hin Hun Hts Hkx Hnames Hnonce Hkey Htok) as Hauth.
  (* message 1 *)
  assert (S1 : step srv CsStart (der_encode (ts_request the_negotiate)) = (CsChallenged the_negotiate, Some (cssp_reply1 srv))).
  { unfold cssp_step. rewrite ts_request_roundtrip_all. unfold ts_request. cbn [first_token].
    rewrite negotiate_is_negotiate. reflexivity. }
  (* message 2 *)
  assert (S2 : step srv (CsChallenged the_negotiate)
                    (der_encode (ts_authenticate token (fst (nlmp_wrap hmac (send_dir c0) (cs_pubkey srv)))))
               = (CsAuthenticated key d1, Some (cssp_reply2 md5 hmac srv key))).
  { unfold cssp_step. rewrite ts_authenticate_roundtrip_all. unfold ts_authenticate. cbn [first_token].
    rewrite Hauth, Hdc, Hds. rewrite (peer_unwrap_of_wrap hmac hmac_len). fold d1.
    rewrite beq_refl. unfold cssp_reply2. rewrite Hds. reflexivity. }
  (* message 3 *)
  assert (S3 : step srv (CsAuthenticated key d1)
                    (der_encode (ts_authinfo (fst (nlmp_wrap hmac d1 (der_encode (ts_credentials d u pw))))))
               = (CsDone key d u pw, None)).
  { unfold cssp_step. rewrite ts_authinfo_roundtrip_all. unfold ts_authinfo.
    rewrite (peer_unwrap_of_wrap hmac hmac_len).
    rewrite ts_credentials_roundtrip_all. unfold ts_credentials at 1.
    rewrite ts_password_creds_roundtrip_all. unfold ts_password_creds. reflexivity. }
  cbn [cssp_serve]. rewrite S1, S2, S3. reflexivity.
Qed.

(* ---- the server stops inside the exchange: after the handshake (no reply), or after its first reply *)
Lemma client_cut st restricted srv nonce key c0 token :
  build_security_interface md5 key = Ok c0 ->
  read_challenge_message hmac p st the_negotiate (challenge_bytes (cs_challenge srv)) nonce key = Ok token ->
  cssp_conforming srv -> one_read (cssp_reply1 srv) ->
  not_ok (read_ts_server_challenge []) -> not_ok (read_ts_validate []) ->
  connect st restricted (Ok (cs_pubkey srv)) [] nonce key
    = (fail_of (read_ts_server_challenge []), [create_ts_request the_negotiate]) /\
  connect st restricted (Ok (cs_pubkey srv)) [cssp_reply1 srv] nonce key
    = (fail_of (read_ts_validate []),
       [create_ts_request the_negotiate;
        create_ts_authenticate token (fst (nlmp_wrap hmac (send_dir c0) (cs_pubkey srv)))]).
Proof.
  intros Hb Htok (Hwf & _) Hr1 He1 He2.
  destruct Hcodec as (_ & _ & _ & _ & Cr1 & _).
  split.
  - unfold cssp_connect. rewrite negotiate_created.
    change (link_read0 []) with (@nil N, @nil bytes). cbv beta iota.
    destruct (read_ts_server_challenge []) as [t|e| |] eqn:E; [exfalso; exact (He1 t eq_refl)| | |]; reflexivity.
  - unfold cssp_connect. rewrite negotiate_created.
    rewrite (link_read0_one _ _ Hr1). unfold cssp_reply1 in *. rewrite (Cr1 _ Hr1). rewrite Htok, Hb.
    rewrite (wrap_is_seal hmac hmac_len).
    change (link_read0 []) with (@nil N, @nil bytes). cbv beta iota.
    unfold final_round.
    destruct (read_ts_validate []) as [t|e| |] eqn:E; [exfalso; exact (He2 t eq_refl)| | |]; reflexivity.
Qed.

(* THE EXCHANGE.  The client's cssp_connect on the stream that delivers the two replies of the reference server
   (one read each) returns Ok after exactly three messages; the reference server, fed these three messages,
   answers with exactly those two replies, recovers the client's exported session key and ends with the
   TSPasswordCreds the mode prescribes. *)
Theorem credssp_exchange st restricted srv nonce key rest :
  keys_match hmac uppercase st (cs_account srv) -> cssp_conforming srv -> auth_fits st (cs_challenge srv) ->
  length nonce = 8%nat -> length key = 16%nat ->
  one_read (cssp_reply1 srv) -> one_read (cssp_reply2 md5 hmac srv key) ->
  exists w1 w2 w3,
    connect st restricted (Ok (cs_pubkey srv)) (cssp_reply1 srv :: cssp_reply2 md5 hmac srv key :: rest) nonce key
      = (Ok tt, [w1; w2; w3]) /\
    serve srv CsStart [w1; w2; w3] =
      ([cssp_reply1 srv; cssp_reply2 md5 hmac srv key],
       cs_done key (ts_creds st restricted (N.land (c_flags (cs_challenge srv)) 1 =? 1))).
Proof.
  intros Hkeys Hconf Hfits Hnonce Hkey Hr1 Hr2.
  destruct (client_run st restricted srv nonce key rest Hkeys Hconf Hfits Hnonce Hkey Hr1 Hr2)
    as (c0 & token & Hb & Hdc & Hds & Htok & Hrun).
  cbv zeta in Hrun. unfold cs_done.
  pose proof (ts_creds_size st restricted (cs_challenge srv) Hfits) as Hsz.
  destruct (ts_creds st restricted (N.land (c_flags (cs_challenge srv)) 1 =? 1)) as [[d u] pw].
  eexists. eexists. eexists. split; [exact Hrun|].
  exact (server_run st srv nonce key c0 token d u pw Hkeys Hconf Hfits Hnonce Hkey Hr2 Hsz Hdc Hds Htok).
Qed.

End Exchange.

(* ================================================================== C. sizes: what valid_fcfg and the one-read delivery imply *)
Lemma nlen_flat_map_le {A} (f g : A -> list N) (k : N) (l : list A) :
  (forall x, nlen (f x) <= k * nlen (g x)) -> nlen (flat_map f l) <= k * nlen (flat_map g l).
Proof.
  intros H. induction l as [|x l IH]; cbn [flat_map]; [unfold nlen; cbn [List.length N.of_nat]; lia|].
  rewrite !nlen_app. specialize (H x). lia.
Qed.

Lemma nlen_utf16le_units s : nlen (Utf.utf16le s) <= 2 * units s.
Proof.
  unfold Utf.utf16le, units, utf16. apply nlen_flat_map_le. intros c.
  unfold utf16_units, utf16_char. destruct (c <? 65536); cbn [flat_map app le16]; unfold nlen; cbn [List.length N.of_nat]; lia.
Qed.

Lemma nlen_utf8_units s : nlen (Utf.utf8 s) <= 4 * units s.
Proof.
  unfold Utf.utf8, units, utf16. apply nlen_flat_map_le. intros c.
  unfold Utf.utf8_char, utf16_char.
  destruct (c <? 128); [destruct (c <? 65536); unfold nlen; cbn [List.length N.of_nat]; lia|].
  destruct (c <? 2048); [destruct (c <? 65536); unfold nlen; cbn [List.length N.of_nat]; lia|].
  destruct (c <? 65536); unfold nlen; cbn [List.length N.of_nat]; lia.
Qed.

Lemma nlen_encode_name u s : nlen (encode_name u s) <= 4 * units s.
Proof.
  unfold encode_name, unicode. destruct u; [pose proof (nlen_utf16le_units s); lia|apply nlen_utf8_units].
Qed.

Lemma nlen_target_info_le c : nlen (c_target_info c) <= nlen (challenge_bytes c).
Proof. unfold challenge_bytes. rewrite !nlen_app. lia. Qed.

(* ================================================================== C'. a CredSSP exchange that fails ends the connection attempt *)
Section CsspFails.
Variable p : prof.
Variable ber_parse : bytes -> outcome bytes.
Variable trusted : bool.
Variable tls_start : stream -> outcome stream.
Variable cssp_run : stream -> nat * outcome stream.
Variable cssp_msgs : list bytes.

Lemma x224_connect_cssp_fails c srv s post ncssp (o : outcome stream) :
  conforming (offered c) srv -> sv_selected srv = SEL_HYBRID -> has_auth c = true ->
  (check_cert c = true -> trusted = true) ->
  at_ s (ref_confirm srv) [] false -> tls_start [] = Ok post ->
  cssp_run post = (ncssp, o) -> not_ok o ->
  exists s1, x224_connect p trusted tls_start cssp_run c s = (fail_of o, s1) /\
             s_ev s1 = nego_events c 2 ncssp.
Proof.
  intros Hc Hsel Hauth Hcert Hat Htls Hcssp Hno. unfold x224_connect. fold (cr_msg c).
  match goal with
  | |- exists s1, Connect.bind _ (fun _ => Connect.bind _ (fun pl => Connect.bind _ (fun b => Connect.bind _ ?K))) s = _ /\ _ =>
      destruct (x224_negotiate p ber_parse K c srv s Hc Hat) as [s1 [Hk [Hin [Hev Ht]]]]
  end.
  rewrite Hk. clear Hk. rewrite Hsel.
  destruct Hc as [_ [Hoff _]]. rewrite Hsel in Hoff.
  assert (Hreq : sel_requested (offered c) SEL_HYBRID = true).
  { unfold sel_requested. cbn [N.eqb LayoutsConnect.PROTOCOL_RDP]. apply negb_true_iff, N.eqb_neq. exact Hoff. }
  rewrite Hreq. cbn [negb].
  change (SEL_HYBRID =? LayoutsConnect.PROTOCOL_HYBRID) with true. cbv iota. rewrite Hauth.
  assert (Hssl : start_ssl trusted tls_start c s1 = (Ok tt, mkSt post (s_ev s1 ++ [TlsStart true]) true (s_alloc s1))).
  { unfold start_ssl, tls_handshake. destruct (check_cert c) eqn:Hck; cbn [negb orb].
    - rewrite (Hcert eq_refl). rewrite Hin, Htls. reflexivity.
    - rewrite Hin, Htls. reflexivity. }
  destruct (emit_n_ev CSSP ncssp (mkSt post (s_ev s1 ++ [TlsStart true]) true (s_alloc s1))) as [s2 [He [H2i [H2t H2e]]]].
  assert (Hnla : start_nla trusted tls_start cssp_run c s1 = (fail_of o, s2)).
  { unfold start_nla. rewrite (bind_ok _ _ _ _ _ Hssl). unfold Connect.cssp_connect. cbn [s_in]. rewrite Hcssp. cbn [fst snd].
    rewrite He. destruct o as [x|e| |]; [exfalso; exact (Hno x eq_refl)| | |]; reflexivity. }
  exists s2. split.
  - unfold Connect.bind at 1. rewrite Hnla. destruct o as [x|e| |]; [exfalso; exact (Hno x eq_refl)| | |]; reflexivity.
  - cbn [s_ev s_tls] in H2e. rewrite H2e, Hev. unfold nego_events. change (2 =? 2) with true. cbn [wr_ev]. reflexivity.
Qed.

Lemma flow_cssp_fails (c : fcfg) (srv : server) (cs post : stream) (ncssp : nat) (o : outcome stream) (nreads : nat) :
  valid_fcfg c -> conforming (c_offered (f_pdu c)) srv -> sv_selected srv = SEL_HYBRID ->
  (f_check_cert c = true -> trusted = true) ->
  holds cs (ref_confirm srv) -> tls_start [] = Ok post -> cssp_run post = (ncssp, o) -> not_ok o ->
  let r := flow p ber_parse trusted tls_start cssp_run cssp_msgs c nreads cs in
  fl_res r = fail_of o /\ fl_stage r = StConnect /\
  exists cr, fl_trace r = FRaw cr :: FTlsStart true :: cssp_evs ncssp cssp_msgs /\ frame_kind cr = Some KRequest.
Proof.
  intros Hv Hc Hsel Hcert Hcs Htls Hcssp Hno r.
  assert (Hat0 : at_ (mkSt cs [] false 0) (ref_confirm srv) [] false) by (repeat split; auto; apply Hcs).
  destruct (x224_connect_cssp_fails (conn_cfg c) srv _ post ncssp o Hc Hsel eq_refl Hcert Hat0 Htls Hcssp Hno) as [s1 [Hx Hev]].
  assert (Hrun : run_connect p ber_parse trusted tls_start cssp_run (conn_cfg c) cs = (fail_of o, s1)).
  { unfold run_connect, connect, Connect.bind at 1. rewrite Hx.
    destruct o as [x|e| |]; [exfalso; exact (Hno x eq_refl)| | |]; reflexivity. }
  destruct (cr_rendered p c Hv) as [cr [Hcr Hk]].
  assert (Htr : render_trace p c cssp_msgs (s_ev s1) = FRaw cr :: FTlsStart true :: cssp_evs ncssp cssp_msgs).
  { rewrite Hev.
    pose proof (render_conn_events p c srv cssp_msgs (f_user_first c) ncssp 0) as H.
    unfold conn_events, tls_writes in H. cbn [firstn List.concat map] in H. rewrite app_nil_r in H.
    rewrite Hsel in H. change SEL_HYBRID with 2 in H. rewrite H. rewrite Hcr. unfold ncssp_of. rewrite Hsel.
    change (SEL_HYBRID =? 2) with true. cbv iota. rewrite app_nil_r. reflexivity. }
  unfold r, flow. rewrite Hrun.
  destruct o as [x|e| |]; [exfalso; exact (Hno x eq_refl)| | |]; cbn [fail_of fl_res fl_stage fl_trace];
    (split; [reflexivity|]; split; [reflexivity|]; exists cr; split; [exact Htr|exact Hk]).
Qed.

End CsspFails.

(* ================================================================== D. the whole connection with NLA *)
(* the account the server must hold for the client's configuration: user, domain, and the NT hash -- the
   configured hash in hash mode, MD4(UTF-16LE(password)) in password mode *)
Definition nla_account (md4 : bytes -> bytes) (c : fcfg) (n : nla_params) : account :=
  let k := f_pdu c in
  mkAccount (c_user k) (c_domain k)
            (match nl_hash n with Some h => h | None => md4 (Utf.utf16le (c_password k)) end).

(* the records the server writes inside TLS when HYBRID is selected: the two CredSSP replies, ONE record (one
   read) each, then whatever follows *)
Definition nla_stream (md5 : bytes -> bytes) (hmac : bytes -> bytes -> bytes) (cs : cssp_server) (n : nla_params)
           (rest : stream) : stream :=
  cssp_reply1 cs :: cssp_reply2 md5 hmac cs (nl_key n) :: rest.

(* the CredSSP server of a connection: conforming, holding the client's account and presenting the key of the
   certificate of this TLS session; the client's randomness has the sizes random(8) / random(16) give; each reply
   fits one read *)
Definition nla_ok (md4 md5 : bytes -> bytes) (hmac : bytes -> bytes -> bytes) (c : fcfg) (n : nla_params) (cs : cssp_server) : Prop :=
  cssp_conforming cs /\ cs_account cs = nla_account md4 c n /\ cs_pubkey cs = nl_pubkey n /\
  length (nl_nonce n) = 8%nat /\ length (nl_key n) = 16%nat /\
  one_read (cssp_reply1 cs) /\ one_read (cssp_reply2 md5 hmac cs (nl_key n)).

Section NlaFlow.
Variable md4 md5 : bytes -> bytes.
Variable hmac : bytes -> bytes -> bytes.
Variable uppercase : list N -> list N.
Variable p : prof.
Variable create_ts_request : bytes -> bytes.
Variable create_ts_authenticate : bytes -> bytes -> bytes.
Variable create_ts_credentials : bytes -> bytes -> bytes -> bytes.
Variable create_ts_authinfo : bytes -> bytes.
Variable read_ts_server_challenge : bytes -> outcome bytes.
Variable read_ts_validate : bytes -> outcome bytes.
Hypothesis md5_len : forall x, length (md5 x) = 16%nat.
Hypothesis hmac_len : forall k x, length (hmac k x) = 16%nat.
Hypothesis Hcodec : codec_ok create_ts_request create_ts_authenticate create_ts_credentials create_ts_authinfo
                             read_ts_server_challenge read_ts_validate.

Notation cssp := (nla_cssp md4 md5 hmac uppercase p create_ts_request create_ts_authenticate create_ts_credentials
                           create_ts_authinfo read_ts_server_challenge read_ts_validate).
Notation cssp_run := (nla_cssp_run md4 md5 hmac uppercase p create_ts_request create_ts_authenticate create_ts_credentials
                                   create_ts_authinfo read_ts_server_challenge read_ts_validate).
Notation auth := (nla_auth md4 hmac uppercase).
Notation serve := (cssp_serve md5 hmac uppercase).

Lemma nla_keys_match c n : keys_match hmac uppercase (auth c n) (nla_account md4 c n).
Proof. unfold nla_auth, nla_account. destruct (nl_hash n); repeat split. Qed.

Lemma nla_auth_fits c n cs : valid_fcfg c -> one_read (cssp_reply1 cs) -> auth_fits (auth c n) (cs_challenge cs).
Proof.
  intros Hv Hr. destruct Hv as (_ & _ & _ & _ & _ & _ & _ & _ & Hsz & _).
  unfold C04_proofs.PER_MAX in Hsz. unfold auth_fits. cbv zeta.
  assert (Hd : Ntlm.n_domain (auth c n) = c_domain (f_pdu c)) by (unfold nla_auth; destruct (nl_hash n); reflexivity).
  assert (Hu : Ntlm.n_user (auth c n) = c_user (f_pdu c)) by (unfold nla_auth; destruct (nl_hash n); reflexivity).
  assert (Hp : nlen (encode_name (N.land (c_flags (cs_challenge cs)) 1 =? 1) (Ntlm.n_password (auth c n))) <= 65535).
  { pose proof (nlen_encode_name (N.land (c_flags (cs_challenge cs)) 1 =? 1) (c_password (f_pdu c))).
    unfold nla_auth. destruct (nl_hash n); cbn [Ntlm.n_password ntlm_from_hash ntlm_new]; [|lia].
    destruct (N.land (c_flags (cs_challenge cs)) 1 =? 1); unfold nlen; cbn [encode_name unicode Utf.utf16le Utf.utf8 flat_map List.length N.of_nat]; lia. }
  rewrite Hd, Hu.
  pose proof (nlen_encode_name (N.land (c_flags (cs_challenge cs)) 1 =? 1) (c_domain (f_pdu c))).
  pose proof (nlen_encode_name (N.land (c_flags (cs_challenge cs)) 1 =? 1) (c_user (f_pdu c))).
  pose proof (nlen_target_info_le (cs_challenge cs)).
  pose proof (nlen_ts_request_ge (challenge_bytes (cs_challenge cs))).
  unfold one_read, cssp_reply1 in Hr. repeat split; lia.
Qed.

(* the credentials of the third message, per mode *)
Definition nla_creds (c : fcfg) (n : nla_params) (cs : cssp_server) : bytes * bytes * bytes :=
  ts_creds (auth c n) (nla_restricted c n) (N.land (c_flags (cs_challenge cs)) 1 =? 1).

(* CredSSP of the instantiated model against the reference server: three messages, Ok, the stream after the
   two replies; the server accepts all three *)
Theorem nla_exchange c n cs rest :
  valid_fcfg c -> nla_ok md4 md5 hmac c n cs ->
  exists w1 w2 w3,
    cssp c n (nla_stream md5 hmac cs n rest) = (Ok tt, [w1; w2; w3]) /\
    cssp_run c n (nla_stream md5 hmac cs n rest) = (3%nat, Ok rest) /\
    serve cs CsStart [w1; w2; w3] =
      ([cssp_reply1 cs; cssp_reply2 md5 hmac cs (nl_key n)], cs_done (nl_key n) (nla_creds c n cs)).
Proof.
  intros Hv (Hconf & Hacct & Hpk & Hnonce & Hkey & Hr1 & Hr2).
  pose proof (nla_keys_match c n) as Hkm. rewrite <- Hacct in Hkm.
  destruct (credssp_exchange md5 hmac uppercase p create_ts_request create_ts_authenticate create_ts_credentials create_ts_authinfo
              read_ts_server_challenge read_ts_validate md5_len hmac_len Hcodec
              (auth c n) (nla_restricted c n) cs (nl_nonce n) (nl_key n) rest Hkm Hconf (nla_auth_fits c n cs Hv Hr1) Hnonce Hkey Hr1 Hr2)
    as (w1 & w2 & w3 & Hrun & Hsrv).
  exists w1, w2, w3.
  assert (Hc : cssp c n (nla_stream md5 hmac cs n rest) = (Ok tt, [w1; w2; w3])).
  { unfold nla_cssp, nla_stream. rewrite <- Hpk. exact Hrun. }
  split; [exact Hc|]. split; [|exact Hsrv].
  unfold nla_cssp_run. rewrite Hc. cbn [fst snd List.length]. unfold nla_stream.
  rewrite (link_read0_one _ _ Hr1). cbn [snd]. rewrite (link_read0_one _ _ Hr2). reflexivity.
Qed.

Notation flow_n := (flow_nla md4 md5 hmac uppercase p create_ts_request create_ts_authenticate create_ts_credentials
                             create_ts_authinfo read_ts_server_challenge read_ts_validate).

(* SEQUENCE with NLA: no hypothesis on the outcome of CredSSP *)
Theorem sequence_nla_full ber_parse trusted tls_start (c : fcfg) (n : nla_params) (srv : server) (csrv : cssp_server)
        (cs post' : stream) :
  valid_fcfg c -> conforming (c_offered (f_pdu c)) srv -> sv_selected srv = SEL_HYBRID ->
  ber_ok ber_parse srv -> (f_check_cert c = true -> trusted = true) ->
  nla_ok md4 md5 hmac c n csrv ->
  holds cs (ref_confirm srv) -> tls_start [] = Ok (nla_stream md5 hmac csrv n post') ->
  holds post' (List.concat (List.tl (replies srv (f_user_first c)))) ->
  let r := flow_n ber_parse trusted tls_start c n (nreads_of srv) cs (nla_stream md5 hmac csrv n post') in
  fl_res r = Ok tt /\ fl_stage r = StShutdown /\
  exists w1 w2 w3 cr frames,
    fl_trace r = FRaw cr :: FTlsStart true :: FTls w1 :: FTls w2 :: FTls w3 :: map FTls frames /\
    map frame_kind (cr :: frames) = map Some (expected_kinds srv (f_user_first c)) /\
    serve csrv CsStart [w1; w2; w3] =
      ([cssp_reply1 csrv; cssp_reply2 md5 hmac csrv (nl_key n)], cs_done (nl_key n) (nla_creds c n csrv)).
Proof.
  intros Hv Hc Hsel Hber Hcert Hnla Hcs Htls Hpost r.
  destruct (nla_exchange c n csrv post' Hv Hnla) as (w1 & w2 & w3 & Hx & Hrun & Hsrv).
  pose proof (sequence_nla p ber_parse trusted tls_start (cssp_run c n) [w1; w2; w3] c srv cs
                (nla_stream md5 hmac csrv n post') post' 3%nat Hv Hc Hsel Hber Hcert Hcs Htls Hrun Hpost) as H.
  cbv zeta in H. destruct H as (H1 & H2 & cr & frames & H3 & H4).
  assert (Er : r = flow p ber_parse trusted tls_start (cssp_run c n) [w1; w2; w3] c (nreads_of srv) cs).
  { unfold r, flow_nla. rewrite Hx. reflexivity. }
  rewrite Er. split; [exact H1|]. split; [exact H2|].
  exists w1, w2, w3, cr, frames. split; [rewrite H3; reflexivity|]. split; [exact H4|exact Hsrv].
Qed.

(* CAUSALITY with NLA: the server stops after the CredSSP exchange and k further replies *)
Theorem causality_nla_full ber_parse trusted tls_start (c : fcfg) (n : nla_params) (srv : server) (csrv : cssp_server)
        (cs post' : stream) (k : nat) :
  valid_fcfg c -> conforming (c_offered (f_pdu c)) srv -> sv_selected srv = SEL_HYBRID ->
  ber_ok ber_parse srv -> (f_check_cert c = true -> trusted = true) ->
  nla_ok md4 md5 hmac c n csrv ->
  holds cs (ref_confirm srv) -> tls_start [] = Ok (nla_stream md5 hmac csrv n post') ->
  (k < length (List.tl (replies srv (f_user_first c))))%nat ->
  holds post' (List.concat (firstn k (List.tl (replies srv (f_user_first c))))) ->
  let r := flow_n ber_parse trusted tls_start c n (nreads_of srv) cs (nla_stream md5 hmac csrv n post') in
  fl_res r = Err EIo /\
  exists w1 w2 w3 cr frames,
    fl_trace r = FRaw cr :: FTlsStart true :: FTls w1 :: FTls w2 :: FTls w3 :: map FTls frames /\
    map frame_kind (cr :: frames) = map Some (sent_before_reply srv (f_user_first c) (S k)) /\
    serve csrv CsStart [w1; w2; w3] =
      ([cssp_reply1 csrv; cssp_reply2 md5 hmac csrv (nl_key n)], cs_done (nl_key n) (nla_creds c n csrv)).
Proof.
  intros Hv Hc Hsel Hber Hcert Hnla Hcs Htls Hk Hpost r.
  destruct (nla_exchange c n csrv post' Hv Hnla) as (w1 & w2 & w3 & Hx & Hrun & Hsrv).
  pose proof (causality_nla p ber_parse trusted tls_start (cssp_run c n) [w1; w2; w3] c srv cs
                (nla_stream md5 hmac csrv n post') post' 3%nat k Hv Hc Hsel Hber Hcert Hcs Htls Hrun Hk Hpost) as H.
  cbv zeta in H. destruct H as (H1 & cr & frames & H3 & H4).
  assert (Er : r = flow p ber_parse trusted tls_start (cssp_run c n) [w1; w2; w3] c (nreads_of srv) cs).
  { unfold r, flow_nla. rewrite Hx. reflexivity. }
  rewrite Er. split; [exact H1|].
  exists w1, w2, w3, cr, frames. split; [rewrite H3; reflexivity|]. split; [exact H4|exact Hsrv].
Qed.

(* CAUSALITY inside the CredSSP exchange: the server stops right after the handshake (j = 0) or after its first
   CredSSP reply (j = 1).  The connection attempt fails in connect, and the client has written exactly the first
   j + 1 of the three messages the complete exchange consists of: no message before the reply it answers. *)
Theorem causality_nla_cssp ber_parse trusted tls_start (c : fcfg) (n : nla_params) (srv : server) (csrv : cssp_server)
        (cs : stream) (j : nat) :
  valid_fcfg c -> conforming (c_offered (f_pdu c)) srv -> sv_selected srv = SEL_HYBRID ->
  (f_check_cert c = true -> trusted = true) ->
  nla_ok md4 md5 hmac c n csrv ->
  not_ok (read_ts_server_challenge []) -> not_ok (read_ts_validate []) ->
  holds cs (ref_confirm srv) -> (j < 2)%nat ->
  tls_start [] = Ok (firstn j (nla_stream md5 hmac csrv n [])) ->
  let r := flow_n ber_parse trusted tls_start c n (nreads_of srv) cs (firstn j (nla_stream md5 hmac csrv n [])) in
  fl_res r <> Ok tt /\ fl_stage r = StConnect /\
  exists w1 w2 w3 cr,
    fl_trace r = FRaw cr :: FTlsStart true :: map FTls (firstn (S j) [w1; w2; w3]) /\
    frame_kind cr = Some KRequest /\
    serve csrv CsStart [w1; w2; w3] =
      ([cssp_reply1 csrv; cssp_reply2 md5 hmac csrv (nl_key n)], cs_done (nl_key n) (nla_creds c n csrv)).
Proof.
  intros Hv Hc Hsel Hcert Hnla He1 He2 Hcs Hj Htls r.
  destruct Hnla as (Hconf & Hacct & Hpk & Hnonce & Hkey & Hr1 & Hr2).
  pose proof (nla_keys_match c n) as Hkm. rewrite <- Hacct in Hkm.
  pose proof (nla_auth_fits c n csrv Hv Hr1) as Hfits.
  destruct (client_run md5 hmac uppercase p create_ts_request create_ts_authenticate create_ts_credentials create_ts_authinfo
              read_ts_server_challenge read_ts_validate md5_len hmac_len Hcodec
              (auth c n) (nla_restricted c n) csrv (nl_nonce n) (nl_key n) [] Hkm Hconf Hfits Hnonce Hkey Hr1 Hr2)
    as (c0 & token & Hb & Hdc & Hds & Htok & Hfull).
  cbv zeta in Hfull.
  pose proof (server_run md5 hmac uppercase p create_ts_request create_ts_authenticate create_ts_credentials create_ts_authinfo
                read_ts_server_challenge read_ts_validate md5_len hmac_len Hcodec (auth c n) csrv (nl_nonce n) (nl_key n) c0 token) as Hsrv.
  pose proof (ts_creds_size (auth c n) (nla_restricted c n) (cs_challenge csrv) Hfits) as Hsz.
  destruct (client_cut md5 hmac p create_ts_request create_ts_authenticate create_ts_credentials create_ts_authinfo
              read_ts_server_challenge read_ts_validate hmac_len Hcodec
              (auth c n) (nla_restricted c n) csrv (nl_nonce n) (nl_key n) c0 token Hb Htok Hconf Hr1 He1 He2) as [Hcut0 Hcut1].
  unfold nla_creds, cs_done.
  destruct (ts_creds (auth c n) (nla_restricted c n) (N.land (c_flags (cs_challenge csrv)) 1 =? 1)) as [[d u] pw].
  specialize (Hsrv d u pw Hkm Hconf Hfits Hnonce Hkey Hr2 Hsz Hdc Hds Htok). cbv zeta in Hsrv.
  set (w1 := create_ts_request the_negotiate) in *.
  set (w2 := create_ts_authenticate token (fst (nlmp_wrap hmac (send_dir c0) (cs_pubkey csrv)))) in *.
  set (w3 := create_ts_authinfo _) in Hsrv.
  assert (Hcases : j = 0%nat \/ j = 1%nat) by lia.
  destruct Hcases as [-> | ->]; unfold nla_stream in *; cbn [firstn] in *.
  - (* no reply *)
    assert (Hx : cssp c n [] = (fail_of (read_ts_server_challenge []), [w1])).
    { unfold nla_cssp. rewrite <- Hpk. exact Hcut0. }
    assert (Hrun : cssp_run c n [] = (1%nat, fail_of (read_ts_server_challenge []))).
    { unfold nla_cssp_run. rewrite Hx. cbn [fst snd List.length]. f_equal.
      destruct (read_ts_server_challenge []); reflexivity. }
    destruct (flow_cssp_fails p ber_parse trusted tls_start (cssp_run c n) [w1] c srv cs [] 1%nat _ (nreads_of srv)
                Hv Hc Hsel Hcert Hcs Htls Hrun (fail_of_not_ok _)) as (F1 & F2 & cr & F3 & F4).
    assert (Er : r = flow p ber_parse trusted tls_start (cssp_run c n) [w1] c (nreads_of srv) cs).
    { unfold r, flow_nla. rewrite Hx. reflexivity. }
    rewrite Er. split; [rewrite F1; destruct (read_ts_server_challenge []); discriminate|]. split; [exact F2|].
    exists w1, w2, w3, cr. split; [rewrite F3; reflexivity|]. split; [exact F4|exact Hsrv].
  - (* the first reply only *)
    assert (Hx : cssp c n [cssp_reply1 csrv] = (fail_of (read_ts_validate []), [w1; w2])).
    { unfold nla_cssp. rewrite <- Hpk. exact Hcut1. }
    assert (Hrun : cssp_run c n [cssp_reply1 csrv] = (2%nat, fail_of (read_ts_validate []))).
    { unfold nla_cssp_run. rewrite Hx. cbn [fst snd List.length]. f_equal.
      destruct (read_ts_validate []); reflexivity. }
    destruct (flow_cssp_fails p ber_parse trusted tls_start (cssp_run c n) [w1; w2] c srv cs [cssp_reply1 csrv] 2%nat _ (nreads_of srv)
                Hv Hc Hsel Hcert Hcs Htls Hrun (fail_of_not_ok _)) as (F1 & F2 & cr & F3 & F4).
    assert (Er : r = flow p ber_parse trusted tls_start (cssp_run c n) [w1; w2] c (nreads_of srv) cs).
    { unfold r, flow_nla. rewrite Hx. reflexivity. }
    rewrite Er. split; [rewrite F1; destruct (read_ts_validate []); discriminate|]. split; [exact F2|].
    exists w1, w2, w3, cr. split; [rewrite F3; reflexivity|]. split; [exact F4|exact Hsrv].
Qed.

End NlaFlow.

(* ================================================================== E. what the statements mean, per mode *)
(* the TSPasswordCreds the reference server receives: empty under restricted admin or blank credentials; otherwise
   domain and user in the negotiated character set, and the password -- EMPTY in hash mode (Ntlm::from_hash keeps
   no password: the hash only keys the response) *)
Lemma nla_creds_modes md4 hmac uppercase c n cs :
  nla_creds md4 hmac uppercase c n cs =
  let k := f_pdu c in
  let u := N.land (c_flags (cs_challenge cs)) 1 =? 1 in
  if c_ram k || nl_blank n then ([], [], [])
  else (encode_name u (c_domain k), encode_name u (c_user k),
        match nl_hash n with Some _ => [] | None => encode_name u (c_password k) end).
Proof.
  unfold nla_creds, ts_creds, nla_restricted, nla_auth. cbv zeta.
  destruct (c_ram (f_pdu c) || nl_blank n); [reflexivity|].
  destruct (nl_hash n); cbn [Ntlm.n_domain Ntlm.n_user Ntlm.n_password ntlm_from_hash ntlm_new]; [|reflexivity].
  destruct (N.land (c_flags (cs_challenge cs)) 1 =? 1); reflexivity.
Qed.

(* the hypothesis on the codecs is satisfiable: the DER codec of the C18 TLV model itself (Der.v: encoder, strict
   decoder, round trip proved in C18_der_proofs.v) is an instance *)
Definition der_read_challenge (b : bytes) : outcome bytes :=
  match der_decode_all ts_request_sch b with
  | Some (DSeq [_; DExplicit _ _ toks]) =>
      match first_token toks with Some t => Ok t | None => Err EInvalidOptionalField end
  | _ => Err EAsn1
  end.
Definition der_read_validate (b : bytes) : outcome bytes :=
  match der_decode_all ts_validate_sch b with
  | Some (DSeq [_; DExplicit _ _ (DOctets k)]) => Ok k
  | _ => Err EAsn1
  end.

Lemma codec_ok_der :
  codec_ok (fun n => der_encode (ts_request n)) (fun t k => der_encode (ts_authenticate t k))
           (fun d u pw => der_encode (ts_credentials d u pw)) (fun i => der_encode (ts_authinfo i))
           der_read_challenge der_read_validate.
Proof.
  repeat split; try (intros; reflexivity).
  - intros t _. unfold der_read_challenge. rewrite ts_request_roundtrip_all. reflexivity.
  - intros k _. unfold der_read_validate. rewrite ts_validate_roundtrip_all. reflexivity.
Qed.
