(* Model of model/link.rs: Stream::{read,read_exact,write}, Link::{read,write}.
   The inbound transport is a CHUNKED stream: each element is what one call of
   `Read::read` on the underlying transport can return at most (a TCP segment, a TLS
   record...).  A read with a buffer of n bytes returns min(n, |head chunk|) bytes.
   An empty chunk, or the end of the list, is a read that returns 0 (EOF).
   The outbound transport is a SCHEDULE of write results (see below). *)
From RdpV Require Import Base.

Definition stream := list bytes.

(* one call of Read::read with a buffer of n bytes *)
Definition tread (n : nat) (cs : stream) : bytes * stream :=
  match cs with
  | [] => ([], [])
  | c :: cs' =>
      if Nat.leb (length c) n then (c, cs') else (firstn n c, skipn n c :: cs')
  end.

(* std's default Read::read_exact: loop on read until the buffer is full; a read of 0
   bytes is UnexpectedEof.  Returns the bytes, or None (Error::Io), and the stream as it
   is left (bytes consumed by a failed read_exact are lost). *)
Fixpoint read_exact (n : nat) (cs : stream) : option bytes * stream :=
  match n with
  | O => (Some [], cs)
  | S _ =>
      match cs with
      | [] => (None, [])
      | c :: cs' =>
          match c with
          | [] => (None, cs')
          | _ :: _ =>
              if Nat.leb (length c) n
              then let (r, cs'') := read_exact (n - length c) cs' in
                   (match r with Some l => Some (c ++ l) | None => None end, cs'')
              else (Some (firstn n c), skipn n c :: cs')
          end
      end
  end.

(* Link::read(expected_size): 0 means "whatever one read returns, up to 1500 bytes" *)
Definition link_read (n : nat) (cs : stream) : outcome bytes * stream :=
  match n with
  | O => let (b, cs') := tread 1500 cs in (Ok b, cs')
  | S _ => let (r, cs') := read_exact n cs in
           (match r with Some b => Ok b | None => Err EIo end, cs')
  end.

(* ---- outbound ---- *)
(* One entry per call of Write::write on the underlying transport: it accepts at most
   [Accept k] bytes (k = 0 models a sink that takes nothing: write_all reports
   WriteZero), or fails with an I/O error.  A schedule that runs out behaves as a sink
   that accepts everything. *)
Inductive wstep := Accept (k : nat) | Fail.
Definition schedule := list wstep.

(* std's Write::write_all over such a sink: returns what reached the sink and whether
   it succeeded.  Structural on the schedule; when the schedule is exhausted the rest is
   accepted whole. *)
Fixpoint write_all (buf : bytes) (s : schedule) : bytes * bool * schedule :=
  match buf with
  | [] => ([], true, s)
  | _ :: _ =>
      match s with
      | [] => (buf, true, [])
      | Fail :: s' => ([], false, s')
      | Accept O :: s' => ([], false, s')
      | Accept k :: s' =>
          if Nat.leb (length buf) k then (buf, true, s')
          else let '(out, ok, s'') := write_all (skipn k buf) s' in (firstn k buf ++ out, ok, s'')
      end
  end.

(* Link::write(message): serialise completely, then deliver every byte or report. *)
Definition link_write (msg : bytes) (s : schedule) : bytes * outcome unit * schedule :=
  let '(out, ok, s') := write_all msg s in
  (out, if ok then Ok tt else Err EIo, s').
