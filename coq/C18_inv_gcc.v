(* C18, GCC part, the OTHER direction.  read_conference_create_response keeps only the I/O channel
   id, the channel ids and the (three-valued) version of a server response: the node id, tag, result, security
   block, optional core fields, block order and unknown blocks are dropped, so the bytes of an
   arbitrary response cannot come back.  What holds:
     (a) the CANONICAL response rebuilt from what was read (reference encoder of RefGcc.v: the three
         blocks in the order of MS-RDPBCGR 2.2.1.4, node id 1001, tag 1, result 0) is read back to the
         same server data: reading is idempotent through the reference encoder;
     (b) a response that IS in that reference form is reproduced byte for byte;
     (c) the I/O channel id and every channel id the reader returns are 16-bit values. *)
From RdpV Require Import Base Msg MsgInd MsgTheory MsgSafe MsgProv Per RefPer Gcc RefGcc
  C18_per_proofs C18_gcc_proofs C18_inv_base C18_inv_per.
Open Scope string_scope.
Open Scope list_scope.
Open Scope N_scope.

Definition version_code (v : gcc_version) : N :=
  match v with RdpVersion => 524289 | RdpVersion5plus => 524292 | VersionUnknown => 0 end.

Lemma version_from_code v : version_from (version_code v) = v.
Proof. destruct v; reflexivity. Qed.

(* the canonical response for a server data *)
Definition gcc_canonical (io : N) (ids : list N) (v : gcc_version) : option bytes :=
  ref_conference_create_response 1001 1 0
    (ref_sc_core (version_code v) None None ++ ref_sc_security 0 0 ++ ref_sc_net io ids).

Theorem gcc_canonical_read p io ids v : io < 65536 -> Forall (fun i => i < 65536) ids -> nlen ids < 16000 ->
  exists b, gcc_canonical io ids v = Some b /\ gcc_read_conference_create_response p b = Ok (io, ids, v).
Proof.
  intros Hio Hids Hn. unfold gcc_canonical.
  destruct (gcc_response_defined 1001 1 0 (version_code v) None None 0 0 io ids) as [b Hb]; try lia.
  exists b. split; [exact Hb|].
  assert (E : gcc_read_conference_create_response p b = Ok (io, ids, version_from (version_code v))).
  { apply (gcc_response_roundtrip p 1001 1 0 (version_code v) None None 0 0 io ids b); try exact I; try lia; try assumption.
    destruct v; cbn; lia. }
  rewrite version_from_code in E. exact E.
Qed.

(* ================================================================ (c) what the reader returns *)
(* the PER readers of the envelope leave a suffix of their input *)
Definition leaves_suffix {A} (o : outcome (A * bytes)) (i : bytes) : Prop :=
  match o with Ok (_, r) => exists pre, i = pre ++ r | _ => True end.

Lemma sfx_u8 i : leaves_suffix (rd_u8 i) i.
Proof. destruct i as [|b r]; cbn; [exact I|]. exists [b]. reflexivity. Qed.

Lemma sfx_length i : leaves_suffix (per_read_length i) i.
Proof.
  unfold per_read_length. destruct i as [|b r]; cbn [rd_u8 obind leaves_suffix]; [exact I|].
  destruct (N.land b 128 =? 0); cbn [leaves_suffix]; [exists [b]; reflexivity|].
  destruct r as [|b2 r2]; cbn [rd_u8 obind leaves_suffix]; [exact I|]. exists [b; b2]. reflexivity.
Qed.

Lemma sfx_bind {A B} (o : outcome (A * bytes)) (f : A * bytes -> outcome (B * bytes)) i :
  leaves_suffix o i -> (forall a r, leaves_suffix (f (a, r)) r) -> leaves_suffix (obind o f) i.
Proof.
  intros Ho Hf. destruct o as [[a r]| | |]; cbn [obind leaves_suffix] in *; try exact I.
  specialize (Hf a r). destruct (f (a, r)) as [[b r']| | |]; cbn [leaves_suffix] in *; try exact I.
  destruct Ho as [p1 ->]. destruct Hf as [p2 ->]. exists (p1 ++ p2). now rewrite app_assoc.
Qed.

Lemma sfx_oid oid i : leaves_suffix (per_read_object_identifier oid i) i.
Proof.
  unfold per_read_object_identifier. destruct (negb (nlen oid =? 6)); [exact I|].
  apply sfx_bind; [apply sfx_length|]. intros len r. destruct (negb (len =? 5)); [exact I|].
  apply sfx_bind; [apply sfx_u8|]. intros t r1. apply sfx_bind; [apply sfx_u8|]. intros a2 r2.
  apply sfx_bind; [apply sfx_u8|]. intros a3 r3. apply sfx_bind; [apply sfx_u8|]. intros a4 r4.
  apply sfx_bind; [apply sfx_u8|]. intros a5 r5. cbn. exists []. reflexivity.
Qed.

Lemma sfx_int16 m i : leaves_suffix (per_read_integer_16 m i) i.
Proof.
  unfold per_read_integer_16. destruct i as [|a [|b r]]; cbn [rd_u16be obind leaves_suffix]; try exact I.
  destruct (of_be16 a b + m <? 65536); cbn; [|exact I]. exists [a; b]. reflexivity.
Qed.

Lemma sfx_integer i : leaves_suffix (per_read_integer i) i.
Proof.
  unfold per_read_integer. apply sfx_bind; [apply sfx_length|]. intros size r.
  destruct (size =? 1); [apply sfx_u8|]. destruct (size =? 2).
  - destruct r as [|a [|b r2]]; cbn; try exact I. exists [a; b]. reflexivity.
  - destruct (size =? 4); [|exact I]. destruct r as [|a [|b [|c [|d r4]]]]; cbn; try exact I. exists [a; b; c; d]. reflexivity.
Qed.

Lemma sfx_octets p s m i : leaves_suffix (per_read_octet_stream p s m i) i.
Proof.
  unfold per_read_octet_stream. apply sfx_bind; [apply sfx_length|]. intros l r.
  destruct (add_w p 64 l m) as [n| | |]; cbn [obind]; try exact I.
  destruct (negb (n =? nlen s)); [exact I|].
  destruct (expect_octets s r) as [[[] r']| | |] eqn:E; cbn; try exact I.
  apply expect_octets_ok in E. subst r. eexists; reflexivity.
Qed.

(* channel ids are read as 16-bit little-endian values *)
Lemma produced_u16 p e : produced p (g_u16 0) e -> exists v, e = MU16 LE v /\ v < 65536.
Proof.
  intros (inp & r & a & Hwf & Hr). unfold g_u16 in Hr. cbn [read] in Hr.
  destruct inp as [|b0 [|b1 r']]; try discriminate. injection Hr as <- _ _.
  inversion Hwf as [|? ? H0 Hwf']; subst. inversion Hwf' as [|? ? H1 _]; subst.
  eexists. split; [reflexivity|]. unfold of_le16. lia.
Qed.

Lemma u16_values_bounded p els : Forall (produced p (g_u16 0)) els -> forall ids, u16_values els = Ok ids ->
  Forall (fun i => i < 65536) ids.
Proof.
  induction 1 as [|e els He Hels IH]; intros ids H; cbn [u16_values] in H.
  - injection H as <-. constructor.
  - destruct (produced_u16 p e He) as (v & -> & Hv).
    change (cast_num 16 (Some (MU16 LE v))) with (Ok v) in H.
    destruct (u16_values els) as [r| | |]; try discriminate. cbn [obind] in H. injection H as <-.
    constructor; [exact Hv|]. apply IH. reflexivity.
Qed.

Definition blocks_ok (p : prof) (b : blocks) : Prop :=
  match b_net b with Some m => produced p server_network_data m | None => True end.

Lemma ntake_wf n i a r : wf_bytes i -> ntake n i = Some (a, r) -> wf_bytes a /\ wf_bytes r.
Proof. intros Hwf H. apply ntake_inv in H. destruct H as [-> _]. apply wf_app_inv. exact Hwf. Qed.

Lemma read_blocks_ok p : forall fuel sub acc b, wf_bytes sub -> blocks_ok p acc ->
  gcc_read_blocks p fuel sub acc = Ok b -> blocks_ok p b.
Proof.
  induction fuel as [|fuel IH]; intros sub acc b Hwf Hacc H; cbn [gcc_read_blocks] in H; [discriminate|].
  destruct sub as [|t0 [|t1 [|l0 [|l1 rest]]]]; try (injection H as <-; exact Hacc).
  destruct (of_le16 l0 l1 <? 4); [discriminate|]. cbn [obind] in H.
  destruct (ntake (of_le16 l0 l1 - 4) rest) as [[buffer rest']|] eqn:Et; [|discriminate].
  assert (Hwr : wf_bytes rest).
  { inversion Hwf as [|? ? _ H1]; subst. inversion H1 as [|? ? _ H2]; subst. inversion H2 as [|? ? _ H3]; subst.
    inversion H3; assumption. }
  destruct (ntake_wf _ _ _ _ Hwr Et) as [Hwb Hwr'].
  destruct (of_le16 t0 t1 =? SC_CORE).
  - destruct (read p server_core_data buffer) as [m r a|e r a| |]; try discriminate. cbn [lift_read obind] in H.
    refine (IH _ _ _ Hwr' _ H). exact Hacc.
  - destruct (of_le16 t0 t1 =? SC_SECURITY).
    + destruct (read p server_security_data buffer) as [m r a|e r a| |]; try discriminate. cbn [lift_read obind] in H.
      exact (IH _ _ _ Hwr' Hacc H).
    + destruct (of_le16 t0 t1 =? SC_NET).
      * destruct (read p server_network_data buffer) as [m r a|e r a| |] eqn:Er; try discriminate. cbn [lift_read obind] in H.
        refine (IH _ _ _ Hwr' _ H). unfold blocks_ok. cbn [b_net]. exists buffer, r, a. split; assumption.
      * exact (IH _ _ _ Hwr' Hacc H).
Qed.

Lemma safe_server_network_data : safe server_network_data = true.
Proof. vm_compute. reflexivity. Qed.

Lemma server_data_ids_bounded p b io ids v : blocks_ok p b -> gcc_server_data b = Ok (io, ids, v) ->
  io < 65536 /\ Forall (fun i => i < 65536) ids.
Proof.
  unfold blocks_ok, gcc_server_data. intros Hb H. destruct (b_net b) as [net|]; [|discriminate].
  destruct (b_core b) as [core|]; [|discriminate].
  destruct (get net "channelIdArray") as [arr|] eqn:Eg; [|discriminate].
  destruct (comp_array_field p _ net "channelIdArray" (g_u16 0) arr safe_server_network_data Hb eq_refl Eg) as (l & Hl & HF).
  rewrite Hl in H.
  destruct (get net "MCSChannelId") as [iov|] eqn:Ei; [|discriminate].
  assert (Hiov : exists x, iov = MU16 LE x /\ x < 65536).
  { destruct (comp_field_prov p _ net "MCSChannelId" iov safe_server_network_data Hb Ei) as (tv & Hlk & [->|Hpr]).
    - injection Hlk as <-. exists 0. split; [reflexivity|lia].
    - injection Hlk as <-. exact (produced_u16 p iov Hpr). }
  destruct Hiov as (x & -> & Hx). change (cast_num 16 (Some (MU16 LE x))) with (Ok x) in H. cbn [obind] in H.
  destruct (u16_values l) as [ids'| | |] eqn:Eu; try discriminate. cbn [obind] in H.
  destruct (cast_num 32 (get core "rdpVersion")); try discriminate. cbn [obind] in H. injection H as <- <- _.
  split; [exact Hx|]. exact (u16_values_bounded p l HF ids' Eu).
Qed.

(* step through the envelope, keeping only that the block area is made of octets *)
Theorem gcc_read_ids_bounded p bs io ids v : all_bytes bs = true ->
  gcc_read_conference_create_response p bs = Ok (io, ids, v) -> io < 65536 /\ Forall (fun i => i < 65536) ids.
Proof.
  intros Hb H. unfold gcc_read_conference_create_response in H.
  (* each reader of the envelope leaves a suffix, hence octets *)
  Ltac step H Hb lem r :=
    match type of H with
    | obind ?o _ = _ =>
        let S := fresh "S" in
        pose proof lem as S;
        match type of S with leaves_suffix _ ?i => change (leaves_suffix o i) in S end;
        revert S; destruct o as [[? r]| | |]; intros S; try discriminate H; cbn [obind] in H; cbn [leaves_suffix] in S;
        let pre := fresh "pre" in destruct S as [pre ->]; apply all_bytes_app in Hb; destruct Hb as [_ Hb]
    end.
  step H Hb (sfx_u8 bs) r1.
  step H Hb (sfx_oid T124_02_98_OID r1) r2.
  step H Hb (sfx_length r2) r3.
  step H Hb (sfx_u8 r3) r4.
  step H Hb (sfx_int16 1001 r4) r5.
  step H Hb (sfx_integer r5) r6.
  step H Hb (sfx_u8 r6) r7.
  step H Hb (sfx_u8 r7) r8.
  step H Hb (sfx_u8 r8) r9.
  step H Hb (sfx_octets p H221_SC_KEY 4 r9) r10.
  step H Hb (sfx_length r10) r11.
  match type of H with obind (gcc_read_blocks p ?f ?sub ?acc) _ = _ =>
    destruct (gcc_read_blocks p f sub acc) as [blk| | |] eqn:Eb; try discriminate H; cbn [obind] in H;
    assert (Hwf : wf_bytes sub) by (apply all_bytes_wf, all_bytes_firstn; exact Hb)
  end.
  apply (server_data_ids_bounded p blk io ids v); [|exact H].
  eapply read_blocks_ok; [exact Hwf| |exact Eb]. exact I.
Qed.

(* ================================================================ (a) idempotence, (b) reference form *)
Theorem gcc_read_idempotent p bs io ids v : all_bytes bs = true ->
  gcc_read_conference_create_response p bs = Ok (io, ids, v) -> nlen ids < 16000 ->
  exists b, gcc_canonical io ids v = Some b /\ gcc_read_conference_create_response p b = Ok (io, ids, v).
Proof.
  intros Hb H Hn. destruct (gcc_read_ids_bounded p bs io ids v Hb H) as [Hio Hids].
  apply gcc_canonical_read; assumption.
Qed.

Theorem gcc_reference_form_reproduced p bs io ids v io' ids' v' :
  io < 65536 -> Forall (fun i => i < 65536) ids -> nlen ids < 16000 -> gcc_canonical io ids v = Some bs ->
  gcc_read_conference_create_response p bs = Ok (io', ids', v') -> gcc_canonical io' ids' v' = Some bs.
Proof.
  intros Hio Hids Hn Hc Hr. destruct (gcc_canonical_read p io ids v Hio Hids Hn) as (b & Hb & Hrb).
  rewrite Hc in Hb. injection Hb as <-. rewrite Hr in Hrb. injection Hrb as -> -> ->. exact Hc.
Qed.

(* non-vacuity: a response with a security block first, an unknown block, optional core fields, another node id:
   read, rebuilt canonically (different bytes), read again to the same server data *)
Example gcc_idempotent_example :
  let bs := [0; 5; 0; 20; 124; 0; 1; 54; 20; 118; 10; 1; 1; 0; 1; 192; 0; 77; 99; 68; 110; 40;
             1; 12; 12; 0; 4; 0; 8; 0; 1; 0; 0; 0;
             2; 12; 12; 0; 0; 0; 0; 0; 0; 0; 0; 0;
             3; 12; 16; 0; 235; 3; 3; 0; 236; 3; 237; 3; 238; 3; 0; 0] in
  gcc_read_conference_create_response Debug bs = Ok (1003, [1004; 1005; 1006], RdpVersion5plus) /\
  match gcc_canonical 1003 [1004; 1005; 1006] RdpVersion5plus with
  | Some b => b <> bs /\ gcc_read_conference_create_response Debug b = Ok (1003, [1004; 1005; 1006], RdpVersion5plus)
              /\ gcc_canonical 1003 [1004; 1005; 1006] RdpVersion5plus = Some b
  | None => False
  end.
Proof. vm_compute. split; [reflexivity|]. split; [discriminate|]. split; reflexivity. Qed.
