(* Model of src/nla/rc4.rs: Rc4::{new, next, process}.  Executable, over N / list N.
   `i`, `j` are u8 (wrapping_add = mod 256). *)
From RdpV Require Import Base.

(* u8 wrapping arithmetic: N.land _ 255 = _ mod 256 (faster to evaluate than N.modulo) *)
Definition wrap8 (x : N) : N := N.land x 255.

(* The state array [u8; 256] is kept as 16 rows of 16 entries (state[16*r + c]) so that an
   indexed read / write walks at most 16 + 16 cells; purely an evaluation-speed matter. *)
Definition sbox := list (list N).
Record rc4 := mkRc4 { r_i : N; r_j : N; r_s : sbox }.

Definition nth_b (l : list N) (i : N) : N := nth (N.to_nat i) l 0.

Fixpoint upd {A} (l : list A) (i : nat) (v : A) : list A :=
  match l, i with
  | [], _ => []
  | _ :: r, O => v :: r
  | x :: r, S k => x :: upd r k v
  end.

Definition sget (s : sbox) (i : N) : N :=
  nth (N.to_nat (N.land i 15)) (nth (N.to_nat (N.shiftr i 4)) s []) 0.
Definition sset (s : sbox) (i : N) (v : N) : sbox :=
  let r := N.to_nat (N.shiftr i 4) in
  upd s r (upd (nth r s []) (N.to_nat (N.land i 15)) v).

(* <[u8]>::swap(i, j) *)
Definition swap (s : sbox) (i j : N) : sbox :=
  let a := sget s i in
  let b := sget s j in
  sset (sset s i b) j a.

Definition identity_perm : sbox :=
  map (fun r => map (fun c => N.of_nat (16 * r + c)) (seq 0 16)) (seq 0 16).

(* key schedule: for i in 0..256 { j = j + state[i] + key[i % key.len()]; swap(i, j) } *)
Fixpoint ksa (n : nat) (i j : N) (key : bytes) (s : sbox) : sbox :=
  match n with
  | O => s
  | S n' =>
      let j' := wrap8 (j + sget s i + nth_b key (i mod nlen key)) in
      ksa n' (i + 1) j' key (swap s i j')
  end.

(* Rc4::new: assert!(key.len() >= 1 && key.len() <= 256) *)
Definition rc4_new (key : bytes) : outcome rc4 :=
  if (1 <=? nlen key) && (nlen key <=? 256)
  then Ok (mkRc4 0 0 (ksa 256 0 0 key identity_perm))
  else Panic.

(* Rc4::next: one keystream byte *)
Definition rc4_next (r : rc4) : N * rc4 :=
  let i := wrap8 (r_i r + 1) in
  let j := wrap8 (r_j r + sget (r_s r) i) in
  let s := swap (r_s r) i j in
  let k := sget s (wrap8 (sget s i + sget s j)) in
  (k, mkRc4 i j s).

(* Rc4::process(input, output) with output.len() == input.len() (every caller allocates
   vec![0; input.len()]): y = x ^ next() for each byte, the state threaded *)
Fixpoint rc4_process (r : rc4) (input : bytes) : bytes * rc4 :=
  match input with
  | [] => ([], r)
  | x :: rest =>
      let (k, r1) := rc4_next r in
      let (out, r2) := rc4_process r1 rest in
      (N.lxor x k :: out, r2)
  end.

(* ntlm.rs rc4k: one-shot RC4 under a fresh key *)
Definition rc4k (key plaintext : bytes) : outcome bytes :=
  obind (rc4_new key) (fun h => Ok (fst (rc4_process h plaintext))).

