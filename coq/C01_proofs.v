(* C01 lemmas: the CredSSP gate (CsspGate.v).  Hashes, DER codecs, certificate key: all parameters. *)
From RdpV Require Import Base Msg Link Rc4 Rc4_proofs Utf Ntlm NtlmSeal RefNlmpSeal C16_proofs CsspGate.
Open Scope N_scope.
#[local] Notation length := List.length (only parsing).

Section GateProofs.
Variable md5 : bytes -> bytes.
Variable hmac : bytes -> bytes -> bytes.
Variable p : prof.
Variable create_ts_request : bytes -> bytes.
Variable create_ts_authenticate : bytes -> bytes -> bytes.
Variable create_ts_credentials : bytes -> bytes -> bytes -> bytes.
Variable create_ts_authinfo : bytes -> bytes.
Variable read_ts_server_challenge : bytes -> outcome bytes.
Variable read_ts_validate : bytes -> outcome bytes.
Hypothesis hmac_len : forall k x, length (hmac k x) = 16%nat.

Notation final := (final_round hmac create_ts_credentials create_ts_authinfo read_ts_validate).
Notation connect := (cssp_connect md5 hmac p create_ts_request create_ts_authenticate create_ts_credentials
                                  create_ts_authinfo read_ts_server_challenge read_ts_validate).

(* the server proved the key: the reply decodes, unseals under ctx, and equals pubkey + 1 numerically *)
Definition proved (pubkey : bytes) (ctx : secif) (reply : bytes) : Prop :=
  exists pka pt, read_ts_validate reply = Ok pka /\ fst (gss_unwrapex hmac ctx pka) = Ok pt /\
                 le_nat pt = le_nat pubkey + 1.

Lemma wrap_ok ctx data : exists tok ctx', gss_wrapex hmac ctx data = Ok (tok, ctx').
Proof. eexists. eexists. apply (wrap_is_seal hmac hmac_len). Qed.

(* ---------- the last round ---------- *)
Theorem final_round_cases st ra u pk ctx reply :
  (proved pk ctx reply /\ exists m, final st ra u pk ctx reply = (Ok tt, [m])) \/
  (~ proved pk ctx reply /\
   ((exists e, final st ra u pk ctx reply = (Err e, [])) \/
    ((read_ts_validate reply = Panic \/ read_ts_validate reply = Spin) /\ snd (final st ra u pk ctx reply) = []
     /\ fst (final st ra u pk ctx reply) <> Ok tt))).
Proof.
  unfold final_round, proved.
  destruct (read_ts_validate reply) as [pka|e| |] eqn:Ed.
  - pose proof (unwrap_outcomes hmac hmac_len ctx pka) as Ho.
    destruct (gss_unwrapex hmac ctx pka) as [[pt|e| |] ctx'] eqn:Eu; cbn [fst] in Ho; try contradiction.
    + destruct (N.eqb_spec (le_nat pt) (le_nat pk + 1)) as [Eq|Ne]; cbn [negb].
      * left. split.
        -- exists pka, pt. rewrite Eu. repeat split; auto.
        -- cbv zeta. match goal with |- context [gss_wrapex hmac ?c ?d] => destruct (wrap_ok c d) as (tok & c2 & Ew) end.
           rewrite Ew. eexists. reflexivity.
      * right. split.
        -- intros (pka' & pt' & E1 & E2 & E3). injection E1 as <-. rewrite Eu in E2. cbn [fst] in E2. injection E2 as <-. contradiction.
        -- left. eexists. reflexivity.
    + right. split.
      * intros (pka' & pt' & E1 & E2 & _). injection E1 as <-. rewrite Eu in E2. cbn [fst] in E2. discriminate.
      * left. eexists. reflexivity.
  - right. split; [intros (? & ? & E & _); discriminate | left; eexists; reflexivity].
  - right. split; [intros (? & ? & E & _); discriminate |]. right. cbn. repeat split; auto; discriminate.
  - right. split; [intros (? & ? & E & _); discriminate |]. right. cbn. repeat split; auto; discriminate.
Qed.

(* credentials are written in the last round ONLY IF the server proved the key *)
Corollary final_round_gate st ra u pk ctx reply :
  snd (final st ra u pk ctx reply) <> [] -> proved pk ctx reply.
Proof.
  intro H. destruct (final_round_cases st ra u pk ctx reply) as [[Hp _]|[_ [[e E]|(_ & E & _)]]]; auto.
  - rewrite E in H. cbn in H. congruence.
  - congruence.
Qed.

(* ... and whenever it did not, the round ends in an error with nothing written (given a decoder that returns) *)
Corollary final_round_refuse st ra u pk ctx reply :
  ~ proved pk ctx reply -> read_ts_validate reply <> Panic -> read_ts_validate reply <> Spin ->
  exists e, final st ra u pk ctx reply = (Err e, []).
Proof.
  intros Hn H1 H2. destruct (final_round_cases st ra u pk ctx reply) as [[Hp _]|[_ [E|([E|E] & _)]]]; auto; contradiction.
Qed.

(* unconditional refusals *)
Lemma refuse_decode st ra u pk ctx reply e :
  read_ts_validate reply = Err e -> final st ra u pk ctx reply = (Err e, []).
Proof. intro E. unfold final_round. rewrite E. reflexivity. Qed.

Lemma refuse_unseal st ra u pk ctx reply pka e :
  read_ts_validate reply = Ok pka -> fst (gss_unwrapex hmac ctx pka) = Err e ->
  final st ra u pk ctx reply = (Err e, []).
Proof.
  intros E1 E2. unfold final_round. rewrite E1. destruct (gss_unwrapex hmac ctx pka) as [r c]. cbn [fst] in E2. subst r. reflexivity.
Qed.

(* any value other than key + 1 (as little-endian integers), even correctly sealed and signed *)
Lemma refuse_value st ra u pk ctx reply pka pt :
  read_ts_validate reply = Ok pka -> fst (gss_unwrapex hmac ctx pka) = Ok pt ->
  le_nat pt <> le_nat pk + 1 ->
  final st ra u pk ctx reply = (Err EPossibleMITM, []).
Proof.
  intros E1 E2 Hne. unfold final_round. rewrite E1. destruct (gss_unwrapex hmac ctx pka) as [r c]. cbn [fst] in E2. subst r.
  replace (le_nat pt =? le_nat pk + 1) with false by (symmetry; apply N.eqb_neq; exact Hne). reflexivity.
Qed.

Corollary refuse_offset st ra u pk ctx reply pka pt k :
  read_ts_validate reply = Ok pka -> fst (gss_unwrapex hmac ctx pka) = Ok pt ->
  le_nat pt = le_nat pk + k -> k <> 1 ->
  final st ra u pk ctx reply = (Err EPossibleMITM, []).
Proof. intros E1 E2 Hk Hne. apply (refuse_value st ra u pk ctx reply pka pt E1 E2). lia. Qed.

(* a proof computed for ANOTHER certificate's key (relay / MITM) *)
Corollary refuse_other_certificate st ra u pk pk' ctx reply pka pt :
  read_ts_validate reply = Ok pka -> fst (gss_unwrapex hmac ctx pka) = Ok pt ->
  le_nat pt = le_nat pk' + 1 -> le_nat pk' <> le_nat pk ->
  final st ra u pk ctx reply = (Err EPossibleMITM, []).
Proof. intros E1 E2 Hk Hne. apply (refuse_value st ra u pk ctx reply pka pt E1 E2). lia. Qed.

Corollary refuse_truncated st ra u pk ctx reply pka :
  read_ts_validate reply = Ok pka -> (length pka < 16)%nat ->
  final st ra u pk ctx reply = (Err EIo, []) \/ final st ra u pk ctx reply = (Err EInvalidConst, []).
Proof.
  intros E1 Hl. destruct (unwrap_short hmac ctx pka Hl) as [_ [E|E]]; [left|right]; eapply refuse_unseal; eauto.
Qed.

Corollary refuse_version st ra u pk ctx reply v rest :
  read_ts_validate reply = Ok (v ++ rest) -> length v = 4%nat -> v <> [1; 0; 0; 0] ->
  final st ra u pk ctx reply = (Err EInvalidConst, []).
Proof.
  intros E1 Hv Hne. eapply refuse_unseal; [exact E1|]. rewrite (tamper_version hmac ctx v rest Hv Hne). reflexivity.
Qed.

Corollary refuse_checksum st ra u pk ctx reply v cks cks' sq ct pt :
  length v = 4%nat -> length cks = 8%nat -> length cks' = 8%nat -> length sq = 4%nat ->
  fst (gss_unwrapex hmac ctx (v ++ cks ++ sq ++ ct)) = Ok pt -> cks' <> cks ->
  read_ts_validate reply = Ok (v ++ cks' ++ sq ++ ct) ->
  final st ra u pk ctx reply = (Err EInvalidChecksum, []).
Proof.
  intros Hv Hc Hc' Hs Hok Hne E1. eapply refuse_unseal; [exact E1|].
  apply (tamper_checksum hmac hmac_len ctx v cks cks' sq ct pt); assumption.
Qed.

(* SeqNum / ciphertext alterations of an accepted token: rejected under the no-collision premise *)
Corollary refuse_seq_ct st ra u pk ctx reply v cks sq sq' ct ct' pt :
  length v = 4%nat -> length cks = 8%nat -> length sq = 4%nat -> length sq' = 4%nat ->
  Forall (fun b => b < 256) sq -> Forall (fun b => b < 256) sq' -> length ct' = length ct ->
  fst (gss_unwrapex hmac ctx (v ++ cks ++ sq ++ ct)) = Ok pt -> (sq', ct') <> (sq, ct) ->
  hmac8 hmac (s_verify ctx) sq' (fst (rc4_process (s_dec ctx) ct')) <> hmac8 hmac (s_verify ctx) sq pt ->
  read_ts_validate reply = Ok (v ++ cks ++ sq' ++ ct') ->
  final st ra u pk ctx reply = (Err EInvalidChecksum, []).
Proof.
  intros Hv Hc Hs Hs' W W' Hl Hok Hne Hnc E1. eapply refuse_unseal; [exact E1|].
  apply (tamper_seq_ct_rejected hmac hmac_len ctx v cks sq sq' ct ct' pt); assumption.
Qed.

(* EXACT acceptance condition of the last round on a 16+n byte token *)
Theorem final_accept_iff st ra u pk ctx reply v cks sq ct :
  read_ts_validate reply = Ok (v ++ cks ++ sq ++ ct) ->
  length v = 4%nat -> length cks = 8%nat -> length sq = 4%nat ->
  (snd (final st ra u pk ctx reply) <> [] <->
   v = [1; 0; 0; 0] /\
   fst (rc4_process (snd (rc4_process (s_dec ctx) ct)) cks)
     = hmac8 hmac (s_verify ctx) (le32 (le32_val sq)) (fst (rc4_process (s_dec ctx) ct)) /\
   le_nat (fst (rc4_process (s_dec ctx) ct)) = le_nat pk + 1).
Proof.
  intros E1 Hv Hc Hs. split.
  - intro H. apply final_round_gate in H. destruct H as (pka & pt & E & Hu & Hle).
    rewrite E1 in E. injection E as <-.
    apply (unwrap_accept_iff hmac hmac_len ctx v cks sq ct pt Hv Hc Hs) in Hu. destruct Hu as (-> & -> & Hck). auto.
  - intros (-> & Hck & Hle).
    assert (Hp : proved pk ctx reply).
    { exists ([1; 0; 0; 0] ++ cks ++ sq ++ ct), (fst (rc4_process (s_dec ctx) ct)). split; [exact E1|]. split; [|exact Hle].
      apply (unwrap_accept_iff hmac hmac_len ctx [1; 0; 0; 0] cks sq ct _ Hv Hc Hs). auto. }
    destruct (final_round_cases st ra u pk ctx reply) as [[_ [m E]]|[Hn _]]; [|contradiction].
    rewrite E. cbn. discriminate.
Qed.

(* an honest server (conforming sealing in the server-to-client direction, ANY sequence number) that proves
   a value numerically equal to key + 1 is accepted *)
Theorem final_accepts_honest st ra u pk ctx reply n value :
  read_ts_validate reply = Ok (fst (nlmp_wrap hmac (recv_dir ctx n) value)) ->
  le_nat value = le_nat pk + 1 ->
  exists m, final st ra u pk ctx reply = (Ok tt, [m]).
Proof.
  intros E1 Hle.
  destruct (final_round_cases st ra u pk ctx reply) as [[_ H]|[Hn _]]; [exact H|].
  exfalso. apply Hn. eexists. exists value. split; [exact E1|]. split; [|exact Hle].
  apply (peer_numbering_free hmac hmac_len).
Qed.

(* ---------- reflection: the server echoes the client's own pubKeyAuth token ---------- *)
(* the token of round 2, spelled out: sealed with the CLIENT's sealing handle and signing key *)
Lemma own_token_form c0 pk tok c1 :
  gss_wrapex hmac c0 pk = Ok (tok, c1) ->
  let ct := fst (rc4_process (s_enc c0) pk) in
  let cks := fst (rc4_process (snd (rc4_process (s_enc c0) pk)) (firstn 8 (hmac (s_sign c0) (le32 (s_seq c0) ++ pk)))) in
  tok = [1; 0; 0; 0] ++ cks ++ le32 (s_seq c0) ++ ct /\ length cks = 8%nat /\
  s_dec c1 = s_dec c0 /\ s_verify c1 = s_verify c0.
Proof.
  intro Ew. rewrite (wrap_is_seal hmac hmac_len) in Ew. injection Ew as <- <-.
  unfold nlmp_wrap, SEAL, MAC, send_dir, with_send. cbn [handle sigkey seqnum].
  destruct (rc4_process (s_enc c0) pk) as [ct e1]. cbn [fst snd].
  pose proof (rc4_process_length (firstn 8 (hmac (s_sign c0) (le32 (s_seq c0) ++ pk))) e1) as Hl.
  destruct (rc4_process e1 (firstn 8 (hmac (s_sign c0) (le32 (s_seq c0) ++ pk)))) as [ck e2]. cbn [fst snd] in *.
  rewrite firstn_8_of_16 in Hl by apply hmac_len.
  cbn [fst snd s_dec s_verify]. rewrite <- !app_assoc. repeat split; auto.
Qed.

(* The reflected token is decrypted with the SERVER-to-client handle and checked with the server's signing
   key: it passes only if the equation below holds between keystreams / HMACs under DIFFERENT keys (and then the
   decrypted garbage would still have to equal key + 1).  Under the premise that it does not, the round fails. *)
Theorem reflection_iff st ra u pk c0 tok c1 reply :
  gss_wrapex hmac c0 pk = Ok (tok, c1) -> read_ts_validate reply = Ok tok ->
  let ct := fst (rc4_process (s_enc c0) pk) in
  let cks := fst (rc4_process (snd (rc4_process (s_enc c0) pk)) (firstn 8 (hmac (s_sign c0) (le32 (s_seq c0) ++ pk)))) in
  let garbage := fst (rc4_process (s_dec c0) ct) in
  (snd (final st ra u pk c1 reply) <> [] <->
   fst (rc4_process (snd (rc4_process (s_dec c0) ct)) cks) = hmac8 hmac (s_verify c0) (le32 (s_seq c0)) garbage /\
   le_nat garbage = le_nat pk + 1).
Proof.
  intros Ew Ed ct cks garbage.
  destruct (own_token_form c0 pk tok c1 Ew) as (Et & Hc & Hd & Hv). fold ct cks in Et, Hc.
  rewrite Et in Ed.
  rewrite (final_accept_iff st ra u pk c1 reply [1; 0; 0; 0] cks (le32 (s_seq c0)) ct Ed eq_refl Hc (le32_length _)).
  rewrite Hd, Hv, le32_val_le32. fold garbage. split; [intros (_ & A & B); auto | intros (A & B); auto].
Qed.

Corollary reflection_rejected st ra u pk c0 tok c1 reply :
  gss_wrapex hmac c0 pk = Ok (tok, c1) -> read_ts_validate reply = Ok tok ->
  let ct := fst (rc4_process (s_enc c0) pk) in
  let cks := fst (rc4_process (snd (rc4_process (s_enc c0) pk)) (firstn 8 (hmac (s_sign c0) (le32 (s_seq c0) ++ pk)))) in
  fst (rc4_process (snd (rc4_process (s_dec c0) ct)) cks)
    <> hmac8 hmac (s_verify c0) (le32 (s_seq c0)) (fst (rc4_process (s_dec c0) ct)) ->
  exists e, final st ra u pk c1 reply = (Err e, []).
Proof.
  intros Ew Ed ct cks Hne.
  apply final_round_refuse; [ | rewrite Ed; discriminate | rewrite Ed; discriminate ].
  intro Hp. assert (H : snd (final st ra u pk c1 reply) <> []).
  { destruct (final_round_cases st ra u pk c1 reply) as [[_ [m E]]|[Hn _]]; [rewrite E; cbn; discriminate | contradiction]. }
  apply (reflection_iff st ra u pk c0 tok c1 reply Ew Ed) in H. destruct H as [H _]. contradiction.
Qed.

(* ---------- the whole exchange ---------- *)
(* context after round 2: build_security_interface under the exported session key, then the public key sealed *)
Definition round2_context (key pubkey : bytes) : option secif :=
  match build_security_interface md5 key with
  | Ok c0 => match gss_wrapex hmac c0 pubkey with Ok (_, c1) => Some c1 | _ => None end
  | _ => None
  end.

Definition second_reply (replies : stream) : bytes := fst (link_read0 (snd (link_read0 replies))).

Definition server_proved (cert : outcome bytes) (key : bytes) (replies : stream) : Prop :=
  exists pk ctx1, cert = Ok pk /\ round2_context key pk = Some ctx1 /\ proved pk ctx1 (second_reply replies).

Theorem connect_gate st ra cert replies nonce key :
  match snd (connect st ra cert replies nonce key) with
  | [] | [_] => fst (connect st ra cert replies nonce key) <> Ok tt
  | [_; _] => fst (connect st ra cert replies nonce key) <> Ok tt /\ ~ server_proved cert key replies
  | [_; _; _] => fst (connect st ra cert replies nonce key) = Ok tt /\ server_proved cert key replies
  | _ => False
  end.
Proof.
  unfold cssp_connect, server_proved, round2_context, second_reply.
  destruct (create_negotiate_message p) as [neg|e| |]; cbn [fst snd]; try discriminate.
  destruct (link_read0 replies) as [r1 replies1]. cbn [snd].
  destruct (read_ts_server_challenge r1) as [chal|e| |]; cbn [fst snd]; try discriminate.
  destruct (read_challenge_message hmac p st neg chal nonce key) as [tok|e| |]; cbn [fst snd]; try discriminate.
  destruct (build_security_interface md5 key) as [c0|e| |]; cbn [fst snd]; try discriminate.
  destruct cert as [pk|e| |]; cbn [fst snd]; try discriminate.
  destruct (gss_wrapex hmac c0 pk) as [[sealed c1]|e| |] eqn:Ew; cbn [fst snd]; try discriminate.
  destruct (link_read0 replies1) as [r2 rest]. cbn [fst].
  destruct (final_round_cases st ra (challenge_is_unicode p chal) pk c1 r2) as [[Hp [m E]]|[Hn H]].
  - rewrite E. cbn [fst snd app]. split; [reflexivity|]. exists pk, c1. rewrite Ew. auto.
  - assert (Hnp : ~ (exists pk0 ctx1, Ok pk = Ok pk0 /\ match gss_wrapex hmac c0 pk0 with Ok (_, c2) => Some c2 | _ => None end = Some ctx1 /\ proved pk0 ctx1 r2)).
    { intros (pk0 & ctx1 & E1 & E2 & Hp). injection E1 as <-. rewrite Ew in E2. injection E2 as <-. contradiction. }
    destruct H as [[e E]|(_ & E2 & E3)].
    + rewrite E. cbn [fst snd app]. split; [discriminate | exact Hnp].
    + destruct (final st ra (challenge_is_unicode p chal) pk c1 r2) as [res w]. cbn [fst snd] in *. subst w.
      cbn [app]. split; [exact E3 | exact Hnp].
Qed.

End GateProofs.

(* ---------- concrete exchange (non-vacuity): concrete MD4 / MD5 / HMAC-MD5, DER codecs of CsspGateExec ---------- *)
From RdpV Require Import Md5 Md4 Hmac DerRead CsspGateExec C15_proofs.

Definition ex_pubkey : bytes := [255; 255; 3; 4; 5; 6; 7; 8; 9; 200].
Definition ex_state : ntlm := ntlm_new md4 hmac_md5 ascii_upper ex_dom ex_user ex_pw.
(* server messages and client messages as the python reference (gen/credssp.py) produces them *)
Definition ex_reply1 : bytes := [48; 105; 160; 3; 2; 1; 2; 161; 98; 48; 96; 48; 94; 160; 92; 4; 90] ++ ex_chal_bytes.
Definition ex_reply2_ok : bytes :=
  [48; 35; 160; 3; 2; 1; 2; 163; 28; 4; 26; 1; 0; 0; 0; 118; 234; 79; 252; 208; 137; 176; 141; 0; 0; 0; 0; 85; 66; 155; 67; 118; 62; 2; 36; 108; 84].
Definition ex_reply2_zeros : bytes :=
  [48; 37; 160; 3; 2; 1; 2; 163; 30; 4; 28; 1; 0; 0; 0; 25; 55; 224; 29; 115; 32; 199; 122; 0; 0; 0; 0; 85; 66; 155; 67; 118; 62; 2; 36; 108; 84; 183; 60].
Definition ex_reply2_k2 : bytes :=
  [48; 35; 160; 3; 2; 1; 2; 163; 28; 4; 26; 1; 0; 0; 0; 230; 4; 213; 217; 209; 61; 229; 220; 0; 0; 0; 0; 84; 66; 155; 67; 118; 62; 2; 36; 108; 84].
Definition ex_reply2_reflected : bytes :=
  [48; 35; 160; 3; 2; 1; 2; 163; 28; 4; 26; 1; 0; 0; 0; 36; 32; 180; 248; 55; 155; 43; 225; 0; 0; 0; 0; 6; 15; 104; 155; 80; 212; 70; 174; 202; 4].
Definition ex_reply2_wrongkey : bytes :=
  [48; 35; 160; 3; 2; 1; 2; 163; 28; 4; 26; 1; 0; 0; 0; 141; 71; 202; 143; 244; 162; 197; 212; 0; 0; 0; 0; 134; 215; 92; 77; 133; 97; 32; 34; 253; 135].
Definition ex_w1 : bytes := [48; 47; 160; 3; 2; 1; 2; 161; 40; 48; 38; 48; 36; 160; 34; 4; 32] ++ ex_negotiate.
Definition ex_w2 : bytes :=
  [48; 130; 1; 8; 160; 3; 2; 1; 2; 161; 129; 226; 48; 129; 223; 48; 129; 220; 160; 129; 217; 4; 129; 214] ++ ex_token ++
  [163; 28; 4; 26; 1; 0; 0; 0; 36; 32; 180; 248; 55; 155; 43; 225; 0; 0; 0; 0; 6; 15; 104; 155; 80; 212; 70; 174; 202; 4].
Definition ex_w3 : bytes :=
  [48; 76; 160; 3; 2; 1; 2; 162; 69; 4; 67; 1; 0; 0; 0; 198; 196; 42; 247; 177; 223; 152; 13; 1; 0; 0; 0; 230; 221; 158;
   207; 226; 134; 200; 2; 3; 197; 65; 38; 190; 26; 107; 182; 26; 139; 118; 220; 234; 222; 222; 155; 150; 61; 211; 109; 65;
   96; 41; 206; 27; 63; 37; 232; 50; 29; 150; 61; 36; 166; 235; 222; 244; 215; 2; 108; 32; 143; 110].

Definition ex_run (cert : outcome bytes) (reply2 : list bytes) : outcome unit * list bytes :=
  cssp_connect_c ascii_upper Debug ex_state false cert (ex_reply1 :: reply2) C15_proofs.ex_nonce C15_proofs.ex_key.

Lemma ex_gate :
  (* honest server: the third message (sealed credentials) is written, all three equal the reference client's *)
  ex_run (Ok ex_pubkey) [ex_reply2_ok] = (Ok tt, [ex_w1; ex_w2; ex_w3]) /\
  (* key + 1 with two trailing zero bytes: numerically equal, accepted *)
  fst (ex_run (Ok ex_pubkey) [ex_reply2_zeros]) = Ok tt /\
  (* key + 2, correctly sealed; the honest reply when the client saw ANOTHER key; the client's own token
     reflected; key + 1 sealed under a session key the server could not know; no reply: an error and
     exactly the first two messages *)
  ex_run (Ok ex_pubkey) [ex_reply2_k2] = (Err EPossibleMITM, [ex_w1; ex_w2]) /\
  (let r := ex_run (Ok (ex_pubkey ++ [1])) [ex_reply2_ok] in fst r = Err EPossibleMITM /\ length (snd r) = 2%nat) /\
  ex_run (Ok ex_pubkey) [ex_reply2_reflected] = (Err EInvalidChecksum, [ex_w1; ex_w2]) /\
  ex_run (Ok ex_pubkey) [ex_reply2_wrongkey] = (Err EInvalidChecksum, [ex_w1; ex_w2]) /\
  ex_run (Ok ex_pubkey) [] = (Err EAsn1, [ex_w1; ex_w2]) /\
  (* no certificate: nothing after the negotiate message *)
  ex_run (Err EInvalidData) [ex_reply2_ok] = (Err EInvalidData, [ex_w1]).
Proof. repeat split; vm_compute; reflexivity. Qed.
