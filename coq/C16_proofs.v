(* C16 lemmas: the security-interface model (NtlmSeal.v) against the MS-NLMP spec
   (RefNlmpSeal.v).  The hash functions are Section variables with one hypothesis each
   (digest length 16); they are instantiated with the concrete MD5/HMAC-MD5 at the end. *)
From RdpV Require Import Base Rc4 Rc4_proofs Md5 Hmac NtlmSeal RefNlmpSeal.

#[local] Arguments le32 : simpl never.
#[local] Arguments of_le32 : simpl never.
#[local] Arguments rc4_process : simpl never.
#[local] Arguments rc4_new : simpl never.
#[local] Arguments N.modulo : simpl never.
#[local] Arguments N.pow : simpl never.
#[local] Arguments N.add : simpl never.

(* ---------- small facts ---------- *)
Lemma le32_length n : length (le32 n) = 4%nat.
Proof. reflexivity. Qed.

Lemma le32_one : le32 1 = [1; 0; 0; 0].
Proof. reflexivity. Qed.

Lemma of_le32_one a b c d : of_le32 a b c d = 1 <-> a = 1 /\ b = 0 /\ c = 0 /\ d = 0.
Proof. unfold of_le32. lia. Qed.

Lemma le32_of_le32 a b c d :
  a < 256 -> b < 256 -> c < 256 -> d < 256 -> le32 (of_le32 a b c d) = [a; b; c; d].
Proof.
  intros Ha Hb Hc Hd. unfold le32, of_le32.
  assert (E0 : (a + 256 * b + 65536 * c + 16777216 * d) mod 256 = a).
  { replace (a + 256 * b + 65536 * c + 16777216 * d) with (a + (b + 256 * c + 65536 * d) * 256) by lia.
    rewrite N.mod_add by lia. apply N.mod_small; lia. }
  assert (E1 : (a + 256 * b + 65536 * c + 16777216 * d) / 256 = b + 256 * c + 65536 * d).
  { replace (a + 256 * b + 65536 * c + 16777216 * d) with (a + (b + 256 * c + 65536 * d) * 256) by lia.
    rewrite N.div_add by lia. rewrite N.div_small by lia. lia. }
  assert (E2 : (a + 256 * b + 65536 * c + 16777216 * d) / 65536 = c + 256 * d).
  { replace (a + 256 * b + 65536 * c + 16777216 * d) with ((a + 256 * b) + (c + 256 * d) * 65536) by lia.
    rewrite N.div_add by lia. rewrite N.div_small by lia. lia. }
  assert (E3 : (a + 256 * b + 65536 * c + 16777216 * d) / 16777216 = d).
  { replace (a + 256 * b + 65536 * c + 16777216 * d) with ((a + 256 * b + 65536 * c) + d * 16777216) by lia.
    rewrite N.div_add by lia. rewrite N.div_small by lia. lia. }
  rewrite E0, E1, E2, E3.
  replace (b + 256 * c + 65536 * d) with (b + (c + 256 * d) * 256) by lia.
  rewrite N.mod_add by lia. rewrite (N.mod_small b) by lia.
  replace (c + 256 * d) with (c + d * 256) by lia.
  rewrite N.mod_add by lia. rewrite (N.mod_small c) by lia. rewrite (N.mod_small d) by lia.
  reflexivity.
Qed.

Lemma le32_bytes n : Forall (fun b => b < 256) (le32 n).
Proof. unfold le32. repeat constructor; apply N.mod_lt; lia. Qed.

(* what gss_unwrapex recomputes from the SeqNum field of a token sealed with number n *)
Definition le32_val (sq : bytes) : N :=
  match sq with [a; b; c; d] => of_le32 a b c d | _ => 0 end.

Lemma le32_val_le32 n : le32 (le32_val (le32 n)) = le32 n.
Proof.
  pose proof (le32_bytes n) as H. unfold le32 in H |- * at 2. unfold le32_val.
  inversion H as [|? ? H0 H']; subst. inversion H' as [|? ? H1 H'']; subst.
  inversion H'' as [|? ? H2 H''']; subst. inversion H''' as [|? ? H3 _]; subst.
  apply le32_of_le32; assumption.
Qed.

Lemma le32_val_wf sq : length sq = 4%nat -> Forall (fun b => b < 256) sq -> le32 (le32_val sq) = sq.
Proof.
  intros Hl H. destruct sq as [|a [|b [|c [|d [|e r]]]]]; try discriminate.
  inversion H as [|? ? H0 H']; subst. inversion H' as [|? ? H1 H'']; subst.
  inversion H'' as [|? ? H2 H''']; subst. inversion H''' as [|? ? H3 _]; subst.
  apply le32_of_le32; assumption.
Qed.

Lemma app_eq_same_length {A} (a : list A) : forall b x y,
  length a = length b -> a ++ x = b ++ y -> a = b /\ x = y.
Proof.
  induction a as [|h a IH]; intros [|h' b] x y Hl E; try discriminate; cbn [app] in *.
  - auto.
  - injection E as -> E. destruct (IH b x y) as [-> ->]; [cbn [length] in Hl; lia | exact E | auto].
Qed.

Lemma bytes_eqb_eq a : forall b, bytes_eqb a b = true <-> a = b.
Proof.
  induction a as [|x a IH]; intros [|y b]; cbn [bytes_eqb]; split; intro H; try discriminate; auto.
  - apply andb_true_iff in H. destruct H as [H1 H2]. apply N.eqb_eq in H1. apply IH in H2. congruence.
  - injection H as -> ->. rewrite N.eqb_refl. cbn. apply IH. reflexivity.
Qed.

Lemma same_elts_refl a : same_elts a a = true.
Proof.
  unfold same_elts. rewrite Nat.eqb_refl. cbn [andb].
  induction a as [|x a IH]; cbn [combine forallb fst snd]; auto. rewrite N.eqb_refl. exact IH.
Qed.

Lemma slice_0_8 (l : bytes) : (8 <= length l)%nat -> slice l 0 8 = Ok (firstn 8 l).
Proof.
  intro H. unfold slice. apply Nat.leb_le in H. rewrite H. reflexivity.
Qed.

Lemma firstn_8_of_16 (l : bytes) : length l = 16%nat -> length (firstn 8 l) = 8%nat.
Proof. intro H. rewrite firstn_length, H. reflexivity. Qed.

(* ---------- the two views of a client context ---------- *)
Definition send_dir (st : secif) : dirstate := mkDir (s_enc st) (s_sign st) (s_seq st).
Definition with_send (st : secif) (d : dirstate) : secif :=
  mkSecif (handle d) (s_dec st) (sigkey d) (s_verify st) (seqnum d).

Lemma send_with_send st d : send_dir (with_send st d) = d.
Proof. destruct d; reflexivity. Qed.
Lemma with_send_twice st d d' : with_send (with_send st d) d' = with_send st d'.
Proof. reflexivity. Qed.
Lemma with_send_id st : with_send st (send_dir st) = st.
Proof. destruct st; reflexivity. Qed.

Section Proofs.
Variable md5 : bytes -> bytes.
Variable hmac : bytes -> bytes -> bytes.
Hypothesis md5_len : forall x, length (md5 x) = 16%nat.
Hypothesis hmac_len : forall k x, length (hmac k x) = 16%nat.

Notation wrap := (gss_wrapex hmac).
Notation unwrap := (gss_unwrapex hmac).
Notation p_wrap := (nlmp_wrap hmac).
Notation p_unwrap := (nlmp_unwrap hmac).

(* ---------- wrap = SEAL ---------- *)
Lemma wrap_is_seal st m :
  wrap st m = Ok (fst (p_wrap (send_dir st) m), with_send st (snd (p_wrap (send_dir st) m))).
Proof.
  unfold gss_wrapex, nlmp_wrap, SEAL, MAC, mac, send_dir. cbn [handle sigkey seqnum].
  destruct (rc4_process (s_enc st) m) as [enc e1].
  rewrite slice_0_8 by (rewrite hmac_len; lia). cbn [obind].
  pose proof (rc4_process_length (firstn 8 (hmac (s_sign st) (le32 (s_seq st) ++ m))) e1) as Hl.
  destruct (rc4_process e1 (firstn 8 (hmac (s_sign st) (le32 (s_seq st) ++ m)))) as [es e2].
  cbn [fst] in Hl. rewrite firstn_8_of_16 in Hl by apply hmac_len.
  unfold message_signature_ex. rewrite slice_0_8 by lia. cbn [obind fst snd].
  rewrite firstn_all2 by lia. reflexivity.
Qed.

Theorem wrap_all_is_spec : forall (ms : list bytes) (st : secif),
  wrap_all hmac st ms =
  Ok (fst (nlmp_wrap_all hmac (send_dir st) ms), with_send st (snd (nlmp_wrap_all hmac (send_dir st) ms))).
Proof.
  induction ms as [|m ms IH]; intro st; cbn [wrap_all nlmp_wrap_all].
  - cbn [fst snd]. rewrite with_send_id. reflexivity.
  - rewrite wrap_is_seal. cbn [obind].
    destruct (p_wrap (send_dir st) m) as [t d1]. cbn [fst snd].
    rewrite IH, send_with_send. cbn [obind].
    destruct (nlmp_wrap_all hmac d1 ms) as [ts d2]. cbn [fst snd]. reflexivity.
Qed.

(* key derivation and construction agree with SIGNKEY / SEALKEY *)
Lemma sign_key_spec k : sign_key md5 k true = SIGNKEY md5 k Client /\ sign_key md5 k false = SIGNKEY md5 k Server.
Proof. split; reflexivity. Qed.
Lemma seal_key_spec k : seal_key md5 k true = SEALKEY md5 k Client /\ seal_key md5 k false = SEALKEY md5 k Server.
Proof. split; reflexivity. Qed.

Lemma rc4_new_16 key : length key = 16%nat -> exists h, rc4_new key = Ok h.
Proof.
  intro H. unfold rc4_new, nlen. rewrite H. cbn [N.of_nat]. eexists. reflexivity.
Qed.

Definition recv_dir (st : secif) (n : N) : dirstate := mkDir (s_dec st) (s_verify st) n.

Lemma build_is_spec k :
  exists st, build_security_interface md5 k = Ok st /\
             session_dir md5 k Client = Some (send_dir st) /\
             session_dir md5 k Server = Some (recv_dir st 0).
Proof.
  unfold build_security_interface, secif_new, session_dir.
  destruct (seal_key_spec k) as [<- <-]. destruct (sign_key_spec k) as [<- <-].
  destruct (rc4_new_16 (seal_key md5 k true)) as [e He]; [apply md5_len|].
  destruct (rc4_new_16 (seal_key md5 k false)) as [d Hd]; [apply md5_len|].
  rewrite He, Hd. cbn [obind]. eexists. split; [reflexivity|]. split; reflexivity.
Qed.

(* ---------- gss_unwrapex: what is compared with what ---------- *)
(* the 8 bytes the received checksum is compared with *)
Definition hmac8 (k sq pt : bytes) : bytes := firstn 8 (hmac k (sq ++ pt)).

(* result of gss_unwrapex on a token with a good Version field, spelled out *)
Definition unwrap_body (st : secif) (cks sq ct : bytes) : outcome bytes * secif :=
  let pt := fst (rc4_process (s_dec st) ct) in
  let d1 := snd (rc4_process (s_dec st) ct) in
  let pc := fst (rc4_process d1 cks) in
  let d2 := snd (rc4_process d1 cks) in
  let st' := mkSecif (s_enc st) d2 (s_sign st) (s_verify st) (s_seq st) in
  if bytes_eqb pc (hmac8 (s_verify st) (le32 (le32_val sq)) pt) then (Ok pt, st') else (Err EInvalidChecksum, st').

Lemma unwrap_structured st cks sq ct :
  length cks = 8%nat -> length sq = 4%nat ->
  unwrap st ([1; 0; 0; 0] ++ cks ++ sq ++ ct) = unwrap_body st cks sq ct.
Proof.
  intros Hc Hs.
  destruct cks as [|c0 [|c1 [|c2 [|c3 [|c4 [|c5 [|c6 [|c7 [|c8 r]]]]]]]]]; try discriminate.
  destruct sq as [|q0 [|q1 [|q2 [|q3 [|q4 r]]]]]; try discriminate.
  unfold gss_unwrapex, unwrap_body, hmac8, le32_val.
  cbn [app length Nat.leb firstn skipn].
  change (of_le32 1 0 0 0 =? 1) with true. cbn iota.
  destruct (rc4_process (s_dec st) ct) as [pt d1]. cbn [fst snd].
  destruct (rc4_process d1 [c0; c1; c2; c3; c4; c5; c6; c7]) as [pc d2]. cbn [fst snd].
  rewrite slice_0_8 by (rewrite hmac_len; lia). reflexivity.
Qed.

Lemma unwrap_bad_version st v0 v1 v2 v3 rest :
  [v0; v1; v2; v3] <> [1; 0; 0; 0] -> unwrap st (v0 :: v1 :: v2 :: v3 :: rest) = (Err EInvalidConst, st).
Proof.
  intro H. unfold gss_unwrapex.
  destruct (N.eqb_spec (of_le32 v0 v1 v2 v3) 1) as [E|E]; [|reflexivity].
  apply of_le32_one in E. destruct E as (-> & -> & -> & ->). congruence.
Qed.

(* fewer than 16 bytes: an error, never a panic, context untouched *)
Lemma unwrap_short st data :
  (length data < 16)%nat ->
  snd (unwrap st data) = st /\ (fst (unwrap st data) = Err EIo \/ fst (unwrap st data) = Err EInvalidConst).
Proof.
  intro H.
  destruct data as [|b0 [|b1 [|b2 [|b3 r]]]]; try (split; [reflexivity | left; reflexivity]).
  unfold gss_unwrapex. destruct (of_le32 b0 b1 b2 b3 =? 1); [|split; [reflexivity | right; reflexivity]].
  cbn [length] in H.
  destruct r as [|c0 [|c1 [|c2 [|c3 [|c4 [|c5 [|c6 [|c7 r]]]]]]]];
    try (split; [reflexivity | left; reflexivity]).
  cbn [length Nat.leb firstn skipn].
  destruct r as [|q0 [|q1 [|q2 [|q3 r]]]]; try (split; [reflexivity | left; reflexivity]).
  cbn [length] in H. lia.
Qed.

(* every byte string of length >= 16 is  version(4) ++ checksum(8) ++ seqnum(4) ++ ciphertext *)
Lemma split_at (n : nat) (l : bytes) :
  (n <= length l)%nat -> exists a b, l = a ++ b /\ length a = n.
Proof.
  intro H. exists (firstn n l), (skipn n l). split.
  - symmetry. apply firstn_skipn.
  - rewrite firstn_length. lia.
Qed.

Lemma token_split (data : bytes) :
  (16 <= length data)%nat ->
  exists v cks sq ct, data = v ++ cks ++ sq ++ ct /\ length v = 4%nat /\ length cks = 8%nat /\ length sq = 4%nat.
Proof.
  intro H.
  destruct (split_at 4 data) as (v & r1 & -> & Hv); [lia|].
  rewrite app_length, Hv in H.
  destruct (split_at 8 r1) as (cks & r2 & -> & Hc); [lia|].
  rewrite app_length, Hc in H.
  destruct (split_at 4 r2) as (sq & ct & -> & Hs); [lia|].
  exists v, cks, sq, ct. auto.
Qed.

Lemma len4 (v : bytes) : length v = 4%nat -> exists a b c d, v = [a; b; c; d].
Proof. destruct v as [|a [|b [|c [|d [|e r]]]]]; try discriminate. intros _. eauto. Qed.

Lemma skipn_16_token (v cks sq ct : bytes) :
  length v = 4%nat -> length cks = 8%nat -> length sq = 4%nat -> skipn 16 (v ++ cks ++ sq ++ ct) = ct.
Proof.
  intros Hv Hc Hs.
  replace (v ++ cks ++ sq ++ ct) with ((v ++ cks ++ sq) ++ ct) by (rewrite <- !app_assoc; reflexivity).
  replace 16%nat with (length (v ++ cks ++ sq)) by (rewrite !app_length, Hv, Hc, Hs; reflexivity).
  rewrite skipn_app, skipn_all, Nat.sub_diag. reflexivity.
Qed.

(* EXACT acceptance condition *)
Theorem unwrap_accept_iff st v cks sq ct pt :
  length v = 4%nat -> length cks = 8%nat -> length sq = 4%nat ->
  (fst (unwrap st (v ++ cks ++ sq ++ ct)) = Ok pt <->
   v = [1; 0; 0; 0] /\
   pt = fst (rc4_process (s_dec st) ct) /\
   fst (rc4_process (snd (rc4_process (s_dec st) ct)) cks) = hmac8 (s_verify st) (le32 (le32_val sq)) pt).
Proof.
  intros Hv Hc Hs. destruct (len4 v Hv) as (a & b & c & d & ->).
  destruct (list_eq_dec N.eq_dec [a; b; c; d] [1; 0; 0; 0]) as [E|E].
  - rewrite E, unwrap_structured by assumption. unfold unwrap_body.
    destruct (bytes_eqb _ _) eqn:Eb; cbn [fst].
    + apply bytes_eqb_eq in Eb. split.
      * intro H. injection H as <-. auto.
      * intros (_ & -> & _). reflexivity.
    + split; [discriminate|]. intros (_ & -> & H). apply bytes_eqb_eq in H. congruence.
  - cbn [app]. rewrite unwrap_bad_version by assumption. cbn [fst]. split; [discriminate|]. intros (H & _). congruence.
Qed.

(* never a panic; an error is one of three kinds and carries no data; Ok only on the condition above *)
Theorem unwrap_outcomes st data :
  match fst (unwrap st data) with
  | Ok pt => (16 <= length data)%nat /\ pt = fst (rc4_process (s_dec st) (skipn 16 data))
  | Err e => e = EIo \/ e = EInvalidConst \/ e = EInvalidChecksum
  | Panic | Spin => False
  end.
Proof.
  destruct (Nat.lt_ge_cases (length data) 16) as [H|H].
  - destruct (unwrap_short st data H) as [_ [E|E]]; rewrite E; auto.
  - destruct (token_split data H) as (v & cks & sq & ct & -> & Hv & Hc & Hs).
    destruct (len4 v Hv) as (a & b & c & d & ->).
    destruct (list_eq_dec N.eq_dec [a; b; c; d] [1; 0; 0; 0]) as [E|E].
    + rewrite E, unwrap_structured by assumption. unfold unwrap_body.
      destruct (bytes_eqb _ _); cbn [fst]; auto. split; [exact H|].
      do 2 f_equal. symmetry.
      change ([1; 0; 0; 0] ++ cks ++ sq ++ ct) with ([1; 0; 0; 0] ++ cks ++ sq ++ ct).
      apply skipn_16_token; assumption.
    + cbn [app]. rewrite unwrap_bad_version by assumption. cbn [fst]. auto.
Qed.

Lemma structured_ok_or_checksum st cks sq ct :
  length cks = 8%nat -> length sq = 4%nat ->
  fst (unwrap st ([1; 0; 0; 0] ++ cks ++ sq ++ ct)) = Err EInvalidChecksum \/
  exists pt, fst (unwrap st ([1; 0; 0; 0] ++ cks ++ sq ++ ct)) = Ok pt.
Proof.
  intros Hc Hs. rewrite unwrap_structured by assumption. unfold unwrap_body.
  destruct (bytes_eqb _ _); cbn [fst]; eauto.
Qed.

(* ---------- tampering ---------- *)
(* Version: ANY change of the four version bytes is rejected, unconditionally, context intact *)
Theorem tamper_version st v rest :
  length v = 4%nat -> v <> [1; 0; 0; 0] -> unwrap st (v ++ rest) = (Err EInvalidConst, st).
Proof.
  intros Hv H. destruct (len4 v Hv) as (a & b & c & d & ->). cbn [app]. apply unwrap_bad_version. exact H.
Qed.

(* Checksum: ANY change of the eight checksum bytes of an accepted token is rejected, unconditionally *)
Theorem tamper_checksum st v cks cks' sq ct pt :
  length v = 4%nat -> length cks = 8%nat -> length cks' = 8%nat -> length sq = 4%nat ->
  fst (unwrap st (v ++ cks ++ sq ++ ct)) = Ok pt ->
  cks' <> cks ->
  fst (unwrap st (v ++ cks' ++ sq ++ ct)) = Err EInvalidChecksum.
Proof.
  intros Hv Hc Hc' Hs Hok Hne.
  apply unwrap_accept_iff in Hok; try assumption. destruct Hok as (-> & -> & Hck).
  rewrite unwrap_structured by assumption. unfold unwrap_body.
  destruct (bytes_eqb _ _) eqn:Eb; [|reflexivity].
  apply bytes_eqb_eq in Eb. rewrite <- Hck in Eb. apply rc4_process_inj in Eb. contradiction.
Qed.

(* SeqNum and ciphertext (length kept): the altered token is accepted IFF the 8-byte HMAC
   prefixes of two DIFFERENT signed strings coincide. *)
Theorem tamper_seq_ct_iff st v cks sq sq' ct ct' pt pt' :
  length v = 4%nat -> length cks = 8%nat -> length sq = 4%nat -> length sq' = 4%nat ->
  Forall (fun b => b < 256) sq -> Forall (fun b => b < 256) sq' ->
  length ct' = length ct ->
  fst (unwrap st (v ++ cks ++ sq ++ ct)) = Ok pt ->
  (sq', ct') <> (sq, ct) ->
  let new := fst (rc4_process (s_dec st) ct') in
  sq' ++ new <> sq ++ pt /\
  (fst (unwrap st (v ++ cks ++ sq' ++ ct')) = Ok pt' <->
   pt' = new /\ hmac8 (s_verify st) sq' new = hmac8 (s_verify st) sq pt).
Proof.
  intros Hv Hc Hs Hs' Wf Wf' Hl Hok Hne new.
  apply unwrap_accept_iff in Hok; try assumption. destruct Hok as (-> & -> & Hck).
  rewrite (le32_val_wf sq Hs Wf) in Hck.
  split.
  - intro E. apply Hne.
    assert (sq' = sq /\ new = fst (rc4_process (s_dec st) ct)) as [-> E2].
    { apply app_eq_same_length in E; [exact E | congruence]. }
    apply rc4_process_inj in E2. subst ct'. reflexivity.
  - rewrite unwrap_accept_iff by assumption.
    rewrite (le32_val_wf sq' Hs' Wf'), (rc4_state_by_length ct' ct (s_dec st) Hl), Hck.
    fold new. split.
    + intros (_ & -> & H). auto.
    + intros (-> & H). auto.
Qed.

Corollary tamper_seq_ct_rejected st v cks sq sq' ct ct' pt :
  length v = 4%nat -> length cks = 8%nat -> length sq = 4%nat -> length sq' = 4%nat ->
  Forall (fun b => b < 256) sq -> Forall (fun b => b < 256) sq' ->
  length ct' = length ct ->
  fst (unwrap st (v ++ cks ++ sq ++ ct)) = Ok pt ->
  (sq', ct') <> (sq, ct) ->
  (* no collision of the 64-bit HMAC prefix between the two different signed strings *)
  hmac8 (s_verify st) sq' (fst (rc4_process (s_dec st) ct')) <> hmac8 (s_verify st) sq pt ->
  fst (unwrap st (v ++ cks ++ sq' ++ ct')) = Err EInvalidChecksum.
Proof.
  intros Hv Hc Hs Hs' Wf Wf' Hl Hok Hne Hnc.
  apply unwrap_accept_iff in Hok as Hok'; try assumption. destruct Hok' as (-> & _ & _).
  destruct (structured_ok_or_checksum st cks sq' ct' Hc Hs') as [E|[pt' E]]; [exact E|].
  exfalso. apply Hnc.
  destruct (tamper_seq_ct_iff st [1; 0; 0; 0] cks sq sq' ct ct' pt pt' Hv Hc Hs Hs' Wf Wf' Hl Hok Hne) as [_ Hiff].
  apply Hiff in E. apply E.
Qed.

(* ---------- round trips with a conforming peer ---------- *)
(* a conforming receiver, holding the same direction state as the sender, recovers the message *)
Lemma peer_unwrap_of_wrap d m :
  p_unwrap d (fst (p_wrap d m)) = (Some m, snd (p_wrap d m)).
Proof.
  unfold nlmp_wrap, nlmp_unwrap, SEAL.
  pose proof (rc4_process_twice m (handle d)) as Htw.
  pose proof (rc4_process_length m (handle d)) as Hlen.
  destruct (rc4_process (handle d) m) as [sealed h1]. cbn [fst snd] in *.
  cbn [handle sigkey seqnum].
  destruct (MAC hmac {| handle := h1; sigkey := sigkey d; seqnum := seqnum d |} m) as [sg d'] eqn:EM.
  cbn [fst snd].
  assert (Hs : length sg = 16%nat).
  { unfold MAC in EM. cbn [handle sigkey seqnum] in EM.
    pose proof (rc4_process_length (firstn 8 (hmac (sigkey d) (le32 (seqnum d) ++ m))) h1) as Hl.
    destruct (rc4_process h1 (firstn 8 (hmac (sigkey d) (le32 (seqnum d) ++ m)))) as [ck h2].
    injection EM as <- _. cbn [fst] in Hl. rewrite firstn_8_of_16 in Hl by apply hmac_len.
    change (length (le32 1 ++ ck ++ le32 (seqnum d)) = 16%nat). rewrite !app_length, Hl. reflexivity. }
  replace (Nat.ltb (length (sg ++ sealed)) 16) with false
    by (symmetry; apply Nat.ltb_ge; rewrite app_length; lia).
  rewrite <- Hs at 1 2. rewrite firstn_app, firstn_all, Nat.sub_diag, skipn_app, skipn_all, Nat.sub_diag.
  cbn [firstn skipn app]. rewrite app_nil_r.
  unfold UNSEAL. rewrite Htw. rewrite EM. rewrite same_elts_refl. reflexivity.
Qed.

(* the client recovers what a conforming peer seals, whatever number the peer is at *)
Lemma client_unwrap_of_peer_wrap st d m :
  handle d = s_dec st -> sigkey d = s_verify st ->
  unwrap st (fst (p_wrap d m)) =
  (Ok m, mkSecif (s_enc st) (handle (snd (p_wrap d m))) (s_sign st) (s_verify st) (s_seq st)).
Proof.
  intros Hh Hk. unfold nlmp_wrap, SEAL, MAC. cbn [handle sigkey seqnum]. rewrite Hh, Hk.
  pose proof (rc4_process_twice m (s_dec st)) as Htw.
  pose proof (rc4_process_length m (s_dec st)) as Hlen.
  destruct (rc4_process (s_dec st) m) as [sealed h1]. cbn [fst snd] in *.
  set (dg := firstn 8 (hmac (s_verify st) (le32 (seqnum d) ++ m))).
  pose proof (rc4_process_twice dg h1) as Htw2.
  pose proof (rc4_process_length dg h1) as Hl2.
  destruct (rc4_process h1 dg) as [ck h2]. cbn [fst snd handle] in *.
  assert (Hdg : length dg = 8%nat) by (apply firstn_8_of_16, hmac_len).
  rewrite le32_one, <- !app_assoc.
  rewrite unwrap_structured by (try apply le32_length; lia).
  unfold unwrap_body. rewrite Htw. cbn [fst snd]. rewrite Htw2. cbn [fst snd].
  unfold hmac8. rewrite le32_val_le32. fold dg.
  replace (bytes_eqb dg dg) with true by (symmetry; apply bytes_eqb_eq; reflexivity).
  reflexivity.
Qed.

(* A schedule of traffic between the client context and a conforming peer *)
Inductive step := Out (m : bytes) | In (m : bytes).

(* c: client context; pr / ps: the peer's receive and send directions.  Every message of the
   schedule is delivered exactly (Out: client wraps, peer unwraps; In: peer wraps, client unwraps). *)
Fixpoint delivered (c : secif) (pr ps : dirstate) (sch : list step) : Prop :=
  match sch with
  | [] => True
  | Out m :: r =>
      exists tok c', wrap c m = Ok (tok, c') /\
                     fst (p_unwrap pr tok) = Some m /\ delivered c' (snd (p_unwrap pr tok)) ps r
  | In m :: r =>
      fst (unwrap c (fst (p_wrap ps m))) = Ok m /\
      delivered (snd (unwrap c (fst (p_wrap ps m)))) pr (snd (p_wrap ps m)) r
  end.

Definition mirrored (c : secif) (pr ps : dirstate) : Prop :=
  pr = send_dir c /\ handle ps = s_dec c /\ sigkey ps = s_verify c.

Theorem roundtrip : forall (sch : list step) (c : secif) (pr ps : dirstate),
  mirrored c pr ps -> delivered c pr ps sch.
Proof.
  induction sch as [|[m|m] r IH]; intros c pr ps (Hpr & Hh & Hk); cbn [delivered].
  - exact I.
  - subst pr. eexists. eexists. split; [apply wrap_is_seal|].
    rewrite peer_unwrap_of_wrap. cbn [fst snd]. split; [reflexivity|].
    apply IH. split; [|split].
    + rewrite send_with_send. reflexivity.
    + exact Hh.
    + exact Hk.
  - rewrite (client_unwrap_of_peer_wrap c ps m Hh Hk). cbn [fst snd]. split; [reflexivity|].
    apply IH. split; [|split].
    + subst pr. reflexivity.
    + reflexivity.
    + unfold nlmp_wrap, SEAL, MAC. cbn [handle sigkey seqnum].
      destruct (rc4_process (handle ps) m) as [x h1].
      destruct (rc4_process h1 _) as [y h2]. cbn [snd sigkey]. exact Hk.
Qed.

(* a fresh session under any exported session key *)
Theorem session_roundtrip (k : bytes) (sch : list step) :
  exists c pr ps, build_security_interface md5 k = Ok c /\
                  session_dir md5 k Client = Some pr /\ session_dir md5 k Server = Some ps /\
                  delivered c pr ps sch.
Proof.
  destruct (build_is_spec k) as (c & Hb & Hc & Hs).
  exists c, (send_dir c), (recv_dir c 0). repeat split; try assumption.
  apply roundtrip. repeat split.
Qed.

Theorem session_wrap_is_spec (k : bytes) (ms : list bytes) :
  exists c d, build_security_interface md5 k = Ok c /\ session_dir md5 k Client = Some d /\
              exists c', wrap_all hmac c ms = Ok (fst (nlmp_wrap_all hmac d ms), c').
Proof.
  destruct (build_is_spec k) as (c & Hb & Hc & _).
  exists c, (send_dir c). repeat split; try assumption. eexists. apply wrap_all_is_spec.
Qed.

End Proofs.

(* ---------- the concrete hash functions satisfy the two length hypotheses ---------- *)
Lemma md5_length x : length (md5 x) = 16%nat.
Proof.
  unfold md5. destruct (md_blocks md5_compress _ md_init _) as [[[a b] c] d]. reflexivity.
Qed.

Lemma hmac_md5_length k x : length (hmac_md5 k x) = 16%nat.
Proof. unfold hmac_md5, hmac. apply md5_length. Qed.

(* ---------- concrete session (non-vacuity): exported session key 00 01 .. 0f ---------- *)
Definition ex_key : bytes := map N.of_nat (seq 0 16).
Definition ex_msgs : list bytes := [[]; [1]; map N.of_nat (seq 16 17)].
(* the tokens an independent MS-NLMP implementation (gen/nlmp.py) produces for ex_msgs *)
Definition ex_tokens : list bytes :=
 [[1; 0; 0; 0; 24; 241; 111; 90; 209; 139; 124; 178; 0; 0; 0; 0];
  [1; 0; 0; 0; 252; 100; 195; 60; 53; 180; 128; 204; 1; 0; 0; 0; 23];
  [1; 0; 0; 0; 7; 106; 149; 102; 129; 233; 93; 151; 2; 0; 0; 0; 176; 165; 160; 23; 165; 144; 57; 226;
   223; 227; 36; 148; 200; 74; 73; 153; 41]].
(* what that implementation seals for the server: "foo", then the empty message *)
Definition ex_srv1 : bytes := [1; 0; 0; 0; 221; 202; 55; 15; 63; 161; 137; 153; 0; 0; 0; 0; 55; 0; 176].
Definition ex_srv2 : bytes := [1; 0; 0; 0; 95; 160; 155; 185; 32; 64; 191; 67; 1; 0; 0; 0].

Definition ex_ctx : secif :=
  match build_c ex_key with Ok c => c | _ => mkSecif (mkRc4 0 0 []) (mkRc4 0 0 []) [] [] 0 end.

Lemma ex_build : build_c ex_key = Ok ex_ctx.
Proof. vm_compute. reflexivity. Qed.

Lemma ex_wrap : exists c', wrap_all hmac_md5 ex_ctx ex_msgs = Ok (ex_tokens, c').
Proof. eexists. vm_compute. reflexivity. Qed.

Lemma ex_unwrap :
  fst (unwrap_c ex_ctx ex_srv1) = Ok [102; 111; 111] /\
  fst (unwrap_c (snd (unwrap_c ex_ctx ex_srv1)) ex_srv2) = Ok [].
Proof. split; vm_compute; reflexivity. Qed.

(* flips in each region of ex_srv1 (Version bit 0, Checksum bit 0, SeqNum bit 0, ciphertext bit 0),
   a truncation to 15 bytes and an extension by one byte: all rejected *)
Lemma ex_tamper :
  fst (unwrap_c ex_ctx ([0; 0; 0; 0] ++ skipn 4 ex_srv1)) = Err EInvalidConst /\
  fst (unwrap_c ex_ctx (firstn 4 ex_srv1 ++ [220] ++ skipn 5 ex_srv1)) = Err EInvalidChecksum /\
  fst (unwrap_c ex_ctx (firstn 12 ex_srv1 ++ [1] ++ skipn 13 ex_srv1)) = Err EInvalidChecksum /\
  fst (unwrap_c ex_ctx (firstn 16 ex_srv1 ++ [54] ++ skipn 17 ex_srv1)) = Err EInvalidChecksum /\
  fst (unwrap_c ex_ctx (firstn 15 ex_srv1)) = Err EIo /\
  fst (unwrap_c ex_ctx (ex_srv1 ++ [0])) = Err EInvalidChecksum.
Proof. repeat split; vm_compute; reflexivity. Qed.

(* the hypotheses of tamper_seq_ct_rejected hold for the SeqNum flip above (incl. no collision) *)
Lemma ex_no_collision :
  let v := firstn 4 ex_srv1 in let cks := firstn 8 (skipn 4 ex_srv1) in
  let sq := firstn 4 (skipn 12 ex_srv1) in let ct := skipn 16 ex_srv1 in
  let sq' := [1; 0; 0; 0] in
  ex_srv1 = v ++ cks ++ sq ++ ct /\
  fst (unwrap_c ex_ctx (v ++ cks ++ sq ++ ct)) = Ok [102; 111; 111] /\
  (sq', ct) <> (sq, ct) /\
  Forall (fun b => b < 256) sq /\ Forall (fun b => b < 256) sq' /\
  hmac8 hmac_md5 (s_verify ex_ctx) sq' (fst (rc4_process (s_dec ex_ctx) ct))
  <> hmac8 hmac_md5 (s_verify ex_ctx) sq [102; 111; 111].
Proof.
  cbv zeta. split; [reflexivity|]. split; [vm_compute; reflexivity|].
  split; [cbn; intro H; discriminate|].
  split; [cbn; repeat constructor|]. split; [repeat constructor|].
  vm_compute. intro H. discriminate.
Qed.

(* ---------- instantiation with the concrete MD5 / HMAC-MD5 ---------- *)
Theorem concrete_session_wrap_is_spec (k : bytes) (ms : list bytes) :
  exists c d, build_c k = Ok c /\ session_dir md5 k Client = Some d /\
              exists c', wrap_all hmac_md5 c ms = Ok (fst (nlmp_wrap_all hmac_md5 d ms), c').
Proof. exact (session_wrap_is_spec md5 hmac_md5 md5_length hmac_md5_length k ms). Qed.

Theorem concrete_session_roundtrip (k : bytes) (sch : list step) :
  exists c pr ps, build_c k = Ok c /\
                  session_dir md5 k Client = Some pr /\ session_dir md5 k Server = Some ps /\
                  delivered hmac_md5 c pr ps sch.
Proof. exact (session_roundtrip md5 hmac_md5 md5_length hmac_md5_length k sch). Qed.

(* The client has no receive counter: a peer numbering its messages from ANY n is accepted. *)
Theorem peer_numbering_free (hmac : bytes -> bytes -> bytes) :
  (forall k x, length (hmac k x) = 16%nat) ->
  forall (c : secif) (n : N) (m : bytes),
    fst (gss_unwrapex hmac c (fst (nlmp_wrap hmac (recv_dir c n) m))) = Ok m.
Proof.
  intros H c n m. rewrite (client_unwrap_of_peer_wrap hmac H c (recv_dir c n) m); reflexivity.
Qed.

Lemma ex_nonvacuous :
  build_c ex_key = Ok ex_ctx /\
  (exists c', wrap_all hmac_md5 ex_ctx ex_msgs = Ok (ex_tokens, c')) /\
  fst (unwrap_c ex_ctx ex_srv1) = Ok [102; 111; 111] /\
  fst (unwrap_c (snd (unwrap_c ex_ctx ex_srv1)) ex_srv2) = Ok [] /\
  fst (unwrap_c ex_ctx ([0; 0; 0; 0] ++ skipn 4 ex_srv1)) = Err EInvalidConst /\
  fst (unwrap_c ex_ctx (firstn 4 ex_srv1 ++ [220] ++ skipn 5 ex_srv1)) = Err EInvalidChecksum /\
  fst (unwrap_c ex_ctx (firstn 12 ex_srv1 ++ [1] ++ skipn 13 ex_srv1)) = Err EInvalidChecksum /\
  fst (unwrap_c ex_ctx (firstn 16 ex_srv1 ++ [54] ++ skipn 17 ex_srv1)) = Err EInvalidChecksum /\
  fst (unwrap_c ex_ctx (firstn 15 ex_srv1)) = Err EIo /\
  fst (unwrap_c ex_ctx (ex_srv1 ++ [0])) = Err EInvalidChecksum.
Proof.
  split; [exact ex_build|]. split; [exact ex_wrap|].
  destruct ex_unwrap as [H1 H2]. split; [exact H1|]. split; [exact H2|]. exact ex_tamper.
Qed.
