(* C18, PER part: every primitive of core/per.rs decodes what it encodes and agrees with
   the reference codec of RefPer.v, for every value of its domain. *)
From RdpV Require Import Base Sweep Per RefPer.
Open Scope list_scope.
Open Scope N_scope.

Ltac Zify.zify_post_hook ::= Z.to_euclidean_division_equations.

(* ---------------------------------------------------------------- arithmetic / bit facts *)
Lemma lor_flag_lo : forall h l, h < 128 -> l < 256 -> N.lor (h * 256 + l) 32768 = 32768 + h * 256 + l.
Proof. intros h l Hh Hl. apply N.eqb_eq. revert h l Hh Hl. apply sweep2. vm_compute. reflexivity. Qed.

Lemma lor_flag_hi : forall h l, h < 128 -> l < 256 -> N.lor ((128 + h) * 256 + l) 32768 = (128 + h) * 256 + l.
Proof. intros h l Hh Hl. apply N.eqb_eq. revert h l Hh Hl. apply sweep2. vm_compute. reflexivity. Qed.

Lemma split16 n : n < 65536 -> n = (n / 256) * 256 + n mod 256 /\ n / 256 < 256 /\ n mod 256 < 256.
Proof. intros H. lia. Qed.

Lemma hi_lo_of (h l : N) : l < 256 -> h < 256 -> u16_hi (h * 256 + l) = h /\ u16_lo (h * 256 + l) = l.
Proof. intros Hl Hh. unfold u16_hi, u16_lo. split; lia. Qed.

Lemma of_be16_enc n : n < 65536 -> of_be16 (u16_hi n) (u16_lo n) = n.
Proof. intros H. unfold of_be16, u16_hi, u16_lo. lia. Qed.

Lemma of_be32_enc n : n < 4294967296 ->
  of_be32 ((n / 16777216) mod 256) ((n / 65536) mod 256) ((n / 256) mod 256) (n mod 256) = n.
Proof. intros H. unfold of_be32. lia. Qed.

(* ---------------------------------------------------------------- length determinant *)
Lemma write_length_small n : n < 128 -> per_write_length n = [n].
Proof. intros H. unfold per_write_length. destruct (N.ltb_spec 127 n); [lia|reflexivity]. Qed.

Lemma write_length_mid n : 128 <= n -> n < 32768 -> per_write_length n = [128 + n / 256; n mod 256].
Proof.
  intros H1 H2. unfold per_write_length. destruct (N.ltb_spec 127 n); [|lia].
  destruct (split16 n ltac:(lia)) as (E & Hh & Hl).
  assert (Hh' : n / 256 < 128) by lia.
  rewrite E at 1. rewrite lor_flag_lo by assumption.
  unfold be16.
  replace (32768 + n / 256 * 256 + n mod 256) with ((128 + n / 256) * 256 + n mod 256) by lia.
  destruct (hi_lo_of (128 + n / 256) (n mod 256) Hl ltac:(lia)) as [-> ->]. reflexivity.
Qed.

Lemma write_length_high n : 32768 <= n -> n < 65536 -> per_write_length n = [n / 256; n mod 256].
Proof.
  intros H1 H2. unfold per_write_length. destruct (N.ltb_spec 127 n); [|lia].
  destruct (split16 n H2) as (E & Hh & Hl).
  set (h := n / 256 - 128).
  assert (Hh' : h < 128) by (unfold h; lia).
  assert (Eh : n / 256 = 128 + h) by (unfold h; lia).
  rewrite E at 1. rewrite Eh at 1. rewrite lor_flag_hi by assumption. rewrite <- Eh.
  unfold be16. destruct (hi_lo_of (n / 256) (n mod 256) Hl Hh) as [-> ->]. reflexivity.
Qed.

(* write = reference on the whole domain of the form *)
Lemma per_length_ref n : n < 32768 -> ref_length n = Some (per_write_length n).
Proof.
  intros H. unfold ref_length.
  destruct (N.ltb_spec n 128) as [Hs|Hs]; [now rewrite write_length_small|].
  destruct (N.ltb_spec n 32768); [|lia]. now rewrite write_length_mid.
Qed.

Lemma per_length_ref_x691 n : n < 16384 -> ref_length_x691 n = Some (per_write_length n).
Proof. intros H. unfold ref_length_x691. destruct (N.ltb_spec n 16384); [|lia]. apply per_length_ref. lia. Qed.

Lemma read_length_small b r : b < 128 -> per_read_length (b :: r) = Ok (b, r).
Proof. intros H. unfold per_read_length. cbn [rd_u8 obind]. now rewrite (land128_lo b H). Qed.

Lemma read_length_two h l r : h < 128 -> per_read_length ((128 + h) :: l :: r) = Ok (h * 256 + l, r).
Proof.
  intros H. unfold per_read_length. cbn [rd_u8 obind].
  destruct (land128_hi h H) as [-> ->]. reflexivity.
Qed.

(* read (write n) = n with exact consumption, every n the form can carry *)
Lemma per_length_roundtrip n rest : n < 32768 -> per_read_length (per_write_length n ++ rest) = Ok (n, rest).
Proof.
  intros H. destruct (N.lt_ge_cases n 128) as [Hs|Hs].
  - rewrite write_length_small by assumption. cbn [app]. now apply read_length_small.
  - rewrite write_length_mid by assumption. cbn [app].
    rewrite read_length_two by lia. f_equal. f_equal. lia.
Qed.

(* above the 15 bits the flag bit swallows the top bit of the value: what is read back is n - 0x8000 *)
Lemma per_length_above n rest : 32768 <= n -> n < 65536 ->
  per_read_length (per_write_length n ++ rest) = Ok (n - 32768, rest).
Proof.
  intros H1 H2. rewrite write_length_high by assumption. cbn [app].
  replace (n / 256) with (128 + (n / 256 - 128)) by lia.
  rewrite read_length_two by lia. f_equal. f_equal. lia.
Qed.

(* the reference decoder inverts the reference encoder *)
Lemma ref_length_roundtrip n b rest : ref_length n = Some b -> ref_dec_length (b ++ rest) = Some (n, rest).
Proof.
  unfold ref_length. destruct (N.ltb_spec n 128) as [Hs|Hs].
  - intros [= <-]. cbn [app ref_dec_length]. destruct (N.ltb_spec n 128); [reflexivity|lia].
  - destruct (N.ltb_spec n 32768) as [Hm|Hm]; [|discriminate]. intros E.
    assert (Eb : b = [128 + n / 256; n mod 256]) by congruence. subst b. clear E.
    change (([128 + n / 256; n mod 256]) ++ rest) with ((128 + n / 256) :: n mod 256 :: rest).
    unfold ref_dec_length.
    destruct (N.ltb_spec (128 + n / 256) 128); [lia|]. f_equal. f_equal. lia.
Qed.

(* ---------------------------------------------------------------- one-octet primitives *)
Lemma per_choice_roundtrip c rest : per_read_choice (per_write_choice c ++ rest) = Ok (c, rest).
Proof. reflexivity. Qed.
Lemma per_selection_roundtrip c rest : per_read_selection (per_write_selection c ++ rest) = Ok (c, rest).
Proof. reflexivity. Qed.
Lemma per_number_of_set_roundtrip c rest : per_read_number_of_set (per_write_number_of_set c ++ rest) = Ok (c, rest).
Proof. reflexivity. Qed.
Lemma per_enumerates_roundtrip c rest : per_read_enumerates (per_write_enumerates c :: rest) = Ok (c, rest).
Proof. reflexivity. Qed.

(* ---------------------------------------------------------------- integer *)
Lemma be_octets_1 n : n < 256 -> be_octets 1 n = [n].
Proof. intros H. cbn [be_octets N.of_nat]. change (256 ^ 0) with 1. f_equal. lia. Qed.
Lemma be_octets_2 n : be_octets 2 n = be16 n.
Proof. cbn [be_octets]. change (256 ^ N.of_nat 1) with 256. change (256 ^ N.of_nat 0) with 1.
  unfold be16, u16_hi, u16_lo. f_equal. f_equal. f_equal. lia. Qed.
Lemma be_octets_4 n : be_octets 4 n = be32 n.
Proof. cbn [be_octets]. change (256 ^ N.of_nat 3) with 16777216. change (256 ^ N.of_nat 2) with 65536.
  change (256 ^ N.of_nat 1) with 256. change (256 ^ N.of_nat 0) with 1.
  unfold be32. repeat f_equal. lia. Qed.

(* write = reference: the three size classes *)
Lemma per_integer_ref n : n < 4294967296 -> ref_integer n = Some (per_write_integer n).
Proof.
  intros H. unfold ref_integer, per_write_integer.
  destruct (N.ltb_spec n 256) as [H1|H1].
  - destruct (N.leb_spec n 255); [|lia]. rewrite be_octets_1 by assumption. reflexivity.
  - destruct (N.leb_spec n 255); [lia|]. destruct (N.ltb_spec n 65536) as [H2|H2].
    + destruct (N.leb_spec n 65535); [|lia]. rewrite be_octets_2. reflexivity.
    + destruct (N.leb_spec n 65535); [lia|]. destruct (N.ltb_spec n 4294967296); [|lia].
      rewrite be_octets_4. reflexivity.
Qed.

(* read (write n) = n, by cases on the three size classes *)
Lemma per_integer_roundtrip n rest : n < 4294967296 -> per_read_integer (per_write_integer n ++ rest) = Ok (n, rest).
Proof.
  intros H. unfold per_write_integer.
  destruct (N.leb_spec n 255) as [H1|H1]; [|destruct (N.leb_spec n 65535) as [H2|H2]].
  - reflexivity.
  - unfold per_read_integer. change (per_write_length 2) with [2]. cbn [app].
    rewrite read_length_small by lia. cbn [obind N.eqb Pos.eqb be16 app rd_u16be].
    rewrite of_be16_enc by lia. reflexivity.
  - unfold per_read_integer. change (per_write_length 4) with [4]. cbn [app].
    rewrite read_length_small by lia. cbn [obind N.eqb Pos.eqb be32 app rd_u32be].
    rewrite of_be32_enc by lia. reflexivity.
Qed.

(* ---------------------------------------------------------------- integer_16 *)
Lemma per_integer_16_write p v m : m <= v -> per_write_integer_16 p v m = Ok (be16 (v - m)).
Proof. intros H. unfold per_write_integer_16, sub_w. destruct (N.leb_spec m v); [reflexivity|lia]. Qed.

Lemma per_integer_16_roundtrip p v m rest : m <= v -> v < 65536 ->
  exists b, per_write_integer_16 p v m = Ok b /\ per_read_integer_16 m (b ++ rest) = Ok (v, rest)
            /\ ref_integer_16 m v = Some b.
Proof.
  intros H1 H2. exists (be16 (v - m)). split; [now apply per_integer_16_write|]. split.
  - unfold per_read_integer_16, be16. cbn [app rd_u16be obind]. rewrite of_be16_enc by lia.
    replace (v - m + m) with v by lia. destruct (N.ltb_spec v 65536); [reflexivity|lia].
  - unfold ref_integer_16. destruct (N.leb_spec m v); [|lia]. destruct (N.ltb_spec v 65536); [|lia].
    cbn [andb]. now rewrite be_octets_2.
Qed.

(* below the minimum: a debug build traps, a release build wraps *)
Lemma per_integer_16_below_debug v m : v < m -> per_write_integer_16 Debug v m = Panic.
Proof. intros H. unfold per_write_integer_16, sub_w. destruct (N.leb_spec m v); [lia|reflexivity]. Qed.

(* ---------------------------------------------------------------- object identifier *)
Definition oid_in_domain (oid : bytes) : bool :=
  match oid with
  | [a0; a1; a2; a3; a4; a5] => (a0 <=? 2) && (a1 <=? 39) && forallb (fun a => a <=? 127) [a2; a3; a4; a5]
  | _ => false
  end.

Lemma oid_eqb_refl a : oid_eqb a a = true.
Proof. unfold oid_eqb. destruct (list_eq_dec N.eq_dec a a); congruence. Qed.

Lemma oid_eqb_eq a b : oid_eqb a b = true -> a = b.
Proof. unfold oid_eqb. destruct (list_eq_dec N.eq_dec a b); congruence. Qed.

Lemma per_oid_roundtrip oid rest : oid_in_domain oid = true ->
  exists b, per_write_object_identifier oid = Ok b
            /\ per_read_object_identifier oid (b ++ rest) = Ok (true, rest)
            /\ ref_oid oid = Some b
            /\ nlen b = 6.
Proof.
  destruct oid as [|a0 [|a1 [|a2 [|a3 [|a4 [|a5 [|]]]]]]]; try discriminate.
  cbn [oid_in_domain forallb]. rewrite !andb_true_iff, !N.leb_le.
  intros ((H0 & H1) & H2 & H3 & H4 & H5 & _).
  exists [5; a0 * 40 + a1; a2; a3; a4; a5]. repeat split.
  - cbn [per_write_object_identifier existsb].
    destruct (N.ltb_spec 2 a0); [lia|]. destruct (N.ltb_spec 39 a1); [lia|].
    destruct (N.ltb_spec 127 a2); [lia|]. destruct (N.ltb_spec 127 a3); [lia|].
    destruct (N.ltb_spec 127 a4); [lia|]. destruct (N.ltb_spec 127 a5); [lia|]. reflexivity.
  - unfold per_read_object_identifier. cbn [nlen length N.of_nat Pos.of_succ_nat Pos.succ N.eqb Pos.eqb negb app].
    rewrite read_length_small by lia. cbn [obind N.eqb Pos.eqb negb rd_u8].
    replace ((a0 * 40 + a1) / 40) with a0 by lia. replace ((a0 * 40 + a1) mod 40) with a1 by lia.
    now rewrite oid_eqb_refl.
  - cbn [ref_oid flat_map app]. destruct (N.leb_spec a0 2); [|lia]. destruct (N.ltb_spec a1 40); [|lia].
    cbn [orb andb]. destruct (N.ltb_spec (40 * a0 + a1) 128); [|lia].
    unfold base128. destruct (N.ltb_spec a2 128); [|lia]. destruct (N.ltb_spec a3 128); [|lia].
    destruct (N.ltb_spec a4 128); [|lia]. destruct (N.ltb_spec a5 128); [|lia].
    cbn [app nlen length N.of_nat Pos.of_succ_nat Pos.succ ref_length N.ltb N.compare Pos.compare Pos.compare_cont].
    do 2 f_equal. f_equal. lia.
Qed.

(* outside the domain the encoder refuses *)
Lemma per_oid_refused oid : nlen oid = 6 -> oid_in_domain oid = false -> per_write_object_identifier oid = Err EInvalidData.
Proof.
  destruct oid as [|a0 [|a1 [|a2 [|a3 [|a4 [|a5 [|]]]]]]]; intros Hl;
    try (exfalso; unfold nlen in Hl; cbn [length] in Hl; lia). clear Hl.
  cbn [oid_in_domain forallb per_write_object_identifier existsb].
  destruct (N.leb_spec a0 2), (N.ltb_spec 2 a0); try lia; cbn [andb orb]; try reflexivity.
  destruct (N.leb_spec a1 39), (N.ltb_spec 39 a1); try lia; cbn [andb orb]; try reflexivity.
  destruct (N.leb_spec a2 127), (N.ltb_spec 127 a2); try lia; cbn [andb orb]; try reflexivity.
  destruct (N.leb_spec a3 127), (N.ltb_spec 127 a3); try lia; cbn [andb orb]; try reflexivity.
  destruct (N.leb_spec a4 127), (N.ltb_spec 127 a4); try lia; cbn [andb orb]; try reflexivity.
  destruct (N.leb_spec a5 127), (N.ltb_spec 127 a5); try lia; cbn [andb orb]; try reflexivity.
Qed.

(* the decoder tells two identifiers of the domain apart (all six arcs matter: the defect
   repaired in the crate made arc 5 invisible) *)
Lemma per_oid_distinguishes oid oid' b rest :
  oid_in_domain oid = true -> oid_in_domain oid' = true -> per_write_object_identifier oid = Ok b ->
  per_read_object_identifier oid' (b ++ rest) = Ok (oid_eqb oid oid', rest).
Proof.
  intros Hd Hd' Hw.
  destruct (per_oid_roundtrip oid rest Hd) as (b0 & Hw0 & _). rewrite Hw in Hw0. injection Hw0 as <-.
  destruct oid as [|a0 [|a1 [|a2 [|a3 [|a4 [|a5 [|]]]]]]]; try discriminate.
  destruct oid' as [|c0 [|c1 [|c2 [|c3 [|c4 [|c5 [|]]]]]]]; try discriminate.
  cbn [oid_in_domain forallb] in Hd. rewrite !andb_true_iff, !N.leb_le in Hd.
  destruct Hd as ((H0 & H1) & _).
  cbn [per_write_object_identifier] in Hw.
  destruct ((2 <? a0) || (39 <? a1) || existsb (fun a => 127 <? a) [a2; a3; a4; a5]); [discriminate|].
  injection Hw as <-.
  unfold per_read_object_identifier. cbn [nlen length N.of_nat Pos.of_succ_nat Pos.succ N.eqb Pos.eqb negb app].
  rewrite read_length_small by lia. cbn [obind N.eqb Pos.eqb negb rd_u8].
  replace ((a0 * 40 + a1) / 40) with a0 by lia. replace ((a0 * 40 + a1) mod 40) with a1 by lia.
  reflexivity.
Qed.

(* ---------------------------------------------------------------- octet stream *)
Lemma expect_octets_self s rest : expect_octets s (s ++ rest) = Ok (tt, rest).
Proof. induction s as [|c s IH]; [reflexivity|]. cbn [app expect_octets]. now rewrite N.eqb_refl. Qed.

Lemma expect_octets_inv s' : forall s rest r, length s' = length s ->
  expect_octets s' (s ++ rest) = Ok (tt, r) -> s' = s /\ r = rest.
Proof.
  induction s' as [|e s' IH]; intros [|c s] rest r Hl; try discriminate.
  - cbn. intros [= ->]. auto.
  - cbn [app expect_octets]. destruct (N.eqb_spec c e) as [->|]; [|discriminate].
    intros H. destruct (IH s rest r ltac:(cbn in Hl; lia) H) as [-> ->]. auto.
Qed.

(* a Rust slice is never longer than isize::MAX: hypothesis [nlen s <= per_isize_max] below *)

Lemma add64_ok p a b : a + b < 18446744073709551616 -> add_w p 64 a b = Ok (a + b).
Proof. intros H. unfold add_w. change (2 ^ 64) with 18446744073709551616. destruct (N.ltb_spec (a + b) 18446744073709551616); [reflexivity|lia]. Qed.

Lemma per_octet_stream_write s m : m <= nlen s -> nlen s - m < 32768 ->
  per_write_octet_stream s m = per_write_length (nlen s - m) ++ s.
Proof.
  intros H1 H2. unfold per_write_octet_stream. destruct (N.leb_spec m (nlen s)); [|lia].
  rewrite N.mod_small by lia. reflexivity.
Qed.

Lemma per_octet_stream_roundtrip p s m rest : nlen s <= per_isize_max -> m <= nlen s -> nlen s - m < 32768 ->
  per_read_octet_stream p s m (per_write_octet_stream s m ++ rest) = Ok (tt, rest)
  /\ ref_octet_string m s = Some (per_write_octet_stream s m).
Proof.
  unfold per_isize_max. intros H0 H1 H2. rewrite per_octet_stream_write by assumption. split.
  - unfold per_read_octet_stream. rewrite <- app_assoc, per_length_roundtrip by assumption. cbn [obind].
    rewrite add64_ok by lia. cbn [obind]. replace (nlen s - m + m) with (nlen s) by lia.
    rewrite N.eqb_refl. cbn [negb]. apply expect_octets_self.
  - unfold ref_octet_string. destruct (N.leb_spec m (nlen s)); [|lia]. now rewrite per_length_ref.
Qed.

(* the reader accepts the written bytes only for the very string that was written *)
Lemma per_octet_stream_distinguishes p s s' m rest r : nlen s <= per_isize_max -> m <= nlen s -> nlen s - m < 32768 ->
  per_read_octet_stream p s' m (per_write_octet_stream s m ++ rest) = Ok (tt, r) -> s' = s /\ r = rest.
Proof.
  unfold per_isize_max. intros H0 H1 H2. rewrite per_octet_stream_write by assumption.
  unfold per_read_octet_stream. rewrite <- app_assoc, per_length_roundtrip by assumption. cbn [obind].
  rewrite add64_ok by lia. cbn [obind]. replace (nlen s - m + m) with (nlen s) by lia.
  destruct (N.eqb_spec (nlen s) (nlen s')) as [E|E]; [|discriminate]. cbn [negb].
  apply expect_octets_inv. unfold nlen in E. lia.
Qed.

(* ---------------------------------------------------------------- padding *)
Lemma skipn_repeat_app (n : nat) (rest : bytes) : skipn n (repeat 0 n ++ rest) = rest.
Proof. induction n as [|n IH]; [reflexivity|]. cbn [repeat app skipn]. exact IH. Qed.

Lemma per_padding_roundtrip n rest : n <= per_isize_max ->
  exists b, per_write_padding n = Ok b /\ nlen b = n /\ per_read_padding n (b ++ rest) = Ok (tt, rest).
Proof.
  intros H. exists (repeat 0 (N.to_nat n)). unfold per_write_padding, per_read_padding.
  destruct (N.ltb_spec per_isize_max n); [lia|].
  assert (E : nlen (repeat 0 (N.to_nat n)) = n) by (unfold nlen; rewrite repeat_length; lia).
  repeat split; [exact E|]. rewrite nlen_app, E. replace (N.min n (n + nlen rest)) with n by lia.
  now rewrite skipn_repeat_app.
Qed.

(* ---------------------------------------------------------------- numeric string *)
Lemma list_ind2 {A} (P : list A -> Prop) :
  P [] -> (forall a, P [a]) -> (forall a b l, P l -> P (a :: b :: l)) -> forall l, P l.
Proof.
  intros H0 H1 H2. fix F 1. intros [|a [|b l]]; [exact H0|apply H1|apply H2, F].
Qed.

Lemma is_digit_range c : is_digit c = true -> 48 <= c /\ c <= 57.
Proof. unfold is_digit. rewrite andb_true_iff, !N.leb_le. auto. Qed.

Lemma digit_of_digit p c : is_digit c = true -> digit_of p c = Ok (c - 48).
Proof.
  intros H. apply is_digit_range in H. unfold digit_of, sub_w. destruct (N.leb_spec 48 c); [|lia].
  cbn [obind]. f_equal. apply N.mod_small. lia.
Qed.

Lemma pack_digits_ref p s : forallb is_digit s = true -> pack_digits p s = Ok (ref_pack s).
Proof.
  induction s as [|a|a b l IH] using list_ind2; [reflexivity| |].
  - cbn [forallb]. rewrite andb_true_r. intros Ha. cbn [pack_digits ref_pack]. unfold pack2.
    rewrite (digit_of_digit p a Ha). cbn [obind]. rewrite (digit_of_digit p 48 eq_refl). cbn [obind].
    f_equal. f_equal. lia.
  - cbn [forallb]. rewrite !andb_true_iff. intros (Ha & Hb & Hl). cbn [pack_digits ref_pack]. unfold pack2.
    rewrite (digit_of_digit p a Ha), (digit_of_digit p b Hb), (IH Hl). reflexivity.
Qed.

Lemma ref_pack_len s : nlen (ref_pack s) = (nlen s + 1) / 2.
Proof.
  induction s as [|a|a b l IH] using list_ind2; [reflexivity|reflexivity|].
  cbn [ref_pack]. rewrite !nlen_cons, IH. lia.
Qed.

Lemma unpack_ref_pack s : forallb is_digit s = true -> unpack_digits (length s) (ref_pack s) = s.
Proof.
  induction s as [|a|a b l IH] using list_ind2; [reflexivity| |].
  - cbn [forallb]. rewrite andb_true_r. intros Ha. apply is_digit_range in Ha.
    cbn [length ref_pack unpack_digits]. f_equal. lia.
  - cbn [forallb]. rewrite !andb_true_iff. intros (Ha & Hb & Hl).
    apply is_digit_range in Ha. apply is_digit_range in Hb.
    cbn [length ref_pack unpack_digits]. rewrite (IH Hl).
    assert (Hlow : N.land ((a - 48) * 16 + (b - 48)) 15 = b - 48).
    { change 15 with (N.ones 4). rewrite N.land_ones. change (2 ^ 4) with 16. lia. }
    rewrite Hlow. f_equal; [lia|]. f_equal. lia.
Qed.

Lemma ntake_app a rest : ntake (nlen a) (a ++ rest) = Some (a, rest).
Proof.
  unfold ntake. rewrite nlen_app. destruct (N.leb_spec (nlen a) (nlen a + nlen rest)); [|lia].
  unfold nlen. rewrite Nat2N.id, firstn_app, skipn_app, Nat.sub_diag, firstn_all, skipn_all. cbn [firstn skipn].
  now rewrite app_nil_r.
Qed.

Lemma per_numeric_string_write p s m : forallb is_digit s = true -> m <= nlen s -> nlen s - m < 32768 ->
  per_write_numeric_string p s m = Ok (per_write_length (nlen s - m) ++ ref_pack s).
Proof.
  intros Hd H1 H2. unfold per_write_numeric_string. rewrite (pack_digits_ref p s Hd). cbn [obind].
  destruct (N.leb_spec m (nlen s)); [|lia]. rewrite N.mod_small by lia. reflexivity.
Qed.

Lemma per_numeric_string_roundtrip p s m rest :
  forallb is_digit s = true -> nlen s <= per_isize_max -> m <= nlen s -> nlen s - m < 32768 ->
  exists b, per_write_numeric_string p s m = Ok b
            /\ per_read_numeric_string p m (b ++ rest) = Ok (s, rest)
            /\ ref_numeric_string m s = Some b.
Proof.
  unfold per_isize_max. intros Hd H0 H1 H2. exists (per_write_length (nlen s - m) ++ ref_pack s).
  split; [now apply per_numeric_string_write|]. split.
  - unfold per_read_numeric_string. rewrite <- app_assoc, per_length_roundtrip by assumption. cbn [obind].
    rewrite add64_ok by lia. cbn [obind]. replace (nlen s - m + m) with (nlen s) by lia.
    rewrite add64_ok by lia. cbn [obind]. rewrite <- ref_pack_len, ntake_app.
    destruct (N.ltb_spec per_isize_max (nlen s)); [unfold per_isize_max in *; lia|].
    unfold nlen at 1. rewrite Nat2N.id, unpack_ref_pack by assumption. reflexivity.
  - unfold ref_numeric_string. rewrite Hd. destruct (N.leb_spec m (nlen s)); [|lia]. cbn [andb].
    now rewrite per_length_ref.
Qed.

(* ---------------------------------------------------------------- combined statements / instances *)
Lemma per_length_both n rest : n < 32768 ->
  per_read_length (per_write_length n ++ rest) = Ok (n, rest) /\ ref_length n = Some (per_write_length n).
Proof. intros H. split; [now apply per_length_roundtrip|now apply per_length_ref]. Qed.

Lemma per_integer_both n rest : n < 4294967296 ->
  per_read_integer (per_write_integer n ++ rest) = Ok (n, rest) /\ ref_integer n = Some (per_write_integer n).
Proof. intros H. split; [now apply per_integer_roundtrip|now apply per_integer_ref]. Qed.

Lemma per_one_octet c rest :
  per_read_choice (per_write_choice c ++ rest) = Ok (c, rest) /\
  per_read_selection (per_write_selection c ++ rest) = Ok (c, rest) /\
  per_read_number_of_set (per_write_number_of_set c ++ rest) = Ok (c, rest) /\
  per_read_enumerates (per_write_enumerates c :: rest) = Ok (c, rest).
Proof. repeat split. Qed.

(* the values the crate really sends, and the three repaired witnesses *)
Lemma per_instances :
  oid_in_domain [0; 0; 20; 124; 0; 1] = true /\
  per_write_object_identifier [0; 0; 20; 124; 0; 1] = Ok [5; 0; 20; 124; 0; 1] /\
  per_write_object_identifier [1; 2; 20; 124; 5; 1] = Ok [5; 42; 20; 124; 5; 1] /\
  per_read_object_identifier [1; 2; 20; 124; 5; 1] [5; 42; 20; 124; 5; 1] = Ok (true, []) /\
  per_read_object_identifier [1; 2; 20; 124; 0; 1] [5; 42; 20; 124; 5; 1] = Ok (false, []) /\
  per_write_integer 255 = [1; 255] /\ per_write_integer 65535 = [2; 255; 255] /\
  per_write_numeric_string Debug [49] 1 = Ok [0; 16] /\
  per_read_numeric_string Debug 1 [1; 18; 170] = Ok ([49; 50], [170]).
Proof. vm_compute. repeat split. Qed.
