(* FlowNla.v with its parameters instantiated: the object of the NLA theorems of C03 at the concrete functions.
   The program the correspondence of C03 extracts and runs against the implementation is FlowRun.flow_impl on the
   environment [nla_cssp_env] below (the CredSSP model is evaluated ONCE per run there, on the records that follow the
   handshake); C03_nla_proofs.flow_impl_is_flow_nla proves, for every input, that it computes exactly
   [flow_nla_impl]:
     - hashes: the concrete MD4 / MD5 / HMAC-MD5 (Md4.v, Md5.v, Hmac.v); RC4 is Rc4.v;
     - String::to_uppercase: a parameter (the case line carries the upper-cased user name);
     - TSRequest codecs: the DER writers of CsspGateExec.v and the yasna model of DerRead.v;
     - BER parser of the connect-response: the yasna model of BerYasna.v;
     - TLS: the harness's in-process acceptor (FlowRun.tls_after): the handshake completes when the client has
       consumed everything the server wrote in clear; the records the server then writes are the chunks [post].
   The theorems C03_sequence_nla / C03_causality_nla are about FlowNla.flow_nla for ANY such functions; this is
   the instance whose outputs are compared with the real crate's. *)
From RdpV Require Import Base Msg Link Tpkt Global BerYasna Connect ConnectRun ClientPdus Flow FlowRun FlowNla.
From RdpV Require Import Rc4 Md5 Md4 Hmac Utf Ntlm NtlmSeal DerRead CsspGate CsspGateExec.
Open Scope list_scope.
Open Scope N_scope.

Definition flow_nla_impl (upper : list N -> list N) (p : prof) (c : fcfg) (n : nla_params) (nreads : nat)
           (raw : stream) (post : option stream) : flow_result :=
  let tls := match post with Some ps => tls_after ps | None => no_tls end in
  let ps := match post with Some ps => ps | None => [] end in
  flow_nla md4 md5 hmac_md5 upper p x_create_ts_request x_create_ts_authenticate x_create_ts_credentials
           x_create_ts_authinfo (x_read_ts_server_challenge p) (x_read_ts_validate p)
           (ber_connect_response p) true tls c n nreads raw ps.

(* the environment FlowRun.flow_impl needs, as FlowNla.v derives it from the configuration *)
Definition nla_cssp_env (upper : list N -> list N) (c : fcfg) (n : nla_params) : cssp_env :=
  mkCsspEnv upper (nla_auth md4 hmac_md5 upper c n) (nla_restricted c n) (nl_pubkey n) (nl_nonce n) (nl_key n).
