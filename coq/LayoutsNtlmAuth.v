(* Message layouts of src/nla/ntlm.rs used by the NTLMv2 handshake, as terms of the message
   model Msg.v: version, negotiate_message, challenge_message, authenticate_message, av_pair.
   Hand-written from the component![..] declarations; tied to /repo by the C15 correspondence. *)
From RdpV Require Import Base Msg.
Open Scope string_scope.
Open Scope list_scope.
Open Scope N_scope.

Definition ntlmssp_sig : bytes := [78; 84; 76; 77; 83; 83; 80; 0].     (* b"NTLMSSP\x00" *)

(* |node| if node.inner() & NtlmsspNegociateVersion(0x02000000) == 0 { SkipField("Version") } *)
Definition skip_version_unless_flag : clo := CloSkipIf (CBits 25 1 0) "Version".

Definition version_l : msg :=
  MComp [ ("ProductMajorVersion", MU8 6);
          ("ProductMinorVersion", MU8 0);
          ("ProductBuild", MU16 LE 6002);
          ("Reserved", MTrame [MU16 LE 0; MU8 0]);
          ("NTLMRevisionCurrent", MU8 15) ].

Definition negotiate_message_l (flags : N) : msg :=
  MComp [ ("Signature", MBytes ntlmssp_sig);
          ("MessageType", MU32 LE 1);
          ("NegotiateFlags", MDyn (MU32 LE flags) skip_version_unless_flag);
          ("DomainNameLen", MU16 LE 0);
          ("DomainNameMaxLen", MU16 LE 0);
          ("DomainNameBufferOffset", MU32 LE 0);
          ("WorkstationLen", MU16 LE 0);
          ("WorkstationMaxLen", MU16 LE 0);
          ("WorkstationBufferOffset", MU32 LE 0);
          ("Version", version_l);
          ("Payload", MBytes []) ].

(* KeyExch | 128 | ExtendedSessionSecurity | AlwaysSign | NTLM | Seal | Sign | RequestTarget | Unicode *)
Definition client_negotiate_flags : N := 1611170357.   (* 0x60088235 *)

Definition challenge_message_t : msg :=
  MComp [ ("Signature", MCheck (MBytes ntlmssp_sig));
          ("MessageType", MCheck (MU32 LE 2));
          ("TargetNameLen", MU16 LE 0);
          ("TargetNameLenMax", MU16 LE 0);
          ("TargetNameBufferOffset", MU32 LE 0);
          ("NegotiateFlags", MDyn (MU32 LE 0) skip_version_unless_flag);
          ("ServerChallenge", MBytes (repeat 0 8));
          ("Reserved", MBytes (repeat 0 8));
          ("TargetInfoLen", MU16 LE 0);
          ("TargetInfoMaxLen", MU16 LE 0);
          ("TargetInfoBufferOffset", MU32 LE 0);
          ("Version", version_l);
          ("Payload", MBytes []) ].

Definition as_u16 (n : N) : N := n mod 65536.
Definition as_u32 (n : N) : N := n mod 4294967296.

(* authenticate_message(...).0 ; the payload (.1) is the concatenation of the six fields.
   `offset + (a + b) as u32`: under the caller's guard every length is <= 65535, the u32 sums
   cannot overflow in either profile. *)
Definition authenticate_message_l (lm nt domain user workstation key : bytes) (flags : N) : msg :=
  let offset := if N.land flags 33554432 =? 0 then 80 else 88 in
  let l1 := nlen lm in let l2 := nlen nt in let l3 := nlen domain in
  let l4 := nlen user in let l5 := nlen workstation in
  MComp [ ("Signature", MCheck (MBytes ntlmssp_sig));
          ("MessageType", MCheck (MU32 LE 3));
          ("LmChallengeResponseLen", MU16 LE (as_u16 l1));
          ("LmChallengeResponseMaxLen", MU16 LE (as_u16 l1));
          ("LmChallengeResponseBufferOffset", MU32 LE offset);
          ("NtChallengeResponseLen", MU16 LE (as_u16 l2));
          ("NtChallengeResponseMaxLen", MU16 LE (as_u16 l2));
          ("NtChallengeResponseBufferOffset", MU32 LE (offset + as_u32 l1));
          ("DomainNameLen", MU16 LE (as_u16 l3));
          ("DomainNameMaxLen", MU16 LE (as_u16 l3));
          ("DomainNameBufferOffset", MU32 LE (offset + as_u32 (l1 + l2)));
          ("UserNameLen", MU16 LE (as_u16 l4));
          ("UserNameMaxLen", MU16 LE (as_u16 l4));
          ("UserNameBufferOffset", MU32 LE (offset + as_u32 (l1 + l2 + l3)));
          ("WorkstationLen", MU16 LE (as_u16 l5));
          ("WorkstationMaxLen", MU16 LE (as_u16 l5));
          ("WorkstationBufferOffset", MU32 LE (offset + as_u32 (l1 + l2 + l3 + l4)));
          ("EncryptedRandomSessionLen", MU16 LE (as_u16 (nlen key)));
          ("EncryptedRandomSessionMaxLen", MU16 LE (as_u16 (nlen key)));
          ("EncryptedRandomSessionBufferOffset", MU32 LE (offset + as_u32 (l1 + l2 + l3 + l4 + l5)));
          ("NegotiateFlags", MDyn (MU32 LE flags) skip_version_unless_flag);
          ("Version", version_l) ].

Definition av_pair_t : msg :=
  MComp [ ("AvId", MU16 LE 0);
          ("AvLen", MDyn (MU16 LE 0) (CloSize "Value" XSelf));
          ("Value", MBytes []) ].
