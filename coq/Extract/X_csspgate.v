From Coq Require Extraction ExtrOcamlBasic.
From RdpV Require Import Base Msg Link Rc4 Md5 Md4 Hmac Utf Ntlm NtlmSeal DerRead CsspGate CsspGateExec.
Extraction Language OCaml.
Extraction "../ocaml/csspgate/model.ml" md4 hmac_md5 ntlm_new ntlm_from_hash cssp_connect_c le_nat.
