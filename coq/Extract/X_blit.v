From Coq Require Extraction ExtrOcamlBasic.
From RdpV Require Import Base Blit.
Extraction Language OCaml.
Extraction "../ocaml/blit/model.ml" fast_bitmap_transfer event_decode pixels_of_bytes bytes_of_pixels N.add N.mul.
