From Coq Require Extraction ExtrOcamlBasic.
From RdpV Require Import Base Buf Rle16 Rle32 Bitmap RefRle.
Extraction Language OCaml.
Extraction "../ocaml/codec/model.ml" decompress rle16 rle32 of_list to_list bmake
  sem ser_all bgra16 flip_rows trivial_orders plane_ok ser_planar planar_image widen565.
