From Coq Require Extraction ExtrOcamlBasic.
From RdpV Require Import Base Msg LayoutsGlobal LayoutsConnect Link Tpkt Global BerYasna Connect ConnectRun ClientPdus Flow.
From RdpV Require Import Rc4 Md5 Md4 Hmac Utf Ntlm NtlmSeal DerRead CsspGate CsspGateExec StrictPdu FlowRun RefSequence.
From RdpV Require Import RefNlmp RefNlmpSeal Der RefCredssp FlowNla FlowNlaRun.
Extraction Language OCaml.
Extraction "../ocaml/flow/model.ml" flow_impl mkFcfg mkCfg mkCsspEnv ntlm_new ntlm_from_hash md4 hmac_md5 strict_parse
  replies expected_kinds mkServer mkRound frame_kind
  nla_cssp_env mkNla md5 cssp_serve cssp_reply1 cssp_reply2 mkCsspServer mkAccount mkChal.
