From Coq Require Extraction ExtrOcamlBasic.
From RdpV Require Import Base GuiLoop.
Extraction Language OCaml.
Extraction "../ocaml/gui/model.ml" init env_step tstep quiesce fuel_of original repaired evs_of released mutex_blocked settled err.
