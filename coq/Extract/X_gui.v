From Coq Require Extraction ExtrOcamlBasic.
From RdpV Require Import Base GuiLoop.
Extraction Language OCaml.
Extraction "../ocaml/gui/model.ml" init env_step quiesce fuel_of original repaired evs_of err.
