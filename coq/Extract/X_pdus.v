From Coq Require Extraction ExtrOcamlBasic.
From RdpV Require Import Base Msg LayoutsGlobal LayoutsConnect Link Tpkt Global ClientPdus StrictPdu.
From RdpV Require Import Rc4 Md5 Md4 Hmac Utf Ntlm NtlmSeal DerRead CsspGate CsspGateExec StrictNla.
Extraction Language OCaml.
Extraction "../ocaml/pdus/model.ml" emitted_session emit_cr run_writes core_bytes version_arms_swapped is_scalar strict_parse
  md4 hmac_md5 ntlm_new ntlm_from_hash create_negotiate_message read_challenge_message cssp_connect_c
  x_create_ts_request x_create_ts_authenticate x_create_ts_credentials x_create_ts_authinfo
  exactly strict_parse_nla sp_negotiate sp_authenticate sp_ts_request sp_ts_credentials.
