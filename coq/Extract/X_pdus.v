From Coq Require Extraction ExtrOcamlBasic.
From RdpV Require Import Base Msg LayoutsGlobal LayoutsConnect Link Tpkt Global ClientPdus StrictPdu.
Extraction Language OCaml.
Extraction "../ocaml/pdus/model.ml" emitted_session emit_cr run_writes core_bytes version_arms_swapped is_scalar strict_parse.
