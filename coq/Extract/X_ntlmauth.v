From Coq Require Extraction ExtrOcamlBasic.
From RdpV Require Import Base Msg Rc4 Md5 Md4 Hmac Utf LayoutsNtlmAuth Ntlm RefNlmp.
Extraction Language OCaml.
Extraction "../ocaml/ntlmauth/model.ml"
  md4 md5 hmac_md5 utf16le utf8
  unicode ntowfv2 ntowfv2_hash lmowfv2 compute_response_v2 ntlm_new ntlm_from_hash
  create_negotiate_message read_challenge_message authenticate_message_l to_vec
  server_authenticate.
