From Coq Require Extraction ExtrOcamlBasic.
From RdpV Require Import Base Link Tpkt C13_proofs.
Extraction Language OCaml.
Extraction "../ocaml/framing/model.ml" tpkt_read x224_read tpkt_write x224_write tpkt_writes link_write reads.
