From Coq Require Extraction ExtrOcamlBasic.
From RdpV Require Import Base Msg LayoutsGlobal LayoutsConnect Link Tpkt Global BerYasna Connect ConnectRun.
Extraction Language OCaml.
Extraction "../ocaml/connect/model.ml" connect_impl negotiate_impl gcc_impl lic_impl mkConfig.
