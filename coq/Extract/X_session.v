From Coq Require Extraction ExtrOcamlBasic.
From RdpV Require Import Base Msg LayoutsGlobal Link Tpkt Global.
From RdpV Require Import RefFraming RefFastPath RefSession.
Extraction Language OCaml.
Extraction "../ocaml/session/model.ml" init_session keyboard_layout_from run_ops do_op enc_smsg.
