From Coq Require Extraction ExtrOcamlBasic.
From RdpV Require Import Base Msg Link Secrets SecretsExec.
Extraction Language OCaml.
Extraction "../ocaml/secrets/model.ml" secrets_impl mkSC mkEnv.
