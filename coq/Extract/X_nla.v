From Coq Require Extraction ExtrOcamlBasic.
From RdpV Require Import Base Msg LayoutsGlobal LayoutsNtlm Link Cssp DerRead.
Extraction Language OCaml.
Extraction "../ocaml/nla/model.ml" read_ts_server_challenge read_ts_validate create_negotiate_message
  read_challenge_message build_security_interface gss_wrapex gss_unwrapex cssp_connect
  der_ts_request der_ts_validate oracle_of mkCreds mkNtlm mkSecif.
