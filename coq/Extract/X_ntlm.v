From Coq Require Extraction ExtrOcamlBasic.
From RdpV Require Import Base Rc4 Md5 Md4 Hmac NtlmSeal RefNlmpSeal.
Extraction Language OCaml.
Extraction "../ocaml/ntlm/model.ml"
  md4 md5 hmac_md5 rc4k rc4_new rc4_process
  sign_key_c seal_key_c mac_c build_c secif_new set_seq wrap_c unwrap_c
  SIGNKEY SEALKEY session_dir nlmp_wrap nlmp_unwrap.
