(* C19_proofs.v -- proofs about Blit.v (model) against RefBlit.v (spec). *)
From RdpV Require Import Base Blit RefBlit.

Local Ltac Zify.zify_post_hook ::= Z.div_mod_to_equations.

Lemma pow64 : 2 ^ 64 = 18446744073709551616.
Proof. reflexivity. Qed.
Lemma pow62 : 2 ^ 62 = 4611686018427387904.
Proof. reflexivity. Qed.

(* ------------------------------------------------------------------ lists *)

Lemma nth_firstn_lt {A} (l : list A) (d q : nat) (x : A) :
  (q < d)%nat -> nth q (firstn d l) x = nth q l x.
Proof.
  revert d q. induction l as [|a l IH]; intros d q H.
  - rewrite firstn_nil. reflexivity.
  - destruct d as [|d]; [lia|]. destruct q as [|q]; cbn [firstn nth]; [reflexivity|].
    apply IH. lia.
Qed.

Lemma nth_skipn_add {A} (l : list A) (s q : nat) (x : A) :
  nth q (skipn s l) x = nth (s + q) l x.
Proof.
  revert s. induction l as [|a l IH]; intros s.
  - rewrite skipn_nil. destruct q, s; reflexivity.
  - destruct s as [|s]; cbn [skipn Nat.add nth]; [reflexivity|]. apply IH.
Qed.

Lemma do_copy_nat_length (src dst : list N) (s d n : nat) :
  (s + n <= length src)%nat -> (d + n <= length dst)%nat ->
  length (do_copy_nat src dst s d n) = length dst.
Proof.
  intros Hs Hd. unfold do_copy_nat.
  rewrite !app_length, !firstn_length, !skipn_length. lia.
Qed.

Lemma nth_do_copy_nat (src dst : list N) (s d n q : nat) :
  (s + n <= length src)%nat -> (d + n <= length dst)%nat ->
  nth q (do_copy_nat src dst s d n) 0 =
  if (Nat.leb d q && Nat.ltb q (d + n))%bool then nth (s + (q - d)) src 0 else nth q dst 0.
Proof.
  intros Hs Hd. unfold do_copy_nat.
  assert (L1 : length (firstn d dst) = d) by (rewrite firstn_length; lia).
  assert (L2 : length (firstn n (skipn s src)) = n) by (rewrite firstn_length, skipn_length; lia).
  destruct (Nat.leb d q) eqn:E1; cbn [andb].
  - apply Nat.leb_le in E1.
    rewrite app_nth2 by lia. rewrite L1.
    destruct (Nat.ltb q (d + n)) eqn:E2.
    + apply Nat.ltb_lt in E2.
      rewrite app_nth1 by lia.
      rewrite nth_firstn_lt by lia. apply nth_skipn_add.
    + apply Nat.ltb_ge in E2.
      rewrite app_nth2 by lia. rewrite L2.
      rewrite nth_skipn_add. f_equal. lia.
  - apply Nat.leb_gt in E1.
    rewrite app_nth1 by lia. apply nth_firstn_lt. lia.
Qed.

(* ------------------------------------------------------------------ machine arithmetic that does not trap *)

Lemma add_w_ok p a b : a + b < 2 ^ 64 -> add_w p 64 a b = Ok (a + b).
Proof. intros H. unfold add_w. apply N.ltb_lt in H. rewrite H. reflexivity. Qed.
Lemma mul_w_ok p a b : a * b < 2 ^ 64 -> mul_w p 64 a b = Ok (a * b).
Proof. intros H. unfold mul_w. apply N.ltb_lt in H. rewrite H. reflexivity. Qed.
Lemma sub_w_ok p a b : b <= a -> sub_w p 64 a b = Ok (a - b).
Proof. intros H. unfold sub_w. apply N.leb_le in H. rewrite H. reflexivity. Qed.

(* ------------------------------------------------------------------ one row *)

Definition wf_rect (rc : rect) : Prop :=
  r_left rc < 65536 /\ r_top rc < 65536 /\ r_right rc < 65536 /\ r_bottom rc < 65536.

(* what one iteration does, in closed form: the hand-written test is exactly "both ranges fit" *)
Definition row_closed (W : N) (rc : rect) (bw : N) (src : list N) (i : N) (buf : list N) : bres * list N :=
  if (row_start W rc i + row_count rc <=? nlen buf) && (i * bw + row_count rc <=? nlen src)
  then (BOk, do_copy src buf (mkCopy (i * bw) (row_start W rc i) (row_count rc)))
  else (BErr EInvalidSize, buf).

Lemma row_eq p W rc bw src i buf :
  wf_rect rc -> r_left rc <= r_right rc -> bw < 65536 -> i < 65536 -> nlen buf < 2 ^ 62 ->
  row p W rc bw src i buf = row_closed W rc bw src i buf.
Proof.
  intros (Hl & Ht & Hr & Hb) Hlr Hbw Hi Hlen.
  rewrite pow62 in Hlen.
  unfold row, row_closed, row_start, row_count, usize_max1.
  assert (Hib : i * bw < 4294967296) by nia.
  rewrite (add_w_ok p i (r_top rc)) by (rewrite pow64; lia). cbn [lift].
  set (m := (i + r_top rc) * W) in *.
  rewrite pow64.
  destruct (18446744073709551616 <=? m) eqn:E1.
  { apply N.leb_le in E1.
    replace (m + r_left rc + (r_right rc - r_left rc + 1) <=? nlen buf) with false
      by (symmetry; apply N.leb_gt; lia).
    reflexivity. }
  apply N.leb_gt in E1.
  destruct (18446744073709551616 <=? m + r_left rc) eqn:E2.
  { apply N.leb_le in E2.
    replace (m + r_left rc + (r_right rc - r_left rc + 1) <=? nlen buf) with false
      by (symmetry; apply N.leb_gt; lia).
    reflexivity. }
  apply N.leb_gt in E2.
  rewrite (mul_w_ok p i bw) by (rewrite pow64; lia). cbn [lift].
  rewrite (sub_w_ok p (r_right rc) (r_left rc)) by lia. cbn [lift].
  rewrite (add_w_ok p (r_right rc - r_left rc) 1) by (rewrite pow64; lia). cbn [lift].
  set (cnt := r_right rc - r_left rc + 1) in *.
  assert (Hcnt : cnt <= 65536) by (subst cnt; lia).
  destruct (nlen buf <? m + r_left rc) eqn:E3.
  { apply N.ltb_lt in E3.
    replace (m + r_left rc + cnt <=? nlen buf) with false by (symmetry; apply N.leb_gt; lia).
    reflexivity. }
  apply N.ltb_ge in E3.
  rewrite (add_w_ok p (m + r_left rc) cnt) by (rewrite pow64; lia). cbn [lift].
  destruct (nlen buf <? m + r_left rc + cnt) eqn:E4.
  { apply N.ltb_lt in E4.
    replace (m + r_left rc + cnt <=? nlen buf) with false by (symmetry; apply N.leb_gt; lia).
    reflexivity. }
  apply N.ltb_ge in E4.
  replace (m + r_left rc + cnt <=? nlen buf) with true by (symmetry; apply N.leb_le; lia).
  cbn [andb].
  destruct (nlen src <? i * bw) eqn:E5.
  { apply N.ltb_lt in E5.
    replace (i * bw + cnt <=? nlen src) with false by (symmetry; apply N.leb_gt; lia).
    reflexivity. }
  apply N.ltb_ge in E5.
  rewrite (add_w_ok p (i * bw) cnt) by (rewrite pow64; lia). cbn [lift].
  destruct (nlen src <? i * bw + cnt) eqn:E6.
  { apply N.ltb_lt in E6.
    replace (i * bw + cnt <=? nlen src) with false by (symmetry; apply N.leb_gt; lia).
    reflexivity. }
  apply N.ltb_ge in E6.
  replace (i * bw + cnt <=? nlen src) with true by (symmetry; apply N.leb_le; lia).
  unfold step_copy, copy_in_bounds. cbn [c_src c_dst c_cnt].
  replace (i * bw + cnt <=? nlen src) with true by (symmetry; apply N.leb_le; lia).
  replace (m + r_left rc + cnt <=? nlen buf) with true by (symmetry; apply N.leb_le; lia).
  reflexivity.
Qed.

(* ------------------------------------------------------------------ pixels after one raw copy *)

Lemma length_do_copy src buf s d n :
  s + n <= nlen src -> d + n <= nlen buf ->
  length (do_copy src buf (mkCopy s d n)) = length buf.
Proof.
  unfold nlen, do_copy. cbn [c_src c_dst c_cnt]. intros Hs Hd.
  apply do_copy_nat_length; lia.
Qed.

Lemma pix_do_copy src buf s d n q :
  s + n <= nlen src -> d + n <= nlen buf ->
  pix (do_copy src buf (mkCopy s d n)) q =
  if (d <=? q) && (q <? d + n) then nth (N.to_nat (s + (q - d))) src 0 else pix buf q.
Proof.
  unfold nlen, do_copy, pix. cbn [c_src c_dst c_cnt]. intros Hs Hd.
  rewrite nth_do_copy_nat by lia.
  destruct (d <=? q) eqn:E1; [apply N.leb_le in E1 | apply N.leb_gt in E1].
  - replace (Nat.leb (N.to_nat d) (N.to_nat q)) with true by (symmetry; apply Nat.leb_le; lia).
    cbn [andb].
    destruct (q <? d + n) eqn:E2; [apply N.ltb_lt in E2 | apply N.ltb_ge in E2].
    + replace (Nat.ltb (N.to_nat q) (N.to_nat d + N.to_nat n)) with true by (symmetry; apply Nat.ltb_lt; lia).
      f_equal. lia.
    + replace (Nat.ltb (N.to_nat q) (N.to_nat d + N.to_nat n)) with false by (symmetry; apply Nat.ltb_ge; lia).
      reflexivity.
  - replace (Nat.leb (N.to_nat d) (N.to_nat q)) with false by (symmetry; apply Nat.leb_gt; lia).
    reflexivity.
Qed.

Lemma painted_ext src W rc bw k :
  forall i0 f g, (forall q, f q = g q) -> forall q, painted src W rc bw i0 k f q = painted src W rc bw i0 k g q.
Proof.
  induction k as [|k IH]; intros i0 f g H q; cbn [painted]; [apply H|].
  apply IH. intros q'. unfold paint1. destruct (in_row W rc i0 q'); [reflexivity|apply H].
Qed.

(* row j of the rectangle fits both buffers *)
Definition row_fits (W : N) (rc : rect) (bw : N) (slen blen : N) (j : N) : Prop :=
  row_start W rc j + row_count rc <= blen /\ j * bw + row_count rc <= slen.

(* ------------------------------------------------------------------ the loop *)

Lemma rows_loop_spec p W rc bw src :
  wf_rect rc -> r_left rc <= r_right rc -> bw < 65536 ->
  forall (n : nat) (i : N) (buf : list N) (res : bres) (buf' : list N),
    N.of_nat n + i <= 65536 -> nlen buf < 2 ^ 62 ->
    rows_loop p W rc bw src n i buf = (res, buf') ->
    length buf' = length buf /\
    exists k : nat,
      ((res = BOk /\ k = n) \/
       (res = BErr EInvalidSize /\ (k < n)%nat /\ ~ row_fits W rc bw (nlen src) (nlen buf) (i + N.of_nat k))) /\
      (forall j, i <= j < i + N.of_nat k -> row_fits W rc bw (nlen src) (nlen buf) j) /\
      (forall q, pix buf' q = painted src W rc bw i k (pix buf) q).
Proof.
  intros Hwf Hlr Hbw. induction n as [|n IH]; intros i buf res buf' Hn Hlen Heq.
  - cbn [rows_loop] in Heq. inversion Heq; subst. split; [reflexivity|].
    exists O. split; [left; auto|]. split; [intros j Hj; lia|]. intros q. reflexivity.
  - cbn [rows_loop] in Heq. rewrite row_eq in Heq by (auto; lia).
    unfold row_closed in Heq.
    destruct ((row_start W rc i + row_count rc <=? nlen buf) && (i * bw + row_count rc <=? nlen src)) eqn:E.
    + apply andb_prop in E. destruct E as [Ea Eb]. apply N.leb_le in Ea. apply N.leb_le in Eb.
      set (buf1 := do_copy src buf (mkCopy (i * bw) (row_start W rc i) (row_count rc))) in *.
      assert (L1 : length buf1 = length buf) by (apply length_do_copy; assumption).
      assert (NL : nlen buf1 = nlen buf) by (unfold nlen; rewrite L1; reflexivity).
      destruct (IH (i + 1) buf1 res buf') as (Hlen' & k & Hres & Hfit & Hpix); [lia | rewrite NL; exact Hlen | exact Heq |].
      split; [congruence|].
      exists (S k). split; [|split].
      * destruct Hres as [[-> ->]|(-> & Hk & Hnf)]; [left; auto|].
        right. split; [reflexivity|]. split; [lia|].
        rewrite NL in Hnf. replace (i + N.of_nat (S k)) with (i + 1 + N.of_nat k) by lia. exact Hnf.
      * intros j Hj. destruct (N.eq_dec j i) as [->|Hne]; [split; assumption|].
        rewrite <- NL. apply Hfit. lia.
      * intros q. rewrite Hpix. cbn [painted]. apply painted_ext. intros q'.
        unfold buf1. rewrite pix_do_copy by assumption.
        unfold paint1, in_row. reflexivity.
    + inversion Heq; subst. split; [reflexivity|].
      exists O. split; [|split].
      * right. split; [reflexivity|]. split; [lia|].
        rewrite N.add_0_r. intros [Ha Hb]. apply N.leb_le in Ha. apply N.leb_le in Hb.
        rewrite Ha, Hb in E. discriminate.
      * intros j Hj. lia.
      * intros q. reflexivity.
Qed.

(* ------------------------------------------------------------------ geometry of the painted rows *)

(* a flat index that lies in no painted row keeps its value -- for ANY geometry *)
Lemma painted_outside src W rc bw k :
  forall i0 f q, (forall j, i0 <= j < i0 + N.of_nat k -> in_row W rc j q = false) ->
                 painted src W rc bw i0 k f q = f q.
Proof.
  induction k as [|k IH]; intros i0 f q H; cbn [painted]; [reflexivity|].
  rewrite IH by (intros j Hj; apply H; lia).
  unfold paint1. rewrite H by lia. reflexivity.
Qed.

(* inside a window the footprint of row i is exactly the pixels (l..r, i+top) *)
Lemma in_row_inside W rc i x y :
  r_left rc <= r_right rc -> r_right rc < W -> x < W ->
  in_row W rc i (y * W + x) = (y =? i + r_top rc) && (r_left rc <=? x) && (x <=? r_right rc).
Proof.
  intros Hlr HrW HxW. unfold in_row, row_start, row_count.
  destruct (N.eqb_spec y (i + r_top rc)) as [->|Hne].
  - cbn [andb].
    destruct (N.leb_spec (r_left rc) x), (N.leb_spec x (r_right rc)),
      (N.leb_spec ((i + r_top rc) * W + r_left rc) ((i + r_top rc) * W + x)),
      (N.ltb_spec ((i + r_top rc) * W + x) ((i + r_top rc) * W + r_left rc + (r_right rc - r_left rc + 1)));
      cbn [andb]; try reflexivity; exfalso; lia.
  - cbn [andb].
    destruct (N.leb_spec ((i + r_top rc) * W + r_left rc) (y * W + x)) as [H1|H1]; cbn [andb]; [|reflexivity].
    destruct (N.ltb_spec (y * W + x) ((i + r_top rc) * W + r_left rc + (r_right rc - r_left rc + 1))) as [H2|H2]; [|reflexivity].
    exfalso.
    destruct (N.lt_ge_cases y (i + r_top rc)) as [Hlt|Hge].
    + assert ((y + 1) * W <= (i + r_top rc) * W) by (apply N.mul_le_mono_r; lia). lia.
    + assert ((i + r_top rc + 1) * W <= y * W) by (apply N.mul_le_mono_r; lia). lia.
Qed.

Lemma painted_inside src W rc bw :
  r_left rc <= r_right rc -> r_right rc < W ->
  forall k i0 f x y, x < W ->
    painted src W rc bw i0 k f (y * W + x) =
    if (i0 + r_top rc <=? y) && (y <? i0 + r_top rc + N.of_nat k) && (r_left rc <=? x) && (x <=? r_right rc)
    then nth (N.to_nat ((y - r_top rc) * bw + (x - r_left rc))) src 0
    else f (y * W + x).
Proof.
  intros Hlr HrW. induction k as [|k IH]; intros i0 f x y HxW.
  - cbn [painted].
    destruct (N.leb_spec (i0 + r_top rc) y), (N.ltb_spec y (i0 + r_top rc + N.of_nat 0));
      cbn [andb]; try reflexivity; exfalso; lia.
  - cbn [painted]. rewrite IH by assumption.
    unfold paint1. rewrite in_row_inside by assumption.
    destruct (N.leb_spec (r_left rc) x) as [Hx1|Hx1], (N.leb_spec x (r_right rc)) as [Hx2|Hx2];
      rewrite ?andb_false_r; cbn [andb]; try reflexivity.
    rewrite !andb_true_r.
    destruct (N.eqb_spec y (i0 + r_top rc)) as [->|Hne].
    + replace (i0 + 1 + r_top rc <=? i0 + r_top rc) with false by (symmetry; apply N.leb_gt; lia).
      replace (i0 + r_top rc <=? i0 + r_top rc) with true by (symmetry; apply N.leb_le; lia).
      replace (i0 + r_top rc <? i0 + r_top rc + N.of_nat (S k)) with true by (symmetry; apply N.ltb_lt; lia).
      cbn [andb].
      replace (i0 + r_top rc - r_top rc) with i0 by lia.
      replace ((i0 + r_top rc) * W + x - row_start W rc i0) with (x - r_left rc) by (unfold row_start; lia).
      reflexivity.
    + destruct (N.leb_spec (i0 + 1 + r_top rc) y), (N.ltb_spec y (i0 + 1 + r_top rc + N.of_nat k)),
        (N.leb_spec (i0 + r_top rc) y), (N.ltb_spec y (i0 + r_top rc + N.of_nat (S k)));
        cbn [andb]; try reflexivity; exfalso; lia.
Qed.

(* ------------------------------------------------------------------ the whole call *)

Definition benign (r : bres) : Prop := match r with BOk | BErr _ => True | _ => False end.
Definition inverted (rc : rect) : bool := (r_bottom rc <? r_top rc) || (r_right rc <? r_left rc).
Definition nrows (rc : rect) : nat := N.to_nat (r_bottom rc - r_top rc + 1).

(* every call ends in exactly one of three ways *)
Lemma fbt_spec p buf W rc bw dec res buf' :
  wf_rect rc -> bw < 65536 -> nlen buf < 2 ^ 62 -> crashes dec = false ->
  fast_bitmap_transfer p buf W rc bw dec = (res, buf') ->
  (inverted rc = true /\ res = BErr EInvalidSize /\ buf' = buf) \/
  (inverted rc = false /\ exists e, dec = Err e /\ res = BErr e /\ buf' = buf) \/
  (inverted rc = false /\ exists src, dec = Ok src /\
     length buf' = length buf /\
     exists k : nat,
       ((res = BOk /\ k = nrows rc) \/
        (res = BErr EInvalidSize /\ (k < nrows rc)%nat /\ ~ row_fits W rc bw (nlen src) (nlen buf) (N.of_nat k))) /\
       (forall j, j < N.of_nat k -> row_fits W rc bw (nlen src) (nlen buf) j) /\
       (forall q, pix buf' q = painted src W rc bw 0 k (pix buf) q)).
Proof.
  intros Hwf Hbw Hlen Hdec Heq. unfold fast_bitmap_transfer in Heq. fold (inverted rc) in Heq.
  destruct (inverted rc) eqn:Einv.
  - left. inversion Heq; auto.
  - right. unfold inverted in Einv. apply orb_false_elim in Einv. destruct Einv as [E1 E2].
    apply N.ltb_ge in E1. apply N.ltb_ge in E2.
    destruct dec as [src|e| |]; cbn [lift crashes] in *; try discriminate.
    + right. split; [reflexivity|]. exists src. split; [reflexivity|].
      destruct Hwf as (Hl & Ht & Hr & Hb).
      rewrite (sub_w_ok p (r_bottom rc) (r_top rc)) in Heq by assumption. cbn [lift] in Heq.
      rewrite (add_w_ok p (r_bottom rc - r_top rc) 1) in Heq by (rewrite pow64; lia). cbn [lift] in Heq.
      apply rows_loop_spec in Heq; [| repeat split; assumption | assumption | assumption | lia | assumption].
      destruct Heq as (HL & k & Hres & Hfit & Hpix).
      split; [exact HL|]. exists k. split; [|split].
      * destruct Hres as [[-> ->]|(-> & Hk & Hnf)]; [left; auto|].
        right. rewrite N.add_0_l in Hnf. auto.
      * intros j Hj. apply Hfit. lia.
      * exact Hpix.
    + left. split; [reflexivity|]. exists e. inversion Heq; auto.
Qed.

(* ------------------------------------------------------------------ property lemmas *)

Lemma blit_safe p buf W rc bw dec :
  wf_rect rc -> bw < 65536 -> nlen buf < 2 ^ 62 -> crashes dec = false ->
  benign (fst (fast_bitmap_transfer p buf W rc bw dec)) /\
  length (snd (fast_bitmap_transfer p buf W rc bw dec)) = length buf.
Proof.
  intros Hwf Hbw Hlen Hdec.
  destruct (fast_bitmap_transfer p buf W rc bw dec) as [res buf'] eqn:Heq. cbn [fst snd].
  apply fbt_spec in Heq; try assumption.
  destruct Heq as [(_ & -> & ->)|[(_ & e & _ & -> & ->)|(_ & src & _ & HL & k & Hres & _)]];
    [split; [exact I|reflexivity] | split; [exact I|reflexivity] |].
  split; [|exact HL].
  destruct Hres as [[-> _]|(-> & _)]; exact I.
Qed.

Lemma blit_refused_unchanged p buf W rc bw dec :
  inverted rc = true \/ (exists e, dec = Err e) ->
  exists e, fast_bitmap_transfer p buf W rc bw dec = (BErr e, buf).
Proof.
  intros H. unfold fast_bitmap_transfer. fold (inverted rc).
  destruct (inverted rc); [eexists; reflexivity|].
  destruct H as [H|[e ->]]; [discriminate|]. eexists; reflexivity.
Qed.

(* a rectangle inside the window, whose rows the image can supply, fits row by row *)
Lemma inside_fits W H rc bw slen blen j :
  W * H = blen -> r_left rc <= r_right rc -> r_right rc < W -> r_top rc <= r_bottom rc -> r_bottom rc < H ->
  (r_bottom rc - r_top rc) * bw + row_count rc <= slen ->
  j <= r_bottom rc - r_top rc ->
  row_fits W rc bw slen blen j.
Proof.
  intros HWH Hlr HrW Htb HbH Hsrc Hj. unfold row_fits, row_start, row_count in *. split.
  - assert ((j + r_top rc + 1) * W <= H * W) by (apply N.mul_le_mono_r; lia). lia.
  - assert (j * bw <= (r_bottom rc - r_top rc) * bw) by (apply N.mul_le_mono_r; lia). lia.
Qed.

Lemma blit_exact p buf W H rc bw src :
  wf_rect rc -> bw < 65536 -> nlen buf < 2 ^ 62 ->
  W * H = nlen buf ->
  r_left rc <= r_right rc -> r_right rc < W -> r_top rc <= r_bottom rc -> r_bottom rc < H ->
  (r_bottom rc - r_top rc) * bw + row_count rc <= nlen src ->
  exists buf',
    fast_bitmap_transfer p buf W rc bw (Ok src) = (BOk, buf') /\
    length buf' = length buf /\
    forall x y, x < W -> y < H -> pix buf' (y * W + x) = ref_pixel buf src W rc bw x y.
Proof.
  intros Hwf Hbw Hlen HWH Hlr HrW Htb HbH Hsrc.
  destruct (fast_bitmap_transfer p buf W rc bw (Ok src)) as [res buf'] eqn:Heq.
  apply fbt_spec in Heq; try assumption; [|reflexivity].
  destruct Heq as [(Hinv & _)|[(_ & e & Hd & _)|(_ & src0 & Hd & HL & k & Hres & _ & Hpix)]].
  - exfalso. unfold inverted in Hinv. apply orb_prop in Hinv.
    destruct Hinv as [Hi|Hi]; apply N.ltb_lt in Hi; lia.
  - discriminate.
  - injection Hd as <-.
    assert (Hn : N.of_nat (nrows rc) = r_bottom rc - r_top rc + 1) by (unfold nrows; apply N2Nat.id).
    destruct Hres as [[-> ->]|(_ & Hk & Hnf)].
    + exists buf'. split; [reflexivity|]. split; [exact HL|].
      intros x y HxW HyH. rewrite Hpix. rewrite painted_inside by assumption.
      unfold ref_pixel, in_rect, pix. rewrite Hn.
      destruct (N.leb_spec (0 + r_top rc) y), (N.ltb_spec y (0 + r_top rc + (r_bottom rc - r_top rc + 1))),
        (N.leb_spec (r_left rc) x), (N.leb_spec x (r_right rc)),
        (N.leb_spec (r_top rc) y), (N.leb_spec y (r_bottom rc));
        cbn [andb]; try reflexivity; exfalso; lia.
    + exfalso. apply Hnf. eapply inside_fits; eauto. lia.
Qed.

(* the rectangle and the image have the same dimensions *)
Lemma blit_exact_dims_match p buf W H rc bh src :
  wf_rect rc -> row_count rc < 65536 -> nlen buf < 2 ^ 62 -> W * H = nlen buf ->
  r_left rc <= r_right rc -> r_right rc < W -> r_top rc <= r_bottom rc -> r_bottom rc < H ->
  bh = r_bottom rc - r_top rc + 1 -> nlen src = row_count rc * bh ->
  exists buf',
    fast_bitmap_transfer p buf W rc (row_count rc) (Ok src) = (BOk, buf') /\
    length buf' = length buf /\
    forall x y, x < W -> y < H -> pix buf' (y * W + x) = ref_pixel buf src W rc (row_count rc) x y.
Proof.
  intros Hwf Hrc Hlen HWH Hlr HrW Htb HbH -> Hs.
  eapply blit_exact; eauto.
  rewrite Hs. nia.
Qed.

(* What an Err leaves behind, for ANY geometry: exactly the first k rows were copied (k below
   the row count), row k is the first that does not fit one of the buffers. *)
Lemma blit_error_prefix p buf W rc bw src e buf' :
  wf_rect rc -> bw < 65536 -> nlen buf < 2 ^ 62 ->
  fast_bitmap_transfer p buf W rc bw (Ok src) = (BErr e, buf') ->
  e = EInvalidSize /\ length buf' = length buf /\
  exists k : nat,
    (k < nrows rc)%nat /\
    (forall j, j < N.of_nat k -> row_fits W rc bw (nlen src) (nlen buf) j) /\
    (inverted rc = true \/ ~ row_fits W rc bw (nlen src) (nlen buf) (N.of_nat k)) /\
    (forall q, pix buf' q = painted src W rc bw 0 k (pix buf) q).
Proof.
  intros Hwf Hbw Hlen Heq.
  apply fbt_spec in Heq; try assumption; [|reflexivity].
  destruct Heq as [(Hinv & He & ->)|[(_ & e0 & Hd & _)|(_ & src0 & Hd & HL & k & Hres & Hfit & Hpix)]].
  - injection He as <-. split; [reflexivity|]. split; [reflexivity|].
    exists O. split; [unfold nrows; lia|]. split; [intros j Hj; lia|]. split; [left; exact Hinv|].
    intros q. reflexivity.
  - discriminate.
  - injection Hd as <-.
    destruct Hres as [[Hc _]|(He & Hk & Hnf)]; [discriminate|].
    injection He as <-. split; [reflexivity|]. split; [exact HL|].
    exists k. auto.
Qed.

(* the same in window coordinates: only complete earlier rows of the rectangle were painted *)
Lemma blit_error_inside p buf W rc bw src e buf' :
  wf_rect rc -> bw < 65536 -> nlen buf < 2 ^ 62 ->
  r_left rc <= r_right rc -> r_right rc < W ->
  fast_bitmap_transfer p buf W rc bw (Ok src) = (BErr e, buf') ->
  length buf' = length buf /\
  exists k : N,
    k <= r_bottom rc - r_top rc /\
    forall x y, x < W ->
      pix buf' (y * W + x) =
      if in_rect rc x y && (y <? r_top rc + k)
      then nth (N.to_nat ((y - r_top rc) * bw + (x - r_left rc))) src 0
      else pix buf (y * W + x).
Proof.
  intros Hwf Hbw Hlen Hlr HrW Heq.
  apply blit_error_prefix in Heq; try assumption.
  destruct Heq as (_ & HL & k & Hk & _ & _ & Hpix).
  split; [exact HL|]. exists (N.of_nat k). split; [unfold nrows in Hk; lia|].
  intros x y HxW. rewrite Hpix. rewrite painted_inside by assumption.
  unfold in_rect. unfold nrows in Hk.
  destruct (N.leb_spec (0 + r_top rc) y), (N.ltb_spec y (0 + r_top rc + N.of_nat k)),
    (N.leb_spec (r_left rc) x), (N.leb_spec x (r_right rc)),
    (N.leb_spec (r_top rc) y), (N.leb_spec y (r_bottom rc)), (N.ltb_spec y (r_top rc + N.of_nat k));
    cbn [andb]; try reflexivity; exfalso; lia.
Qed.

(* whatever the geometry and the outcome, a buffer cell outside the footprint of every row of the
   rectangle keeps its value *)
Lemma blit_footprint p buf W rc bw dec q :
  wf_rect rc -> bw < 65536 -> nlen buf < 2 ^ 62 -> crashes dec = false ->
  (forall j, j <= r_bottom rc - r_top rc -> in_row W rc j q = false) ->
  pix (snd (fast_bitmap_transfer p buf W rc bw dec)) q = pix buf q.
Proof.
  intros Hwf Hbw Hlen Hdec Hout.
  destruct (fast_bitmap_transfer p buf W rc bw dec) as [res buf'] eqn:Heq. cbn [snd].
  apply fbt_spec in Heq; try assumption.
  destruct Heq as [(_ & _ & ->)|[(_ & e & _ & _ & ->)|(_ & src & _ & _ & k & Hres & _ & Hpix)]];
    [reflexivity|reflexivity|].
  rewrite Hpix. apply painted_outside. intros j Hj. apply Hout.
  assert (k <= nrows rc)%nat by (destruct Hres as [[_ ->]|(_ & Hk & _)]; lia).
  unfold nrows in *. lia.
Qed.

(* ------------------------------------------------------------------ non-vacuity *)

Definition ex_buf : list N := [10; 11; 12; 13; 14; 15; 16; 17; 18; 19; 20; 21].   (* a 4x3 window *)
Definition ex_rect : rect := mkRect 1 1 2 2.
Definition ex_img : list N := [1; 2; 3; 4].

Lemma ex_hyps :
  wf_rect ex_rect /\ nlen ex_buf < 2 ^ 62 /\ 4 * 3 = nlen ex_buf /\
  r_left ex_rect <= r_right ex_rect /\ r_right ex_rect < 4 /\ r_top ex_rect <= r_bottom ex_rect /\ r_bottom ex_rect < 3 /\
  nlen ex_img = row_count ex_rect * (r_bottom ex_rect - r_top ex_rect + 1).
Proof. unfold wf_rect. repeat split; vm_compute; try reflexivity; discriminate. Qed.

Lemma ex_runs :
  forall p, fast_bitmap_transfer p ex_buf 4 ex_rect 2 (Ok ex_img) = (BOk, [10; 11; 12; 13; 14; 1; 2; 17; 18; 3; 4; 21]).
Proof. intros []; vm_compute; reflexivity. Qed.

(* an image one row short: the first row is painted, then the call fails *)
Lemma ex_err :
  forall p, fast_bitmap_transfer p ex_buf 4 ex_rect 2 (Ok [1; 2]) = (BErr EInvalidSize, [10; 11; 12; 13; 14; 1; 2; 17; 18; 19; 20; 21]).
Proof. intros []; vm_compute; reflexivity. Qed.

(* an inverted rectangle and an absurd window width are refused, buffer untouched *)
Lemma ex_refused :
  forall p, fast_bitmap_transfer p ex_buf 4 (mkRect 1 2 2 1) 2 (Ok ex_img) = (BErr EInvalidSize, ex_buf) /\
            fast_bitmap_transfer p ex_buf (2 ^ 63) (mkRect 0 2 0 2) 1 (Ok ex_img) = (BErr EInvalidSize, ex_buf).
Proof. intros []; vm_compute; split; reflexivity. Qed.
