(* Totality of the planar-RLE decoder model (Rle32.v): with out = row start + 4*indexw,
   indexw <= width and the row inside the plane, every segment loop neither panics nor
   spins and keeps the invariant; the guard "segment fits the scan line" is what makes
   indexw <= width hold. *)
From RdpV Require Import Base Buf Rle32 CodecLemmas.

Section Plane.
Variable p : prof.
Variables w h base L : N.
Hypothesis Hw : w < 65536.
Hypothesis Hh : h < 65536.
Hypothesis Hbase : base <= 3.
Hypothesis HL : 4 * (w * h) <= L.

Lemma wh_bound32 : w * h <= 4294836225.
Proof. apply mul_u16; assumption. Qed.

(* ro = offset of the current scan line in the plane *)
Record pinv (ro : N) (s : pst) : Prop := mkPinv {
  pi_len : blen (p_buf s) = L;
  pi_iw : p_iw s <= w;
  pi_out : p_out s = ro + 4 * p_iw s;
  pi_wf : wf_bytes (p_inp s) }.

Definition pshorter (s s' : pst) : Prop := (length (p_inp s') <= length (p_inp s))%nat.

Definition ppost (ro n : N) (s s' : pst) : Prop :=
  pinv ro s' /\ p_iw s' = p_iw s + n /\ pshorter s s'.

Ltac pfin := unfold pshorter in *; cbn [p_inp p_buf p_out p_iw p_color] in *;
             repeat match goal with |- _ /\ _ => split end; auto; try lia.

Lemma sl_set_ok b i v : blen b = L -> i + 4 <= 4 * (w * h) ->
  exists b', sl_set base b i v = Ok b' /\ blen b' = L.
Proof.
  intros Hb Hi. unfold sl_set.
  assert (H : i <? blen b - base = true) by (apply N.ltb_lt; lia).
  rewrite H. eexists. split; [reflexivity|]. rewrite blen_bset_raw. exact Hb.
Qed.

Lemma sl_get_ok b i : blen b = L -> i + 4 <= 4 * (w * h) -> exists v, sl_get base b i = Ok v.
Proof.
  intros Hb Hi. unfold sl_get.
  assert (H : i <? blen b - base = true) by (apply N.ltb_lt; lia).
  rewrite H. eexists. reflexivity.
Qed.

Section Row.
Variable ro : N.
Hypothesis Hro : ro + 4 * w <= 4 * (w * h).

(* one store at out followed by out += 4; indexw += 1 *)
Lemma store_advance s v inp c : pinv ro s -> p_iw s < w -> wf_bytes inp ->
  exists b', sl_set base (p_buf s) (p_out s) v = Ok b' /\
             exists s1, advance p s b' inp c = Ok s1 /\ pinv ro s1 /\ p_iw s1 = p_iw s + 1 /\ p_inp s1 = inp /\ p_color s1 = c.
Proof.
  intros Hi Hx Hwf. pose proof wh_bound32 as Hb.
  destruct Hi as [H1 H2 H3 H4].
  destruct (sl_set_ok (p_buf s) (p_out s) v H1) as (b' & Hs & Hb'); [lia|].
  exists b'. split; [exact Hs|].
  unfold advance. rewrite add64 by lia. cbn [obind]. rewrite add64 by lia. cbn [obind].
  eexists. split; [reflexivity|]. split; [|pfin].
  constructor; pfin.
Qed.

Lemma raw_first_ok : forall n s, pinv ro s -> p_iw s + N.of_nat n <= w ->
  safe (ppost ro (N.of_nat n) s) (raw_first p base n s).
Proof.
  induction n as [|k IH]; intros s Hi Hn.
  - cbn [raw_first safe]. unfold ppost. pfin.
  - cbn [raw_first].
    pose proof (read_u8_wf (p_inp s) (pi_wf ro s Hi)) as Hr.
    destruct (read_u8 (p_inp s)) as [[c r]| | |]; cbn [safe] in *; auto.
    destruct Hr as (Hc & Hr & Hl).
    destruct (store_advance s c r c Hi) as (b' & Hst & s1 & Had & Hi1 & Hx1 & Hin1 & _); [lia|assumption|].
    rewrite Hst. cbn [obind]. rewrite Had. cbn [obind].
    eapply safe_imp; [apply (IH s1 Hi1); lia|].
    intros s2 (Hi2 & Hx2 & Hs2). unfold ppost. pfin. rewrite Hin1 in Hs2. lia.
Qed.

Lemma run_first_ok : forall n s, pinv ro s -> p_iw s + N.of_nat n <= w ->
  safe (ppost ro (N.of_nat n) s) (run_first p base n s).
Proof.
  induction n as [|k IH]; intros s Hi Hn.
  - cbn [run_first safe]. unfold ppost. pfin.
  - cbn [run_first].
    destruct (store_advance s (p_color s) (p_inp s) (p_color s) Hi) as (b' & Hst & s1 & Had & Hi1 & Hx1 & Hin1 & _);
      [lia|apply (pi_wf ro s Hi)|].
    rewrite Hst. cbn [obind]. rewrite Had. cbn [obind].
    eapply safe_imp; [apply (IH s1 Hi1); lia|].
    intros s2 (Hi2 & Hx2 & Hs2). unfold ppost. pfin. rewrite Hin1 in Hs2. lia.
Qed.

Lemma delta_color_ok x : x < 256 -> exists c, delta_color p x = Ok c.
Proof.
  intros Hx. unfold delta_color. destruct (negb _); [|eexists; reflexivity].
  assert (x / 2 <= 127) by (apply N.lt_succ_r; apply N.div_lt_upper_bound; lia).
  rewrite add8 by lia. cbn [obind]. eexists. reflexivity.
Qed.

Variable ll : N.          (* last_line *)
Hypothesis Hll : ll + 4 * w <= 4 * (w * h).

Lemma above_plus_ok s c : pinv ro s -> p_iw s < w -> exists v, above_plus p base ll s c = Ok v.
Proof.
  intros Hi Hx. pose proof wh_bound32 as Hb. unfold above_plus.
  rewrite mul64 by lia. cbn [obind]. rewrite add64 by lia. cbn [obind].
  destruct (sl_get_ok (p_buf s) (ll + p_iw s * 4) (pi_len ro s Hi)) as (v & ->); [lia|].
  cbn [obind]. eexists. reflexivity.
Qed.

Lemma raw_delta_ok : forall n s, pinv ro s -> p_iw s + N.of_nat n <= w ->
  safe (ppost ro (N.of_nat n) s) (raw_delta p base n ll s).
Proof.
  induction n as [|k IH]; intros s Hi Hn.
  - cbn [raw_delta safe]. unfold ppost. pfin.
  - cbn [raw_delta].
    pose proof (read_u8_wf (p_inp s) (pi_wf ro s Hi)) as Hr.
    destruct (read_u8 (p_inp s)) as [[x r]| | |]; cbn [safe] in *; auto.
    destruct Hr as (Hc & Hr & Hl).
    destruct (delta_color_ok x Hc) as (c & ->). cbn [obind].
    destruct (above_plus_ok s c Hi) as (v & ->); [lia|]. cbn [obind].
    destruct (store_advance s v r c Hi) as (b' & Hst & s1 & Had & Hi1 & Hx1 & Hin1 & _); [lia|assumption|].
    rewrite Hst. cbn [obind]. rewrite Had. cbn [obind].
    eapply safe_imp; [apply (IH s1 Hi1); lia|].
    intros s2 (Hi2 & Hx2 & Hs2). unfold ppost. pfin. rewrite Hin1 in Hs2. lia.
Qed.

Lemma run_delta_ok : forall n s, pinv ro s -> p_iw s + N.of_nat n <= w ->
  safe (ppost ro (N.of_nat n) s) (run_delta p base n ll s).
Proof.
  induction n as [|k IH]; intros s Hi Hn.
  - cbn [run_delta safe]. unfold ppost. pfin.
  - cbn [run_delta].
    destruct (above_plus_ok s (p_color s) Hi) as (v & ->); [lia|]. cbn [obind].
    destruct (store_advance s v (p_inp s) (p_color s) Hi) as (b' & Hst & s1 & Had & Hi1 & Hx1 & Hin1 & _);
      [lia|apply (pi_wf ro s Hi)|].
    rewrite Hst. cbn [obind]. rewrite Had. cbn [obind].
    eapply safe_imp; [apply (IH s1 Hi1); lia|].
    intros s2 (Hi2 & Hx2 & Hs2). unfold ppost. pfin. rewrite Hin1 in Hs2. lia.
Qed.

Lemma segment_bound code : fst (segment code) <= 15 /\ snd (segment code) <= 255.
Proof.
  unfold segment.
  pose proof (N.mod_lt code 16). pose proof (N.mod_lt (code / 16) 16).
  pose proof (N.mod_lt (code mod 16 * 16 + (code / 16) mod 16) 256).
  destruct (_ && _); cbn [fst snd]; lia.
Qed.

Lemma line_loop_ok first : forall fuel s, pinv ro s -> (length (p_inp s) < fuel)%nat ->
  safe (fun s' => pinv ro s' /\ pshorter s s') (line_loop p w base fuel first ll s).
Proof.
  induction fuel as [|k IH]; intros s Hi Hf; [lia|].
  cbn [line_loop]. destruct (p_iw s <? w) eqn:Ex; [|cbn [safe]; pfin].
  apply N.ltb_lt in Ex.
  pose proof (read_u8_wf (p_inp s) (pi_wf ro s Hi)) as Hr.
  destruct (read_u8 (p_inp s)) as [[code r]| | |]; cbn [safe] in *; auto.
  destruct Hr as (Hc & Hr & Hl).
  pose proof (segment_bound code) as Hsb.
  destruct (segment code) as [collen replen]. cbn [fst snd] in Hsb. destruct Hsb as [Hcl Hrl].
  rewrite add64 by lia. cbn [obind]. rewrite add64 by lia. cbn [obind].
  destruct (w <? p_iw s + collen + replen) eqn:Eg; [exact I|]. apply N.ltb_ge in Eg.
  set (s0 := mkP r (p_buf s) (p_out s) (p_iw s) (p_color s)).
  assert (Hi0 : pinv ro s0). { destruct Hi. subst s0. constructor; pfin. }
  eapply safe_bind with (Q := ppost ro collen s0).
  { destruct first.
    - pose proof (raw_first_ok (N.to_nat collen) s0 Hi0) as H. rewrite N2Nat.id in H. apply H. subst s0. pfin.
    - pose proof (raw_delta_ok (N.to_nat collen) s0 Hi0) as H. rewrite N2Nat.id in H. apply H. subst s0. pfin. }
  intros s1 (Hi1 & Hx1 & Hs1).
  eapply safe_bind with (Q := ppost ro replen s1).
  { destruct first.
    - pose proof (run_first_ok (N.to_nat replen) s1 Hi1) as H. rewrite N2Nat.id in H. apply H. subst s0. pfin.
    - pose proof (run_delta_ok (N.to_nat replen) s1 Hi1) as H. rewrite N2Nat.id in H. apply H. subst s0. pfin. }
  intros s2 (Hi2 & Hx2 & Hs2).
  eapply safe_imp; [apply (IH s2 Hi2)|].
  - subst s0. pfin.
  - intros s3 (Hi3 & Hs3). subst s0. pfin.
Qed.

End Row.

Lemma rows_ok : forall n indexh ll inp b,
  indexh + N.of_nat n = h -> ll + 4 * w <= 4 * (w * h) -> blen b = L -> wf_bytes inp ->
  safe (fun '(r, b') => blen b' = L /\ wf_bytes r) (rows p w h base n indexh ll inp b).
Proof.
  induction n as [|k IH]; intros indexh ll inp b Hn Hll Hb Hwf.
  - cbn [rows safe]. auto.
  - cbn [rows]. pose proof wh_bound32 as Hwh.
    assert (Hi1 : (indexh + 1) * w <= w * h).
    { rewrite (N.mul_comm w h). apply N.mul_le_mono_r. lia. }
    rewrite mul64 by lia. cbn [obind]. rewrite mul64 by lia. cbn [obind].
    rewrite add64 by lia. cbn [obind]. rewrite mul64 by lia. cbn [obind].
    rewrite mul64 by lia. cbn [obind]. rewrite sub64 by lia. cbn [obind].
    set (ro := w * h * 4 - (indexh + 1) * w * 4).
    assert (Hro : ro + 4 * w <= 4 * (w * h)) by (subst ro; lia).
    eapply safe_bind; [apply (line_loop_ok ro Hro ll Hll (ll =? 0) _ (mkP inp b ro 0 0))|].
    + constructor; cbn [p_inp p_buf p_out p_iw p_color]; auto; lia.
    + cbn [p_inp]. lia.
    + intros s (Hi & Hs).
      apply IH; [lia|exact Hro|apply (pi_len ro s Hi)|apply (pi_wf ro s Hi)].
Qed.

Lemma process_plane_ok inp b : 0 < w -> 0 < h -> blen b = L -> wf_bytes inp ->
  safe (fun '(r, b') => blen b' = L /\ wf_bytes r) (process_plane p w h base inp b).
Proof.
  intros Hw0 Hh0 Hb Hwf. unfold process_plane.
  assert (H4 : 4 <= 4 * (w * h)).
  { assert (1 * 1 <= w * h) by (apply N.mul_le_mono; lia). lia. }
  assert (Hle : base <=? blen b = true) by (apply N.leb_le; lia).
  rewrite Hle.
  apply rows_ok; auto.
  - rewrite N2Nat.id. lia.
  - assert (w * 1 <= w * h) by (apply N.mul_le_mono_l; lia). lia.
Qed.

End Plane.

Theorem rle32_total p w h input out :
  w < 65536 -> h < 65536 -> 4 * (w * h) <= blen out -> wf_bytes input ->
  safe (fun o => blen o = blen out) (rle32 p w h input out).
Proof.
  intros Hw Hh HL Hwf. unfold rle32.
  pose proof (read_u8_wf input Hwf) as Hr.
  destruct (read_u8 input) as [[hdr r]| | |]; cbn [safe] in *; auto.
  destruct Hr as (_ & Hr & _).
  destruct (negb (hdr =? 16)); [exact I|].
  destruct ((w =? 0) || (h =? 0)) eqn:E0; [reflexivity|].
  apply orb_false_iff in E0. destruct E0 as [E1 E2]. apply N.eqb_neq in E1, E2.
  assert (Hw0 : 0 < w) by lia. assert (Hh0 : 0 < h) by lia.
  pose proof (process_plane_ok p w h 3 (blen out) Hw Hh ltac:(lia) HL r out Hw0 Hh0 eq_refl Hr) as H3.
  destruct (process_plane p w h 3 r out) as [[r3 o3]| | |]; cbn [safe] in *; auto. destruct H3 as [Hb3 Hr3].
  pose proof (process_plane_ok p w h 2 (blen out) Hw Hh ltac:(lia) HL r3 o3 Hw0 Hh0 Hb3 Hr3) as H2.
  destruct (process_plane p w h 2 r3 o3) as [[r2 o2]| | |]; cbn [safe] in *; auto. destruct H2 as [Hb2 Hr2].
  pose proof (process_plane_ok p w h 1 (blen out) Hw Hh ltac:(lia) HL r2 o2 Hw0 Hh0 Hb2 Hr2) as H1.
  destruct (process_plane p w h 1 r2 o2) as [[r1 o1]| | |]; cbn [safe] in *; auto. destruct H1 as [Hb1 Hr1].
  pose proof (process_plane_ok p w h 0 (blen out) Hw Hh ltac:(lia) HL r1 o1 Hw0 Hh0 Hb1 Hr1) as H0.
  destruct (process_plane p w h 0 r1 o1) as [[r0 o0]| | |]; cbn [safe] in *; auto. destruct H0 as [Hb0 _].
  exact Hb0.
Qed.
