(* Induction principle for the nested inductive [msg]. *)
From RdpV Require Import Base Msg.
Open Scope list_scope.

Section MsgInd.
Variable P : msg -> Prop.
Hypothesis HU8 : forall v, P (MU8 v).
Hypothesis HU16 : forall e v, P (MU16 e v).
Hypothesis HU32 : forall e v, P (MU32 e v).
Hypothesis HBytes : forall b, P (MBytes b).
Hypothesis HTrame : forall l, Forall P l -> P (MTrame l).
Hypothesis HComp : forall fs, Forall (fun nv => P (snd nv)) fs -> P (MComp fs).
Hypothesis HCheck : forall m, P m -> P (MCheck m).
Hypothesis HDyn : forall m c, P m -> P (MDyn m c).
Hypothesis HOptN : P (MOpt None).
Hypothesis HOptS : forall m, P m -> P (MOpt (Some m)).
Hypothesis HArrN : forall l, Forall P l -> P (MArray l None).
Hypothesis HArrS : forall l t, Forall P l -> P t -> P (MArray l (Some t)).

Fixpoint msg_ind' (m : msg) : P m :=
  match m with
  | MU8 v => HU8 v
  | MU16 e v => HU16 e v
  | MU32 e v => HU32 e v
  | MBytes b => HBytes b
  | MTrame l =>
      HTrame l ((fix go (l : list msg) : Forall P l :=
                   match l with [] => Forall_nil _ | x :: tl => Forall_cons x (msg_ind' x) (go tl) end) l)
  | MComp fs =>
      HComp fs ((fix go (fs : list (string * msg)) : Forall (fun nv => P (snd nv)) fs :=
                   match fs with
                   | [] => Forall_nil _
                   | (n, v) :: tl => Forall_cons (n, v) (msg_ind' v) (go tl)
                   end) fs)
  | MCheck m' => HCheck m' (msg_ind' m')
  | MDyn m' c => HDyn m' c (msg_ind' m')
  | MOpt None => HOptN
  | MOpt (Some m') => HOptS m' (msg_ind' m')
  | MArray l None =>
      HArrN l ((fix go (l : list msg) : Forall P l :=
                  match l with [] => Forall_nil _ | x :: tl => Forall_cons x (msg_ind' x) (go tl) end) l)
  | MArray l (Some t) =>
      HArrS l t ((fix go (l : list msg) : Forall P l :=
                    match l with [] => Forall_nil _ | x :: tl => Forall_cons x (msg_ind' x) (go tl) end) l)
            (msg_ind' t)
  end.
End MsgInd.
