(* HMAC (RFC 2104) over a 64-byte-block hash; models crate `hmac` (Hmac::<Md5>::new_varkey,
   which accepts a key of any length) as used by ntlm.rs hmac_md5. *)
From RdpV Require Import Base Md5.

Definition hmac (H : bytes -> bytes) (key msg : bytes) : bytes :=
  let k0 := if 64 <? nlen key then H key else key in
  let k := k0 ++ repeat 0 (64 - length k0) in
  let ipad := map (fun b => N.lxor b 54) k in
  let opad := map (fun b => N.lxor b 92) k in
  H (opad ++ H (ipad ++ msg)).

Definition hmac_md5 (key msg : bytes) : bytes := hmac md5 key msg.
