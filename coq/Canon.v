(* C18, encode-after-decode direction: the DEFINITIONS the statements are about (no proofs here,
   so that the extracted driver still runs when a proof breaks):
     all_bytes      the input is made of octets (the model's byte strings are lists of N);
     canon_*        per PER reader, the decidable condition on the INPUT under which the matching
                    writer reproduces it (C18_inv_per.v proves "iff");
     slack / tight  the bytes the message interpreter's [read] consumes without keeping them,
                    computed from (template, input) (C18_inv_msg.v proves |written| + slack + |rest|
                    = |input| and "written ++ rest = input iff slack = 0");
     tmpl_ok        templates whose arrays start empty (Array::new). *)
From RdpV Require Import Base Msg MsgTheory Per RefPer.
Open Scope string_scope.
Open Scope list_scope.
Open Scope N_scope.

Definition all_bytes (l : bytes) : bool := forallb (fun b => b <? 256) l.


(* ================================================================ PER *)
(* canonical = what write_length / X.691 10.9 produce: one octet below 128, two octets
   10xxxxxx xxxxxxxx only from 128 on *)
Definition canon_length (bs : bytes) : bool :=
  match bs with
  | b :: tl => (b <? 128) || match tl with l :: _ => 128 <=? (b - 128) * 256 + l | [] => false end
  | [] => false
  end.

(* canonical = one-octet length determinant 1, 2 or 4 and the smallest of those size classes
   that holds the value *)
Definition canon_integer (bs : bytes) : bool :=
  match bs with
  | s :: tl =>
      if s =? 1 then true
      else if s =? 2 then match tl with a :: _ => negb (a =? 0) | [] => false end
      else if s =? 4 then match tl with a :: b :: _ => negb ((a =? 0) && (b =? 0)) | _ => false end
      else false
  | [] => false
  end.

(* the reader COMPARES with an expected identifier; when it answers `true` the bytes read are
   the writer's bytes for that identifier iff: one-octet length 5, first octet below 120
   (arc1 <= 2), the four other arcs below 128 (one octet each) -- exactly the writer's domain *)
Definition canon_oid (bs : bytes) : bool :=
  match bs with
  | l :: t :: a2 :: a3 :: a4 :: a5 :: _ =>
      (l =? 5) && (t <? 120) && (a2 <? 128) && (a3 <? 128) && (a4 <? 128) && (a5 <? 128)
  | _ => false
  end.

Definition min_bound : N := 4611686018427387904.    (* 2^62: every caller passes 0, 1 or 4 *)

Definition canon_padding (n : N) (bs : bytes) : bool :=
  (n <=? nlen bs) && forallb (N.eqb 0) (firstn (N.to_nat n) bs).

(* every nibble the string uses is a digit value, the pad nibble of an odd string is zero *)
Fixpoint nibbles_ok (n : nat) (packed : bytes) : bool :=
  match n, packed with
  | O, _ => true
  | S O, b :: _ => (b / 16 <? 10) && (b mod 16 =? 0)
  | S (S n'), b :: tl => (b / 16 <? 10) && (b mod 16 <? 10) && nibbles_ok n' tl
  | _, [] => true
  end.

Definition canon_numeric (m : N) (bs : bytes) : bool :=
  canon_length bs &&
  match ref_dec_length bs with Some (l, r) => nibbles_ok (N.to_nat (l + m)) r | None => false end.


(* ================================================================ the dropped bytes *)
Section SlackLoops.
Variable p : prof.
Variable rd : msg -> bytes -> rres.
Variable sl : msg -> bytes -> N.

Fixpoint slack_trame (l : list msg) (input : bytes) : N :=
  match l with
  | [] => 0
  | x :: tl => match rd x input with
               | ROk _ r _ => sl x input + slack_trame tl r
               | _ => 0
               end
  end.

(* a sized field: what its own read drops inside the sub-cursor, plus what it leaves there *)
Definition slack_field (v : msg) (input : bytes) (size : option N) : N :=
  match size with
  | Some size =>
      match take (N.to_nat size) input with
      | Some (local, _) => match rd v local with ROk _ lft _ => sl v local + nlen lft | _ => 0 end
      | None => 0
      end
  | None => sl v input
  end.

Fixpoint slack_comp (fs : list (string * msg)) (input : bytes) (skip : list string) (dyn : list (string * N)) : N :=
  match fs with
  | [] => 0
  | (name, v) :: tl =>
      if mem name skip then slack_comp tl input skip dyn
      else match read_field rd v input (dyn_lookup name dyn) with
           | ROk v' rest _ =>
               slack_field v input (dyn_lookup name dyn) +
               match options p v' with
               | OPanic => 0
               | OSkip f => slack_comp tl rest (f :: skip) dyn
               | OSize f n => slack_comp tl rest skip ((f, n) :: dyn)
               | ONone => slack_comp tl rest skip dyn
               end
           | _ => 0
           end
  end.
End SlackLoops.

Section SlackArray.
Variable rdt : bytes -> rres.
Variable slt : bytes -> N.
Fixpoint slack_array (fuel : nat) (input : bytes) : N :=
  match fuel with
  | O => 0
  | S fuel' =>
      match rdt input with
      | ROk _ r _ => if Nat.eqb (List.length r) (List.length input) then 0 else slt input + slack_array fuel' r
      | RErr _ r _ => nlen input - nlen r          (* the failing element's read is dropped *)
      | _ => 0
      end
  end.
End SlackArray.

Section Slack.
Variable p : prof.
Fixpoint slack (t : msg) (input : bytes) {struct t} : N :=
  match t with
  | MU8 _ | MU16 _ _ | MU32 _ _ | MBytes _ => 0
  | MTrame l => slack_trame (read p) slack l input
  | MComp fs => slack_comp p (read p) slack fs input [] []
  | MCheck m' => slack m' input
  | MDyn m' _ => slack m' input
  | MOpt None => 0
  | MOpt (Some m') =>
      match read p m' input with
      | ROk _ _ _ => slack m' input
      | RErr _ r _ => nlen input - nlen r          (* the swallowed error's read is dropped *)
      | _ => 0
      end
  | MArray _ None => 0
  | MArray _ (Some tmpl) => slack_array (read p tmpl) (slack tmpl) (S (List.length input)) input
  end.
End Slack.

Definition tight (p : prof) (t : msg) (bs : bytes) : bool := slack p t bs =? 0.

(* templates: arrays start empty (Array::new), everywhere *)
Fixpoint tmpl_ok (t : msg) : bool :=
  match t with
  | MTrame l => (fix go (l : list msg) : bool := match l with [] => true | x :: tl => tmpl_ok x && go tl end) l
  | MComp fs => (fix go (fs : list (string * msg)) : bool :=
                   match fs with [] => true | (_, v) :: tl => tmpl_ok v && go tl end) fs
  | MCheck m' => tmpl_ok m'
  | MDyn m' _ => tmpl_ok m'
  | MOpt (Some m') => tmpl_ok m'
  | MArray elems (Some tmpl) => is_nil elems && tmpl_ok tmpl
  | _ => true
  end.

