(* C18, encode-after-decode direction: facts shared by the PER / DER / message-interpreter
   developments.  [all_bytes] is the one hypothesis every statement of that direction
   carries: the model's byte strings are lists of N, a real input only holds octets. *)
From RdpV Require Import Base.
From RdpV Require Export Canon.
Open Scope list_scope.
Open Scope N_scope.

Lemma all_bytes_cons b l : all_bytes (b :: l) = true <-> b < 256 /\ all_bytes l = true.
Proof. unfold all_bytes. cbn [forallb]. rewrite andb_true_iff, N.ltb_lt. tauto. Qed.

Lemma all_bytes_app a b : all_bytes (a ++ b) = true <-> all_bytes a = true /\ all_bytes b = true.
Proof. unfold all_bytes. rewrite forallb_app, andb_true_iff. tauto. Qed.

Lemma all_bytes_firstn n l : all_bytes l = true -> all_bytes (firstn n l) = true.
Proof.
  revert l. induction n as [|n IH]; intros [|x l] H; cbn [firstn]; try reflexivity.
  apply all_bytes_cons in H. destruct H as [Hx Hl]. apply all_bytes_cons. split; [exact Hx|apply IH, Hl].
Qed.

Lemma all_bytes_skipn n l : all_bytes l = true -> all_bytes (skipn n l) = true.
Proof.
  revert l. induction n as [|n IH]; intros [|x l] H; cbn [skipn]; try reflexivity; try exact H.
  apply all_bytes_cons in H. apply IH, H.
Qed.

Lemma all_bytes_wf l : all_bytes l = true <-> wf_bytes l.
Proof.
  unfold wf_bytes. induction l as [|x l IH].
  - split; [constructor|reflexivity].
  - rewrite all_bytes_cons, IH. split.
    + intros [Hx Hl]. constructor; assumption.
    + intros H. inversion H; subst. split; assumption.
Qed.

Lemma firstn_skipn_nlen {A} (n : N) (l : list A) : n <= nlen l ->
  nlen (firstn (N.to_nat n) l) = n /\ nlen (skipn (N.to_nat n) l) = nlen l - n.
Proof.
  unfold nlen. intros H. rewrite firstn_length, skipn_length. lia.
Qed.

(* a list is determined by a prefix length when both sides are prefixes of the same list *)
Lemma app_inv_length {A} (a a' b b' : list A) :
  a ++ b = a' ++ b' -> List.length a = List.length a' -> a = a' /\ b = b'.
Proof.
  revert a'. induction a as [|x a IH]; intros [|y a'] H Hl; cbn [List.length] in Hl; try discriminate.
  - split; [reflexivity|exact H].
  - cbn [app] in H. injection H as -> H. destruct (IH a' H ltac:(lia)) as [-> ->]. split; reflexivity.
Qed.

(* two byte lists with different lengths differ *)
Lemma nlen_neq {A} (a b : list A) : nlen a <> nlen b -> a <> b.
Proof. intros H E. apply H. rewrite E. reflexivity. Qed.
