(* Validation of the executable crypto models against published vectors (RFC 1320, RFC 1321,
   RFC 2202, classic RC4 vectors) and the unit-test vectors of /repo (src/nla/ntlm.rs tests
   test_md4, test_hmacmd5, test_rc4k, test_rc4, test_sign_key, test_seal_key). *)
From Coq Require Import String Ascii.
From RdpV Require Import Base Rc4 Md5 Md4 Hmac.

Definition str (s : string) : bytes := map N_of_ascii (list_ascii_of_string s).

(* ---------------- RC4 ---------------- *)
Example rc4_repo_test_rc4k : rc4k (str "foo") (str "bar") = Ok [201; 67; 159].
Proof. vm_compute. reflexivity. Qed.

Example rc4_repo_test_rc4_second :
  match rc4_new (str "foo") with
  | Ok h => let (c1, h1) := rc4_process h (str "bar") in
            let (c2, _) := rc4_process h1 (str "bar") in (c1, c2)
  | _ => ([], [])
  end = ([201; 67; 159], [75; 169; 19]).
Proof. vm_compute. reflexivity. Qed.

Example rc4_vector_key_plaintext :
  rc4k (str "Key") (str "Plaintext") = Ok [187; 243; 22; 232; 217; 64; 175; 10; 211].
Proof. vm_compute. reflexivity. Qed.

Example rc4_vector_wiki_pedia :
  rc4k (str "Wiki") (str "pedia") = Ok [16; 33; 191; 4; 32].
Proof. vm_compute. reflexivity. Qed.

Example rc4_vector_secret :
  rc4k (str "Secret") (str "Attack at dawn")
  = Ok [69; 160; 31; 100; 95; 195; 91; 56; 53; 82; 84; 75; 155; 245].
Proof. vm_compute. reflexivity. Qed.

Example rc4_new_empty_key_panics : rc4_new [] = Panic.
Proof. reflexivity. Qed.
Example rc4_new_257_key_panics : rc4_new (repeat 1 257) = Panic.
Proof. vm_compute. reflexivity. Qed.
Example rc4_new_256_key_ok : is_ok (rc4_new (repeat 1 256)) = true.
Proof. vm_compute. reflexivity. Qed.

(* ---------------- MD5, RFC 1321 A.5 ---------------- *)
Example md5_empty : md5 [] = [212; 29; 140; 217; 143; 0; 178; 4; 233; 128; 9; 152; 236; 248; 66; 126].
Proof. vm_compute. reflexivity. Qed.
Example md5_a : md5 (str "a") = [12; 193; 117; 185; 192; 241; 182; 168; 49; 195; 153; 226; 105; 119; 38; 97].
Proof. vm_compute. reflexivity. Qed.
Example md5_abc : md5 (str "abc") = [144; 1; 80; 152; 60; 210; 79; 176; 214; 150; 63; 125; 40; 225; 127; 114].
Proof. vm_compute. reflexivity. Qed.
Example md5_message_digest :
  md5 (str "message digest") = [249; 107; 105; 125; 124; 183; 147; 141; 82; 90; 47; 49; 170; 241; 97; 208].
Proof. vm_compute. reflexivity. Qed.
Example md5_alphabet :
  md5 (str "abcdefghijklmnopqrstuvwxyz") = [195; 252; 211; 215; 97; 146; 228; 0; 125; 251; 73; 108; 202; 103; 225; 59].
Proof. vm_compute. reflexivity. Qed.
Example md5_alnum :
  md5 (str "ABCDEFGHIJKLMNOPQRSTUVWXYZabcdefghijklmnopqrstuvwxyz0123456789")
  = [209; 116; 171; 152; 210; 119; 217; 245; 165; 97; 28; 44; 159; 65; 157; 159].
Proof. vm_compute. reflexivity. Qed.
Example md5_digits80 :
  md5 (str "12345678901234567890123456789012345678901234567890123456789012345678901234567890")
  = [87; 237; 244; 162; 43; 227; 201; 85; 172; 73; 218; 46; 33; 7; 182; 122].
Proof. vm_compute. reflexivity. Qed.

(* ---------------- MD4, RFC 1320 A.5 + repo test_md4 ---------------- *)
Example md4_empty : md4 [] = [49; 214; 207; 224; 209; 106; 233; 49; 183; 60; 89; 215; 224; 192; 137; 192].
Proof. vm_compute. reflexivity. Qed.
Example md4_a : md4 (str "a") = [189; 229; 44; 179; 29; 227; 62; 70; 36; 94; 5; 251; 219; 214; 251; 36].
Proof. vm_compute. reflexivity. Qed.
Example md4_abc : md4 (str "abc") = [164; 72; 1; 122; 175; 33; 216; 82; 95; 193; 10; 232; 122; 166; 114; 157].
Proof. vm_compute. reflexivity. Qed.
Example md4_message_digest :
  md4 (str "message digest") = [217; 19; 10; 129; 100; 84; 159; 232; 24; 135; 72; 6; 225; 199; 1; 75].
Proof. vm_compute. reflexivity. Qed.
Example md4_alphabet :
  md4 (str "abcdefghijklmnopqrstuvwxyz") = [215; 158; 28; 48; 138; 165; 187; 205; 238; 168; 237; 99; 223; 65; 45; 169].
Proof. vm_compute. reflexivity. Qed.
Example md4_alnum :
  md4 (str "ABCDEFGHIJKLMNOPQRSTUVWXYZabcdefghijklmnopqrstuvwxyz0123456789") = [4; 63; 133; 130; 242; 65; 219; 53; 28; 230; 39; 225; 83; 231; 240; 228].
Proof. vm_compute. reflexivity. Qed.
Example md4_digits80 :
  md4 (str "12345678901234567890123456789012345678901234567890123456789012345678901234567890")
  = [227; 59; 77; 220; 156; 56; 242; 25; 156; 62; 123; 22; 79; 204; 5; 54].
Proof. vm_compute. reflexivity. Qed.
Example md4_repo_test_md4 :
  md4 (str "foo") = [10; 198; 112; 12; 73; 29; 112; 251; 134; 80; 148; 11; 28; 161; 228; 178].
Proof. vm_compute. reflexivity. Qed.

(* ---------------- HMAC-MD5, RFC 2202 + repo test_hmacmd5 ---------------- *)
Example hmac_md5_rfc2202_1 :
  hmac_md5 (repeat 11 16) (str "Hi There")
  = [146; 148; 114; 122; 54; 56; 187; 28; 19; 244; 142; 248; 21; 139; 252; 157].
Proof. vm_compute. reflexivity. Qed.
Example hmac_md5_rfc2202_2 :
  hmac_md5 (str "Jefe") (str "what do ya want for nothing?")
  = [117; 12; 120; 62; 106; 176; 181; 3; 234; 168; 110; 49; 10; 93; 183; 56].
Proof. vm_compute. reflexivity. Qed.
Example hmac_md5_rfc2202_3 :
  hmac_md5 (repeat 170 16) (repeat 221 50)
  = [86; 190; 52; 82; 29; 20; 76; 136; 219; 184; 199; 51; 240; 232; 179; 246].
Proof. vm_compute. reflexivity. Qed.
(* key longer than the block: hashed first *)
Example hmac_md5_rfc2202_4 :
  hmac_md5 (map N.of_nat (seq 1 25)) (repeat 205 50) = [105; 126; 175; 10; 202; 58; 58; 234; 58; 117; 22; 71; 70; 255; 170; 121].
Proof. vm_compute. reflexivity. Qed.
Example hmac_md5_rfc2202_6 :
  hmac_md5 (repeat 170 80) (str "Test Using Larger Than Block-Size Key - Hash Key First")
  = [107; 26; 183; 254; 75; 215; 191; 143; 11; 98; 230; 206; 97; 185; 208; 205].
Proof. vm_compute. reflexivity. Qed.
Example hmac_md5_rfc2202_7 :
  hmac_md5 (repeat 170 80) (str "Test Using Larger Than Block-Size Key and Larger Than One Block-Size Data")
  = [111; 99; 15; 173; 103; 205; 160; 238; 31; 177; 245; 98; 219; 58; 165; 62].
Proof. vm_compute. reflexivity. Qed.
(* key of exactly 64 and 65 bytes (boundary of the "hash the key first" rule) *)
Example hmac_md5_key64 : hmac_md5 (repeat 7 64) (str "x") = [243; 102; 78; 247; 90; 244; 123; 20; 28; 147; 125; 79; 41; 136; 88; 2].
Proof. vm_compute. reflexivity. Qed.
Example hmac_md5_key65 : hmac_md5 (repeat 7 65) (str "x") = [87; 42; 244; 35; 81; 73; 135; 200; 40; 3; 21; 230; 84; 137; 123; 111].
Proof. vm_compute. reflexivity. Qed.
Example hmac_md5_repo_test :
  hmac_md5 (str "foo") (str "bar")
  = [12; 122; 37; 2; 129; 49; 90; 184; 99; 84; 159; 102; 205; 138; 58; 83].
Proof. vm_compute. reflexivity. Qed.

(* MD5 at the padding boundaries (values from python hashlib) *)
Example md5_len55 : md5 (repeat 97 55) = [239; 23; 114; 182; 223; 249; 161; 34; 53; 133; 82; 149; 74; 208; 223; 101].
Proof. vm_compute. reflexivity. Qed.
Example md5_len56 : md5 (repeat 97 56) = [59; 12; 138; 199; 3; 248; 40; 176; 76; 108; 25; 112; 6; 209; 114; 24].
Proof. vm_compute. reflexivity. Qed.
Example md5_len57 : md5 (repeat 97 57) = [101; 43; 144; 109; 96; 175; 150; 132; 78; 189; 33; 182; 116; 243; 94; 147].
Proof. vm_compute. reflexivity. Qed.
Example md5_len63 : md5 (repeat 97 63) = [176; 101; 33; 243; 145; 83; 214; 24; 85; 6; 6; 190; 41; 116; 102; 213].
Proof. vm_compute. reflexivity. Qed.
Example md5_len64 : md5 (repeat 97 64) = [1; 72; 66; 212; 128; 181; 113; 73; 90; 74; 3; 99; 121; 63; 115; 103].
Proof. vm_compute. reflexivity. Qed.
Example md5_len65 : md5 (repeat 97 65) = [199; 67; 164; 94; 13; 46; 106; 149; 203; 133; 154; 218; 224; 36; 132; 53].
Proof. vm_compute. reflexivity. Qed.
Example md5_len119 : md5 (repeat 97 119) = [138; 123; 208; 115; 46; 214; 162; 140; 231; 95; 109; 171; 201; 14; 22; 19].
Proof. vm_compute. reflexivity. Qed.
Example md5_len120 : md5 (repeat 97 120) = [95; 97; 192; 204; 173; 76; 172; 68; 199; 95; 245; 5; 225; 241; 229; 55].
Proof. vm_compute. reflexivity. Qed.
Example md5_len128 : md5 (repeat 97 128) = [229; 16; 104; 59; 63; 95; 254; 64; 147; 208; 33; 128; 139; 198; 255; 112].
Proof. vm_compute. reflexivity. Qed.
